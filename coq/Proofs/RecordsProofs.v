(* Proofs/RecordsProofs.v — C08: the record reader keyed by (time value, file offset) prints
   the stable sort by time of the non-null in-window records, each once; the reader keyed by
   the time value alone (the code before the fix) does not. *)
From Coq Require Import List NArith ZArith Bool Lia Sorted Permutation.
Import ListNotations.
From S4.Spec Require Import RecordsSpec.
From S4.Model Require Import Records.
From S4.Proofs Require Import StableSort KeyedMap.
Open Scope N_scope.

(* ------------------------------------------------------------------ the filter *)
Lemma tv_pass_keep lo hi fo t : tv_pass lo hi t = rec_keep lo hi (mkrec fo t).
Proof.
  unfold tv_pass, rec_keep, is_null, in_window. simpl.
  destruct (tv_eqb t (0, 0)%Z); simpl; [reflexivity|].
  destruct lo as [a|], hi as [b|]; simpl;
    try rewrite (tv_cmp_antisym t a); unfold cmp_leb;
    try destruct (tv_cmp t a); simpl; try destruct (tv_cmp t b); reflexivity.
Qed.

(* inclusive bounds, stated with propositions *)
Definition tv_le (a b : tv) : Prop := tv_cmp a b <> Gt.

Lemma rec_keep_inclusive lo hi r :
  rec_keep lo hi r = true <->
  r_tv r <> (0, 0)%Z /\
  (forall a, lo = Some a -> tv_le a (r_tv r)) /\
  (forall b, hi = Some b -> tv_le (r_tv r) b).
Proof.
  unfold rec_keep, is_null, in_window, tv_le, tv_eqb.
  rewrite !andb_true_iff, negb_true_iff.
  assert (Hn : (match tv_cmp (r_tv r) (0, 0)%Z with Eq => true | _ => false end) = false
               <-> r_tv r <> (0, 0)%Z).
  { destruct (tv_cmp (r_tv r) (0, 0)%Z) eqn:E.
    - apply tv_cmp_eq in E. split; [discriminate|congruence].
    - split; [intros _ G; apply tv_cmp_eq in G; congruence|reflexivity].
    - split; [intros _ G; apply tv_cmp_eq in G; congruence|reflexivity]. }
  rewrite Hn. clear Hn.
  assert (Hc : forall c, cmp_leb c = true <-> c <> Gt) by (intros []; simpl; split; congruence).
  split.
  - intros [H0 [H1 H2]]. split; [exact H0|]. split.
    + intros a ->. apply Hc. exact H1.
    + intros b ->. apply Hc. exact H2.
  - intros [H0 [H1 H2]]. split; [exact H0|]. split.
    + destruct lo as [a|]; [apply Hc; apply H1; reflexivity|reflexivity].
    + destruct hi as [b|]; [apply Hc; apply H2; reflexivity|reflexivity].
Qed.

Lemma filter_len_le {A} (f : A -> bool) l : (length (filter f l) <= length l)%nat.
Proof. induction l as [|x r IH]; simpl; [lia|]. destruct (f x); simpl; lia. Qed.

(* ------------------------------------------------------------------ index_recs *)
Lemma index_recs_bound sz fo tvs r :
  In r (index_recs sz fo tvs) ->
  fo <= r_fo r /\ r_fo r + sz <= fo + sz * N.of_nat (length tvs).
Proof.
  revert fo; induction tvs as [|t tl IH]; intros fo H; simpl in H; [contradiction|].
  destruct H as [<-|H].
  - simpl r_fo. cbn [length]. rewrite Nat2N.inj_succ. lia.
  - apply IH in H. cbn [length]. rewrite Nat2N.inj_succ. lia.
Qed.

Lemma index_recs_length sz fo tvs : length (index_recs sz fo tvs) = length tvs.
Proof. revert fo; induction tvs as [|t tl IH]; intro fo; simpl; [reflexivity|rewrite IH; reflexivity]. Qed.

Lemma index_recs_nodup sz fo tvs : 0 < sz -> NoDup (map r_fo (index_recs sz fo tvs)).
Proof.
  intro Hsz. revert fo; induction tvs as [|t tl IH]; intro fo; simpl; constructor.
  - intro H. apply in_map_iff in H as [r [E Hr]]. apply index_recs_bound in Hr. lia.
  - apply IH.
Qed.

(* ------------------------------------------------------------------ K2 = (tv, fo) *)
Definition key2 (r : rec) : K2 := (r_tv r, r_fo r).
Definition deco2 (r : rec) : K2 * N := deco key2 r_fo r.
Definition ins_rec (acc : list rec) (x : rec) : list rec := insert_after rec_tle x acc.

Lemma k2_insert_agrees x l :
  Forall (fun y => r_fo y < r_fo x) l ->
  minsert k2_cmp (key2 x) (r_fo x) (map deco2 l) = map deco2 (insert_after rec_tle x l).
Proof.
  intro H. apply (minsert_insert_after rec K2 N k2_cmp key2 r_fo rec_tle).
  intros y Hy. rewrite Forall_forall in H. specialize (H y Hy).
  unfold k2_cmp, pair_cmp, key2, rec_tle, tv_leb. simpl.
  rewrite (tv_cmp_antisym (r_tv x) (r_tv y)).
  destruct (tv_cmp (r_tv x) (r_tv y)); simpl; try reflexivity.
  apply N.compare_gt_iff. exact H.
Qed.

Lemma scan_k2_spec lo hi sz fo tvs acc :
  0 < sz -> Forall (fun y => r_fo y < fo) acc ->
  scan k2_cmp k2_mk lo hi sz fo tvs (map deco2 acc)
  = map deco2 (fold_left ins_rec (filter (rec_keep lo hi) (index_recs sz fo tvs)) acc).
Proof.
  intro Hsz. revert fo acc. induction tvs as [|t tl IH]; intros fo acc Hacc; simpl.
  - reflexivity.
  - rewrite (tv_pass_keep lo hi fo t).
    destruct (rec_keep lo hi (mkrec fo t)) eqn:Ek.
    + cbn [fold_left]. unfold ins_rec at 2.
      change (k2_mk t fo) with (key2 (mkrec fo t)).
      change fo with (r_fo (mkrec fo t)) at 2.
      rewrite k2_insert_agrees by exact Hacc.
      apply IH. apply Forall_forall. intros y Hy.
      apply (insert_after_in rec rec_tle) in Hy as [->|Hy].
      * simpl. lia.
      * rewrite Forall_forall in Hacc. specialize (Hacc y Hy). lia.
    + apply IH. eapply Forall_impl; [|exact Hacc]. simpl. intros; lia.
Qed.

Lemma scan_ksorted {K} (kcmp : K -> K -> comparison) mk lo hi sz fo tvs m :
  (forall a b, kcmp a b = Gt -> kcmp b a = Lt) ->
  (forall a b c, kcmp a b = Lt -> kcmp b c = Lt -> kcmp a c = Lt) ->
  ksorted kcmp m -> ksorted kcmp (scan kcmp mk lo hi sz fo tvs m).
Proof.
  intros H1 H2. revert fo m. induction tvs as [|t tl IH]; intros fo m Hm; simpl; [exact Hm|].
  apply IH. destruct (tv_pass lo hi t); [|exact Hm].
  apply minsert_ksorted; assumption.
Qed.

Lemma rec_tle_total a b : rec_tle a b = true \/ rec_tle b a = true.
Proof. apply tv_leb_total. Qed.
Lemma rec_tle_trans a b c : rec_tle a b = true -> rec_tle b c = true -> rec_tle a c = true.
Proof. apply tv_leb_trans. Qed.

(* the main theorem of C08, repaired algorithm: for every entry size > 0, every window and
   every list of time values (any order, duplicates, nulls interleaved) the walk ends with
   fuel = number of map entries and sends exactly the spec's records, in the spec's order *)
Theorem records_out_K2_correct lo hi sz tvs :
  0 < sz ->
  records_out_K2 lo hi sz tvs
  = WDone (map r_fo (spec_records lo hi (index_recs sz 0 tvs))).
Proof.
  intro Hsz. unfold records_out_K2, records_out.
  pose proof (scan_k2_spec lo hi sz 0 tvs [] Hsz (Forall_nil _)) as Hm. simpl map in Hm at 1.
  set (m := scan k2_cmp k2_mk lo hi sz 0 tvs []) in *.
  assert (Hs : ksorted k2_cmp m).
  { apply scan_ksorted; [exact k2_gt_lt|exact k2_lt_trans|constructor]. }
  assert (Hspec : fold_left ins_rec (filter (rec_keep lo hi) (index_recs sz 0 tvs)) []
                  = spec_records lo hi (index_recs sz 0 tvs)) by reflexivity.
  rewrite Hspec in Hm.
  assert (Hv : Forall (fun e => snd e < sz * N.of_nat (length tvs)) m).
  { rewrite Hm. apply Forall_forall. intros e He. apply in_map_iff in He as [r [<- Hr]].
    simpl. unfold spec_records, stable_sort_by_time in Hr.
    apply (proj1 (stable_sort_in rec rec_tle _ _)) in Hr. apply filter_In in Hr as [Hr _].
    apply index_recs_bound in Hr. lia. }
  rewrite (walk_sorted_map K2 k2_cmp k2_refl _ m Hs Hv).
  rewrite Hm, map_map. reflexivity.
Qed.

(* fuel = number of map entries = number of records printed <= number of entries of the file *)
Theorem records_map_size lo hi sz tvs :
  0 < sz ->
  length (scan k2_cmp k2_mk lo hi sz 0 tvs [])
  = length (filter (rec_keep lo hi) (index_recs sz 0 tvs))
  /\ (length (scan k2_cmp k2_mk lo hi sz 0 tvs []) <= length tvs)%nat.
Proof.
  intro Hsz.
  pose proof (scan_k2_spec lo hi sz 0 tvs [] Hsz (Forall_nil _)) as Hm. simpl map in Hm at 1.
  rewrite Hm, map_length.
  change (fold_left ins_rec (filter (rec_keep lo hi) (index_recs sz 0 tvs)) [])
    with (stable_sort rec_tle (filter (rec_keep lo hi) (index_recs sz 0 tvs))).
  rewrite (stable_sort_length rec rec_tle).
  split; [reflexivity|].
  rewrite <- (index_recs_length sz 0 tvs). apply filter_len_le.
Qed.

(* invalid entries: dropped when they would be sent = absent from the file as far as the output
   is concerned *)
Lemma filter_map_comm {A B} (f : B -> bool) (g : A -> B) l :
  filter f (map g l) = map g (filter (fun x => f (g x)) l).
Proof. induction l as [|x r IH]; simpl; [reflexivity|]. destruct (f (g x)); simpl; rewrite IH; reflexivity. Qed.

Theorem records_sent_K2_correct bad lo hi sz tvs :
  0 < sz ->
  records_sent bad (records_out_K2 lo hi sz tvs)
  = WDone (map r_fo (stable_sort_by_time
                       (filter (fun r => negb (bad (r_fo r)))
                               (filter (rec_keep lo hi) (index_recs sz 0 tvs))))).
Proof.
  intro Hsz. rewrite (records_out_K2_correct lo hi sz tvs Hsz). unfold records_sent.
  rewrite filter_map_comm. unfold spec_records, stable_sort_by_time.
  rewrite (stable_sort_filter rec rec_tle rec_tle_total rec_tle_trans). reflexivity.
Qed.

(* ------------------------------------------------------------------ what the spec means *)
Theorem spec_records_perm lo hi recs :
  Permutation (spec_records lo hi recs) (filter (rec_keep lo hi) recs).
Proof. apply (stable_sort_perm rec rec_tle). Qed.

Theorem spec_records_sorted lo hi recs :
  StronglySorted (fun a b => rec_tle a b = true) (spec_records lo hi recs).
Proof. apply (stable_sort_sorted rec rec_tle rec_tle_total rec_tle_trans). Qed.

Lemma same_is_tv_eqb z x : same rec rec_tle z x = tv_eqb (r_tv z) (r_tv x).
Proof.
  unfold same, rec_tle, tv_leb, tv_eqb. rewrite (tv_cmp_antisym (r_tv z) (r_tv x)).
  destruct (tv_cmp (r_tv z) (r_tv x)); reflexivity.
Qed.

(* stability: the records of any one time value appear in file order *)
Theorem spec_records_stable lo hi recs t :
  filter (fun r => tv_eqb t (r_tv r)) (spec_records lo hi recs)
  = filter (fun r => tv_eqb t (r_tv r)) (filter (rec_keep lo hi) recs).
Proof.
  pose proof (stable_sort_stable rec rec_tle rec_tle_total rec_tle_trans (mkrec 0 t)
                                 (filter (rec_keep lo hi) recs)) as H.
  rewrite !(filter_ext (same rec rec_tle (mkrec 0 t)) (fun r => tv_eqb t (r_tv r))) in H
    by (intro x; apply same_is_tv_eqb).
  exact H.
Qed.

(* each record once: the printed offsets are pairwise different *)
Theorem records_out_nodup lo hi sz tvs :
  0 < sz -> NoDup (map r_fo (spec_records lo hi (index_recs sz 0 tvs))).
Proof.
  intro Hsz.
  apply (Permutation_NoDup (l := map r_fo (filter (rec_keep lo hi) (index_recs sz 0 tvs)))).
  - apply Permutation_map. apply Permutation_sym. apply spec_records_perm.
  - pose proof (index_recs_nodup sz 0 tvs Hsz) as H.
    induction (index_recs sz 0 tvs) as [|r l IH]; simpl; [constructor|].
    inversion H as [|? ? Hn Hl]; subst.
    destruct (rec_keep lo hi r); simpl; [|apply IH; exact Hl].
    constructor; [|apply IH; exact Hl].
    intro G. apply Hn. apply in_map_iff in G as [r' [E G]]. apply filter_In in G as [G _].
    apply in_map_iff. exists r'. split; assumption.
Qed.

(* ------------------------------------------------------------------ K1 = tv: refuted *)
Definition f1_tvs : list tv := [(1700000000, 0); (1700000000, 0); (1700000005, 0); (1700000005, 0)]%Z.

Lemma records_out_K1_witness :
  records_out_K1 None None 292 f1_tvs = WDone [292; 876]
  /\ map r_fo (spec_records None None (index_recs 292 0 f1_tvs)) = [0; 292; 584; 876].
Proof. split; vm_compute; reflexivity. Qed.

Theorem records_out_K1_refuted :
  exists lo hi sz tvs, 0 < sz /\
    records_out_K1 lo hi sz tvs <> WDone (map r_fo (spec_records lo hi (index_recs sz 0 tvs))).
Proof.
  exists None, None, 292, f1_tvs. split; [reflexivity|].
  destruct records_out_K1_witness as [H1 H2]. rewrite H1, H2. discriminate.
Qed.

(* K1 under the negated class hypothesis: pairwise different time values among the kept
   records — then the old code agrees with the spec as well *)
Definition key1 (r : rec) : K1 := r_tv r.
Definition deco1 (r : rec) : K1 * N := deco key1 r_fo r.

Lemma k1_insert_agrees x l :
  Forall (fun y => r_tv y <> r_tv x) l ->
  minsert k1_cmp (key1 x) (r_fo x) (map deco1 l) = map deco1 (insert_after rec_tle x l).
Proof.
  intro H. apply (minsert_insert_after rec K1 N k1_cmp key1 r_fo rec_tle).
  intros y Hy. rewrite Forall_forall in H. specialize (H y Hy).
  unfold k1_cmp, key1, rec_tle, tv_leb.
  rewrite (tv_cmp_antisym (r_tv x) (r_tv y)).
  destruct (tv_cmp (r_tv x) (r_tv y)) eqn:E; simpl; try reflexivity.
  apply tv_cmp_eq in E. congruence.
Qed.

Lemma scan_k1_spec lo hi sz fo tvs acc :
  NoDup (map r_tv (acc ++ filter (rec_keep lo hi) (index_recs sz fo tvs))) ->
  scan k1_cmp k1_mk lo hi sz fo tvs (map deco1 acc)
  = map deco1 (fold_left ins_rec (filter (rec_keep lo hi) (index_recs sz fo tvs)) acc).
Proof.
  revert fo acc. induction tvs as [|t tl IH]; intros fo acc Hnd; simpl.
  - reflexivity.
  - rewrite (tv_pass_keep lo hi fo t). simpl in Hnd.
    destruct (rec_keep lo hi (mkrec fo t)) eqn:Ek.
    + cbn [fold_left]. unfold ins_rec at 2.
      change (k1_mk t fo) with (key1 (mkrec fo t)).
      change fo with (r_fo (mkrec fo t)) at 2.
      assert (Hperm : Permutation (insert_after rec_tle (mkrec fo t) acc ++
                                   filter (rec_keep lo hi) (index_recs sz (fo + sz) tl))
                                  (acc ++ mkrec fo t :: filter (rec_keep lo hi) (index_recs sz (fo + sz) tl))).
      { eapply Permutation_trans; [apply Permutation_app_tail; apply (insert_after_perm rec rec_tle)|].
        simpl. apply Permutation_middle. }
      rewrite k1_insert_agrees.
      * apply IH. apply (Permutation_NoDup (l := map r_tv (acc ++ mkrec fo t :: filter (rec_keep lo hi) (index_recs sz (fo + sz) tl)))).
        -- apply Permutation_map. apply Permutation_sym. exact Hperm.
        -- exact Hnd.
      * apply Forall_forall. intros y Hy E.
        rewrite map_app in Hnd. simpl in Hnd. apply NoDup_remove_2 in Hnd. apply Hnd.
        apply in_or_app. left. simpl in E. rewrite <- E. apply in_map. exact Hy.
    + apply IH. exact Hnd.
Qed.

Theorem records_out_K1_distinct_times lo hi sz tvs :
  0 < sz ->
  NoDup (map r_tv (filter (rec_keep lo hi) (index_recs sz 0 tvs))) ->
  records_out_K1 lo hi sz tvs
  = WDone (map r_fo (spec_records lo hi (index_recs sz 0 tvs))).
Proof.
  intros Hsz Hnd. unfold records_out_K1, records_out.
  pose proof (scan_k1_spec lo hi sz 0 tvs [] Hnd) as Hm. simpl map in Hm at 1.
  set (m := scan k1_cmp k1_mk lo hi sz 0 tvs []) in *.
  assert (Hs : ksorted k1_cmp m).
  { apply scan_ksorted; [|exact tv_cmp_lt_trans|constructor].
    intros a b H. unfold k1_cmp in *. rewrite (tv_cmp_antisym a b), H. reflexivity. }
  assert (Hspec : fold_left ins_rec (filter (rec_keep lo hi) (index_recs sz 0 tvs)) []
                  = spec_records lo hi (index_recs sz 0 tvs)) by reflexivity.
  rewrite Hspec in Hm.
  assert (Hv : Forall (fun e => snd e < sz * N.of_nat (length tvs)) m).
  { rewrite Hm. apply Forall_forall. intros e He. apply in_map_iff in He as [r [<- Hr]].
    simpl. unfold spec_records, stable_sort_by_time in Hr.
    apply (proj1 (stable_sort_in rec rec_tle _ _)) in Hr. apply filter_In in Hr as [Hr _].
    apply index_recs_bound in Hr. lia. }
  rewrite (walk_sorted_map K1 k1_cmp tv_cmp_refl _ m Hs Hv).
  rewrite Hm, map_map. reflexivity.
Qed.

(* ------------------------------------------------------------------ hypotheses are satisfiable *)
Example records_out_K2_example :
  records_out_K2 (Some (1700000000, 0)%Z) (Some (1700000005, 0)%Z) 292
                 [(1700000005, 0); (0, 0); (1700000000, 0); (1700000005, 0); (1700000009, 0); (1700000000, 0)]%Z
  = WDone [584; 1460; 0; 876].
Proof. vm_compute. reflexivity. Qed.

Example records_out_K1_distinct_example :
  NoDup (map r_tv (filter (rec_keep None None) (index_recs 292 0 [(5, 0); (0, 0); (3, 1)]%Z)))
  /\ records_out_K1 None None 292 [(5, 0); (0, 0); (3, 1)]%Z = WDone [584; 0].
Proof.
  split; [|vm_compute; reflexivity].
  vm_compute. constructor; [|constructor; [|constructor]]; simpl; intuition discriminate.
Qed.
