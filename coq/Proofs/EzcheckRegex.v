(* Proofs/EzcheckRegex.v — the two oracle hypotheses of ezcheck_sound, DISCHARGED from the regenerated regex ASTs
   (Gen/RegexTables.v, Model/Regex.v): decidable syntactic predicates on the AST
     must12 r  : every match of r contains a byte '1' or '2'
     mustd2 r  : every match of r contains two adjacent ASCII-digit bytes
   (with firstd / lastd: every match is non-empty and begins / ends with a digit byte), proved sound with respect to
   the declarative relation M / matches of Proofs/RegexProofs.v, hence for what `search` returns (search_sound);
   a forallb over the regenerated table shows: ALL 173 rows with a four-digit year have must12 and ALL rows with
   has_d2 have mustd2 (no exception list; a future row for which the predicate fails breaks rows_discharged_ok).
   Then ezcheck_sound and the acceptance theorems are restated with the regex MODEL as the matcher
   (match_slice_rx: search of the row's AST on the slice, then any conversion) without hypotheses on the oracle. *)
From Coq Require Import List NArith Lia Bool.
Import ListNotations.
From S4.Base Require Import Bytes Chunk.
From S4.Model Require Import Regex Gate GateSpec.
From S4.Gen Require Import BlockConsts RegexTables.
From S4.Proofs Require Import RegexProofs EzcheckProofs GateTablesOk GateProofs GateTheorems.
From S4.Corr Require C12.
Open Scope N_scope.

Definition isd (b : N) : bool := (48 <=? b) && (b <=? 57).
Definition is12 (b : N) : bool := (b =? 49) || (b =? 50).

(* a class all of whose members are ASCII digits *)
Definition item_digit (it : citem) : bool :=
  match it with
  | CRange lo hi => (48 <=? lo) && (hi <=? 57)
  | CPosix false P_digit => true
  | _ => false
  end.
Definition cls_digit (c : cls) : bool := negb (cls_neg c) && forallb item_digit (cls_items c).
Definition item_12 (it : citem) : bool := match it with CRange lo hi => (49 <=? lo) && (hi <=? 50) | _ => false end.
Definition cls_12 (c : cls) : bool := negb (cls_neg c) && forallb item_12 (cls_items c).

Definition last_opt (l : bytes) : option N := match rev l with x :: _ => Some x | [] => None end.
Fixpoint has_pair (l : bytes) : bool :=
  match l with a :: ((b :: _) as r) => (isd a && isd b) || has_pair r | _ => false end.

(* every match: first consumed byte is a digit / last consumed byte is a digit (so the match is not empty) *)
Fixpoint firstd (r : re) : bool :=
  match r with
  | RChar _ c => isd c
  | RBytes l => match l with b :: _ => isd b | [] => false end
  | RClass _ c => cls_digit c
  | RSeq a b => firstd a
  | RAlt a b => firstd a && firstd b
  | RRep mn _ _ a => (1 <=? mn)%nat && firstd a
  | RGroup _ a => firstd a
  | _ => false
  end.
Fixpoint lastd (r : re) : bool :=
  match r with
  | RChar _ c => isd c
  | RBytes l => match last_opt l with Some b => isd b | None => false end
  | RClass _ c => cls_digit c
  | RSeq a b => lastd b
  | RAlt a b => lastd a && lastd b
  | RRep mn _ _ a => (1 <=? mn)%nat && lastd a
  | RGroup _ a => lastd a
  | _ => false
  end.
(* every match contains two adjacent digit bytes *)
Fixpoint mustd2 (r : re) : bool :=
  match r with
  | RBytes l => has_pair l
  | RSeq a b => mustd2 a || mustd2 b || (lastd a && firstd b)
  | RAlt a b => mustd2 a && mustd2 b
  | RRep mn _ _ a => ((1 <=? mn)%nat && mustd2 a) || ((2 <=? mn)%nat && firstd a && lastd a)
  | RGroup _ a => mustd2 a
  | _ => false
  end.
(* every match contains a byte '1' or '2' *)
Fixpoint must12 (r : re) : bool :=
  match r with
  | RChar _ c => is12 c
  | RBytes l => existsb is12 l
  | RClass _ c => cls_12 c
  | RSeq a b => must12 a || must12 b
  | RAlt a b => must12 a && must12 b
  | RRep mn _ _ a => (1 <=? mn)%nat && must12 a
  | RGroup _ a => must12 a
  | _ => false
  end.

(* ---------------------------------------------------------------- what a consumed word contains *)
Definition D12 (w : bytes) : Prop := exists x b y, w = x ++ b :: y /\ is12 b = true.
Definition D2 (w : bytes) : Prop := exists x a b y, w = x ++ a :: b :: y /\ isd a = true /\ isd b = true.
Definition Fd (w : bytes) : Prop := exists d t, w = d :: t /\ isd d = true.
Definition Ld (w : bytes) : Prop := exists t d, w = t ++ [d] /\ isd d = true.

Lemma D12_app_l a b : D12 a -> D12 (a ++ b).
Proof. intros (x & c & y & -> & H). exists x, c, (y ++ b). rewrite <- app_assoc. split; [reflexivity|exact H]. Qed.
Lemma D12_app_r a b : D12 b -> D12 (a ++ b).
Proof. intros (x & c & y & -> & H). exists (a ++ x), c, y. rewrite <- app_assoc. split; [reflexivity|exact H]. Qed.
Lemma D2_app_l a b : D2 a -> D2 (a ++ b).
Proof. intros (x & c & d & y & -> & H). exists x, c, d, (y ++ b). rewrite <- app_assoc. split; [reflexivity|exact H]. Qed.
Lemma D2_app_r a b : D2 b -> D2 (a ++ b).
Proof. intros (x & c & d & y & -> & H). exists (a ++ x), c, d, y. rewrite <- app_assoc. split; [reflexivity|exact H]. Qed.
Lemma D2_join a b : Ld a -> Fd b -> D2 (a ++ b).
Proof.
  intros (t & d & -> & H1) (d' & t' & -> & H2). exists t, d, d', t'. rewrite <- app_assoc. split; [reflexivity|split; assumption].
Qed.
Lemma Fd_app a b : Fd a -> Fd (a ++ b).
Proof. intros (d & t & -> & H). exists d, (t ++ b). split; [reflexivity|exact H]. Qed.
Lemma Ld_app a b : Ld b -> Ld (a ++ b).
Proof. intros (t & d & -> & H). exists (a ++ t), d. rewrite <- app_assoc. split; [reflexivity|exact H]. Qed.

Lemma existsb_D12 l : existsb is12 l = true -> D12 l.
Proof.
  intro H. apply existsb_exists in H as (b & I & B). apply in_split in I as (x & y & ->). exists x, b, y. split; [reflexivity|exact B].
Qed.
Lemma has_pair_D2 l : has_pair l = true -> D2 l.
Proof.
  induction l as [|a l IH]; [discriminate|]. destruct l as [|b l]; [discriminate|].
  cbn [has_pair]. intro H. apply orb_true_iff in H as [H|H].
  - apply andb_true_iff in H as [H1 H2]. exists [], a, b, l. split; [reflexivity|split; assumption].
  - apply (D2_app_r [a]). apply IH. exact H.
Qed.
Lemma last_opt_Ld l b : last_opt l = Some b -> isd b = true -> Ld l.
Proof.
  unfold last_opt. intros H0 B. destruct (rev l) as [|x r] eqn:E; [discriminate|]. injection H0 as ->.
  exists (rev r), b. split; [|exact B]. rewrite <- (rev_involutive l), E. reflexivity.
Qed.

(* ---------------------------------------------------------------- one step of the machine *)
Lemma eat_word l : forall rem0 pos p r, eat l rem0 pos = Some (p, r) -> rem0 = l ++ r.
Proof.
  induction l as [|x l IH]; intros rem0 pos p r H; cbn in H.
  - injection H as _ ->. reflexivity.
  - destruct rem0 as [|y rem0]; [discriminate|]. destruct (N.eqb_spec x y) as [->|]; [|discriminate].
    cbn. f_equal. eapply IH. exact H.
Qed.

Lemma decode_word s c len r : decode s = Some (c, len, r) -> exists w, s = w ++ r /\ (c < 128 -> w = [c]).
Proof.
  unfold decode. destruct s as [|b0 s]; [discriminate|].
  destruct (N.ltb_spec b0 128) as [L0|L0].
  { intro HH. injection HH as <- _ <-. exists [b0]. split; [reflexivity|reflexivity]. }
  destruct (N.ltb_spec b0 194) as [L1|L1]; [discriminate|].
  destruct (N.ltb_spec b0 224) as [L2|L2].
  { destruct s as [|b1 s]; [discriminate|]. unfold cont, btw. destruct (N.leb_spec 128 b1) as [K1|K1], (N.leb_spec b1 191) as [K2|K2]; cbn [andb]; try discriminate.
    intro HH. injection HH as <- _ <-. exists [b0; b1]. split; [reflexivity|]. intro C. exfalso. lia. }
  destruct (N.ltb_spec b0 240) as [L3|L3].
  { destruct s as [|b1 [|b2 s]]; try discriminate.
    destruct (_ && _) eqn:C0; [|discriminate]. intro HH. injection HH as <- _ <-. exists [b0; b1; b2]. split; [reflexivity|].
    intro C. exfalso. apply andb_true_iff in C0 as [C1 C2].
    destruct (N.eqb_spec b0 224) as [->|NE].
    - unfold btw in C1. apply andb_true_iff in C1 as [A B]. apply N.leb_le in A. lia.
    - lia. }
  destruct (N.ltb_spec b0 245) as [L4|L4]; [|discriminate].
  destruct s as [|b1 [|b2 [|b3 s]]]; try discriminate.
  destruct (_ && _ && _) eqn:C0; [|discriminate]. intro HH. injection HH as <- _ <-. exists [b0; b1; b2; b3]. split; [reflexivity|].
  intro C. exfalso. apply andb_true_iff in C0 as [C0 C3]. apply andb_true_iff in C0 as [C1 C2].
  destruct (N.eqb_spec b0 240) as [->|NE].
  - unfold btw in C1. apply andb_true_iff in C1 as [A B]. apply N.leb_le in A. lia.
  - lia.
Qed.

Lemma step_cp_word p s s' : c_step_cp p s = SOk s' ->
  exists c w, p c = true /\ c_rem s = w ++ c_rem s' /\ (c < 128 -> w = [c]).
Proof.
  unfold c_step_cp. destruct (decode (c_rem s)) as [[[c len] r]|] eqn:D; [|discriminate].
  destruct (p c) eqn:P; [|discriminate]. intro H. injection H as <-. cbn [c_rem].
  destruct (decode_word _ _ _ _ D) as (w & E & W). exists c, w. repeat split; assumption.
Qed.

Lemma step_bytes_word l s s' : c_step_bytes l s = SOk s' -> c_rem s = l ++ c_rem s'.
Proof.
  unfold c_step_bytes. destruct (eat l (c_rem s) (c_pos s)) as [[p r]|] eqn:E; [|discriminate].
  intro H. injection H as <-. cbn [c_rem]. eapply eat_word. exact E.
Qed.

(* ---------------------------------------------------------------- classes and literals that are digits *)
Lemma isd_range c : isd c = true <-> 48 <= c <= 57.
Proof. unfold isd. rewrite andb_true_iff, !N.leb_le. tauto. Qed.

Lemma orbit_digit c x : In x (orbit c) -> isd x = true -> x = c.
Proof.
  unfold orbit, btw. intros I D. apply isd_range in D.
  destruct (N.leb_spec 65 c), (N.leb_spec c 90); cbn [andb] in I.
  2-4: destruct (N.leb_spec 97 c), (N.leb_spec c 122); cbn [andb] in I.
  all: repeat match type of I with
       | In _ (if ?b then _ else _) => destruct b
       | In _ (_ :: _) => destruct I as [I|I]
       | In _ [] => destruct I
       end; try lia.
Qed.

Lemma item_digit_sound it x : item_digit it = true -> in_item x it = true -> isd x = true.
Proof.
  destruct it as [lo hi|neg p]; cbn [item_digit in_item].
  - unfold btw. rewrite !andb_true_iff, !N.leb_le. intros (A & B) (C & D). apply isd_range. lia.
  - destruct neg; [discriminate|]. destruct p; try discriminate. intros _ H. cbn in H.
    unfold isd. unfold btw in H. destruct ((48 <=? x) && (x <=? 57)); [reflexivity|discriminate].
Qed.

Lemma cls_digit_sound ci cl c : cls_digit cl = true -> in_cls ci cl c = true -> isd c = true.
Proof.
  unfold cls_digit, in_cls. intro H. apply andb_true_iff in H as [N_ F]. apply negb_true_iff in N_. rewrite N_, xorb_false_l.
  rewrite forallb_forall in F. destruct ci.
  - intro H. apply existsb_exists in H as (x & Ix & H). apply existsb_exists in H as (it & Iit & H).
    pose proof (item_digit_sound it x (F it Iit) H) as DX. rewrite <- (orbit_digit c x Ix DX). exact DX.
  - intro H. apply existsb_exists in H as (it & Iit & H). exact (item_digit_sound it c (F it Iit) H).
Qed.

Lemma item_12_sound it x : item_12 it = true -> in_item x it = true -> is12 x = true.
Proof.
  destruct it as [lo hi|neg p]; cbn [item_12 in_item]; [|discriminate].
  unfold btw, is12. rewrite !andb_true_iff, !N.leb_le. intros (A & B) (C & D).
  apply orb_true_iff. rewrite !N.eqb_eq. lia.
Qed.

Lemma is12_isd b : is12 b = true -> isd b = true.
Proof. unfold is12. rewrite orb_true_iff, !N.eqb_eq. intros [->| ->]; reflexivity. Qed.

Lemma cls_12_sound ci cl c : cls_12 cl = true -> in_cls ci cl c = true -> is12 c = true.
Proof.
  unfold cls_12, in_cls. intro H. apply andb_true_iff in H as [N_ F]. apply negb_true_iff in N_. rewrite N_, xorb_false_l.
  rewrite forallb_forall in F. destruct ci.
  - intro H. apply existsb_exists in H as (x & Ix & H). apply existsb_exists in H as (it & Iit & H).
    pose proof (item_12_sound it x (F it Iit) H) as DX. rewrite <- (orbit_digit c x Ix (is12_isd _ DX)). exact DX.
  - intro H. apply existsb_exists in H as (it & Iit & H). exact (item_12_sound it c (F it Iit) H).
Qed.

Lemma is_char_digit ci lit c : isd lit = true -> is_char ci lit c = true -> c = lit.
Proof.
  unfold is_char. intro D. destruct ci.
  - intro H. apply existsb_exists in H as (x & Ix & E). apply N.eqb_eq in E. subst x.
    symmetry. apply (orbit_digit c lit Ix D).
  - apply N.eqb_eq.
Qed.

Definition props (r : re) (w : bytes) : Prop :=
  (must12 r = true -> D12 w) /\ (mustd2 r = true -> D2 w) /\ (firstd r = true -> Fd w) /\ (lastd r = true -> Ld w).
Definition word (s s' : cst) (w : bytes) : Prop := c_rem s = w ++ c_rem s'.

Lemma iter_word (R : cst -> cst -> Prop) : (forall s s', R s s' -> exists w, word s s' w) ->
  forall n s s', iter R n s s' -> exists w, word s s' w.
Proof.
  intros H n s s' I. induction I as [s|n s s1 s2 R1 I IH].
  - exists []. reflexivity.
  - destruct (H _ _ R1) as (w1 & E1). destruct IH as (w2 & E2). exists (w1 ++ w2).
    unfold word in *. rewrite E1, E2, app_assoc. reflexivity.
Qed.

Lemma iter_snoc (R : cst -> cst -> Prop) n s s2 : iter R (S n) s s2 -> exists s1, iter R n s s1 /\ R s1 s2.
Proof.
  revert s s2. induction n as [|n IH]; intros s s2 I; inversion I as [|? ? sa ? Ra Ia]; subst.
  - inversion Ia; subst. exists s. split; [constructor|exact Ra].
  - destruct (IH _ _ Ia) as (s1 & I1 & R1). exists s1. split; [econstructor; eassumption|exact R1].
Qed.

Lemma leb_nat_true a b : (a <=? b)%nat = true -> (a <= b)%nat.
Proof. apply Nat.leb_le. Qed.

Lemma sem : forall r s s', M r s s' -> exists w, word s s' w /\ props r w.
Proof.
  unfold word.
  induction r as [| | | |ci c|l|ci cl|a IHa b IHb|a IHa b IHb|mn mx g a IHa|g a IHa]; intros s s' H; cbn [M] in H.
  - subst s'. exists []. split; [reflexivity|]. repeat split; discriminate.
  - destruct H as (_ & ->). exists []. split; [reflexivity|]. repeat split; discriminate.
  - destruct H as (_ & ->). exists []. split; [reflexivity|]. repeat split; discriminate.
  - destruct (step_cp_word _ _ _ H) as (c & w & _ & E & _). exists w. split; [exact E|]. repeat split; discriminate.
  - destruct (step_cp_word _ _ _ H) as (cp & w & P & E & W). exists w. split; [exact E|].
    assert (K : isd c = true -> w = [c] ).
    { intro D. pose proof (is_char_digit ci c cp D P) as ->. apply W. apply isd_range in D. lia. }
    repeat split; cbn [must12 mustd2 firstd lastd]; intro Q.
    + rewrite (K (is12_isd _ Q)). exists [], c, []. split; [reflexivity|exact Q].
    + discriminate.
    + rewrite (K Q). exists c, []. split; [reflexivity|exact Q].
    + rewrite (K Q). exists [], c. split; [reflexivity|exact Q].
  - pose proof (step_bytes_word _ _ _ H) as E. exists l. split; [exact E|].
    repeat split; cbn [must12 mustd2 firstd lastd]; intro Q.
    + apply existsb_D12. exact Q.
    + apply has_pair_D2. exact Q.
    + destruct l as [|b t]; [discriminate|]. exists b, t. split; [reflexivity|exact Q].
    + destruct (last_opt l) as [b|] eqn:LO; [|discriminate]. eapply last_opt_Ld; eassumption.
  - destruct (step_cp_word _ _ _ H) as (cp & w & P & E & W). exists w. split; [exact E|].
    repeat split; cbn [must12 mustd2 firstd lastd]; intro Q.
    + pose proof (cls_12_sound ci cl cp Q P) as T. pose proof (is12_isd _ T) as D. apply isd_range in D.
      rewrite (W ltac:(lia)). exists [], cp, []. split; [reflexivity|exact T].
    + discriminate.
    + pose proof (cls_digit_sound ci cl cp Q P) as D. pose proof D as D'. apply isd_range in D'.
      rewrite (W ltac:(lia)). exists cp, []. split; [reflexivity|exact D].
    + pose proof (cls_digit_sound ci cl cp Q P) as D. pose proof D as D'. apply isd_range in D'.
      rewrite (W ltac:(lia)). exists [], cp. split; [reflexivity|exact D].
  - destruct H as (s1 & Ha & Hb). destruct (IHa _ _ Ha) as (w1 & E1 & A1 & A2 & A3 & A4).
    destruct (IHb _ _ Hb) as (w2 & E2 & B1 & B2 & B3 & B4). exists (w1 ++ w2).
    split; [rewrite E1, E2, app_assoc; reflexivity|].
    repeat split; cbn [must12 mustd2 firstd lastd]; intro Q.
    + apply orb_true_iff in Q as [Q|Q]; [apply D12_app_l; auto|apply D12_app_r; auto].
    + apply orb_true_iff in Q as [Q|Q]; [apply orb_true_iff in Q as [Q|Q]; [apply D2_app_l; auto|apply D2_app_r; auto]|].
      apply andb_true_iff in Q as [Q1 Q2]. apply D2_join; auto.
    + apply Fd_app; auto.
    + apply Ld_app; auto.
  - destruct H as [H|H].
    + destruct (IHa _ _ H) as (w & E & A1 & A2 & A3 & A4). exists w. split; [exact E|].
      repeat split; cbn [must12 mustd2 firstd lastd]; intro Q; apply andb_true_iff in Q as [Q1 Q2]; auto.
    + destruct (IHb _ _ H) as (w & E & A1 & A2 & A3 & A4). exists w. split; [exact E|].
      repeat split; cbn [must12 mustd2 firstd lastd]; intro Q; apply andb_true_iff in Q as [Q1 Q2]; auto.
  - destruct H as (n & Hmn & _ & I).
    assert (WORD : forall s s', M a s s' -> exists w, c_rem s = w ++ c_rem s').
    { intros x y Hxy. destruct (IHa _ _ Hxy) as (w & E & _). exists w. exact E. }
    destruct (iter_word (M a) WORD n s s' I) as (w & E). exists w. split; [exact E|].
    (* with at least one iteration: the first and the last one *)
    assert (ONE : (1 <= mn)%nat -> exists w1 w', w = w1 ++ w' /\ props a w1).
    { intro G. destruct n as [|n]; [lia|]. inversion I as [|? ? s1 ? R1 I1]; subst.
      destruct (IHa _ _ R1) as (w1 & E1 & P1). destruct (iter_word (M a) WORD n s1 s' I1) as (w' & E').
      exists w1, w'. split; [|exact P1]. unfold word in *. rewrite E1, E' in E. rewrite app_assoc in E.
      apply app_inv_tail in E. congruence. }
    assert (LAST : (1 <= mn)%nat -> exists w' w2, w = w' ++ w2 /\ props a w2).
    { intro G. destruct n as [|n]; [lia|]. destruct (iter_snoc _ _ _ _ I) as (s1 & I1 & R1).
      destruct (IHa _ _ R1) as (w2 & E2 & P2). destruct (iter_word (M a) WORD n s s1 I1) as (w' & E').
      exists w', w2. split; [|exact P2]. unfold word in *. rewrite E', E2 in E. rewrite app_assoc in E.
      apply app_inv_tail in E. congruence. }
    assert (TWO : (2 <= mn)%nat -> exists w1 w2 w', w = w1 ++ w2 ++ w' /\ props a w1 /\ props a w2).
    { intro G. destruct n as [|[|n]]; [lia|lia|]. inversion I as [|? ? s1 ? R1 I1]; subst.
      inversion I1 as [|? ? s2 ? R2 I2]; subst.
      destruct (IHa _ _ R1) as (w1 & E1 & P1). destruct (IHa _ _ R2) as (w2 & E2 & P2).
      destruct (iter_word (M a) WORD n s2 s' I2) as (w' & E').
      exists w1, w2, w'. split; [|split; assumption]. unfold word in *. rewrite E1, E2, E' in E.
      rewrite !app_assoc in E. apply app_inv_tail in E. rewrite <- app_assoc in E. congruence. }
    repeat split; cbn [must12 mustd2 firstd lastd]; intro Q.
    + apply andb_true_iff in Q as [Q1 Q2]. destruct (ONE (leb_nat_true _ _ Q1)) as (w1 & w' & -> & P1 & _).
      apply D12_app_l; auto.
    + apply orb_true_iff in Q as [Q|Q].
      * apply andb_true_iff in Q as [Q1 Q2]. destruct (ONE (leb_nat_true _ _ Q1)) as (w1 & w' & -> & _ & P2 & _).
        apply D2_app_l; auto.
      * apply andb_true_iff in Q as [Q Q3]. apply andb_true_iff in Q as [Q1 Q2].
        destruct (TWO (leb_nat_true _ _ Q1)) as (w1 & w2 & w' & -> & (_ & _ & _ & L1) & (_ & _ & F2 & _)).
        rewrite app_assoc. apply D2_app_l. apply D2_join; auto.
    + apply andb_true_iff in Q as [Q1 Q2]. destruct (ONE (leb_nat_true _ _ Q1)) as (w1 & w' & -> & _ & _ & P3 & _).
      apply Fd_app; auto.
    + apply andb_true_iff in Q as [Q1 Q2]. destruct (LAST (leb_nat_true _ _ Q1)) as (w' & w2 & -> & _ & _ & _ & P4).
      apply Ld_app; auto.
  - destruct H as (s1 & Ha & ->). destruct (IHa _ _ Ha) as (w & E & P). exists w. split; [exact E|exact P].
Qed.

(* ---------------------------------------------------------------- from the declarative facts to the scans of EZCHECK *)
Lemma D12_contains w : D12 w -> Gate.contains_12 w = true.
Proof.
  intros (x & b & y & -> & H). rewrite c12_app. apply orb_true_iff. right. cbn [Gate.contains_12].
  unfold is12 in H. rewrite H. reflexivity.
Qed.

Lemma D2_contains w : D2 w -> Gate.contains_d2 w = true.
Proof.
  intros (x & a & b & y & -> & Ha & Hb). unfold Gate.contains_d2. generalize false.
  induction x as [|c x IH]; intro last; cbn [app Gate.contains_d2_from].
  - change (Gate.is_dig a) with (isd a). rewrite Ha. destruct last; [reflexivity|].
    change (Gate.is_dig b) with (isd b). rewrite Hb. reflexivity.
  - destruct (Gate.is_dig c); [destruct last; [reflexivity|]|]; apply IH.
Qed.

(* a match found by the search: the matched word is a factor of the text *)
Lemma search_word r text st s : search r text = Match (st, s) ->
  exists pre w post, text = pre ++ w ++ post /\ props r w.
Proof.
  intro H. apply search_sound in H as (_ & _ & Hm & _). unfold matches in Hm.
  destruct (sem _ _ _ Hm) as (w & E & P). unfold word in E. cbn [c_rem] in E.
  exists (firstn (N.to_nat st) text), w, (skipn (N.to_nat (c_pos s)) text).
  split; [|exact P]. rewrite <- E. symmetry. apply firstn_skipn.
Qed.

Lemma contains_12_factor pre w post : Gate.contains_12 w = true -> Gate.contains_12 (pre ++ w ++ post) = true.
Proof. intro H. rewrite !c12_app, H. rewrite orb_true_r. reflexivity. Qed.

Lemma contains_d2_factor pre w post : D2 w -> Gate.contains_d2 (pre ++ w ++ post) = true.
Proof. intro H. apply D2_contains. apply D2_app_r. apply D2_app_l. exact H. Qed.

(* ---------------------------------------------------------------- the oracle instantiated with the regex model *)
(* regex search of the row's regenerated AST on the slice, then ANY post-processing of the match (the conversion of
   the captured text to an instant: Model/RegexDt.v, or an oracle) *)
Definition match_slice_rx (post : N -> bytes -> N * cst -> option Z) (r : N) (s : bytes) : option Z :=
  match nth_error rx_table (N.to_nat r) with
  | Some row => match search (rx_re row) s with
                | Match mt => post r s mt
                | _ => None
                end
  | None => None
  end.

(* table obligation (regenerated rows): every row with a four-digit year has must12, every row with has_d2 has mustd2 *)
Definition rows_discharged_b : bool :=
  forallb (fun row => let i := C12.info_tab (rx_index row) in
                      implb (ri_year4 i) (must12 (rx_re row)) && implb (ri_d2 i) (mustd2 (rx_re row))) rx_table
  && (fix go (i : N) (l : list rx_row) : bool :=
        match l with [] => true | row :: t => (rx_index row =? i) && go (i + 1) t end) 0 rx_table.
Lemma rows_discharged_ok : rows_discharged_b = true.
Proof. vm_compute. reflexivity. Qed.

Lemma nth_index (l : list rx_row) : forall i k row,
  (fix go (i : N) (l : list rx_row) : bool :=
     match l with [] => true | row :: t => (rx_index row =? i) && go (i + 1) t end) i l = true ->
  nth_error l k = Some row -> rx_index row = i + N.of_nat k.
Proof.
  induction l as [|x l IH]; intros i k row G H; [destruct k; discriminate|].
  apply andb_true_iff in G as [G1 G2]. apply N.eqb_eq in G1. destruct k as [|k].
  - cbn in H. injection H as <-. lia.
  - cbn [nth_error] in H. rewrite (IH (i + 1) k row G2 H). lia.
Qed.

Lemma row_discharged r row : nth_error rx_table (N.to_nat r) = Some row ->
  (ri_year4 (C12.info_tab r) = true -> must12 (rx_re row) = true) /\
  (ri_d2 (C12.info_tab r) = true -> mustd2 (rx_re row) = true).
Proof.
  intro H. pose proof rows_discharged_ok as T. unfold rows_discharged_b in T. apply andb_true_iff in T as [T1 T2].
  pose proof (nth_index rx_table 0 (N.to_nat r) row T2 H) as IX.
  rewrite forallb_forall in T1. specialize (T1 row (nth_error_In _ _ H)). cbv zeta in T1.
  replace (rx_index row) with r in T1 by lia.
  apply andb_true_iff in T1 as [A B]. split; intro Q; rewrite Q in *; [exact A|exact B].
Qed.

Section Rx.
  Variable post : N -> bytes -> N * cst -> option Z.

  Lemma rx_H12 r s dt : ri_year4 (C12.info_tab r) = true -> match_slice_rx post r s = Some dt -> Gate.contains_12 s = true.
  Proof.
    unfold match_slice_rx. intros Y H. destruct (nth_error rx_table (N.to_nat r)) as [row|] eqn:E; [|discriminate].
    destruct (search (rx_re row) s) as [[st cs]| | |] eqn:S; try discriminate.
    destruct (search_word _ _ _ _ S) as (pre & w & po & -> & P12 & _).
    apply contains_12_factor. apply D12_contains. apply P12. apply (row_discharged r row E). exact Y.
  Qed.

  Lemma rx_Hd2 r s dt : ri_d2 (C12.info_tab r) = true -> match_slice_rx post r s = Some dt -> Gate.contains_d2 s = true.
  Proof.
    unfold match_slice_rx. intros Y H. destruct (nth_error rx_table (N.to_nat r)) as [row|] eqn:E; [|discriminate].
    destruct (search (rx_re row) s) as [[st cs]| | |] eqn:S; try discriminate.
    destruct (search_word _ _ _ _ S) as (pre & w & po & -> & _ & Pd2 & _).
    apply contains_d2_factor. apply Pd2. apply (row_discharged r row E). exact Y.
  Qed.

  (* EZCHECK soundness with the regex MODEL as the matcher: no hypothesis on the oracle left, for all 173 rows *)
  Theorem ezcheck_sound_regex c line :
    parse_ez (match_slice_rx post) C12.info_tab c line =
    parse_plain (dated_by_row_of (match_slice_rx post) C12.info_tab) c line.
  Proof. apply parse_ez_plain; [apply info_tab_start|apply rx_H12|apply rx_Hd2]. Qed.

  (* the acceptance analysis as coded, regex model as the matcher: decides spec_accept outside the classes *)
  Theorem gate_as_coded_regex_accept_spec bs (f : file) :
    sp_blocksz_min <= bs -> bs <= blocksz_max ->
    in_classes (dated_by_row_of (match_slice_rx post) C12.info_tab) C12.rows_tab bs f = false ->
    accepted (gate_ez (match_slice_rx post) C12.info_tab C12.rows_tab bs f) =
    spec_accept (dated_by_row_of (match_slice_rx post) C12.info_tab) C12.rows_tab f.
  Proof. intros. apply gate_as_coded_accept_spec; try assumption; [apply rx_H12|apply rx_Hd2]. Qed.
End Rx.
