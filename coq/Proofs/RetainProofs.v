(* Proofs/RetainProofs.v — proofs about Model/Retain.v (property C17). *)
From Coq Require Import List NArith Bool Sorted Lia.
Import ListNotations.
From S4.Model Require Import Retain.
Open Scope N_scope.

Ltac splits := repeat match goal with |- _ /\ _ => split end.

(* ------------------------------------------------------------------ generic list lemmas *)

Lemma lenN_app {A} (a b : list A) : lenN (a ++ b) = lenN a + lenN b.
Proof. unfold lenN. rewrite app_length. lia. Qed.

Lemma lenN_cons {A} (x : A) l : lenN (x :: l) = lenN l + 1.
Proof. unfold lenN. cbn [length]. lia. Qed.

Lemma lenN_nil {A} : lenN (@nil A) = 0.
Proof. reflexivity. Qed.

Lemma lenN_filter_le {A} (f : A -> bool) l : lenN (filter f l) <= lenN l.
Proof.
  induction l as [|x l IH]; cbn [filter]; [lia|].
  destruct (f x); rewrite ?lenN_cons; lia.
Qed.

Lemma lenN_filter_split {A} (f : A -> bool) l :
  lenN (filter f l) + lenN (filter (fun x => negb (f x)) l) = lenN l.
Proof.
  induction l as [|x l IH]; cbn [filter]; [reflexivity|].
  destruct (f x); cbn [negb]; rewrite ?lenN_cons; lia.
Qed.

Lemma SS_app_iff {A} (R : A -> A -> Prop) l1 l2 :
  StronglySorted R (l1 ++ l2) <->
  StronglySorted R l1 /\ StronglySorted R l2 /\ (forall a b, In a l1 -> In b l2 -> R a b).
Proof.
  induction l1 as [|x l1 IH]; cbn [app].
  - split.
    + intros H. repeat split; auto. constructor. intros a b [].
    + intros (_ & H & _). exact H.
  - split.
    + intros H. apply StronglySorted_inv in H as [H1 H2]. apply IH in H1 as (Ha & Hb & Hc).
      rewrite Forall_app in H2. destruct H2 as [H2 H3]. rewrite Forall_forall in H2, H3.
      repeat split; auto.
      * constructor; auto. apply Forall_forall. exact H2.
      * intros a b [<-|Ha'] Hb'; auto.
    + intros (Ha & Hb & Hc). apply StronglySorted_inv in Ha as [Ha1 Ha2].
      constructor.
      * apply IH. repeat split; auto. intros a b Hin1 Hin2. apply Hc; auto. right; auto.
      * apply Forall_app. split; auto. apply Forall_forall. intros b Hb'. apply Hc; auto. left; auto.
Qed.

Lemma SS_filter {A} (R : A -> A -> Prop) f l : StronglySorted R l -> StronglySorted R (filter f l).
Proof.
  induction 1 as [|x l Hs IH Hf]; cbn [filter]; [constructor|].
  destruct (f x); auto. constructor; auto.
  rewrite Forall_forall in *. intros y Hy. apply filter_In in Hy as [Hy _]. auto.
Qed.

Lemma SS_In_R {A} (R : A -> A -> Prop) l1 x l2 y :
  StronglySorted R (l1 ++ x :: l2) -> In y l1 -> R y x.
Proof.
  intros H Hy. apply SS_app_iff in H as (_ & _ & H). apply H; auto. left; auto.
Qed.

Lemma SS_NoDup {A} (R : A -> A -> Prop) l :
  (forall x, ~ R x x) -> StronglySorted R l -> NoDup l.
Proof.
  intros Hirr. induction 1 as [|x l Hs IH Hf]; constructor; auto.
  intro Hin. rewrite Forall_forall in Hf. apply (Hirr x). auto.
Qed.

Lemma SS_map {A} (f : A -> N) l :
  StronglySorted (fun a b => f a < f b) l -> StronglySorted N.lt (map f l).
Proof.
  induction 1 as [|x l Hs IH Hf]; cbn [map]; constructor; auto.
  rewrite Forall_forall in *. intros y Hy. apply in_map_iff in Hy as (z & <- & Hz). auto.
Qed.

Lemma SS_tricho {A} (R : A -> A -> Prop) l x y :
  StronglySorted R l -> In x l -> In y l -> x = y \/ R x y \/ R y x.
Proof.
  induction 1 as [|z l Hs IH Hf]; intros Hx Hy; [destruct Hx|].
  rewrite Forall_forall in Hf.
  destruct Hx as [<-|Hx], Hy as [<-|Hy]; auto.
Qed.

Lemma SS_weaken {A} (R S : A -> A -> Prop) l :
  (forall a b, R a b -> S a b) -> StronglySorted R l -> StronglySorted S l.
Proof.
  intros HRS. induction 1 as [|x l Hs IH Hf]; constructor; auto.
  rewrite Forall_forall in *. auto.
Qed.

(* a strictly increasing list of numbers inside a window is no longer than the window *)
Lemma SS_window (l : list N) lo hi a :
  StronglySorted N.lt l -> (forall x, In x l -> lo <= x + a /\ x < hi) -> lenN l <= hi + a - lo.
Proof.
  intros Hs. revert lo. induction Hs as [|x l Hs IH Hf]; intros lo Hw.
  - rewrite lenN_nil. lia.
  - rewrite lenN_cons. rewrite Forall_forall in Hf.
    assert (lenN l <= hi + a - (x + 1 + a)) as Hl.
    { apply IH. intros y Hy. specialize (Hf y Hy). specialize (Hw y (or_intror Hy)). lia. }
    specialize (Hw x (or_introl eq_refl)). lia.
Qed.

Lemma NoDup_incl_lenN {A} (l l' : list A) : NoDup l -> incl l l' -> lenN l <= lenN l'.
Proof. intros H1 H2. unfold lenN. pose proof (NoDup_incl_length H1 H2). lia. Qed.

Lemma lenN_map {A B} (f : A -> B) l : lenN (map f l) = lenN l.
Proof. unfold lenN. rewrite map_length. reflexivity. Qed.

Lemma lenN_flat_map_le {A B} (f : A -> list B) l k :
  (forall x, In x l -> lenN (f x) <= k) -> lenN (flat_map f l) <= lenN l * k.
Proof.
  induction l as [|x l IH]; intros Hk; cbn [flat_map].
  - rewrite !lenN_nil. lia.
  - rewrite lenN_app, lenN_cons.
    assert (lenN (f x) <= k) by (apply Hk; left; auto).
    assert (lenN (flat_map f l) <= lenN l * k) by (apply IH; intros; apply Hk; right; auto).
    lia.
Qed.

Lemma in_nseq start cnt x : In x (nseq start cnt) <-> start <= x < start + N.of_nat cnt.
Proof.
  revert start. induction cnt as [|cnt IH]; intros start; cbn [nseq].
  - split; [intros []|lia].
  - cbn [In]. rewrite IH. lia.
Qed.

Lemma lenN_nseq start cnt : lenN (nseq start cnt) = N.of_nat cnt.
Proof.
  revert start. induction cnt as [|cnt IH]; intros start; cbn [nseq]; [reflexivity|].
  rewrite lenN_cons, IH. lia.
Qed.

(* ------------------------------------------------------------------ chains *)

Lemma chain_app_r {A} (R : A -> A -> Prop) l1 l2 : chain R (l1 ++ l2) -> chain R l2.
Proof.
  induction l1 as [|x l1 IH]; cbn [app]; auto. intros [_ H]. auto.
Qed.

Lemma chain_app_l {A} (R : A -> A -> Prop) l1 l2 : chain R (l1 ++ l2) -> chain R l1.
Proof.
  induction l1 as [|x l1 IH]; cbn [app]; [intros; exact I|].
  intros [H1 H2]. split; auto.
  destruct l1 as [|y l1]; auto.
Qed.

Lemma chain_cons_inv {A} (R : A -> A -> Prop) x y l : chain R (x :: y :: l) -> R x y /\ chain R (y :: l).
Proof. cbn. tauto. Qed.

Lemma last_cons {A} (z : A) B x : last (z :: B) x = last B z.
Proof.
  revert z x. induction B as [|w B IH]; intros z x; [reflexivity|].
  change (last (z :: w :: B) x) with (last (w :: B) x). rewrite !IH. reflexivity.
Qed.

Lemma chain_last {A} (R : A -> A -> Prop) x B y T : chain R (x :: B ++ y :: T) -> R (last B x) y.
Proof.
  revert x. induction B as [|z B IH]; intros x H.
  - cbn in H. cbn. tauto.
  - cbn [app] in H. apply chain_cons_inv in H as [_ H]. apply IH in H.
    rewrite last_cons. exact H.
Qed.

Lemma chain_SS {A} (R : A -> A -> Prop) l :
  (forall a b c, R a b -> R b c -> R a c) -> chain R l -> StronglySorted R l.
Proof.
  intros Htr. induction l as [|x l IH]; intros H; constructor.
  - apply IH. cbn in H. tauto.
  - destruct H as [H1 H2]. specialize (IH H2).
    destruct l as [|y l]; constructor; auto.
    apply StronglySorted_inv in IH as [_ IH]. rewrite Forall_forall in *. eauto.
Qed.

(* ------------------------------------------------------------------ reading blocks and lines *)

Definition same_but_blocks (s s' : st) : Prop :=
  lines s' = lines s /\ syslines s' = syslines s /\ pending s' = pending s /\ held s' = held s /\
  hl s' = hl s /\ hs s' = hs s /\ front s' = front s /\ todo s' = todo s /\ stage2 s' = stage2 s /\
  wprev s' = wprev s /\ dok s' = dok s /\ derr s' = derr s.

Lemma same_but_blocks_refl s : same_but_blocks s s.
Proof. unfold same_but_blocks. tauto. Qed.

Lemma same_but_blocks_trans a b c :
  same_but_blocks a b -> same_but_blocks b c -> same_but_blocks a c.
Proof. unfold same_but_blocks. intuition congruence. Qed.

Lemma read_block_spec c s b :
  let s' := read_block c s b in
  same_but_blocks s s' /\ nread s' = b + 1 /\
  (forall x, In x (blocks s') -> In x (blocks s) \/ x = b) /\
  (StronglySorted N.lt (blocks s) -> (forall x, In x (blocks s) -> x < b) ->
   StronglySorted N.lt (blocks s')) /\
  hb s' = N.max (hb s) (lenN (blocks s) + 1) /\ lenN (blocks s') <= lenN (blocks s) + 1.
Proof.
  cbv zeta. unfold read_block, set_blocks, same_but_blocks. cbn.
  assert (Hin : forall x, In x (blocks s ++ [b]) -> In x (blocks s) \/ x = b).
  { intros x Hx. apply in_app_or in Hx as [Hx|[<-|[]]]; auto. }
  assert (Hss : StronglySorted N.lt (blocks s) -> (forall x, In x (blocks s) -> x < b) ->
                StronglySorted N.lt (blocks s ++ [b])).
  { intros H1 H2. apply SS_app_iff. repeat split; auto.
    - repeat constructor.
    - intros a0 b0 Ha [<-|[]]. auto. }
  repeat split; auto.
  - intros x Hx. destruct (streamed c && (0 <? b)); auto. apply filter_In in Hx as [Hx _]. auto.
  - intros H1 H2. destruct (streamed c && (0 <? b)); auto. apply SS_filter. auto.
  - rewrite lenN_app. reflexivity.
  - destruct (streamed c && (0 <? b)).
    + etransitivity; [apply lenN_filter_le|]. rewrite lenN_app. cbn. lia.
    + rewrite lenN_app. cbn. lia.
Qed.

Lemma read_blocks_spec c cnt : forall b s,
  nread s = b ->
  let s' := read_blocks c cnt b s in
  same_but_blocks s s' /\ nread s' = b + N.of_nat cnt /\
  (forall x, In x (blocks s') -> In x (blocks s) \/ (b <= x /\ x < b + N.of_nat cnt)) /\
  (StronglySorted N.lt (blocks s) -> (forall x, In x (blocks s) -> x < b) ->
   StronglySorted N.lt (blocks s')) /\
  hb s <= hb s' /\ hb s' <= N.max (hb s) (lenN (blocks s) + N.of_nat cnt) /\
  lenN (blocks s') <= lenN (blocks s) + N.of_nat cnt /\
  (lenN (blocks s) <= hb s -> lenN (blocks s') <= hb s').
Proof.
  induction cnt as [|cnt IH]; intros b s Hn; cbv zeta; cbn [read_blocks].
  - splits; auto using same_but_blocks_refl; try lia.
  - pose proof (read_block_spec c s b) as (F & N1 & I1 & S1 & H1 & L1). cbv zeta in *.
    specialize (IH (b + 1) (read_block c s b) N1). cbv zeta in IH.
    destruct IH as (F' & N' & I' & S' & Hm & H' & L' & M').
    splits.
    + eapply same_but_blocks_trans; eauto.
    + lia.
    + intros x Hx. apply I' in Hx as [Hx|Hx]; [apply I1 in Hx as [Hx|Hx]|]; auto; lia.
    + intros Hs Hlt. apply S'; auto.
      intros x Hx. apply I1 in Hx as [Hx|Hx]; [apply Hlt in Hx|]; lia.
    + lia.
    + lia.
    + lia.
    + intros Hle. apply M'. lia.
Qed.

Lemma read_line_nread c s l : nread (read_line c s l) = N.max (nread s) (llb l + 1).
Proof.
  unfold read_line, add_line. cbn.
  pose proof (read_blocks_spec c (N.to_nat (llb l + 1 - nread s)) (nread s) s eq_refl) as (_ & Hn & _).
  cbv zeta in Hn. rewrite Hn. lia.
Qed.

(* blocks b whose exit line is stored, or the block in which the reader stands *)
Definition covered (s : st) (b : N) : Prop :=
  (exists l, In l (lines s) /\ exitsb P_retry l b = true) \/
  (exists f, front s = Some f /\ b = llb f /\ ledge f = false).

Definition lkey_lt (a b : lspan) : Prop := lkey a < lkey b.

Record rinv (s : st) : Prop := {
  r_nread : nread s = match front s with Some f => llb f + 1 | None => 0 end;
  r_bsorted : StronglySorted N.lt (blocks s);
  r_blocks : forall b, In b (blocks s) -> b < nread s /\ covered s b;
  r_lsorted : StronglySorted lkey_lt (lines s);
  r_lfront : forall l f, In l (lines s) -> front s = Some f -> lkey l <= lkey f;
  r_lnone : front s = None -> lines s = []
}.

Lemma exitsb_retry_iff l b :
  exitsb P_retry l b = true <-> lfb l <= b /\ (b < llb l \/ (b = llb l /\ ledge l = true)).
Proof.
  unfold exitsb. rewrite andb_true_iff, orb_true_iff, andb_true_iff, N.leb_le, N.ltb_lt, N.eqb_eq.
  tauto.
Qed.

Ltac ex_tac :=
  apply exitsb_retry_iff; split; [lia | first [left; lia | right; split; [lia | assumption]]].

Lemma rinv_read_line bs c s l :
  rinv s -> line_ok bs l ->
  match front s with Some f => succ_ok f l | None => lfb l = 0 end ->
  rinv (read_line c s l).
Proof.
  intros R (Hfl & _ & _) Hsucc.
  pose proof (read_blocks_spec c (N.to_nat (llb l + 1 - nread s)) (nread s) s eq_refl)
    as (F & Hn & Hin & Hss & _). cbv zeta in *.
  destruct F as (Fl & _ & _ & _ & _ & _ & Ff & _).
  set (s1 := read_blocks c (N.to_nat (llb l + 1 - nread s)) (nread s) s) in *.
  assert (Hlow : nread s <= llb l + 1 /\ (nread s = llb l + 1 -> exists f, front s = Some f /\ llb f = llb l /\ ledge f = false)
                 /\ (forall f, front s = Some f -> ledge f = false -> lfb l = llb f)
                 /\ (forall x, nread s <= x -> lfb l <= x)).
  { rewrite (r_nread s R). destruct (front s) as [f|].
    - destruct Hsucc as (_ & _ & Hfb). destruct (ledge f) eqn:E.
      + repeat split; try lia. intros f0 [= <-]. congruence.
      + repeat split; try lia.
        * intros Heq. exists f. repeat split; auto. lia.
        * intros f0 [= <-] _. exact Hfb.
    - repeat split; try lia. discriminate. }
  destruct Hlow as (Hle & Heqc & Hfe & Hcov).
  constructor; unfold read_line, add_line; cbn.
  - fold s1. rewrite Hn. lia.
  - fold s1. apply Hss. apply (r_bsorted s R). intros x Hx. apply (r_blocks s R x Hx).
  - fold s1. intros b Hb. rewrite Hn. apply Hin in Hb. split.
    + destruct Hb as [Hb|Hb]; [apply (r_blocks s R) in Hb|]; lia.
    + destruct Hb as [Hb|[Hb1 Hb2]].
      * (* an old block *)
        destruct (r_blocks s R b Hb) as [_ [(l0 & Hl0 & He)|(f & Hf & Hbf & Hed)]].
        -- left. exists l0. split; auto. rewrite Fl. apply in_or_app. left; auto.
        -- (* the old standing block: b = llb f, f does not end on the edge *)
           specialize (Hfe f Hf Hed).
           destruct (N.eq_dec (llb l) b) as [E|E].
           ++ destruct (ledge l) eqn:El.
              ** left. exists l. split; [apply in_or_app; right; left; auto|].
                 ex_tac.
              ** right. exists l. repeat split; auto.
           ++ left. exists l. split; [apply in_or_app; right; left; auto|].
              ex_tac.
      * (* a block read for this line *)
        assert (lfb l <= b) by (apply Hcov; lia).
        destruct (N.eq_dec (llb l) b) as [E|E].
        -- destruct (ledge l) eqn:El.
           ++ left. exists l. split; [apply in_or_app; right; left; auto|].
              ex_tac.
           ++ right. exists l. repeat split; auto.
        -- left. exists l. split; [apply in_or_app; right; left; auto|].
           ex_tac.
  - fold s1. rewrite Fl. apply SS_app_iff. repeat split.
    + apply (r_lsorted s R).
    + repeat constructor.
    + intros a b Ha [<-|[]]. unfold lkey_lt.
      destruct (front s) as [f|] eqn:Ef.
      * pose proof (r_lfront s R a f Ha Ef). destruct Hsucc as (Hk & _). lia.
      * rewrite (r_lnone s R Ef) in Ha. destruct Ha.
  - fold s1. rewrite Fl. intros l0 f Hl0 [= <-]. apply in_app_or in Hl0 as [Hl0|[<-|[]]]; [|lia].
    destruct (front s) as [f|] eqn:Ef.
    + pose proof (r_lfront s R l0 f Hl0 Ef). destruct Hsucc as (Hk & _). lia.
    + rewrite (r_lnone s R Ef) in Hl0. destruct Hl0.
  - discriminate.
Qed.

Definition same_index (s s' : st) : Prop :=
  syslines s' = syslines s /\ pending s' = pending s /\ held s' = held s /\ hs s' = hs s /\
  todo s' = todo s /\ stage2 s' = stage2 s /\ wprev s' = wprev s /\ dok s' = dok s /\ derr s' = derr s.

Lemma same_index_refl s : same_index s s.
Proof. unfold same_index. tauto. Qed.

Lemma same_index_trans a b c : same_index a b -> same_index b c -> same_index a c.
Proof. unfold same_index. intuition congruence. Qed.

(* what reading does to the sizes and marks, for any policy and any input *)
Definition grows (n : N) (s s' : st) : Prop :=
  same_index s s' /\ nread s <= nread s' /\
  hb s <= hb s' /\ hb s' <= N.max (hb s) (lenN (blocks s) + (nread s' - nread s)) /\
  lenN (blocks s') <= lenN (blocks s) + (nread s' - nread s) /\
  (lenN (blocks s) <= hb s -> lenN (blocks s') <= hb s') /\
  hl s <= hl s' /\ hl s' <= N.max (hl s) (lenN (lines s) + n) /\
  (lenN (lines s) <= hl s -> lenN (lines s') <= hl s').

Lemma read_line_grows c s l :
  let s' := read_line c s l in
  lines s' = lines s ++ [l] /\ front s' = Some l /\ grows 1 s s'.
Proof.
  cbv zeta.
  pose proof (read_blocks_spec c (N.to_nat (llb l + 1 - nread s)) (nread s) s eq_refl)
    as (F & Hn & _ & _ & H1 & H2 & H3 & H4). cbv zeta in *.
  destruct F as (Fl & F1 & F2 & F3 & F4 & F5 & F6 & F7 & F8 & F9 & F10 & F11).
  unfold read_line, add_line, grows, same_index. cbn.
  set (s1 := read_blocks c (N.to_nat (llb l + 1 - nread s)) (nread s) s) in *.
  rewrite Fl, lenN_app. change (lenN [l]) with 1.
  splits; auto; try lia.
Qed.

Lemma grows_trans n1 n2 a b c :
  lenN (lines b) = lenN (lines a) + n1 ->
  grows n1 a b -> grows n2 b c -> grows (n1 + n2) a c.
Proof.
  unfold grows. intros Hl (I1 & A1 & A2 & A3 & A4 & A5 & A6 & A7 & A8) (I2 & B1 & B2 & B3 & B4 & B5 & B6 & B7 & B8).
  splits; try lia.
  eapply same_index_trans; eauto.
Qed.

Lemma read_lines_grows c ls : forall s,
  let s' := fold_left (read_line c) ls s in
  lines s' = lines s ++ ls /\ front s' = last (map Some ls) (front s) /\ grows (lenN ls) s s'.
Proof.
  induction ls as [|l ls IH]; intros s; cbv zeta; cbn [fold_left].
  - rewrite app_nil_r. splits; auto. unfold grows. splits; try lia. apply same_index_refl.
  - pose proof (read_line_grows c s l) as (L1 & F1 & G1). cbv zeta in *.
    specialize (IH (read_line c s l)). cbv zeta in IH. destruct IH as (L2 & F2 & G2).
    splits.
    + rewrite L2, L1, <- app_assoc. reflexivity.
    + rewrite F2, F1. cbn [map]. rewrite last_cons. reflexivity.
    + rewrite lenN_cons. replace (lenN ls + 1) with (1 + lenN ls) by lia.
      eapply grows_trans; eauto. rewrite L1, lenN_app. reflexivity.
Qed.

Lemma rinv_read_lines bs c ls : forall s,
  rinv s -> Forall (line_ok bs) ls ->
  chain succ_ok (opt_list (front s) ++ ls) ->
  (front s = None -> match ls with l :: _ => lfb l = 0 | [] => True end) ->
  rinv (fold_left (read_line c) ls s).
Proof.
  induction ls as [|l ls IH]; intros s R Hok Hch H0; cbn [fold_left]; auto.
  apply Forall_cons_iff in Hok as [Hl Hok].
  pose proof (read_line_grows c s l) as (_ & F1 & _). cbv zeta in F1.
  apply IH; auto.
  - eapply rinv_read_line; eauto.
    destruct (front s) as [f|]; cbn in Hch.
    + tauto.
    + apply H0. reflexivity.
  - rewrite F1. cbn [opt_list app]. destruct (front s); cbn [opt_list app] in Hch.
    + apply chain_cons_inv in Hch as [_ Hch]. exact Hch.
    + exact Hch.
  - rewrite F1. discriminate.
Qed.

(* ------------------------------------------------------------------ releasing *)

Lemma release_line_fold p ls : forall bl b,
  In b (fold_left (release_line p) ls bl) <->
  In b bl /\ forall l, In l ls -> exitsb p l b = false.
Proof.
  induction ls as [|l ls IH]; intros bl b; cbn [fold_left].
  - split; [intros Hb; split; auto; intros l []|tauto].
  - rewrite IH. unfold release_line. rewrite filter_In, negb_true_iff. split.
    + intros ((Hb & He) & Hr). split; auto. intros l0 [<-|Hl0]; auto.
    + intros (Hb & Hall). repeat split; auto. apply Hall; left; auto.
      intros l0 Hl0. apply Hall; right; auto.
Qed.

Lemma release_line_fold_sorted p ls : forall bl,
  StronglySorted N.lt bl -> StronglySorted N.lt (fold_left (release_line p) ls bl).
Proof.
  induction ls as [|l ls IH]; intros bl Hs; cbn [fold_left]; auto.
  apply IH. unfold release_line. apply SS_filter. exact Hs.
Qed.

Lemma release_line_fold_len p ls : forall bl, lenN (fold_left (release_line p) ls bl) <= lenN bl.
Proof.
  induction ls as [|l ls IH]; intros bl; cbn [fold_left]; [lia|].
  etransitivity; [apply IH|]. apply lenN_filter_le.
Qed.

Definition same_but_data (s s' : st) : Prop :=
  syslines s' = syslines s /\ pending s' = pending s /\ held s' = held s /\
  hb s' = hb s /\ hl s' = hl s /\ hs s' = hs s /\ nread s' = nread s /\ front s' = front s /\
  todo s' = todo s /\ stage2 s' = stage2 s /\ wprev s' = wprev s /\ dok s' = dok s /\ derr s' = derr s.

Lemma release_msgs_spec p rel : forall s,
  let s' := fold_left (release_msg p) rel s in
  (forall b, In b (blocks s') <->
             In b (blocks s) /\ forall m, In m rel -> forall l, In l (mlines m) -> exitsb p l b = false) /\
  (forall l, In l (lines s') <-> In l (lines s) /\ forall m, In m rel -> line_of m l = false) /\
  (StronglySorted N.lt (blocks s) -> StronglySorted N.lt (blocks s')) /\
  (StronglySorted lkey_lt (lines s) -> StronglySorted lkey_lt (lines s')) /\
  lenN (blocks s') <= lenN (blocks s) /\ lenN (lines s') <= lenN (lines s) /\
  same_but_data s s'.
Proof.
  induction rel as [|m rel IH]; intros s; cbv zeta; cbn [fold_left].
  - splits; auto; try lia.
    + intros b. split; [intros Hb; split; auto; intros m []|tauto].
    + intros l. split; [intros Hl; split; auto; intros m []|tauto].
    + unfold same_but_data. tauto.
  - specialize (IH (release_msg p s m)). cbv zeta in IH.
    destruct IH as (B & L & SB & SL & NB & NL & F).
    splits.
    + intros b. rewrite B. cbn [release_msg blocks]. rewrite release_line_fold. split.
      * intros ((Hb & He) & Hr). split; auto. intros m0 [<-|Hm0]; [exact He|apply Hr; exact Hm0].
      * intros (Hb & Hall). repeat split; auto. apply Hall; left; auto.
        intros m0 Hm0. apply Hall; right; auto.
    + intros l. rewrite L. cbn [release_msg lines]. rewrite filter_In, negb_true_iff. split.
      * intros ((Hl & He) & Hr). split; auto. intros m0 [<-|Hm0]; auto.
      * intros (Hl & Hall). repeat split; auto. apply Hall; left; auto.
        intros m0 Hm0. apply Hall; right; auto.
    + intros Hs. apply SB. cbn [release_msg blocks]. apply release_line_fold_sorted. exact Hs.
    + intros Hs. apply SL. cbn [release_msg lines]. apply SS_filter. exact Hs.
    + etransitivity; [exact NB|]. cbn [release_msg blocks]. apply release_line_fold_len.
    + etransitivity; [exact NL|]. cbn [release_msg lines]. apply lenN_filter_le.
    + unfold same_but_data in *. cbn in F. exact F.
Qed.

Lemma line_of_self m l : In l (mlines m) -> line_of m l = true.
Proof.
  intros Hl. unfold line_of. apply existsb_exists. exists l. split; auto. apply N.eqb_refl.
Qed.

Lemma line_of_true m l : line_of m l = true -> exists x, In x (mlines m) /\ lkey x = lkey l.
Proof.
  unfold line_of. intros H. apply existsb_exists in H as (x & Hx & He).
  apply N.eqb_eq in He. eauto.
Qed.

(* ------------------------------------------------------------------ what wf gives *)

Lemma file_lines_app a b : file_lines (a ++ b) = file_lines a ++ file_lines b.
Proof. unfold file_lines. apply flat_map_app. Qed.

Lemma linked_app a m r :
  linked (a ++ m :: r) -> mnext m = match r with [] => None | q :: _ => Some (mfirst q) end.
Proof.
  induction a as [|x a IH]; cbn [app linked]; tauto.
Qed.

Lemma succ_ok_trans a b c : succ_ok a b -> succ_ok b c -> lkey a < lkey c.
Proof. unfold succ_ok. lia. Qed.

Section WF.
Variables (bs span ml : N) (ms : list msg).
Hypothesis Hwf : wf bs span ml ms.

Lemma wf_bs : 0 < bs.
Proof. apply Hwf. Qed.

Lemma wf_line_ok l : In l (file_lines ms) -> line_ok bs l.
Proof. destruct Hwf as (_ & H & _). rewrite Forall_forall in H. apply H. Qed.

Lemma wf_msg_ok m : In m ms -> msg_ok span ml m.
Proof. destruct Hwf as (_ & _ & _ & _ & _ & H & _). rewrite Forall_forall in H. apply H. Qed.

Lemma wf_mlines_file m l : In m ms -> In l (mlines m) -> In l (file_lines ms).
Proof. intros Hm Hl. unfold file_lines. apply in_flat_map. eauto. Qed.

Lemma mlast_in m : In (mlast m) (mlines m).
Proof.
  unfold mlast, mlines. destruct (mbody m) as [|x b] eqn:E.
  - left; reflexivity.
  - right. rewrite <- E. assert (mbody m <> []) by congruence.
    pose proof (@exists_last _ (mbody m) H) as (l' & a & ->). rewrite last_last.
    apply in_or_app. right. left. reflexivity.
Qed.

Lemma wf_keys_sorted : StronglySorted lkey_lt (file_lines ms).
Proof.
  destruct Hwf as (_ & _ & Hc & _).
  assert (chain (fun a b => lkey a < lkey b /\ lend a < lend b) (file_lines ms)) as Hc'.
  { clear - Hc. induction (file_lines ms) as [|x l IH]; cbn in *; auto.
    destruct Hc as [H1 H2]. split; auto. destruct l; auto. unfold succ_ok in H1. tauto. }
  apply chain_SS in Hc'; [|intros; lia].
  eapply SS_weaken; [|exact Hc']. unfold lkey_lt. tauto.
Qed.

Lemma wf_key_inj l l' :
  In l (file_lines ms) -> In l' (file_lines ms) -> lkey l = lkey l' -> l = l'.
Proof.
  intros H1 H2 He. destruct (SS_tricho _ _ _ _ wf_keys_sorted H1 H2) as [E|[E|E]]; auto;
    unfold lkey_lt in E; lia.
Qed.

Lemma wf_before done q rest m : ms = done ++ q :: rest -> In m done -> msg_lt m q.
Proof.
  intros E Hm. destruct Hwf as (_ & _ & _ & _ & Hs & _). rewrite E in Hs.
  eapply SS_In_R; eauto.
Qed.

Lemma wf_next done q rest :
  ms = done ++ q :: rest -> mnext q = match rest with [] => None | q' :: _ => Some (mfirst q') end.
Proof.
  intros E. destruct Hwf as (_ & _ & _ & _ & _ & _ & Hl). rewrite E in Hl.
  eapply linked_app; eauto.
Qed.

(* the lines `find q` reads, after the line the reader stands on, form a chain of file lines *)
Lemma wf_read_chain done q rest :
  ms = done ++ q :: rest ->
  chain succ_ok (mfirst q :: mbody q ++ opt_list (mnext q)).
Proof.
  intros E. rewrite (wf_next _ _ _ E).
  destruct Hwf as (_ & _ & Hc & _). rewrite E, file_lines_app in Hc. apply chain_app_r in Hc.
  change (q :: rest) with ([q] ++ rest) in Hc. rewrite file_lines_app in Hc.
  unfold file_lines at 1 in Hc. cbn [flat_map] in Hc. rewrite app_nil_r in Hc.
  destruct rest as [|q' r].
  - cbn [file_lines flat_map] in Hc. rewrite app_nil_r in Hc. cbn [opt_list]. rewrite app_nil_r. exact Hc.
  - unfold file_lines in Hc. cbn [flat_map] in Hc. unfold mlines at 1 2 in Hc. cbn [opt_list].
    cbn [app] in Hc.
    replace (mfirst q :: mbody q ++ mfirst q' :: mbody q' ++ flat_map mlines r)
      with ((mfirst q :: mbody q ++ [mfirst q']) ++ mbody q' ++ flat_map mlines r) in Hc
      by (cbn [app]; rewrite <- app_assoc; reflexivity).
    apply chain_app_l in Hc. exact Hc.
Qed.

Lemma wf_read_lines_ok done q rest :
  ms = done ++ q :: rest -> Forall (line_ok bs) (mfirst q :: mbody q ++ opt_list (mnext q)).
Proof.
  intros E. rewrite (wf_next _ _ _ E). apply Forall_forall. intros l Hl. apply wf_line_ok.
  change (mfirst q :: mbody q ++ ?x) with (mlines q ++ x) in Hl.
  apply in_app_or in Hl as [Hl|Hl].
  - eapply wf_mlines_file; eauto. rewrite E. apply in_or_app. right. left. reflexivity.
  - destruct rest as [|q' r]; [destruct Hl|]. destruct Hl as [<-|[]].
    eapply wf_mlines_file with (m := q').
    + rewrite E. apply in_or_app. right. right. left. reflexivity.
    + left. reflexivity.
Qed.

Lemma wf_adjacent d p q rest :
  ms = d ++ p :: q :: rest -> succ_ok (mlast p) (mfirst q) /\ mfb q <= mlb p + 1.
Proof.
  intros E. destruct Hwf as (_ & _ & Hc & _). rewrite E, file_lines_app in Hc. apply chain_app_r in Hc.
  unfold file_lines in Hc. cbn [flat_map] in Hc. unfold mlines at 1 2 in Hc. cbn [app] in Hc.
  apply chain_last in Hc. split; auto.
  destruct Hc as (_ & _ & Hfb). unfold mfb, mlb. rewrite Hfb. unfold mlast.
  destruct (ledge (last (mbody p) (mfirst p))); lia.
Qed.

Lemma wf_first q rest : ms = q :: rest -> lfb (mfirst q) = 0.
Proof. intros E. destruct Hwf as (_ & _ & _ & H0 & _). rewrite E in H0. exact H0. Qed.

Lemma wf_line_span m l : In m ms -> In l (mlines m) -> mfb m <= lfb l /\ llb l + 1 <= mfb m + span.
Proof.
  intros Hm Hl. destruct (wf_msg_ok m Hm) as (_ & Hs & Hf). rewrite Forall_forall in Hf.
  specialize (Hf l Hl). lia.
Qed.

Lemma wf_mend_window m : In m ms -> mlb m * bs <= mend m /\ mend m < (mlb m + 1) * bs.
Proof.
  intros Hm. unfold mlb, mend.
  assert (line_ok bs (mlast m)) as (_ & H1 & H2).
  { apply wf_line_ok. eapply wf_mlines_file; eauto. apply mlast_in. }
  auto.
Qed.

End WF.

Lemma last_map {A B} (f : A -> B) l d : last (map f l) (f d) = f (last l d).
Proof.
  induction l as [|x l IH]; [reflexivity|].
  cbn [map]. destruct l as [|y l]; [reflexivity|].
  change (last (f x :: map f (y :: l)) (f d)) with (last (map f (y :: l)) (f d)).
  rewrite IH. reflexivity.
Qed.

Lemma memN_In x l : memN x l = true <-> In x l.
Proof.
  unfold memN. rewrite existsb_exists. split.
  - intros (y & Hy & E). apply N.eqb_eq in E. subst. exact Hy.
  - intros Hx. exists x. split; auto. apply N.eqb_refl.
Qed.

(* ------------------------------------------------------------------ the repaired policy *)
Section Retry.
Variables (bs span ml H : N) (ms : list msg) (c : cfg).
Hypothesis Hpol : pol c = P_retry.
Hypothesis Hwf : wf bs span ml ms.

Definition idx (s : st) : list msg := pending s ++ syslines s.

Record core (done : list msg) (s : st) : Prop := {
  c_r : rinv s;
  c_done : incl (idx s) done;
  c_lfile : incl (lines s) (file_lines ms);
  c_ffile : forall f, front s = Some f -> In f (file_lines ms);
  c_lmsg : forall l, In l (lines s) ->
           (exists m, In m (idx s) /\ In l (mlines m)) \/ front s = Some l;
  c_sorted : StronglySorted msg_lt (idx s);
  c_sizes : lenN (syslines s) <= hs s /\ lenN (lines s) <= hl s /\ lenN (blocks s) <= hb s
}.

Lemma file_line_span l : In l (file_lines ms) -> lfb l <= llb l /\ llb l + 1 <= lfb l + span.
Proof.
  intros Hl. pose proof (wf_line_ok _ _ _ _ Hwf l Hl) as (H1 & _).
  unfold file_lines in Hl. apply in_flat_map in Hl as (m & Hm & Hlm).
  pose proof (wf_line_span _ _ _ _ Hwf m l Hm Hlm). lia.
Qed.

Lemma count_lines done s :
  core done s -> incl done ms -> lenN (lines s) <= lenN (idx s) * ml + 1.
Proof.
  intros C Hd.
  assert (NoDup (lines s)) as Hnd.
  { eapply SS_NoDup; [|apply (r_lsorted s (c_r _ _ C))]. unfold lkey_lt. intros x. lia. }
  assert (incl (lines s) (flat_map mlines (idx s) ++ opt_list (front s))) as Hi.
  { intros l Hl. apply in_or_app. destruct (c_lmsg _ _ C l Hl) as [(m & Hm & Hlm)|Hf].
    - left. apply in_flat_map. eauto.
    - right. rewrite Hf. left. reflexivity. }
  pose proof (NoDup_incl_lenN _ _ Hnd Hi) as Hle. rewrite lenN_app in Hle.
  assert (lenN (flat_map mlines (idx s)) <= lenN (idx s) * ml).
  { apply lenN_flat_map_le. intros m Hm. apply (wf_msg_ok _ _ _ _ Hwf). apply Hd. apply (c_done _ _ C). exact Hm. }
  assert (lenN (opt_list (front s)) <= 1) by (destruct (front s); cbn; lia).
  lia.
Qed.

Definition win (x : N) : list N := nseq x (N.to_nat span).

Lemma in_win x b : In b (win x) <-> x <= b < x + span.
Proof. unfold win. rewrite in_nseq, N2Nat.id. reflexivity. Qed.

Lemma count_blocks done s :
  core done s -> incl done ms -> lenN (blocks s) <= (lenN (idx s) + 1) * span.
Proof.
  intros C Hd.
  assert (NoDup (blocks s)) as Hnd.
  { eapply SS_NoDup; [|apply (r_bsorted s (c_r _ _ C))]. intros x. lia. }
  set (fw := match front s with Some f => win (lfb f) | None => [] end).
  assert (incl (blocks s) (flat_map (fun m => win (mfb m)) (idx s) ++ fw)) as Hi.
  { intros b Hb. apply in_or_app.
    destruct (r_blocks s (c_r _ _ C) b Hb) as [_ [(l & Hl & He)|(f & Hf & Hbf & Hed)]].
    - apply exitsb_retry_iff in He.
      destruct (c_lmsg _ _ C l Hl) as [(m & Hm & Hlm)|Hf].
      + left. apply in_flat_map. exists m. split; auto. apply in_win.
        assert (In m ms) by (apply Hd; apply (c_done _ _ C); exact Hm).
        pose proof (wf_line_span _ _ _ _ Hwf m l H0 Hlm). lia.
      + right. unfold fw. rewrite Hf. apply in_win.
        pose proof (file_line_span l (c_ffile _ _ C l Hf)). lia.
    - right. unfold fw. rewrite Hf. apply in_win.
      pose proof (file_line_span f (c_ffile _ _ C f Hf)). lia. }
  pose proof (NoDup_incl_lenN _ _ Hnd Hi) as Hle. rewrite lenN_app in Hle.
  assert (lenN (flat_map (fun m => win (mfb m)) (idx s)) <= lenN (idx s) * span).
  { apply lenN_flat_map_le. intros m _. unfold win. rewrite lenN_nseq, N2Nat.id. lia. }
  assert (lenN fw <= span).
  { unfold fw. destruct (front s); [unfold win; rewrite lenN_nseq, N2Nat.id|rewrite lenN_nil]; lia. }
  lia.
Qed.

(* ---- find *)
Lemma core_find done q rest s (first : bool) :
  core done s -> ms = done ++ q :: rest ->
  (if first then front s = None /\ done = [] else front s = Some (mfirst q)) ->
  let s1 := do_find c s first q in
  core (done ++ [q]) s1 /\
  front s1 = Some (match rest with q' :: _ => mfirst q' | [] => mlast q end) /\
  syslines s1 = syslines s ++ [q] /\ pending s1 = pending s /\ held s1 = held s ++ [mkey q] /\
  todo s1 = todo s /\ stage2 s1 = stage2 s /\ wprev s1 = wprev s /\
  hs s1 = N.max (hs s) (lenN (syslines s) + 1) /\
  hl s1 <= N.max (hl s) (lenN (lines s) + ml + 1) /\
  hb s1 <= N.max (hb s) (lenN (blocks s) + 2 * span).
Proof.
  intros C E Hfirst. cbv zeta. unfold do_find.
  set (rd := mread first q).
  set (s0 := fold_left (read_line c) rd s).
  pose proof (read_lines_grows c rd s) as (L0 & F0 & G0). cbv zeta in L0, F0, G0. fold s0 in L0, F0, G0.
  destruct G0 as (I0 & Hn0 & Hb1 & Hb2 & Hb3 & Hb4 & Hl1 & Hl2 & Hl3).
  destruct I0 as (I1 & I2 & I3 & I4 & I5 & I6 & I7 & I8 & I9).
  pose proof (wf_read_chain _ _ _ _ Hwf _ _ _ E) as Hch.
  pose proof (wf_read_lines_ok _ _ _ _ Hwf _ _ _ E) as Hok.
  pose proof (wf_next _ _ _ _ Hwf _ _ _ E) as Hnext.
  assert (In q ms) as Hq by (rewrite E; apply in_or_app; right; left; reflexivity).
  assert (chain succ_ok (opt_list (front s) ++ rd) /\ Forall (line_ok bs) rd) as [Hch' Hok'].
  { unfold rd, mread. destruct first.
    - destruct Hfirst as [-> _]. cbn [opt_list app]. auto.
    - rewrite Hfirst. cbn [opt_list app]. split; auto. apply Forall_cons_iff in Hok. tauto. }
  assert (rinv s0) as R0.
  { unfold s0. eapply rinv_read_lines; eauto. apply (c_r _ _ C).
    intros Hnone. unfold rd, mread. destruct first.
    - cbn [app]. destruct Hfirst as [_ ->]. apply (wf_first _ _ _ _ Hwf q rest). exact E.
    - congruence. }
  assert (front s0 = Some (match rest with q' :: _ => mfirst q' | [] => mlast q end)) as Hfront.
  { rewrite F0. unfold rd, mread. rewrite Hnext. destruct rest as [|q' r]; cbn [opt_list].
    - rewrite app_nil_r. destruct first.
      + cbn [app map]. rewrite last_cons. rewrite last_map. reflexivity.
      + cbn [app]. rewrite Hfirst. rewrite last_map. reflexivity.
    - rewrite app_assoc, map_app. cbn [map]. rewrite last_last. reflexivity. }
  assert (Hrd_in : forall l, In l rd -> In l (mlines q) \/ mnext q = Some l).
  { intros l Hl. unfold rd, mread in Hl. apply in_app_or in Hl as [Hl|Hl].
    - destruct first; [|destruct Hl]. destruct Hl as [<-|[]]. left. left. reflexivity.
    - apply in_app_or in Hl as [Hl|Hl]. left. right. exact Hl.
      right. destruct (mnext q) as [x|]; [destruct Hl as [<-|[]]; reflexivity|destruct Hl]. }
  assert (Hnext_file : forall l, mnext q = Some l -> In l (file_lines ms)).
  { intros l Hl. rewrite Hnext in Hl. destruct rest as [|q' r]; [discriminate|]. injection Hl as <-.
    eapply (wf_mlines_file ms q'); [|left; reflexivity].
    rewrite E. apply in_or_app. right. right. left. reflexivity. }
  splits; cbn [store_msg syslines pending held todo stage2 wprev hs hl hb front]; auto; try congruence.
  - (* core *)
    constructor; cbn [store_msg].
    + destruct R0. constructor; cbn; auto.
    + unfold idx. cbn. rewrite I2, I1. intros m Hm. apply in_or_app.
      apply in_app_or in Hm as [Hm|Hm].
      * left. apply (c_done _ _ C). apply in_or_app. left; exact Hm.
      * apply in_app_or in Hm as [Hm|Hm]; [left|right; exact Hm].
        apply (c_done _ _ C). apply in_or_app. right; exact Hm.
    + cbn. rewrite L0. intros l Hl. apply in_app_or in Hl as [Hl|Hl].
      * apply (c_lfile _ _ C). exact Hl.
      * destruct (Hrd_in l Hl) as [Hm|Hm]; auto. eapply wf_mlines_file; eauto.
    + cbn. intros f Hf. rewrite Hfront in Hf. injection Hf as <-.
      destruct rest as [|q' r].
      * eapply wf_mlines_file; eauto. apply mlast_in.
      * apply Hnext_file. rewrite Hnext. reflexivity.
    + cbn. unfold idx. cbn. rewrite L0, I1, I2. intros l Hl. apply in_app_or in Hl as [Hl|Hl].
      * destruct (c_lmsg _ _ C l Hl) as [(m & Hm & Hlm)|Hf].
        -- left. exists m. split; auto. unfold idx in Hm. apply in_app_or in Hm as [Hm|Hm];
             apply in_or_app; [left|right; apply in_or_app; left]; exact Hm.
        -- left. exists q. split. apply in_or_app. right. apply in_or_app. right. left. reflexivity.
           destruct first. destruct Hfirst as [Hn _]. congruence.
           rewrite Hfirst in Hf. injection Hf as <-. left. reflexivity.
      * destruct (Hrd_in l Hl) as [Hm|Hm].
        -- left. exists q. split; auto. apply in_or_app. right. apply in_or_app. right. left. reflexivity.
        -- right. rewrite Hfront. rewrite Hnext in Hm. destruct rest; [discriminate|]. exact Hm.
    + unfold idx. cbn. rewrite I1, I2. rewrite app_assoc. apply SS_app_iff. splits.
      * apply (c_sorted _ _ C).
      * repeat constructor.
      * intros a b Ha [<-|[]]. eapply wf_before; eauto. apply (c_done _ _ C). exact Ha.
    + cbn. rewrite lenN_app, I1. change (lenN [q]) with 1.
      destruct (c_sizes _ _ C) as (S1 & S2 & S3).
      splits; try lia; try (apply Hl3; exact S2); try (apply Hb4; exact S3).
  - rewrite I4, lenN_app, I1. reflexivity.
  - (* lines mark *)
    assert (lenN rd <= ml + 1).
    { unfold rd, mread. destruct (wf_msg_ok _ _ _ _ Hwf q Hq) as (Hml & _).
      unfold mlines in Hml. rewrite lenN_cons in Hml.
      rewrite !lenN_app. assert (lenN (opt_list (mnext q)) <= 1) by (destruct (mnext q); cbn; lia).
      destruct first; [change (lenN [mfirst q]) with 1|rewrite lenN_nil]; lia. }
    lia.
  - (* blocks mark: at most 2*span new blocks *)
    assert (nread s0 - nread s <= 2 * span) as Hgrow.
    { rewrite (r_nread _ R0), Hfront.
      destruct (wf_msg_ok _ _ _ _ Hwf q Hq) as (_ & Hsp & _).
      assert (nread s = 0 /\ mfb q = 0 \/ mfb q + 1 <= nread s) as Hlo.
      { rewrite (r_nread _ (c_r _ _ C)). destruct first.
        - left. destruct Hfirst as [-> Hd]. split; auto. subst done. apply (wf_first _ _ _ _ Hwf q rest E).
        - right. rewrite Hfirst. unfold mfb.
          assert (In (mfirst q) (file_lines ms)) by (eapply wf_mlines_file; eauto; left; reflexivity).
          pose proof (file_line_span _ H0). lia. }
      destruct rest as [|q' r].
      - fold (mlb q). lia.
      - assert (In q' ms) by (rewrite E; apply in_or_app; right; right; left; reflexivity).
        pose proof (wf_line_span _ _ _ _ Hwf q' (mfirst q') H0 (or_introl eq_refl)) as (_ & Hq').
        pose proof (wf_adjacent _ _ _ _ Hwf done q q' r E) as (_ & Hadj).
        lia. }
    lia.
Qed.

(* ---- try_drop *)
Lemma mlb_mono x y : In x ms -> In y ms -> mend x < mend y -> mlb x <= mlb y.
Proof.
  intros Hx Hy Hlt.
  pose proof (wf_mend_window _ _ _ _ Hwf x Hx) as (A1 & A2).
  pose proof (wf_mend_window _ _ _ _ Hwf y Hy) as (B1 & B2).
  pose proof (wf_bs _ _ _ _ Hwf) as Hbs.
  assert (mlb x * bs < (mlb y + 1) * bs) as Hm by lia.
  apply N.mul_lt_mono_pos_r in Hm; lia.
Qed.

Lemma core_drop done s p :
  core done s -> incl done ms ->
  let s2 := do_try_drop c s p in
  core done s2 /\
  lenN (pending s2) <= N.max (lenN (pending s)) (lenN (held s)) /\
  syslines s2 = (if mfb p <? 3 then syslines s
                 else filter (fun m => negb (mlb m <=? mfb p - 2)) (syslines s)) /\
  front s2 = front s /\ held s2 = held s /\ todo s2 = todo s /\ stage2 s2 = stage2 s /\
  wprev s2 = wprev s /\ hs s2 = hs s /\ hl s2 = hl s /\ hb s2 = hb s.
Proof.
  intros C Hd. cbv zeta. unfold do_try_drop. destruct (mfb p <? 3) eqn:E3.
  { splits; auto. lia. }
  set (bo := mfb p - 2).
  set (retry := filter (fun m => negb (is_held s m)) (pending s)).
  set (still := filter (is_held s) (pending s)).
  set (cand := filter (fun m => mlb m <=? bo) (syslines s)).
  set (keep := filter (fun m => negb (mlb m <=? bo)) (syslines s)).
  set (ok := filter (fun m => negb (is_held s m)) cand).
  set (fail := filter (is_held s) cand).
  pose proof (release_msgs_spec (pol c) (retry ++ ok) s) as (B & L & SB & SL & NB & NL & F).
  cbv zeta in *. set (s1 := fold_left (release_msg (pol c)) (retry ++ ok) s) in *.
  destruct F as (F1 & F2 & F3 & F4 & F5 & F6 & F7 & F8 & F9 & F10 & F11 & F12 & F13).
  rewrite Hpol in *. cbn [set_index syslines pending front held todo stage2 wprev hs hl hb].
  (* membership facts *)
  assert (Hidx : forall m, In m (idx s) -> In m (retry ++ ok) \/ In m ((still ++ fail) ++ keep)).
  { intros m Hm. unfold idx in Hm. apply in_app_or in Hm as [Hm|Hm].
    - destruct (is_held s m) eqn:Eh.
      + right. apply in_or_app. left. apply in_or_app. left. apply filter_In. auto.
      + left. apply in_or_app. left. apply filter_In. rewrite Eh. auto.
    - destruct (mlb m <=? bo) eqn:Ec.
      + assert (In m cand) by (apply filter_In; auto).
        destruct (is_held s m) eqn:Eh.
        * right. apply in_or_app. left. apply in_or_app. right. apply filter_In. auto.
        * left. apply in_or_app. right. apply filter_In. rewrite Eh. auto.
      + right. apply in_or_app. right. apply filter_In. rewrite Ec. auto. }
  assert (Hsub : forall m, In m ((still ++ fail) ++ keep) -> In m (idx s)).
  { intros m Hm. unfold idx. apply in_or_app. apply in_app_or in Hm as [Hm|Hm].
    - apply in_app_or in Hm as [Hm|Hm].
      + left. apply filter_In in Hm. tauto.
      + right. apply filter_In in Hm as [Hm _]. apply filter_In in Hm. tauto.
    - right. apply filter_In in Hm. tauto. }
  assert (Hrel : forall m, In m (retry ++ ok) -> In m (idx s)).
  { intros m Hm. unfold idx. apply in_or_app. apply in_app_or in Hm as [Hm|Hm].
    - left. apply filter_In in Hm. tauto.
    - right. apply filter_In in Hm as [Hm _]. apply filter_In in Hm. tauto. }
  pose proof (c_sorted _ _ C) as Hsort. unfold idx in Hsort.
  apply SS_app_iff in Hsort as (SP & SS & SX).
  assert (Hsorted : StronglySorted msg_lt ((still ++ fail) ++ keep)).
  { apply SS_app_iff. splits.
    - apply SS_app_iff. splits.
      + apply SS_filter. exact SP.
      + apply SS_filter. apply SS_filter. exact SS.
      + intros a b Ha Hb. apply SX. apply filter_In in Ha; tauto.
        apply filter_In in Hb as [Hb _]. apply filter_In in Hb; tauto.
    - apply SS_filter. exact SS.
    - intros a b Ha Hb. apply filter_In in Hb as [Hb Hbk].
      apply in_app_or in Ha as [Ha|Ha].
      + apply SX; auto. apply filter_In in Ha; tauto.
      + apply filter_In in Ha as [Ha _]. apply filter_In in Ha as [Ha Hac].
        apply N.leb_le in Hac. apply negb_true_iff, N.leb_gt in Hbk.
        destruct (SS_tricho _ _ _ _ SS Ha Hb) as [<-|[Hlt|Hlt]]; auto; [lia|].
        exfalso. destruct Hlt as [_ Hlt].
        assert (In a ms) by (apply Hd, (c_done _ _ C); unfold idx; apply in_or_app; auto).
        assert (In b ms) by (apply Hd, (c_done _ _ C); unfold idx; apply in_or_app; auto).
        pose proof (mlb_mono b a H1 H0 Hlt). lia. }
  (* a stored line that no released message owns survives *)
  assert (Hkeepline : forall l b, In l (lines s) -> exitsb P_retry l b = true -> In b (blocks s1) ->
                                  In l (lines s1)).
  { intros l b Hl He Hb. apply L. split; auto. intros m Hm.
    destruct (line_of m l) eqn:Elo; auto. exfalso.
    apply line_of_true in Elo as (x & Hx & Hk).
    assert (In m ms) by (apply Hd, (c_done _ _ C), Hrel, Hm).
    assert (x = l).
    { apply (wf_key_inj _ _ _ _ Hwf); auto. eapply wf_mlines_file; eauto. apply (c_lfile _ _ C). exact Hl. }
    subst x. apply B in Hb as [_ Hb]. rewrite (Hb m Hm l Hx) in He. discriminate. }
  splits; auto; try congruence.
  - constructor; cbn [set_index].
    + (* rinv *)
      pose proof (c_r _ _ C) as R. constructor; cbn.
      * rewrite F7, F8. apply (r_nread _ R).
      * apply SB. apply (r_bsorted _ R).
      * intros b Hb. pose proof Hb as Hb'. apply B in Hb' as [Hb' _]. rewrite F7.
        destruct (r_blocks _ R b Hb') as [Hlt Hcov]. split; auto.
        destruct Hcov as [(l & Hl & He)|(f & Hf & Hbf & Hed)].
        -- left. exists l. split; auto. eapply Hkeepline; eauto.
        -- right. exists f. cbn. rewrite F8. auto.
      * apply SL. apply (r_lsorted _ R).
      * intros l f Hl Hf. rewrite F8 in Hf. apply L in Hl as [Hl _]. apply (r_lfront _ R l f Hl Hf).
      * intros Hn. rewrite F8 in Hn. pose proof (r_lnone _ R Hn) as Hnil.
        destruct (lines s1) as [|l t]; auto.
        assert (In l (l :: t)) by (left; reflexivity).
        apply L in H0 as [H0 _]. rewrite Hnil in H0. destruct H0.
    + unfold idx. cbn. intros m Hm. apply (c_done _ _ C). apply Hsub. exact Hm.
    + cbn. intros l Hl. apply L in Hl as [Hl _]. apply (c_lfile _ _ C). exact Hl.
    + cbn. rewrite F8. apply (c_ffile _ _ C).
    + cbn. unfold idx. cbn. rewrite F8. intros l Hl. apply L in Hl as [Hl Hno].
      destruct (c_lmsg _ _ C l Hl) as [(m & Hm & Hlm)|Hf]; auto.
      left. exists m. split; auto.
      destruct (Hidx m Hm) as [Hr|Hk]; auto.
      specialize (Hno m Hr). rewrite (line_of_self m l Hlm) in Hno. discriminate.
    + unfold idx. cbn. exact Hsorted.
    + cbn. rewrite F4, F5, F6. destruct (c_sizes _ _ C) as (S1 & S2 & S3).
      pose proof (lenN_filter_le (fun m => negb (mlb m <=? bo)) (syslines s)). fold keep in H0.
      splits; lia.
  - (* pending *)
    assert (NoDup (map mkey (still ++ fail))) as Hnd.
    { apply SS_app_iff in Hsorted as (Hs1 & _ & _).
      eapply SS_NoDup with (R := N.lt); [intros x; lia|].
      apply SS_map. eapply SS_weaken; [|exact Hs1]. unfold msg_lt. tauto. }
    assert (incl (map mkey (still ++ fail)) (held s)) as Hinc.
    { intros k Hk. apply in_map_iff in Hk as (m & <- & Hm). apply memN_In.
      apply in_app_or in Hm as [Hm|Hm]; apply filter_In in Hm as [_ Hm]; exact Hm. }
    pose proof (NoDup_incl_lenN _ _ Hnd Hinc) as Hle. rewrite lenN_map in Hle. lia.
Qed.

(* ---- the invariant of a run *)
Definition S0 : N := (2 * span + 2) * bs.

Record inv (s : st) : Prop := {
  i_core : exists done,
     core done s /\ ms = done ++ todo s /\
     (stage2 s = true -> done = [] /\ front s = None /\ syslines s = [] /\ pending s = [] /\
                         lines s = [] /\ blocks s = []) /\
     (stage2 s = false -> exists d lastm, done = d ++ [lastm] /\
         front s = Some (match todo s with q :: _ => mfirst q | [] => mlast lastm end) /\
         (forall m, In m (syslines s) -> mend m <= mend lastm) /\
         (todo s <> [] ->
            (forall m, In m (syslines s) -> mfb lastm <= mlb m + span + 2) /\
            match wprev s with
            | Some p => p = lastm
            | None => forall m, In m (syslines s) -> m = lastm
            end));
  i_pending : lenN (pending s) <= H;
  i_hs : hs s <= bound_syslines bs span;
  i_hl : hl s <= bound_lines bs span ml H;
  i_hb : hb s <= bound_blocks bs span H
}.

Lemma rinv_frame s s' :
  nread s' = nread s -> front s' = front s -> blocks s' = blocks s -> lines s' = lines s ->
  rinv s -> rinv s'.
Proof.
  intros E1 E2 E3 E4 R. destruct R. constructor; unfold covered in *; rewrite ?E1, ?E2, ?E3, ?E4; auto.
Qed.

Lemma core_set_worker done s td st2 wp : core done s -> core done (set_worker s td st2 wp).
Proof.
  intros C. destruct C. constructor; cbn; auto.
  eapply rinv_frame; [| | | |eassumption]; reflexivity.
Qed.

Lemma core_release done s j : core done s -> core done (release s j).
Proof.
  intros C. destruct C. constructor; cbn; auto.
  eapply rinv_frame; [| | | |eassumption]; reflexivity.
Qed.

Lemma mfb_le_mlb m : In m ms -> mfb m <= mlb m.
Proof.
  intros Hm. pose proof (wf_line_span _ _ _ _ Hwf m (mlast m) Hm (mlast_in m)) as (H1 & _).
  assert (In (mlast m) (file_lines ms)) by (eapply wf_mlines_file; eauto; apply mlast_in).
  pose proof (file_line_span _ H0). unfold mlb. lia.
Qed.

Lemma count_sys s lastm :
  In lastm ms -> (forall m, In m (syslines s) -> In m ms) ->
  StronglySorted msg_lt (syslines s) ->
  (forall m, In m (syslines s) -> mend m <= mend lastm) ->
  (forall m, In m (syslines s) -> mfb lastm <= mlb m + span + 2) ->
  lenN (syslines s) <= S0.
Proof.
  intros Hl Hin Hs Hend Hwin.
  assert (StronglySorted N.lt (map mend (syslines s))) as Hs'.
  { apply SS_map. eapply SS_weaken; [|exact Hs]. unfold msg_lt. tauto. }
  pose proof (wf_mend_window _ _ _ _ Hwf lastm Hl) as (_ & L2).
  destruct (wf_msg_ok _ _ _ _ Hwf lastm Hl) as (_ & Lsp & _).
  assert (forall x, In x (map mend (syslines s)) ->
            mfb lastm * bs <= x + (span + 2) * bs /\ x < (mfb lastm + span) * bs) as Hw.
  { intros x Hx. apply in_map_iff in Hx as (m & <- & Hm).
    pose proof (wf_mend_window _ _ _ _ Hwf m (Hin m Hm)) as (M1 & _).
    specialize (Hend m Hm). specialize (Hwin m Hm). split.
    - assert (mfb lastm * bs <= (mlb m + span + 2) * bs) by (apply N.mul_le_mono_r; lia).
      rewrite !N.mul_add_distr_r in *. lia.
    - assert ((mlb lastm + 1) * bs <= (mfb lastm + span) * bs) by (apply N.mul_le_mono_r; lia).
      lia. }
  pose proof (SS_window _ _ _ _ Hs' Hw) as Hle. rewrite lenN_map in Hle.
  unfold S0. rewrite !N.mul_add_distr_r in *. lia.
Qed.

Lemma bounds_pos : 1 <= bound_syslines bs span.
Proof. unfold bound_syslines. lia. Qed.

Lemma inv_wstep s : inv s -> lenN (held (wstep c s)) <= H -> inv (wstep c s).
Proof.
  intros I Hheld. destruct I as [(done & C & E & Hst2 & Hst) Hp Hhs Hhl Hhb].
  unfold wstep in *. destruct (todo s) as [|q rest] eqn:Et.
  { constructor; auto. exists done. rewrite Et. auto. }
  assert (incl done ms) as Hdone by (rewrite E; apply incl_appl, incl_refl).
  assert (In q ms) as Hq by (rewrite E; apply in_or_app; right; left; reflexivity).
  assert (incl (done ++ [q]) ms) as Hdone'.
  { intros m Hm. apply in_app_or in Hm as [Hm|[<-|[]]]; auto. }
  destruct (stage2 s) eqn:Es.
  - (* the stage-2 find of the first message *)
    destruct (Hst2 eq_refl) as (-> & Hf0 & Hs0 & Hp0 & Hl0 & Hb0). clear Hst2 Hst.
    pose proof (core_find [] q rest s true C E (conj Hf0 eq_refl))
      as (C1 & F1 & S1 & P1 & Hh1 & T1 & St1 & W1 & M1 & M2 & M3). cbv zeta in *.
    set (s1 := do_find c s true q) in *.
    rewrite Hs0 in *. rewrite Hl0, Hb0 in *.
    rewrite ?(@lenN_nil msg), ?(@lenN_nil lspan), ?(@lenN_nil N) in *. cbn [app] in *.
    constructor; cbn [set_worker pending hs hl hb].
    + exists [q]. splits.
      * apply core_set_worker. exact C1.
      * cbn [set_worker todo stage2 front syslines wprev pending]. exact E.
      * cbn [set_worker todo stage2 front syslines wprev pending]. discriminate.
      * cbn [set_worker todo stage2 front syslines wprev pending]. intros _. exists [], q. splits; auto.
        -- rewrite S1. intros m [<-|[]]. lia.
        -- intros _. rewrite S1. split.
           ++ intros m [<-|[]]. pose proof (mfb_le_mlb q Hq). lia.
           ++ intros m [<-|[]]. reflexivity.
    + rewrite P1, Hp0, lenN_nil. lia.
    + rewrite M1. pose proof bounds_pos. lia.
    + unfold bound_lines in *. pose proof bounds_pos. nia.
    + unfold bound_blocks in *. pose proof bounds_pos. nia.
  - (* a stage-3 iteration *)
    clear Hst2. destruct (Hst eq_refl) as (d & lastm & -> & Hfr & Hend & Hwin). clear Hst.
    destruct (Hwin ltac:(discriminate)) as (Hwin1 & Hwp). clear Hwin.
    assert (ms = d ++ lastm :: q :: rest) as E2 by (rewrite E, <- app_assoc; reflexivity).
    assert (In lastm ms) as Hlast by (apply Hdone; apply in_or_app; right; left; reflexivity).
    pose proof (wf_adjacent _ _ _ _ Hwf d lastm q rest E2) as (_ & Hadj).
    destruct (wf_msg_ok _ _ _ _ Hwf lastm Hlast) as (_ & Lsp & _).
    pose proof (wf_before _ _ _ _ Hwf (d ++ [lastm]) q rest lastm E
                  ltac:(apply in_or_app; right; left; reflexivity)) as (_ & Hlt).
    (* sizes before the find *)
    assert (Hsys_in : forall m, In m (syslines s) -> In m ms).
    { intros m Hm. apply Hdone, (c_done _ _ C). unfold idx. apply in_or_app. right. exact Hm. }
    assert (StronglySorted msg_lt (syslines s)) as Hss.
    { pose proof (c_sorted _ _ C) as Hx. unfold idx in Hx. apply SS_app_iff in Hx. tauto. }
    pose proof (count_sys s lastm Hlast Hsys_in Hss Hend Hwin1) as Hcs.
    assert (lenN (idx s) <= S0 + H) as Hci by (unfold idx; rewrite lenN_app; lia).
    pose proof (count_lines _ _ C Hdone) as Hcl.
    pose proof (count_blocks _ _ C Hdone) as Hcb.
    pose proof (core_find (d ++ [lastm]) q rest s false C E Hfr)
      as (C1 & F1 & S1 & P1 & Hh1 & T1 & St1 & W1 & M1 & M2 & M3). cbv zeta in *.
    set (s1 := do_find c s false q) in *.
    assert (hs s1 <= bound_syslines bs span) as B1.
    { rewrite M1. unfold bound_syslines in *. fold S0 in *. lia. }
    assert (hl s1 <= bound_lines bs span ml H) as B2.
    { unfold bound_lines, bound_syslines in *. fold S0 in *. nia. }
    assert (hb s1 <= bound_blocks bs span H) as B3.
    { unfold bound_blocks, bound_syslines in *. fold S0 in *. nia. }
    assert (Hend1 : forall m, In m (syslines s1) -> mend m <= mend q).
    { rewrite S1. intros m Hm. apply in_app_or in Hm as [Hm|[<-|[]]]; [|lia].
      specialize (Hend m Hm). lia. }
    destruct rest as [|q' r].
    + (* the last message: break *)
      constructor; cbn [set_worker pending hs hl hb]; auto; [|rewrite P1; exact Hp].
      exists ((d ++ [lastm]) ++ [q]). splits.
      * apply core_set_worker. exact C1.
      * cbn [set_worker todo stage2 front syslines wprev pending]. rewrite app_nil_r. rewrite E, <- !app_assoc. reflexivity.
      * cbn [set_worker todo stage2 front syslines wprev pending]. discriminate.
      * cbn [set_worker todo stage2 front syslines wprev pending]. intros _. exists (d ++ [lastm]), q. splits; auto.
        intros Hne. exfalso. apply Hne. reflexivity.
    + (* drop_data_try(previous) *)
      assert (Hwin_q : forall m, In m (syslines s) -> (mfb lastm <? 3 = true \/ mfb lastm - 2 < mlb m) ->
                                 mfb q <= mlb m + span + 2).
      { intros m Hm [Hc|Hc]; [apply N.ltb_lt in Hc|]; lia. }
      assert (Hq_self : mfb q <= mlb q + span + 2) by (pose proof (mfb_le_mlb q Hq); lia).
      destruct (wprev s) as [p|] eqn:Ewp.
      * subst p.
        pose proof (core_drop ((d ++ [lastm]) ++ [q]) s1 lastm C1 Hdone')
          as (C2 & P2 & S2 & F2 & Hh2 & T2 & St2 & W2 & M1' & M2' & M3'). cbv zeta in *.
        set (s2 := do_try_drop c s1 lastm) in *.
        cbn [set_worker held] in Hheld.
        constructor; cbn [set_worker pending hs hl hb]; try congruence.
        -- exists ((d ++ [lastm]) ++ [q]). splits.
           ++ apply core_set_worker. exact C2.
           ++ cbn [set_worker todo stage2 front syslines wprev pending]. rewrite E, <- !app_assoc. reflexivity.
           ++ cbn [set_worker todo stage2 front syslines wprev pending]. discriminate.
           ++ cbn [set_worker todo stage2 front syslines wprev pending]. intros _. exists (d ++ [lastm]), q. splits; auto.
              ** rewrite F2, F1. reflexivity.
              ** intros m Hm. apply Hend1. rewrite S2 in Hm.
                 destruct (mfb lastm <? 3); auto. apply filter_In in Hm. tauto.
              ** intros _. split; [|reflexivity].
                 intros m Hm. rewrite S2 in Hm.
                 destruct (mfb lastm <? 3) eqn:E3.
                 --- rewrite S1 in Hm. apply in_app_or in Hm as [Hm|[<-|[]]]; auto.
                 --- apply filter_In in Hm as [Hm Hk]. apply negb_true_iff, N.leb_gt in Hk.
                     rewrite S1 in Hm. apply in_app_or in Hm as [Hm|[<-|[]]]; auto.
        -- rewrite Hh2 in Hheld. rewrite P1 in P2. lia.
      * (* second message: nothing remembered yet *)
        constructor; cbn [set_worker pending hs hl hb]; auto; [|rewrite P1; exact Hp].
        exists ((d ++ [lastm]) ++ [q]). splits.
        -- apply core_set_worker. exact C1.
        -- cbn [set_worker todo stage2 front syslines wprev pending]. rewrite E, <- !app_assoc. reflexivity.
        -- cbn [set_worker todo stage2 front syslines wprev pending]. discriminate.
        -- cbn [set_worker todo stage2 front syslines wprev pending]. intros _. exists (d ++ [lastm]), q. splits; auto.
           intros _. split; [|reflexivity].
           intros m Hm. rewrite S1 in Hm. apply in_app_or in Hm as [Hm|[<-|[]]]; auto.
           rewrite (Hwp m Hm). lia.
Qed.

Lemma inv_release s j : inv s -> inv (release s j).
Proof.
  intros I. destruct I as [(done & C & E & Hst2 & Hst) Hp Hhs Hhl Hhb].
  constructor; cbn; auto. exists done. splits; auto. apply core_release. exact C.
Qed.

Lemma inv_init : inv (init ms).
Proof.
  constructor; cbn; try (rewrite ?lenN_nil; lia).
  exists []. splits; auto.
  - constructor; cbn; auto.
    + constructor; cbn; auto; try (apply SSorted_nil); try (intros ? []); try (intros ? ? []); try tauto.
    + intros m [].
    + intros l [].
    + discriminate.
    + intros l [].
    + constructor.
    + lia.
  - intros _. splits; reflexivity.
  - discriminate.
Qed.

Theorem inv_run evs : forall s, inv s -> sched_ok H c s evs = true -> inv (run c s evs).
Proof.
  induction evs as [|e evs IH]; intros s I Hs; cbn [run fold_left]; auto.
  cbn [sched_ok] in Hs. apply andb_true_iff in Hs as [Hh Hs]. apply N.leb_le in Hh.
  apply IH; auto. destruct e as [|j]; cbn [step] in *.
  - apply inv_wstep; auto.
  - apply inv_release; auto.
Qed.

End Retry.

(* ------------------------------------------------------------------ the bound of the repaired policy *)

(* For every well-formed message sequence, block size, bound H on the messages the consumer side
   may reference, container kind and EVERY schedule that respects H: after every step the three
   stores are no larger than their high-water marks, and the marks never exceed bounds that
   depend on (bs, span, ml, H) only. *)
Theorem retry_bounded bs span ml H ms c evs :
  pol c = P_retry -> wf bs span ml ms -> sched_ok H c (init ms) evs = true ->
  let s := run c (init ms) evs in
  lenN (syslines s) <= hs s /\ hs s <= bound_syslines bs span /\
  lenN (lines s) <= hl s /\ hl s <= bound_lines bs span ml H /\
  lenN (blocks s) <= hb s /\ hb s <= bound_blocks bs span H /\
  lenN (pending s) <= H.
Proof.
  intros Hp Hwf Hs. cbv zeta.
  assert (inv bs span ml H ms (run c (init ms) evs)) as I.
  { eapply inv_run; eauto. apply inv_init. }
  destruct I as [(done & C & _) Hpe Hhs Hhl Hhb].
  destruct (c_sizes _ _ _ C) as (S1 & S2 & S3). splits; auto.
Qed.

(* every prefix of a schedule that respects H respects H: the bound holds after every step *)
Lemma sched_ok_prefix H c a : forall s b, sched_ok H c s (a ++ b) = true -> sched_ok H c s a = true.
Proof.
  induction a as [|e a IH]; intros s b Hs; cbn [app sched_ok] in *; auto.
  apply andb_true_iff in Hs as [H1 H2]. rewrite H1. cbn. eapply IH; eauto.
Qed.

(* ------------------------------------------------------------------ the current policy: F9b *)
(* A line that lies inside one block (in particular one that ends exactly on the block edge)
   never releases a block under P_cur: if every line of the file lies inside one block, then in a
   plain file NO block is ever released, whatever the consumer does — the retained blocks are all
   the blocks read. *)
Definition single_block (m : msg) : Prop := Forall (fun l => lfb l = llb l) (mlines m).

Lemma release_line_single bl l : lfb l = llb l -> release_line P_cur bl l = bl.
Proof.
  intros E. unfold release_line. induction bl as [|b bl IH]; cbn [filter]; auto.
  unfold exitsb at 1. rewrite E.
  destruct (llb l <=? b) eqn:E1, (b <? llb l) eqn:E2; cbn [andb negb]; try (rewrite IH; reflexivity).
  apply N.leb_le in E1. apply N.ltb_lt in E2. lia.
Qed.

Lemma fold_release_single ls : Forall (fun l => lfb l = llb l) ls ->
  forall bl, fold_left (release_line P_cur) ls bl = bl.
Proof.
  induction 1 as [|l ls Hl Hls IH]; intros bl; cbn [fold_left]; auto.
  rewrite release_line_single; auto.
Qed.

Lemma release_msg_single s m : single_block m -> blocks (release_msg P_cur s m) = blocks s.
Proof.
  intros Hs. cbn [release_msg blocks]. apply fold_release_single. exact Hs.
Qed.

Lemma release_msgs_single rel : forall s,
  Forall single_block rel ->
  blocks (fold_left (release_msg P_cur) rel s) = blocks s /\
  nread (fold_left (release_msg P_cur) rel s) = nread s /\
  syslines (fold_left (release_msg P_cur) rel s) = syslines s /\
  pending (fold_left (release_msg P_cur) rel s) = pending s /\
  todo (fold_left (release_msg P_cur) rel s) = todo s.
Proof.
  induction rel as [|m rel IH]; intros s Hf; cbn [fold_left]; auto.
  apply Forall_cons_iff in Hf as [Hm Hf]. destruct (IH (release_msg P_cur s m) Hf) as (A & B & C & D & E).
  rewrite A, B, C, D, E. rewrite release_msg_single; auto.
Qed.

Record keeps_all (s : st) : Prop := {
  k_blocks : lenN (blocks s) = nread s;
  k_single : Forall single_block (todo s) /\ Forall single_block (syslines s) /\
             Forall single_block (pending s)
}.

Lemma read_blocks_plain c cnt : forall b s,
  streamed c = false -> nread s = b ->
  lenN (blocks (read_blocks c cnt b s)) = lenN (blocks s) + N.of_nat cnt /\
  nread (read_blocks c cnt b s) = b + N.of_nat cnt.
Proof.
  induction cnt as [|cnt IH]; intros b s Hc Hn; cbn [read_blocks].
  - split; lia.
  - destruct (IH (b + 1) (read_block c s b) Hc) as (A & B).
    + unfold read_block, set_blocks. cbn. reflexivity.
    + rewrite A, B. unfold read_block, set_blocks. cbn. rewrite Hc. cbn. rewrite lenN_app.
      change (lenN [b]) with 1. lia.
Qed.

Lemma keeps_read_line c s l :
  streamed c = false -> lenN (blocks s) = nread s ->
  lenN (blocks (read_line c s l)) = nread (read_line c s l).
Proof.
  intros Hc Hk. unfold read_line, add_line. cbn.
  destruct (read_blocks_plain c (N.to_nat (llb l + 1 - nread s)) (nread s) s Hc eq_refl) as (A & B).
  rewrite A, B. lia.
Qed.

Lemma keeps_read_lines c ls : forall s,
  streamed c = false -> lenN (blocks s) = nread s ->
  lenN (blocks (fold_left (read_line c) ls s)) = nread (fold_left (read_line c) ls s).
Proof.
  induction ls as [|l ls IH]; intros s Hc Hk; cbn [fold_left]; auto.
  apply IH; auto. apply keeps_read_line; auto.
Qed.

Lemma Forall_filter {A} (P : A -> Prop) f l : Forall P l -> Forall P (filter f l).
Proof. rewrite !Forall_forall. intros H x Hx. apply filter_In in Hx. apply H. tauto. Qed.

Lemma keeps_wstep c s :
  pol c = P_cur -> streamed c = false -> keeps_all s -> keeps_all (wstep c s).
Proof.
  intros Hp Hc [Kb (Kt & Ks & Kp)]. unfold wstep. destruct (todo s) as [|q rest] eqn:Et.
  { constructor; auto. rewrite Et. auto. }
  apply Forall_cons_iff in Kt as [Kq Kt].
  pose proof (read_lines_grows c (mread (stage2 s) q) s) as (_ & _ & G). cbv zeta in G.
  destruct G as (I0 & _). destruct I0 as (I1 & I2 & _).
  assert (K1 : lenN (blocks (do_find c s (stage2 s) q)) = nread (do_find c s (stage2 s) q) /\
               syslines (do_find c s (stage2 s) q) = syslines s ++ [q] /\
               pending (do_find c s (stage2 s) q) = pending s).
  { unfold do_find, store_msg. cbn. rewrite I1, I2. splits; auto. apply keeps_read_lines; auto. }
  remember (do_find c s (stage2 s) q) as s1 eqn:Es1. clear Es1.
  destruct K1 as (K1 & K2 & K3).
  assert (Ks1 : Forall single_block (syslines s1)).
  { rewrite K2. apply Forall_app. split; auto. }
  assert (Hdrop : forall p, keeps_all (set_worker (do_try_drop c s1 p) rest false (Some q))).
  { intros p. unfold do_try_drop. destruct (mfb p <? 3).
    - constructor; cbn; auto. rewrite K3. auto.
    - rewrite Hp.
      set (rel := filter (fun m => negb (is_held s1 m)) (pending s1) ++
                  filter (fun m => negb (is_held s1 m)) (filter (fun m => mlb m <=? mfb p - 2) (syslines s1))).
      assert (Forall single_block rel) as Hrel.
      { unfold rel. apply Forall_app. split; repeat apply Forall_filter; auto. rewrite K3. auto. }
      destruct (release_msgs_single rel s1 Hrel) as (A & B & _).
      constructor; cbn.
      + fold rel. rewrite A, B. exact K1.
      + splits; auto. apply Forall_filter. auto. }
  destruct (stage2 s).
  - constructor; cbn; auto. splits; auto. rewrite K3. auto.
  - destruct rest as [|q' r].
    + constructor; cbn; auto. splits; auto. rewrite K3. auto.
    + destruct (wprev s) as [p|]; [apply Hdrop|].
      constructor; cbn; auto. splits; auto. rewrite K3. auto.
Qed.

(* F9b, general form: for EVERY plain file whose lines each lie inside one block, every schedule,
   the blocks retained by the current policy are all the blocks that were read. *)
Theorem cur_edge_keeps_all_blocks c ms evs :
  pol c = P_cur -> streamed c = false -> Forall single_block ms ->
  lenN (blocks (run c (init ms) evs)) = nread (run c (init ms) evs).
Proof.
  intros Hp Hc Hs.
  assert (keeps_all (init ms)) as K0 by (constructor; cbn; auto).
  revert K0. generalize (init ms). induction evs as [|e evs IH]; intros s K; cbn [run fold_left].
  - apply K.
  - apply IH. destruct e as [|j]; cbn [step].
    + apply keeps_wstep; auto.
    + destruct K as [Kb Kr]. constructor; cbn; auto.
Qed.

(* ------------------------------------------------------------------ the decidable wf is sound *)
Lemma chainb_sound {A} (Rb : A -> A -> bool) (R : A -> A -> Prop) l :
  (forall a b, Rb a b = true -> R a b) -> chainb Rb l = true -> chain R l.
Proof.
  intros Hr. induction l as [|x l IH]; cbn [chainb chain]; auto.
  intros H. apply andb_true_iff in H as [H1 H2]. split; auto. destruct l; auto.
Qed.

Lemma lspan_eqb_eq a b : lspan_eqb a b = true -> a = b.
Proof.
  unfold lspan_eqb. rewrite !andb_true_iff, !N.eqb_eq. intros (((((H1 & H2) & H3) & H4) & H5) & H6).
  apply Bool.eqb_prop in H4. destruct a, b; cbn in *. congruence.
Qed.

Lemma linkedb_sound ms : linkedb ms = true -> linked ms.
Proof.
  induction ms as [|m r IH]; cbn [linkedb linked]; auto.
  intros H. apply andb_true_iff in H as [H1 H2]. split; auto.
  destruct (mnext m) as [x|], r as [|q r']; try discriminate; auto.
  apply lspan_eqb_eq in H1. congruence.
Qed.

Theorem wfb_sound bs span ml ms : wfb bs span ml ms = true -> wf bs span ml ms.
Proof.
  unfold wfb, wf. rewrite !andb_true_iff.
  intros ((((((H1 & H2) & H3) & H4) & H5) & H6) & H7). splits.
  - apply N.ltb_lt. exact H1.
  - apply Forall_forall. intros l Hl. rewrite forallb_forall in H2. specialize (H2 l Hl).
    unfold line_okb in H2. rewrite !andb_true_iff, !N.leb_le, N.ltb_lt in H2. unfold line_ok. tauto.
  - eapply chainb_sound; [|exact H3]. intros a b Hab. unfold succ_okb in Hab.
    rewrite !andb_true_iff, !N.ltb_lt, N.eqb_eq in Hab. unfold succ_ok. tauto.
  - destruct ms; auto. apply N.eqb_eq. exact H4.
  - apply chain_SS.
    + unfold msg_lt. intros a b c0. lia.
    + eapply chainb_sound; [|exact H5]. intros a b Hab. unfold msg_ltb in Hab.
      rewrite andb_true_iff, !N.ltb_lt in Hab. exact Hab.
  - apply Forall_forall. intros m Hm. rewrite forallb_forall in H6. specialize (H6 m Hm).
    unfold msg_okb in H6. rewrite !andb_true_iff, !N.leb_le in H6. destruct H6 as ((A & B) & C).
    unfold msg_ok. splits; auto. apply Forall_forall. intros l Hl. rewrite forallb_forall in C.
    specialize (C l Hl). rewrite andb_true_iff, !N.leb_le in C. exact C.
  - apply linkedb_sound. exact H7.
Qed.

(* ------------------------------------------------------------------ witnesses (vm_compute) *)
Definition cur_plain : cfg := {| pol := P_cur; streamed := false |}.
Definition retry_plain : cfg := {| pol := P_retry; streamed := false |}.

(* F9a family: block size 64, three short lines, then n messages of 70 bytes (each spans two
   blocks); the consumer is 7 = cap + 2 messages behind *)
Definition lag_layout (n : nat) : list (N * bool) :=
  [(21, true); (21, true); (21, true)] ++ repeat_list [(70, true)] n.
(* F9b family: block size 512, n lines of 64 bytes (every 8th line ends exactly on a block edge,
   no line crosses one); the consumer keeps up *)
Definition edge_layout (n : nat) : list (N * bool) := repeat_list [(64, true)] n.

Definition lag_sched_ok (c : cfg) (bs : N) (layout : list (N * bool)) (lag H : N) : bool :=
  let ms := layout_msgs bs layout in sched_ok H c (init ms) (sched_lag lag (length ms)).

(* WITNESS INSTANCES (not a proof for all n): with the consumer 7 messages behind — a schedule
   that respects |held| <= 7 — the lines still stored at the end of the run of the current policy
   are all but 10 of the n + 3 lines of the file, for n = 50, 100, 200, 400 ... *)
Lemma retain_lag_witnesses :
  forallb (fun n => let s := run_layout cur_plain 64 (lag_layout n) 7 in
                    lag_sched_ok cur_plain 64 (lag_layout n) 7 7 &&
                    (N.of_nat n <=? lenN (lines s) + 7) && (N.of_nat n <=? hl s + 7) &&
                    (N.of_nat n <=? derr s + 10))
          [50; 100; 200; 400]%nat = true.
Proof. vm_compute. reflexivity. Qed.

(* ... while the repaired policy keeps at most 16 lines and 20 blocks on the same inputs and schedules *)
Lemma retain_lag_retry_witnesses :
  forallb (fun n => let s := run_layout retry_plain 64 (lag_layout n) 7 in
                    (hl s <=? 16) && (hb s <=? 20) && (hs s <=? 8))
          [50; 100; 200; 400]%nat = true.
Proof. vm_compute. reflexivity. Qed.

(* WITNESS INSTANCES for F9b: the consumer keeps up (no failed release: derr = 0), and the
   current policy still holds EVERY block of the file at the end: n/8 blocks for n lines *)
Lemma retain_edge_witnesses :
  forallb (fun n => let s := run_layout cur_plain 512 (edge_layout n) 1 in
                    (derr s =? 0) && (lenN (blocks s) =? N.of_nat n / 8) && (hb s =? N.of_nat n / 8))
          [200; 400; 800; 1600]%nat = true.
Proof. vm_compute. reflexivity. Qed.

Lemma retain_edge_retry_witnesses :
  forallb (fun n => let s := run_layout retry_plain 512 (edge_layout n) 1 in hb s <=? 4)
          [200; 400; 800; 1600]%nat = true.
Proof. vm_compute. reflexivity. Qed.

(* every message of the F9b family lies inside one block: the general theorem applies *)
Lemma edge_layout_single :
  forallb (fun n => forallb (fun m => forallb (fun l => lfb l =? llb l) (mlines m))
                            (layout_msgs 512 (edge_layout n)))
          [200; 400; 800; 1600]%nat = true.
Proof. vm_compute. reflexivity. Qed.

(* the hypotheses of retry_bounded are satisfiable: a layout with multi-line and multi-block
   messages, block size 64, the consumer 7 behind *)
Definition ex_layout : list (N * bool) :=
  [(21, true); (21, true); (21, true)] ++
  repeat_list [(70, true); (5, false); (130, false); (30, true); (43, true); (1, false); (64, true)] 40.

Lemma retry_bounded_example :
  let ms := layout_msgs 64 ex_layout in
  wfb 64 (max_span ms) (max_lines ms) ms = true /\
  sched_ok 7 retry_plain (init ms) (sched_lag 7 (length ms)) = true /\
  max_span ms = 5 /\ max_lines ms = 3 /\ lenN ms = 163 /\
  marks (run retry_plain (init ms) (sched_lag 7 (length ms))) = (13, 15, 6) /\
  marks (run cur_plain (init ms) (sched_lag 7 (length ms))) = (216, 283, 6) /\
  bound_syslines 64 5 = 769 /\ bound_lines 64 5 3 7 = 2333 /\ bound_blocks 64 5 7 = 3895.
Proof. vm_compute. repeat split; reflexivity. Qed.

(* ------------------------------------------------------------------ year-less notations: F9c *)
Lemma find_all_from c ms : forall s,
  lenN (syslines s) <= hs s ->
  let s' := fold_left (fun s m => do_find c s false m) ms s in
  syslines s' = syslines s ++ ms /\ lenN (syslines s') <= hs s'.
Proof.
  induction ms as [|m ms IH]; intros s Hs; cbv zeta; cbn [fold_left].
  - rewrite app_nil_r. auto.
  - pose proof (read_lines_grows c (mread false m) s) as (_ & _ & G). cbv zeta in G.
    destruct G as (I0 & _). destruct I0 as (I1 & _ & _ & I4 & _).
    assert (syslines (do_find c s false m) = syslines s ++ [m] /\
            lenN (syslines (do_find c s false m)) <= hs (do_find c s false m)) as (A & B).
    { unfold do_find. cbn [store_msg syslines hs]. rewrite I1. split; auto. lia. }
    destruct (IH (do_find c s false m) B) as (C & D). cbv zeta in C, D.
    split.
    + rewrite C, A, <- app_assoc. reflexivity.
    + exact D.
Qed.

(* every message of the file is stored at the same time: the mark is the number of messages *)
Theorem yearless_keeps_all c ms :
  syslines (find_all c ms) = ms /\ lenN ms <= hs (find_all c ms).
Proof.
  unfold find_all. destruct (find_all_from c ms (init ms)) as (A & B).
  - cbn. lia.
  - cbv zeta in A, B. cbn [init syslines app] in A. rewrite A in B. auto.
Qed.
