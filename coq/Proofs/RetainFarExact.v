(* Proofs/RetainFarExact.v — property C17: the class of finding F9a under the canonical schedule,
   EXACTLY.  For message sequences with keys 0..n-1 whose blocks are ordered like the messages
   (`ordered ms`; true of every well-formed sequence: wf_ordered), any policy and any lag >= 1:
       drop_sysline Err = 0 under sched_lag lag   <->   reached_heldb lag ms = false.

   EXTRA HYPOTHESIS with respect to the request: `ordered ms` (a later message does not end before an
   earlier message's first block), needed for the direction <- only.  Without it the equivalence is
   false: the message found in the iteration of the drop is ALREADY referenced by the consumer side
   at the time of the drop (store_msg appends its key to `held` in do_find, before do_try_drop), so
   on a sequence that is not ordered that message itself can be a candidate and make the release
   fail, and reached_held (which has mkey m <= mkey p) does not see it.  The direction -> needs no
   such hypothesis (no_err_reached_false). *)
From Coq Require Import List Arith NArith Bool Sorted Lia.
Import ListNotations.
From S4.Model Require Import Retain.
From S4.Proofs Require Import RetainProofs RetainLayout RetainLag RetainKeepsUp RetainNoErr RetainFar RetainFarConv.
Open Scope N_scope.

Definition ordered (ms : list msg) : Prop :=
  forall m p, In m ms -> In p ms -> mkey p < mkey m -> mfb p <= mlb m.

Definition orderedb (ms : list msg) : bool :=
  forallb (fun m => forallb (fun p => negb (mkey p <? mkey m) || (mfb p <=? mlb m)) ms) ms.

Lemma orderedb_sound ms : orderedb ms = true -> ordered ms.
Proof.
  unfold orderedb, ordered. intros Hb m p Hm Hp Hlt.
  rewrite forallb_forall in Hb. specialize (Hb m Hm). rewrite forallb_forall in Hb. specialize (Hb p Hp).
  apply orb_true_iff in Hb as [Hb|Hb].
  - apply negb_true_iff, N.ltb_ge in Hb. lia.
  - apply N.leb_le in Hb. exact Hb.
Qed.

(* the distance condition restricted to the drops that are issued *)
Definition far_issued (lag : N) (ms : list msg) : Prop :=
  forall m p, In m ms -> In p ms -> 3 <= mfb p -> 1 <= mkey p -> mkey p + 2 < lenN ms ->
              mkey m <= mkey p -> mlb m + 2 <= mfb p -> mkey m + lag <= mkey p + 1.

Lemma reached_heldb_complete lag ms : reached_held lag ms -> reached_heldb lag ms = true.
Proof.
  intros (m & p & A1 & A2 & A3 & A4 & A5 & A6 & A7 & A8). unfold reached_heldb.
  apply existsb_exists. exists p. split; [exact A2|].
  rewrite !andb_true_iff. splits; try (apply N.leb_le; lia); try (apply N.ltb_lt; lia).
  apply existsb_exists. exists m. split; [exact A1|].
  rewrite !andb_true_iff. splits; try (apply N.leb_le; lia); try (apply N.ltb_lt; lia).
Qed.

Lemma reached_heldb_iff lag ms : reached_heldb lag ms = true <-> reached_held lag ms.
Proof. split; [apply reached_heldb_sound|apply reached_heldb_complete]. Qed.

Lemma reached_false_far_issued lag ms : reached_heldb lag ms = false -> far_issued lag ms.
Proof.
  intros Hb m p A1 A2 A3 A7 A6 A8 A4.
  destruct (N.le_gt_cases (mkey m + lag) (mkey p + 1)) as [H|H]; [exact H|exfalso].
  assert (reached_held lag ms) as Hr by (exists m, p; splits; auto; lia).
  apply reached_heldb_complete in Hr. congruence.
Qed.

Section Exact.
Variables (c : cfg) (lag : N) (ms : list msg).
Hypothesis Hlag : 1 <= lag.
Hypothesis Hkeys : map mkey ms = nseq 0 (length ms).
Hypothesis Hord : ordered ms.
Hypothesis Hfar : far_issued lag ms.

Let n := length ms.

Record X (k : nat) (s : st) : Prop := {
  x_split : exists done, ms = done ++ todo s /\ length done = k;
  x_stage : stage2 s = Nat.eqb k 0;
  x_prev0 : (k <= 1)%nat -> wprev s = None;
  x_prev : (2 <= k)%nat -> (k < n)%nat ->
           exists p, wprev s = Some p /\ In p ms /\ mkey p + 1 = N.of_nat k;
  x_held : held s = nseq (N.of_nat k - lag) (N.to_nat (N.min (N.of_nat k) lag));
  x_sys : forall m, In m (syslines s) -> In m ms /\ mkey m < N.of_nat k;
  x_derr : derr s = 0
}.

Lemma not_held' s k m : held s = nseq (N.of_nat k + 1 - lag) (N.to_nat (N.min (N.of_nat k + 1) lag)) ->
  mkey m + lag <= N.of_nat k -> is_held s m = false.
Proof.
  intros Hh H1. unfold is_held. destruct (memN (mkey m) (held s)) eqn:E; [|reflexivity].
  apply memN_In in E. rewrite Hh in E. apply in_nseq in E. rewrite N2Nat.id in E. lia.
Qed.

Lemma X_step k s : (k < n)%nat -> X k s -> X (S k) (run c s (iter_events lag (N.of_nat k))).
Proof.
  intros Hk [(done & E & Hlen) Hst Hp0 Hp Hh Hsys Hde].
  set (K := N.of_nat k) in *.
  set (s0 := run c s (if lag <=? K then [ER (K - lag)] else [])).
  assert (Hs0 : held s0 = nseq (K + 1 - lag) (N.to_nat (N.min K (lag - 1))) /\
                syslines s0 = syslines s /\ todo s0 = todo s /\
                stage2 s0 = stage2 s /\ wprev s0 = wprev s /\ derr s0 = derr s).
  { unfold s0. destruct (N.leb_spec lag K) as [Hle|Hgt].
    - cbn [run fold_left step release held syslines pending todo stage2 wprev derr].
      rewrite Hh. replace (N.min K lag) with lag by lia.
      replace (N.to_nat lag) with (S (N.to_nat (lag - 1))) by lia.
      rewrite filter_nseq_head. replace (N.min K (lag - 1)) with (lag - 1) by lia.
      replace (K - lag + 1) with (K + 1 - lag) by lia.
      splits; auto.
    - cbn [run fold_left]. rewrite Hh. replace (K - lag) with 0 by lia. replace (K + 1 - lag) with 0 by lia.
      replace (N.min K lag) with K by lia. replace (N.min K (lag - 1)) with K by lia.
      splits; auto. }
  destruct Hs0 as (Hh0 & S0' & T0 & St0 & W0 & D0).
  assert (Hrun : run c s (iter_events lag K) = wstep c s0).
  { unfold iter_events. rewrite run_app. fold s0. reflexivity. }
  destruct (todo s) as [|q rest] eqn:Et.
  { exfalso. rewrite app_nil_r in E. subst done. unfold n in Hk. lia. }
  assert (Hq : In q ms) by (rewrite E; apply in_or_app; right; left; reflexivity).
  pose proof (key_of_split 3 ms ltac:(lia) Hkeys _ _ _ E) as Hkq. rewrite Hlen in Hkq. fold K in Hkq.
  assert (Hn : n = (k + S (length rest))%nat) by (unfold n; rewrite E, app_length; cbn [length]; lia).
  assert (HnN : lenN ms = N.of_nat n) by reflexivity.
  rewrite Hrun. unfold wstep. rewrite T0, St0, W0.
  set (s1 := do_find c s0 (stage2 s) q).
  pose proof (read_lines_grows c (mread (stage2 s) q) s0) as (_ & _ & RG). cbv zeta in RG.
  destruct RG as (RI & _).
  destruct RI as (I1 & I2 & I3 & I4 & I5 & I6 & I7 & I8 & I9).
  assert (F1 : syslines s1 = syslines s ++ [q] /\
               held s1 = nseq (K + 1 - lag) (N.to_nat (N.min (K + 1) lag)) /\ derr s1 = 0).
  { unfold s1, do_find. cbn [store_msg syslines pending held derr].
    splits.
    - rewrite I1, S0'. reflexivity.
    - rewrite I3, Hh0, Hkq.
      replace K with (K + 1 - lag + N.of_nat (N.to_nat (N.min K (lag - 1)))) at 3 by lia.
      rewrite <- nseq_snoc. f_equal. lia.
    - rewrite I9, D0. exact Hde. }
  destruct F1 as (FS & FH & FD).
  assert (HK1 : N.of_nat (S k) = K + 1) by lia.
  assert (Hsys1 : forall m, In m (syslines s1) -> In m ms /\ mkey m < K + 1).
  { rewrite FS. intros m Hm. apply in_app_or in Hm as [Hm|[<-|[]]].
    - destruct (Hsys m Hm). split; auto. lia.
    - split; auto. lia. }
  assert (Hsplit1 : ms = (done ++ [q]) ++ rest) by (rewrite E, <- app_assoc; reflexivity).
  assert (Hlen1 : length (done ++ [q]) = S k) by (rewrite app_length; cbn [length]; lia).
  assert (Hnodrop : forall wp,
            ((S k <= 1)%nat -> wp = None) ->
            ((2 <= S k)%nat -> (S k < n)%nat -> exists p, wp = Some p /\ In p ms /\ mkey p + 1 = N.of_nat (S k)) ->
            X (S k) (set_worker s1 rest false wp)).
  { intros wp Hw0 Hw. constructor; cbn [set_worker todo stage2 wprev held pending syslines derr]; auto.
    - exists (done ++ [q]). split; auto.
    - rewrite FH. f_equal; [lia|]. f_equal. lia.
    - rewrite HK1. exact Hsys1. }
  destruct (stage2 s) eqn:Es2.
  - assert (k = 0)%nat as Hk0 by (destruct k; [reflexivity|rewrite Hst in Es2; discriminate]).
    apply Hnodrop; auto. intros; lia.
  - assert (0 < k)%nat as Hk0 by (destruct k; [rewrite Hst in Es2; discriminate|lia]).
    destruct rest as [|q' r].
    + apply Hnodrop; auto.
      * intros; lia.
      * intros _ Hlt. cbn [length] in Hn. lia.
    + destruct (wprev s) as [p|] eqn:Ewp.
      * (* the drop is issued: p is not message 0, and message k is not the last *)
        assert (2 <= k)%nat as Hk2.
        { destruct (Nat.le_gt_cases 2 k); auto. specialize (Hp0 ltac:(lia)). discriminate. }
        destruct (Hp Hk2 Hk) as (p0 & Ep & Hpin & Hpk). injection Ep as Ep. subst p0.
        fold K in Hpk.
        assert (Hissued : 1 <= mkey p /\ mkey p + 2 < lenN ms).
        { rewrite HnN. cbn [length] in Hn. lia. }
        set (s2 := do_try_drop c s1 p).
        assert (Hs2 : held s2 = held s1 /\ derr s2 = 0 /\
                      (forall m, In m (syslines s2) -> In m (syslines s1))).
        { split; [apply try_drop_held|].
          unfold s2, do_try_drop. destruct (mfb p <? 3) eqn:E3; [splits; auto|].
          apply N.ltb_ge in E3.
          assert (filter (is_held s1) (filter (fun m => mlb m <=? mfb p - 2) (syslines s1)) = []) as ->.
          { apply filter_none'. intros m Hm. apply filter_In in Hm as [Hm Hc]. apply N.leb_le in Hc.
            destruct (Hsys1 m Hm) as (Hmin & Hmk).
            apply (not_held' s1 k m); [exact FH|]. fold K.
            destruct (N.eq_dec (mkey m) K) as [Ek|Nk].
            - (* the message just found: not a candidate of an ordered sequence *)
              exfalso. pose proof (Hord m p Hmin Hpin ltac:(lia)). lia.
            - pose proof (Hfar m p Hmin Hpin E3 (proj1 Hissued) (proj2 Hissued) ltac:(lia) ltac:(lia)). lia. }
          cbn [set_index held pending derr syslines]. rewrite FD.
          splits.
          - reflexivity.
          - intros m Hm. apply filter_In in Hm as [Hm _]. exact Hm. }
        destruct Hs2 as (H2h & H2d & H2s).
        constructor; cbn [set_worker todo stage2 wprev held pending syslines derr]; auto.
        -- exists (done ++ [q]). split; auto.
        -- intros; lia.
        -- intros _ _. exists q. splits; auto. rewrite Hkq. lia.
        -- rewrite H2h, FH. f_equal; [lia|]. f_equal. lia.
        -- rewrite HK1. intros m Hm. apply Hsys1. apply H2s. exact Hm.
      * assert (k = 1)%nat as Hk1.
        { destruct (Nat.le_gt_cases 2 k) as [H2|H2]; [|lia].
          destruct (Hp H2 Hk) as (p & Ep & _). discriminate. }
        apply Hnodrop; auto.
        -- intros; lia.
        -- intros _ _. exists q. splits; auto. rewrite Hkq. lia.
Qed.

Lemma X_init : X 0 (init ms).
Proof.
  constructor; cbn [init todo stage2 wprev held pending syslines derr].
  - exists []. split; reflexivity.
  - reflexivity.
  - auto.
  - intros H; inversion H.
  - rewrite N.min_0_l. reflexivity.
  - intros m [].
  - reflexivity.
Qed.

Lemma X_iter cnt : forall k s, (k + cnt = n)%nat -> X k s ->
  X n (run c s (flat_map (iter_events lag) (nseq (N.of_nat k) cnt))).
Proof.
  induction cnt as [|cnt IH]; intros k s Hk Hq.
  - cbn [nseq flat_map run fold_left]. replace n with k by lia. auto.
  - cbn [nseq flat_map]. rewrite run_app.
    pose proof (X_step k s ltac:(lia) Hq) as B.
    replace (N.of_nat k + 1) with (N.of_nat (S k)) by lia.
    apply (IH (S k)); [lia|exact B].
Qed.

Theorem far_issued_no_err_sec : derr (run c (init ms) (sched_lag lag n)) = 0.
Proof.
  pose proof (X_iter n 0%nat (init ms) ltac:(lia) X_init) as B.
  change (flat_map (iter_events lag) (nseq (N.of_nat 0) n)) with (sched_lag lag n) in B.
  destruct B. assumption.
Qed.

End Exact.

(* no issued drop reaches a referenced message => no release fails (either policy) *)
Theorem far_issued_no_err : forall c lag ms, 1 <= lag -> map mkey ms = nseq 0 (length ms) -> ordered ms ->
  far_issued lag ms -> derr (run c (init ms) (sched_lag lag (length ms))) = 0.
Proof. intros c lag ms H1 Hk Ho Hf. exact (far_issued_no_err_sec c lag ms H1 Hk Ho Hf). Qed.

(* direction ->, without `ordered` *)
Theorem no_err_reached_false : forall c lag ms, 1 <= lag -> map mkey ms = nseq 0 (length ms) ->
  derr (run c (init ms) (sched_lag lag (length ms))) = 0 -> reached_heldb lag ms = false.
Proof.
  intros c lag ms H1 Hk Hd. destruct (reached_heldb lag ms) eqn:E; [exfalso|reflexivity].
  apply reached_heldb_sound in E. pose proof (reached_held_err c lag ms H1 Hk E). lia.
Qed.

(* THE EQUIVALENCE: the recorded class of F9a is exactly the set of inputs on which the consumer
   `lag` behind makes a release fail *)
Theorem no_err_iff : forall c lag ms, 1 <= lag -> map mkey ms = nseq 0 (length ms) -> ordered ms ->
  (derr (run c (init ms) (sched_lag lag (length ms))) = 0 <-> reached_heldb lag ms = false).
Proof.
  intros c lag ms H1 Hk Ho. split.
  - apply no_err_reached_false; auto.
  - intros Hb. apply far_issued_no_err; auto. apply reached_false_far_issued. exact Hb.
Qed.

Corollary err_iff : forall c lag ms, 1 <= lag -> map mkey ms = nseq 0 (length ms) -> ordered ms ->
  (0 < derr (run c (init ms) (sched_lag lag (length ms))) <-> reached_held lag ms).
Proof.
  intros c lag ms H1 Hk Ho. rewrite <- reached_heldb_iff.
  pose proof (no_err_iff c lag ms H1 Hk Ho) as [A B].
  destruct (reached_heldb lag ms); split; intros H.
  - reflexivity.
  - destruct (N.eq_dec (derr (run c (init ms) (sched_lag lag (length ms)))) 0) as [Z|Z]; [|lia].
    specialize (A Z). discriminate.
  - specialize (B eq_refl). lia.
  - discriminate.
Qed.

(* ------------------------------------------------------------------ every well-formed sequence is ordered *)
Lemma sorted_cases {A} (R : A -> A -> Prop) l : StronglySorted R l ->
  forall x y, In x l -> In y l -> x = y \/ R x y \/ R y x.
Proof.
  induction 1 as [|a l Hs IH Hf]; intros x y Hx Hy; [destruct Hx|].
  rewrite Forall_forall in Hf.
  destruct Hx as [<-|Hx], Hy as [<-|Hy]; auto.
Qed.

Lemma wf_ordered bs span ml ms : wf bs span ml ms -> ordered ms.
Proof.
  intros (Hbs & Hlines & _ & _ & Hsort & Hok & _) m p Hm Hp Hlt.
  rewrite Forall_forall in Hlines, Hok.
  assert (Hlast : forall x, In x ms -> In (mlast x) (mlines x)) by (intros x _; apply last_in).
  assert (Hfile : forall x, In x ms -> In (mlast x) (file_lines ms)).
  { intros x Hx. unfold file_lines. apply in_flat_map. exists x. split; auto. }
  destruct (Hok p Hp) as (_ & _ & Hfp). rewrite Forall_forall in Hfp.
  destruct (Hfp (mlast p) (Hlast p Hp)) as (P1 & _).
  destruct (Hlines (mlast p) (Hfile p Hp)) as (P2 & P3 & _).
  destruct (Hlines (mlast m) (Hfile m Hm)) as (_ & _ & M3).
  assert (Hend : mend p < mend m).
  { destruct (sorted_cases msg_lt ms Hsort p m Hp Hm) as [->|[(_ & H)|(H & _)]]; [lia|exact H|lia]. }
  unfold mend, mlb in *.
  assert (llb (mlast p) * bs < (llb (mlast m) + 1) * bs) as Hmul by lia.
  apply N.mul_lt_mono_pos_r in Hmul; [|exact Hbs]. unfold mfb in *. lia.
Qed.

Theorem no_err_iff_wf : forall bs span ml c lag ms, wf bs span ml ms -> 1 <= lag ->
  map mkey ms = nseq 0 (length ms) ->
  (derr (run c (init ms) (sched_lag lag (length ms))) = 0 <-> reached_heldb lag ms = false).
Proof. intros bs span ml c lag ms Hwf H1 Hk. apply no_err_iff; auto. eapply wf_ordered; eauto. Qed.

Example ordered_examples :
  orderedb (layout_msgs 512 RetainNoErr.far_layout) = true /\ orderedb (layout_msgs 64 ex_layout) = true.
Proof. vm_compute. split; reflexivity. Qed.

Print Assumptions no_err_iff.
Print Assumptions no_err_iff_wf.
