(* Proofs/CoordReplayProofs.v — the print events of a replayed trace are the sources of
   [merge], in order (ties the trace-level check of the correspondence run to C01/C06). *)
From Coq Require Import List ZArith Bool Arith Lia.
From S4.Model Require Import Merge Coord.
From S4.Proofs Require Import MergeProofs CoordProofs.
Import ListNotations.

Definition tprints (t : list tev) : list nat :=
  flat_map (fun e => match e with TP i => [i] | _ => [] end) t.

Lemma tprints_app a b : tprints (a ++ b) = tprints a ++ tprints b.
Proof. unfold tprints. apply flat_map_app. Qed.

(* every message held for source i (unsent, queued or pending) carries tag i *)
Definition datum_tag (i : nat) (d : datum) : Prop :=
  match d with DMsg m => m_src m = i | _ => True end.

Definition src_tagged (i : nat) (x : src) : Prop :=
  Forall (datum_tag i) (unsent x) /\ Forall (datum_tag i) (queue x) /\
  (forall m, pending x = Some m -> m_src m = i).

Definition tagged (s : state) : Prop :=
  forall i x, nth_error (srcs s) i = Some x -> src_tagged i x.

Lemma nth_error_upd_other {A} (f : A -> A) : forall l i j,
  i <> j -> nth_error (upd i f l) j = nth_error l j.
Proof.
  induction l as [|a l IH]; intros [|i] [|j] H; simpl; auto; try congruence.
Qed.

Lemma nth_error_upd_inv {A} (f : A -> A) l i j y :
  nth_error (upd i f l) j = Some y ->
  (j = i /\ exists x, nth_error l i = Some x /\ y = f x) \/ (j <> i /\ nth_error l j = Some y).
Proof.
  intros H. destruct (Nat.eq_dec j i) as [->|Hne].
  - left. split; auto. destruct (nth_error l i) as [x|] eqn:E.
    + rewrite (nth_error_upd f l i x E) in H. inversion H. eauto.
    + exfalso. assert (Hlen : length (upd i f l) = length l).
      { clear. revert i. induction l; intros [|i]; simpl; auto. }
      apply nth_error_None in E. assert (nth_error (upd i f l) i = None).
      { apply nth_error_None. lia. }
      congruence.
  - right. split; auto. rewrite nth_error_upd_other in H; auto.
Qed.

Lemma tagged_init Ss : well_tagged Ss -> tagged (init Ss).
Proof.
  intros Hwt i x Hx. unfold init in Hx. simpl in Hx.
  apply nth_error_map_inv in Hx as (l & Hl & <-).
  unfold src_tagged, init_src, worker_datums. simpl. repeat split; auto; try discriminate.
  constructor; [exact I|]. apply Forall_app. split; [|repeat constructor].
  apply Forall_map. apply Forall_forall. intros m Hm. simpl. apply Hwt.
  rewrite (nth_error_nth _ _ _ Hl). exact Hm.
Qed.

Lemma tagged_step cap s e s' : tagged s -> step cap s e = Some s' -> tagged s'.
Proof.
  intros Ht. unfold step. destruct e as [i|i|].
  - destruct (nth_error (srcs s) i) as [x|] eqn:Ex; [|discriminate].
    destruct (unsent x) as [|d u] eqn:Eu; [discriminate|].
    destruct (Nat.ltb (length (queue x)) cap); [|discriminate].
    intros H; inversion H; subst; clear H. intros j y Hy. simpl in Hy.
    apply nth_error_upd_inv in Hy as [(-> & x0 & Hx0 & ->)|(Hne & Hy)]; [|now apply Ht].
    destruct (Ht i x Ex) as (Hu & Hq & Hp). rewrite Eu in Hu. inversion Hu; subst.
    unfold src_tagged. simpl. repeat split; auto. apply Forall_app. split; auto.
  - destruct (wait_mode s); [|discriminate].
    destruct (nth_error (srcs s) i) as [x|] eqn:Ex; [|discriminate].
    destruct (live x && negb (has_pending x)); [|discriminate].
    destruct (Ht i x Ex) as (Hu & Hq & Hp).
    destruct (queue x) as [|d q] eqn:Eq.
    + destruct (unsent x) eqn:Eu; [|discriminate].
      intros H; inversion H; subst; clear H. intros j y Hy. simpl in Hy.
      apply nth_error_upd_inv in Hy as [(-> & x0 & Hx0 & ->)|(Hne & Hy)]; [|now apply Ht].
      unfold src_tagged. simpl. repeat split; auto.
    + intros H; inversion H; subst; clear H. intros j y Hy. simpl in Hy.
      apply nth_error_upd_inv in Hy as [(-> & x0 & Hx0 & ->)|(Hne & Hy)]; [|now apply Ht].
      inversion Hq as [|? ? Hd Hq']; subst.
      unfold src_tagged, recv_datum. destruct d; simpl; repeat split; auto.
      intros m0 E. inversion E; subst. exact Hd.
  - destruct (wait_mode s); [discriminate|].
    destruct (first_min (map pending (srcs s))) as [[i m]|]; [|discriminate].
    intros H; inversion H; subst; clear H. intros j y Hy. simpl in Hy.
    apply nth_error_upd_inv in Hy as [(-> & x0 & Hx0 & ->)|(Hne & Hy)]; [|now apply Ht].
    destruct (Ht i x0 Hx0) as (Hu & Hq & Hp).
    unfold src_tagged, clear_pending. simpl. repeat split; auto. discriminate.
Qed.

Lemma tagged_replay_recv cap s i k s' : tagged s -> replay_recv cap s i k = Some s' -> tagged s'.
Proof.
  intros Ht H. apply replay_recv_steps in H as [(s1 & H1 & H2)|H].
  - eapply tagged_step; [|exact H2]. eapply tagged_step; eauto.
  - eapply tagged_step; eauto.
Qed.

Lemma replay_recv_printed cap s i k s' : replay_recv cap s i k = Some s' -> printed s' = printed s.
Proof.
  assert (Hstep : forall a e b, e <> Print -> step cap a e = Some b -> printed b = printed a).
  { intros a e b He. unfold step. destruct e as [j|j|]; [| |congruence].
    - destruct (nth_error (srcs a) j) as [x|]; [|discriminate].
      destruct (unsent x); [discriminate|].
      destruct (Nat.ltb (length (queue x)) cap); [|discriminate].
      intros H; now inversion H.
    - destruct (wait_mode a); [|discriminate].
      destruct (nth_error (srcs a) j) as [x|]; [|discriminate].
      destruct (live x && negb (has_pending x)); [|discriminate].
      destruct (queue x).
      + destruct (unsent x); [|discriminate]. intros H; now inversion H.
      + intros H; now inversion H. }
  intros H. apply replay_recv_steps in H as [(s1 & H1 & H2)|H].
  - apply Hstep in H1, H2; try discriminate. congruence.
  - apply Hstep in H; [auto|discriminate].
Qed.

Lemma replay_prints_gen cap : forall fuel s recvs t s',
  tagged s -> replay fuel cap s recvs = RDone t s' ->
  map m_src (printed s') = map m_src (printed s) ++ tprints t.
Proof.
  induction fuel as [|f IH]; intros s recvs t s' Ht H; [discriminate|].
  rewrite replay_S in H. destruct (final s).
  - destruct recvs; [|discriminate]. inversion H; subst. simpl. now rewrite app_nil_r.
  - destruct (wait_mode s) eqn:Ew.
    + destruct recvs as [|[i k] r]; [discriminate|].
      destruct (replay_recv cap s i k) as [s1|] eqn:E; [|discriminate].
      apply prepend_done in H as (t0 & H & ->).
      rewrite (IH _ _ _ _ (tagged_replay_recv _ _ _ _ _ Ht E) H).
      rewrite (replay_recv_printed _ _ _ _ _ E), tprints_app. f_equal.
      destruct (disconnects k); reflexivity.
    + destruct (first_min (map pending (srcs s))) as [[i m]|] eqn:Ef; [|discriminate].
      destruct (step cap s Print) as [s1|] eqn:E; [|discriminate].
      apply prepend_done in H as (t0 & H & ->).
      rewrite (IH _ _ _ _ (tagged_step _ _ _ _ Ht E) H).
      unfold step in E. rewrite Ew, Ef in E. inversion E; subst. simpl.
      rewrite map_app, <- app_assoc. simpl. f_equal. f_equal.
      apply first_min_pending in Ef as (x & Ex & Ep).
      destruct (Ht i x Ex) as (_ & _ & Hp). now apply Hp.
Qed.

(* the print events of a successful replay name the sources of [merge Ss], in order *)
Lemma replay_prints cap Ss recvs t s' :
  well_tagged Ss -> coord_replay cap Ss recvs = RDone t s' ->
  tprints t = map m_src (merge Ss).
Proof.
  intros Hwt H. pose proof (coord_replay_output _ _ _ _ _ H) as (_ & Hp & _).
  unfold coord_replay in H.
  apply replay_prints_gen in H; [|now apply tagged_init].
  rewrite Hp in H. simpl in H. now rewrite H.
Qed.
