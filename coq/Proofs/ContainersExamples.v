(* Proofs/ContainersExamples.v — the hypotheses of the WP-J implications are satisfiable: concrete
   non-trivial instances, evaluated (vm_compute) through the same model functions. *)
From Coq Require Import String Lia.
From S4.Base Require Import Bytes.
From S4.Spec Require Import AssembleSpec ContainersSpec.
From S4.Model Require Import Assemble Containers.
From S4.Proofs Require Import AssembleProofs AssembleTheorems ContainersGz ContainersGlue ContainersTar.
Open Scope N_scope.

(* gz_single_member_blocks: a member with every optional field, a 7-byte payload, block size 3, and a
   decoder (sched_read, which meets the contract: contract_satisfiable_sched) that hands out 1, 2, 1 ...
   bytes per read *)
Example gz_whole_example :
  let plain := [104; 101; 108; 108; 111; 33; 10] in
  let f := gz_member gz_example_fields [3; 0] plain in
  let mkdec := fun _ : bytes => (plain, [1; 2; 1]) in
  sched_remaining (mkdec ([3; 0] ++ gz_trailer plain)) = plain
  /\ blen plain < TWO32 /\ blen f <= GZ_MAX_SZ
  /\ map (gz_read_block sched_state sched_read mkdec 3 f) [0; 1; 2; 3]
     = [COk (BFound [104; 101; 108]); COk (BFound [108; 111; 33]); COk (BFound [10]); COk BDone]
  /\ (match gz_new f with COk d => Some (gd_filesz d, gd_mtime d) | _ => None end) = Some (7, 1700000000).
Proof. cbv zeta. repeat split; vm_compute; (reflexivity || discriminate). Qed.

(* bz2_new_size / lz4_new_size / ntf_copy_is_plain *)
Example prepass_example :
  let plain := [1; 2; 3; 4; 5] in
  let mkdec := fun _ : bytes => (plain, [2; 1]) in
  bz2_new sched_state sched_read mkdec 6 [66; 90; 104; 57; 0; 0; 0; 0; 0; 0; 0; 0; 0; 0] = COk 5
  /\ bz2_new sched_state sched_read mkdec 6 [66; 90; 104] = CErr CBz2TooSmall
  /\ lz4_new sched_state sched_read mkdec 6 [] = COk 5
  /\ ntf_copy sched_state sched_read mkdec 6 [] = COk plain.
Proof. cbv zeta. repeat split; vm_compute; reflexivity. Qed.

(* xz_precheck_ok / xz_new_single_stream: the first 14 bytes of a real .xz (CRC64 check), 5 plain
   bytes, block size 2: blocks 0..2 and filesz 5 *)
Example xz_example :
  let f := [0xFD; 0x37; 0x7A; 0x58; 0x5A; 0x00; 0x00; 0x04; 0xE6; 0xD6; 0xB4; 0x46; 0x02; 0x00; 0x21] in
  xz_precheck f = None
  /\ xz_new 2 f [XzOk [1; 2; 3; 4; 5]; XzEofErr] = COk ([(0, [1; 2]); (1, [3; 4]); (2, [5])], 5)
  /\ xz_new 2 f [XzOtherErr] = CErr CDecoder
  /\ xz_precheck (firstn 13 f) = Some CXzShort.
Proof. cbv zeta. repeat split; vm_compute; reflexivity. Qed.

(* tar_archive_member_blocks: a directory entry, then a member under a prefix; from the archive BYTES *)
Example tar_bytes_example :
  let e1 := mk_tent [100; 47] [] 53 493 0 0 0 5 [] [] in
  let e2 := mk_tent [120; 46; 108; 111; 103] [100] 48 420 0 0 3 1700000000 [] [65; 66; 67] in
  let items := map ritem_to_item (tar_ref_list (tar_archive [e1; e2])) in
  let mkdec := fun d : bytes => (d, [1; 1]) in
  (forall d, sched_remaining (mkdec d) = d)
  /\ tar_new ([97; 46; 116; 97; 114] ++ SUBPATH_SEP :: tar_path e2) items = COk (mk_tard [97; 46; 116; 97; 114] 1 3 1700000000)
  /\ map (tar_read_block sched_state sched_read mkdec 2 items (mk_tard [97; 46; 116; 97; 114] 1 3 1700000000)) [0; 1; 2]
     = [BFound [65; 66]; BFound [67]; BDone]
  /\ process_path_tar_m [97; 46; 116; 97; 114] items = [PListed ([97; 46; 116; 97; 114] ++ SUBPATH_SEP :: tar_path e2)].
Proof. cbv zeta. split; [reflexivity|]. repeat split; vm_compute; reflexivity. Qed.

(* a header flate2 refuses (reserved FLG bit): gz_bad_header's hypotheses *)
Example gz_bad_header_example :
  let f := [0x1f; 0x8b; 8; 0x20; 1; 0; 0; 0; 0; 3; 3; 0; 0; 0; 0; 0; 5; 0; 0; 0] in
  gz_parse_header f = GErr GzBadHeader /\ 8 <= lenN f /\ lenN f <= GZ_MAX_SZ
  /\ (match gz_new f with COk d => Some (gd_filesz d, gd_mtime d) | _ => None end) = Some (5, 0).
Proof. cbv zeta. repeat split; vm_compute; (reflexivity || discriminate). Qed.
