(* Proofs/CachesStreamProofs.v — streamed containers (gz / bz2 / lz4).

   Part S1  with drops DISABLED (BlockReader::disable_drop_data, what SyslogProcessor does for a streamed
            file whose timestamps lack a year before the reverse pass of process_missing_year) every
            block ever decoded stays and every block can be read: the streamed machine satisfies the
            invariant of the plain machine, so EVERY call history (backward calls included) is
            answered as the spec says.
   Part S2  with drops ENABLED a backward call fails: refuted statements with witnesses. *)
From S4.Base Require Import Bytes Chunk.
From S4.Spec Require Import LinesSpec.
From S4.Model Require Import Lines Syslines Caches.
From S4.Proofs Require Import LinesProofs SyslinesProofs CachesProofs CachesSysProofs CachesRunProofs CachesExamples.
Open Scope N_scope.

(* a streamed reader right after disable_drop_data *)
Definition sr_stream_nodrop : sr_state :=
  sr_set_lr (lr_set_blk (b_disable_drop (l_blk (s_lr (sr_init_k true)))) (s_lr (sr_init_k true))) (sr_init_k true).

Lemma reads_total_stream_nodrop : reads_total (b_disable_drop (b_init true)).
Proof.
  right. left. split; [reflexivity|]. split; [reflexivity|]. split; [reflexivity|]. split.
  - intro x. cbn. destruct (N.ltb_spec x 0); [lia|reflexivity].
  - intros x X. cbn in X. discriminate.
Qed.

Section StreamNoDrop.
  Variable dated : list N -> option Z.
  Variable bs : N.
  Variable f : file.
  Hypothesis Hbs : 0 < bs.

  Lemma cinv_stream_nodrop : cinv dated bs f (lr_init, sr_stream_nodrop) /\ no_dangling (snd (lr_init, sr_stream_nodrop)).
  Proof.
    split; [|intros a b v []]. split; [apply lr_inv_init|]. split; [|exact I].
    split; cbn; try (intros; discriminate); try (intros; contradiction).
    split; [|exact reads_total_stream_nodrop].
    split; cbn; intros; try discriminate; contradiction.
  Qed.

  (* every operation sequence without cache drops on a streamed reader whose block drops are disabled:
     find_sysline / find_line at ANY offsets in ANY order (the reverse pass of process_missing_year walks
     the file backwards), the driver: each observed answer is the spec answer, nothing panics *)
  Theorem streamed_drop_disabled_refines ops : Forall op_nodrop ops ->
    map (obs_cres bs f) (snd (c_run dated bs f (lr_init, sr_stream_nodrop) ops)) = map (spec_cobs dated f) ops /\
    forallb (fun x => negb (cres_panicked x)) (snd (c_run dated bs f (lr_init, sr_stream_nodrop) ops)) = true.
  Proof.
    intro ND. destruct cinv_stream_nodrop as [CI NDG].
    destruct (c_run dated bs f (lr_init, sr_stream_nodrop) ops) as [st xs] eqn:R.
    destruct (c_run_nodrop dated bs f Hbs ops _ _ _ CI NDG ND R) as (_ & _ & M & P). auto.
  Qed.
End StreamNoDrop.

(* a tar member: read_block_FileTar reads every block of the member again on each miss, so every block can be read
   at any time - the invariant of the plain machine holds: EVERY call history is answered as the spec says *)
Section TarMember.
  Variable dated : list N -> option Z.
  Variable bs : N.
  Variable f : file.
  Hypothesis Hbs : 0 < bs.

  Lemma cinv_tar : cinv dated bs f (cinit_b b_init_tar) /\ no_dangling (snd (cinit_b b_init_tar)).
  Proof.
    assert (LI : lr_inv bs f (lr_init_b b_init_tar)).
    { split; [split; cbn; intros; try discriminate; contradiction|exact reads_total_init_tar]. }
    split; [|intros a b v []]. split; [exact LI|]. split; [|exact I].
    split; cbn; try (intros; discriminate); try (intros; contradiction). exact LI.
  Qed.

  Theorem tar_member_refines ops : Forall op_nodrop ops ->
    map (obs_cres bs f) (snd (c_run dated bs f (cinit_b b_init_tar) ops)) = map (spec_cobs dated f) ops /\
    forallb (fun x => negb (cres_panicked x)) (snd (c_run dated bs f (cinit_b b_init_tar) ops)) = true.
  Proof.
    intro ND. destruct cinv_tar as [CI NDG].
    destruct (c_run dated bs f (cinit_b b_init_tar) ops) as [st xs] eqn:R.
    destruct (c_run_nodrop dated bs f Hbs ops _ _ _ CI NDG ND R) as (_ & _ & M & P). auto.
  Qed.
End TarMember.

(* ---------------------------------------------------------------- with drops enabled *)

(* "a streamed reader answers find_sysline at any offset": NO.  After the reader has moved on to block 2
   a call that needs block 0 again gets Done from read_block (the look-behind drop removed the block) and
   find_line / find_sysline answer Done although the message exists. *)
Definition f_s1 : file := [120; 10; 50; 97; 10; 50; 98; 10].        (* "x\n2a\n2b\n" *)
Lemma streamed_backward_refuted :
  exists (dated : list N -> option Z) (bs : N) (f : file) (ops : list cop),
    0 < bs /\ Forall op_nodrop ops /\
    map (obs_cres bs f) (snd (c_run dated bs f (cinit_k true) ops)) <> map (spec_cobs dated f) ops /\
    map (obs_cres bs f) (snd (c_run dated bs f (cinit_k false) ops)) = map (spec_cobs dated f) ops.
Proof.
  exists d2, 2, f_s1, [OS 5; OL 7; OL 0]. split; [reflexivity|]. split; [repeat constructor|].
  split; vm_compute; [discriminate|reflexivity].
Qed.

(* ================================================================ Part S3: forward reads with drops ENABLED *)

(* the stream invariant of a BlockReader with look-behind drops: everything read or cached lies below the
   decoder position, and the newest block (dec-1) is still stored *)
Definition SI (b : bstate) : Prop :=
  (b_stream b = true /\ b_kind b = 0) /\
  (forall x, nmem x (b_read b) = true -> x < b_dec b) /\
  (forall x, nmem x (b_lru b) = true -> x < b_dec b) /\
  (forall x, nmem x (b_blocks b) = true -> x < b_dec b) /\
  (0 < b_dec b -> nmem (b_dec b - 1) (b_read b) = true /\ nmem (b_dec b - 1) (b_blocks b) = true).

Lemma SI_init : SI (b_init true).
Proof. repeat split; cbn; intros; try discriminate; lia. Qed.

Lemma nmem_nrem x y l : nmem x (nrem y l) = nmem x l && negb (x =? y).
Proof.
  unfold nmem, nrem. induction l as [|z l IH]; cbn; [reflexivity|].
  destruct (N.eqb_spec z y) as [E|E]; cbn.
  - rewrite IH. subst z. destruct (N.eqb_spec x y); cbn; [rewrite andb_false_r; reflexivity|reflexivity].
  - rewrite IH. destruct (N.eqb_spec x z); cbn; [|reflexivity].
    subst z. destruct (N.eqb_spec x y); [congruence|reflexivity].
Qed.

Lemma nmem_firstn n x l : nmem x (firstn n l) = true -> nmem x l = true.
Proof.
  unfold nmem. revert l; induction n as [|n IH]; intros [|y l]; cbn; try discriminate.
  destruct (x =? y); cbn; auto.
Qed.

Lemma SI_lru_put bo b : SI b -> bo < b_dec b -> SI (b_lru_put bo b).
Proof.
  intros ((S1 & SK) & S2 & S3 & S4 & S5) L. unfold b_lru_put. repeat split; cbn [b_stream b_kind b_read b_lru b_blocks b_dec]; auto; try (apply S5; assumption).
  intros x X. apply nmem_firstn in X. unfold nmem in X. cbn in X.
  destruct (N.eqb_spec x bo); [lia|]. cbn in X. apply S3. fold (nmem x (nrem bo (b_lru b))) in X.
  rewrite nmem_nrem in X. apply andb_true_iff in X as [X _]. exact X.
Qed.

Lemma SI_drop_block refd b bo : SI b -> bo + 1 < b_dec b -> SI (b_drop_block refd b bo).
Proof.
  intros ((S1 & SK) & S2 & S3 & S4 & S5) L. unfold b_drop_block. destruct (negb (b_drop b)).
  { repeat split; auto; apply S5; assumption. }
  split; [split; [exact S1|exact SK]|]. split; [exact S2|].
  split; [intros x X; cbn [b_lru] in X; rewrite nmem_nrem in X; apply andb_true_iff in X as [X _]; auto|].
  split; [intros x X; cbn [b_blocks] in X; rewrite nmem_nrem in X; apply andb_true_iff in X as [X _]; auto|].
  intro H. cbn [b_dec b_read b_blocks] in *. destruct (S5 H) as [Y1 Y2]. split; [exact Y1|].
  rewrite nmem_nrem, Y2. destruct (N.eqb_spec (b_dec b - 1) bo); [lia|reflexivity].
Qed.

Lemma b_stream_loop_fwd fuel refd : forall b bo bo_at old,
  SI b -> bo_at <= b_dec b -> b_dec b <= bo_at + 1 -> b_dec b <= bo -> old <= bo_at -> old + 1 <= b_dec b \/ b_dec b = 0 ->
  (N.to_nat (bo + 1 - bo_at) < fuel)%nat ->
  exists b', b_stream_loop fuel refd b bo bo_at old = (b', BFound) /\ SI b' /\ b_dec b' = bo + 1.
Proof.
  induction fuel as [|k IH]; intros b bo bo_at old SIb L1 L2 L3 LO LO2 FU; [lia|].
  pose proof SIb as ((S1 & SK) & S2 & S3 & S4 & S5).
  cbn [b_stream_loop]. destruct (N.leb_spec bo_at bo) as [Q|Q]; [|lia].
  destruct (nmem bo_at (b_read b)) eqn:M.
  - pose proof (S2 _ M) as LT. destruct (N.eqb_spec bo_at bo); [lia|].
    apply IH; cbn; auto; try lia.
  - assert (E : b_dec b = bo_at).
    { destruct (N.eq_dec (b_dec b) 0) as [Z|Z]; [lia|]. destruct (S5 ltac:(lia)) as [Y _].
      destruct (N.eq_dec (b_dec b - 1) bo_at) as [W|W]; [rewrite W in Y; congruence|lia]. }
    cbn [b_cnt_up b_dec b_kind]. rewrite SK. cbn [N.eqb]. rewrite E, N.eqb_refl. cbn [negb].
    set (b0 := mkB (b_stream (b_cnt_up e_miss b)) 0 (b_drop (b_cnt_up e_miss b)) (b_blocks (b_cnt_up e_miss b))
                   (b_read (b_cnt_up e_miss b)) (b_lru (b_cnt_up e_miss b)) (bo_at + 1) (b_cnt (b_cnt_up e_miss b))).
    assert (SI1 : SI (b_store bo_at b0)).
    { unfold SI, b_store, b_lru_put, b0. cbn [b_stream b_kind b_read b_lru b_blocks b_dec b_cnt_up].
      split; [split; [exact S1|reflexivity]|]. split; [|split; [|split]].
      - intros x X. rewrite nmem_nadd in X. destruct (N.eqb_spec x bo_at); [lia|]. cbn [orb] in X. specialize (S2 _ X). lia.
      - intros x X. apply nmem_firstn in X. unfold nmem in X. cbn [existsb] in X. destruct (N.eqb_spec x bo_at); [lia|].
        cbn [orb] in X. fold (nmem x (nrem bo_at (b_lru b))) in X. rewrite nmem_nrem in X.
        apply andb_true_iff in X as [X _]. specialize (S3 _ X). lia.
      - intros x X. rewrite nmem_nadd in X. destruct (N.eqb_spec x bo_at); [lia|]. cbn [orb] in X. specialize (S4 _ X). lia.
      - intros _. replace (bo_at + 1 - 1) with bo_at by lia. rewrite !nmem_nadd, N.eqb_refl. auto. }
    assert (D1 : b_dec (b_store bo_at b0) = bo_at + 1) by reflexivity.
    set (b1 := if old <? bo_at then b_drop_block refd (b_store bo_at b0) old else b_store bo_at b0).
    assert (SI2 : SI b1 /\ b_dec b1 = bo_at + 1).
    { subst b1. destruct (N.ltb_spec old bo_at) as [Q2|Q2]; [|auto]. split.
      - apply SI_drop_block; [exact SI1|]. rewrite D1. lia.
      - unfold b_drop_block. destruct (negb _); reflexivity. }
    destruct SI2 as [SI2 D2].
    destruct (N.eqb_spec bo_at bo) as [EQ|NE].
    + exists b1. split; [reflexivity|]. split; [exact SI2|lia].
    + apply IH; auto; lia.
Qed.

(* reading the newest block or any later block always succeeds *)
Lemma b_read_block_fwd refd filesz last b bo : SI b -> b_dec b <= bo + 1 -> bo <= last -> 0 < filesz ->
  exists b', b_read_block refd filesz last b bo = (b', BFound) /\ SI b' /\ b_dec b' = N.max (b_dec b) (bo + 1).
Proof.
  intros SIb L1 L2 F. pose proof SIb as ((S1 & SK) & S2 & S3 & S4 & S5).
  unfold b_read_block. destruct (N.ltb_spec last bo); [lia|].
  destruct (nmem bo (b_lru b)) eqn:ML.
  { pose proof (S3 _ ML) as LT. eexists. split; [reflexivity|]. split; [|cbn; lia].
    unfold SI. cbn [b_stream b_kind b_read b_lru b_blocks b_dec].
    split; [split; [exact S1|exact SK]|]. split; [exact S2|]. split; [|split; [exact S4|exact S5]].
    intros x X. unfold nmem in X. cbn [existsb] in X. destruct (N.eqb_spec x bo); [lia|]. cbn [orb] in X.
    fold (nmem x (nrem bo (b_lru b))) in X. rewrite nmem_nrem in X. apply andb_true_iff in X as [X _]. auto. }
  destruct (N.eqb_spec filesz 0); [lia|].
  cbn [b_cnt_up b_read b_blocks b_stream b_kind]. rewrite S1, SK. cbn [N.eqb].
  destruct (nmem bo (b_read b)) eqn:MR.
  - pose proof (S2 _ MR) as LT. assert (E : bo = b_dec b - 1) by lia.
    destruct (S5 ltac:(lia)) as [_ Y]. rewrite <- E in Y. rewrite Y.
    eexists. split; [reflexivity|]. split; [|cbn; lia].
    apply SI_lru_put; [|cbn; lia]. unfold SI; cbn [b_stream b_kind b_read b_lru b_blocks b_dec b_cnt_up]; auto.
  - set (b0 := b_cnt_up e_miss (b_cnt_up e_lru_miss b)).
    assert (SI0 : SI b0) by (unfold SI, b0; cbn [b_stream b_kind b_read b_lru b_blocks b_dec b_cnt_up]; auto).
    assert (GE : b_dec b <= bo).
    { destruct (N.eq_dec (b_dec b) 0); [lia|]. destruct (S5 ltac:(lia)) as [Y _].
      destruct (N.eq_dec (b_dec b - 1) bo) as [W|W]; [rewrite W in Y; congruence|lia]. }
    set (m := nmax (b_read b0)).
    assert (M1 : m <= b_dec b0 /\ b_dec b0 <= m + 1).
    { subst m. cbn [b_read b0 b_cnt_up b_dec]. destruct (N.eq_dec (b_dec b) 0) as [Z|Z].
      - assert (nmax (b_read b) <= 0); [|lia]. apply nmax_le. intros x X. specialize (S2 _ X). lia.
      - destruct (S5 ltac:(lia)) as [Y _]. pose proof (nmax_ge _ _ Y).
        assert (nmax (b_read b) <= b_dec b - 1); [|lia]. apply nmax_le. intros x X. specialize (S2 _ X). lia. }
    assert (LO2 : m + 1 <= b_dec b0 \/ b_dec b0 = 0).
    { destruct (N.eq_dec (b_dec b) 0) as [Z|Z]; [right; exact Z|left].
      destruct (S5 ltac:(lia)) as [Y _]. pose proof (nmax_ge _ _ Y) as G. unfold m, b0. cbn [b_read b_dec b_cnt_up].
      assert (nmax (b_read b) <= b_dec b - 1) by (apply nmax_le; intros x X; specialize (S2 _ X); lia). lia. }
    assert (FU : (N.to_nat (bo + 1 - m) < S (S (N.to_nat (bo - m))))%nat) by lia.
    destruct (b_stream_loop_fwd (S (S (N.to_nat (bo - m)))) refd b0 bo m m SI0 (proj1 M1) (proj2 M1) GE (N.le_refl _) LO2 FU)
      as (b' & E & SI' & D').
    exists b'. split; [exact E|]. split; [exact SI'|]. rewrite D'. cbn [b_dec b0 b_cnt_up]. lia.
Qed.

(* a block strictly below the newest one is gone once the reader moved on (drops enabled): Done *)
Lemma b_read_block_gone refd filesz last b bo : SI b -> b_drop b = true ->
  nmem bo (b_lru b) = false -> nmem bo (b_blocks b) = false -> bo + 1 < b_dec b -> 0 < filesz -> bo <= last ->
  exists b', b_read_block refd filesz last b bo = (b', BDone).
Proof.
  intros ((S1 & SK) & S2 & S3 & S4 & S5) DR ML MB LT F L. unfold b_read_block.
  destruct (N.ltb_spec last bo); [lia|]. rewrite ML. destruct (N.eqb_spec filesz 0); [lia|].
  cbn [b_cnt_up b_read b_blocks b_stream b_kind]. rewrite S1, SK, MB. cbn [N.eqb].
  destruct (S5 ltac:(lia)) as [Y _].
  assert (NM : forall l, nmem (b_dec b - 1) l = true -> bo < nmax l \/ True) by auto.
  destruct (nmem bo (b_read b)) eqn:MR.
  - cbn [b_stream b_read]. set (rd := nrem bo (b_read b)).
    assert (G : bo < nmax rd).
    { assert (nmem (b_dec b - 1) rd = true).
      { subst rd. rewrite nmem_nrem, Y. destruct (N.eqb_spec (b_dec b - 1) bo); [lia|reflexivity]. }
      pose proof (nmax_ge _ _ H0). lia. }
    destruct (N.to_nat (bo - nmax rd)) eqn:Z; cbn [b_stream_loop];
      (destruct (N.leb_spec (nmax rd) bo); [lia|]); eexists; reflexivity.
  - cbn [b_stream b_read b_cnt_up].
    assert (G : bo < nmax (b_read b)) by (pose proof (nmax_ge _ _ Y); lia).
    destruct (N.to_nat (bo - nmax (b_read b))) eqn:Z; cbn [b_stream_loop];
      (destruct (N.leb_spec (nmax (b_read b)) bo); [lia|]); eexists; reflexivity.
Qed.

(* ================================================================ Part S4: find_line on a streamed file *)

Section StreamLines.
  Variable bs : N.
  Variable f : file.
  Hypothesis Hbs : 0 < bs.

  Local Notation lr_inv0 := (lr_inv0 bs f).

  Definition lSI (l : lr_state) : Prop := SI (l_blk l).
  Definition ldec (l : lr_state) : N := b_dec (l_blk l).
  Definition blk (x : N) : N := block_offset_at_file_offset x bs.

  (* the line that ends right before fo is known to the reader (or fo is the first byte) *)
  Definition pred_known (l : lr_state) (fo : N) : Prop :=
    fo = 0 \/ alookup (fo - 1) (l_lines l) <> None \/ lr_get_linep l (fo - 1) <> None.

  Lemma lr_read_stream l inprog bo l' r : lSI l -> ldec l <= bo + 1 -> bo <= blast bs f -> 0 < lenN f ->
    lr_read bs f l inprog bo = (l', r) ->
    r = BFound /\ same_maps l l' /\ lSI l' /\ ldec l' = N.max (ldec l) (bo + 1).
  Proof.
    intros S L1 L2 F. unfold lr_read. destruct (b_read_block _ _ _ _ _) as [b x] eqn:E. intro H; injection H as <- <-.
    destruct (b_read_block_fwd (lr_refd l inprog) (lenN f) (blast bs f) (l_blk l) bo S L1 L2 F) as (b' & E' & S' & D').
    unfold blast in E'. rewrite E in E'. injection E' as -> ->. split; [reflexivity|]. split; [repeat split|]. split; assumption.
  Qed.

  Lemma lr_reads_fwd_stream n : forall l lo b l' r, lSI l -> ldec l <= b + 1 ->
    b + N.of_nat n <= blast bs f + 1 -> 0 < lenN f -> lr_reads_fwd n bs f l lo b = (l', r) ->
    r = BFound /\ same_maps l l' /\ lSI l' /\ (n <> 0%nat -> ldec l' = b + N.of_nat n) /\ (n = 0%nat -> ldec l' = ldec l).
  Proof.
    induction n as [|n IH]; intros l lo b l' r S L1 L2 F; cbn [lr_reads_fwd].
    - intro H; injection H as <- <-. split; [reflexivity|]. split; [apply same_maps_refl|]. split; [exact S|].
      split; [congruence|reflexivity].
    - destruct (lr_read bs f l _ b) as [l1 r1] eqn:R.
      rewrite Nat2N.inj_succ in L2.
      assert (LB2 : b <= blast bs f) by lia.
      destruct (lr_read_stream _ _ _ _ _ S L1 LB2 F R) as (-> & M1 & S1 & D1).
      assert (L1' : ldec l1 <= b + 1 + 1) by lia.
      assert (L2' : b + 1 + N.of_nat n <= blast bs f + 1) by lia.
      intro H. destruct (IH _ _ _ _ _ S1 L1' L2' F H) as (-> & M2 & S2 & D2 & D2').
      split; [reflexivity|]. split; [eapply same_maps_trans; eauto|]. split; [exact S2|]. split; [|congruence].
      intros _. rewrite Nat2N.inj_succ. destruct n as [|n']; [rewrite (D2' eq_refl), D1; cbn; lia|rewrite D2 by congruence; lia].
  Qed.

  (* find_line at the begin of a line whose predecessor is known, at or after the newest block: no block
     that is gone is needed - the answer is the spec line and the stream invariant is kept.  (When the
     predecessor is NOT known the backward half reads block(fo)-1, ..., which are gone: Done - see
     streamed_backward_refuted.) *)
  Theorem find_line_stream_fwd l fo l' r p : lr_inv0 l -> lSI l -> fo < lenN f -> line_beg f fo = fo ->
    pred_known l fo -> ldec l <= blk fo + 1 ->
    c_find_line bs f l fo = (l', r, p) ->
    lr_inv0 l' /\ lSI l' /\ lres_ok bs f fo r /\ ldec l <= ldec l' /\ ldec l' <= blk (line_end f fo) + 1.
  Proof.
    intros I SS L LB PK DB.
    assert (BM : blk fo <= blk (line_end f fo)).
    { unfold blk, block_offset_at_file_offset. apply div_mono; [exact Hbs|]. destruct (span_of f fo L) as (_ & _ & X). exact X. }
    unfold c_find_line.
    destruct (lr_check_lru l fo) as [l1 [x|]] eqn:CL.
    - destruct (lr_check_lru_ok0 bs f _ _ _ _ I CL) as [I1 R]. pose proof (blk_check_lru _ _ _ _ CL) as B1.
      intro H; injection H as <- <- <-.
      pose proof (entry_result bs f Hbs fo x R (entry_lt bs f Hbs _ _ R)) as RR.
      split; [exact I1|]. split; [unfold lSI; rewrite B1; exact SS|]. split; [exact RR|].
      unfold ldec. rewrite B1. unfold ldec in DB. lia.
    - destruct (lr_check_lru_ok0 bs f _ _ _ _ I CL) as [I1 _]. pose proof (blk_check_lru _ _ _ _ CL) as B1.
      assert (LM1 : l_lines l1 = l_lines l /\ l_foend l1 = l_foend l).
      { revert CL. unfold lr_check_lru. destruct (l_on l); [|intro H; injection H as <-; auto].
        destruct (lru_get fo (l_lru l)) as [[y|] c]; intro H; [discriminate|injection H as <-; auto]. }
      destruct LM1 as [LL1 LF1].
      destruct (N.eqb_spec (lenN f) 0) as [Z|Z]; [lia|]. cbn [orb].
      destruct (N.ltb_spec (lenN f) fo) as [Z2|Z2]; [lia|]. cbn [orb].
      destruct (N.eqb_spec fo (lenN f)) as [Z3|Z3]; [lia|].
      destruct (lr_check_store bs l1 fo) as [[[[l2 r2] p2]|] l3] eqn:CS.
      + pose proof (lr_check_store_ok bs f Hbs _ _ _ _ I1 CS) as [I2 R2]. destruct (blk_check_store _ _ _ _ _ CS) as [_ B2].
        intro H; injection H as <- <- <-. split; [exact I2|]. split; [unfold lSI; rewrite B2, B1; exact SS|].
        split; [exact R2|]. unfold ldec. rewrite B2, B1. unfold ldec in DB. lia.
      + pose proof (lr_check_store_ok bs f Hbs _ _ _ _ I1 CS) as (I3 & M1 & M2 & LL3 & LF3).
        destruct (blk_check_store _ _ _ _ _ CS) as [B3 _].
        destruct (fwd_search_ok bs f fo (S (length f)) Hbs L (fuel_ok bs f Hbs ltac:(lia)))
          as (e & after & bme & FW & E & _ & _ & _ & MID & _). rewrite FW.
        assert (LE : e = line_end f fo) by (symmetry; apply line_end_char; exact E).
        assert (EE : fo <= e /\ e < lenN f) by (destruct E as (? & ? & _); split; assumption).
        destruct (lr_reads_fwd _ bs f l3 _ _) as [l4 rf] eqn:RF.
        assert (S3 : lSI l3) by (unfold lSI; rewrite B3, B1; exact SS).
        assert (D3 : ldec l3 <= blk fo + 1) by (unfold ldec in *; rewrite B3, B1; exact DB).
        destruct (lr_reads_fwd_stream _ _ _ _ _ _ S3 D3 (bfwd_range bs f Hbs fo e (proj1 EE) (proj2 EE)) ltac:(lia) RF)
          as (-> & SM & S4 & D4 & _).
        pose proof (same_maps_inv bs f _ _ SM I3) as I4.
        assert (D4' : ldec l4 = blk e + 1).
        { rewrite D4 by congruence. rewrite Nat2N.inj_succ, N2Nat.id. unfold blk in *.
          assert (block_offset_at_file_offset fo bs <= block_offset_at_file_offset e bs).
          { unfold block_offset_at_file_offset. apply div_mono; [exact Hbs|lia]. } lia. }
        assert (FIN : forall l5 l6 r6 p6 ps, lr_inv0 l5 -> l_blk l5 = l_blk l4 ->
                  line_ok bs f ps (line_beg f fo) (line_end f fo) ->
                  lr_store_found bs l5 fo (line_end f fo + 1) ps p6 = (l6, r6, p) ->
                  lr_inv0 l6 /\ lSI l6 /\ lres_ok bs f fo r6 /\ ldec l <= ldec l6 /\ ldec l6 <= blk (line_end f fo) + 1).
        { intros l5 l6 r6 p6 ps I5 B5 OK SF. destruct (lr_store_found_ok bs f Hbs _ _ _ _ _ _ _ I5 L OK SF) as [I6 R6].
          pose proof (blk_store_found _ _ _ _ _ _ _ _ _ SF) as B6.
          split; [exact I6|]. split; [unfold lSI; rewrite B6, B5; exact S4|]. split; [exact R6|].
          unfold ldec in *. rewrite B6, B5, D4', <- LE. rewrite B3, B1 in D3. lia. }
        assert (PK4 : fo <> 0 -> alookup (fo - 1) (l_lines l4) <> None \/ lr_get_linep l4 (fo - 1) <> None).
        { intro NZ. destruct SM as (A1 & A2 & _). destruct PK as [PK|[PK|PK]]; [contradiction|left|right].
          - rewrite A1, LL3, LL1. exact PK.
          - unfold lr_get_linep in *. rewrite A1, A2, LL3, LF3, LL1, LF1. exact PK. }
        destruct (N.eqb_spec fo 0) as [Z0|Z0].
        * pose proof (first_line_beg bs f Hbs fo Z0) as LB0.
          specialize (MID (block_index_at_file_offset fo bs) ltac:(lia)).
          destruct (mid_line_ok bs f Hbs fo e after bme L ltac:(lia) E MID) as [-> OK].
          subst fo. intro H. eapply FIN; eauto.
        * assert (MIDOK : e = line_end f fo /\
                   line_ok bs f ((block_offset_at_file_offset fo bs, block_index_at_file_offset fo bs, bme + 1) :: after)
                           (line_beg f fo) (line_end f fo)).
          { apply mid_line_ok; [exact Hbs|exact L|exact LB|exact E|apply MID; lia]. }
          destruct MIDOK as [_ OK]. rewrite LE.
          destruct (alookup (fo - 1) (l_lines l4)) as [sp|] eqn:A1.
          -- intro H. eapply (FIN (lr_cnt lc_hits_up l4)); [apply lr_inv0_cnt; exact I4|reflexivity|exact OK|exact H].
          -- destruct (lr_get_linep (lr_cnt lc_miss_up l4) (fo - 1)) as [sp|] eqn:A2.
             ++ intro H. eapply (FIN (lr_cnt lc_miss_up l4)); [apply lr_inv0_cnt; exact I4|reflexivity|exact OK|exact H].
             ++ exfalso. destruct (PK4 Z0) as [Q|Q]; [congruence|]. apply Q. unfold lr_get_linep in *. cbn in A2. exact A2.
  Qed.
End StreamLines.

(* the same statements with the hypotheses in the order Props/C02.v uses *)
Theorem streamed_nodrop_refines dated bs (f : file) ops : 0 < bs -> Forall op_nodrop ops ->
  map (obs_cres bs f) (snd (c_run dated bs f (lr_init, sr_stream_nodrop) ops)) = map (spec_cobs dated f) ops /\
  forallb (fun x => negb (cres_panicked x)) (snd (c_run dated bs f (lr_init, sr_stream_nodrop) ops)) = true.
Proof. intro H. exact (streamed_drop_disabled_refines dated bs f H ops). Qed.

Theorem find_line_stream_forward bs (f : file) l fo l' r p : 0 < bs ->
  lr_inv0 bs f l -> lSI l -> fo < lenN f -> line_beg f fo = fo -> pred_known l fo -> ldec l <= blk bs fo + 1 ->
  c_find_line bs f l fo = (l', r, p) ->
  lr_inv0 bs f l' /\ lSI l' /\ lres_ok bs f fo r /\ ldec l <= ldec l' /\ ldec l' <= blk bs (line_end f fo) + 1.
Proof. intro H. exact (find_line_stream_fwd bs f H l fo l' r p). Qed.

Theorem tar_refines dated bs (f : file) ops : 0 < bs -> Forall op_nodrop ops ->
  map (obs_cres bs f) (snd (c_run dated bs f (cinit_b b_init_tar) ops)) = map (spec_cobs dated f) ops /\
  forallb (fun x => negb (cres_panicked x)) (snd (c_run dated bs f (cinit_b b_init_tar) ops)) = true.
Proof. intro H. exact (tar_member_refines dated bs f H ops). Qed.

