(* Proofs/JournalRenderTime.v — the timestamp text of the renderings.
   * a format without %b %a %Z is printed by Model/Strftime.strftime itself, so the C13 round trip
     (Proofs/StrftimeGeneric.strftime_generic_roundtrip, parser model Model/StrftimeParse.chrono_parse)
     applies: short-unix, short-iso and short-iso-precise of the CURRENT source (Gen/JournalTables.src_cfg)
     parse back to the receive time truncated to the printed precision, for every valid receive time
     and every whole-minute zone offset — the zone is applied exactly once;
   * the other formats (they have no year, or a weekday / zone name the parser model does not read) are
     related to those: short-precise = short + "." + microseconds, short-full = weekday + short-iso + zone,
     verbose header = weekday + short-iso + "." + microseconds + zone; the weekday is the one of the
     printed date; the zone name is the %:z text for whole-minute offsets. *)
From Coq Require Import String.
From S4.Base Require Import Bytes.
From S4.Model Require Import Calendar PrintCal Strftime CliDt StrftimeParse StrftimeRt Journal JournalRender.
From S4.Gen Require Import JournalTables.
From S4.Proofs Require Import StrftimeRoundtrip StrftimeGeneric JournalRenderBasic.
Open Scope list_scope.
Open Scope Z_scope.

(* ------------------------------------------------------------------ plain formats: Strftime itself *)

Lemma jstrftime_plain fmt t off :
  split_fmt fmt [] = [SPlain fmt] -> jstrftime fmt t off = strftime fmt t off.
Proof.
  intro H. unfold jstrftime. rewrite H. cbn [map fmt_seg concat_opt].
  destruct (strftime fmt t off); [rewrite app_nil_r|]; reflexivity.
Qed.

(* print the receive time with a plain format, read the text back with the same format: the receive
   time truncated to the printed precision *)
Theorem dt_text_roundtrip_l cfg ev fmt its p e :
  cfg_override cfg = Some DsRealtime ->
  split_fmt fmt [] = [SPlain fmt] -> parse_fmt fmt = Some its -> rt_ok (expand its) p = true ->
  let t := e_time e * 1000 in
  let off := env_off ev in
  off mod 60 = 0 -> -86400 < off < 86400 ->
  LOCAL_LO * 1000000000 <= t + off * 1000000000 < LOCAL_HI * 1000000000 ->
  (has NTimestamp (expand its) = true -> 0 <= t) ->
  exists s, entry_dt_text cfg ev fmt e = Some s /\
    chrono_parse fmt (has_z (expand its)) (if has NTimestamp (expand its) then 0 else off) (classify s)
    = StrftimeParse.POk (t / result_unit p (expand its) * result_unit p (expand its)).
Proof.
  intros Hov Hsp Hp Hrt t off H60 Hor Hrg Hts.
  unfold entry_dt_text. rewrite (shown_is_receive_time_l cfg e Hov), (jstrftime_plain fmt _ _ Hsp).
  exact (strftime_generic_roundtrip fmt its p t off Hp Hrt H60 Hor Hrg Hts).
Qed.

(* VALID_REALTIME of libsystemd (0 < t < 2^55 microseconds) lies inside the calendar range of the
   round trip for every zone offset *)
Lemma valid_realtime_range us off :
  0 < us < 36028797018963968 -> -86400 < off < 86400 ->
  LOCAL_LO * 1000000000 <= us * 1000 + off * 1000000000 < LOCAL_HI * 1000000000.
Proof. unfold LOCAL_LO, LOCAL_HI. lia. Qed.

(* the formats of the current source *)
Definition fmt_of (o : output) : bytes :=
  match cfg_dispatch src_cfg o with DShort f _ => f | _ => [] end.

Lemma src_override : cfg_override src_cfg = Some DsRealtime.
Proof. reflexivity. Qed.

Section Instances.
  Variable ev : env.
  Variable e : entry.
  Hypothesis Hvalid : 0 < e_time e < 36028797018963968.
  Hypothesis H60 : env_off ev mod 60 = 0.
  Hypothesis Hoff : -86400 < env_off ev < 86400.

  (* short-unix: the text is the receive time, to the microsecond, whatever the zone *)
  Theorem short_unix_roundtrip_l :
    exists s, next_entry src_cfg ev OShortUnix e = NFound (s ++ short_tail (short_found src_cfg e)) /\
      chrono_parse (fmt_of OShortUnix) false 0 (classify s) = StrftimeParse.POk (e_time e * 1000).
  Proof.
    destruct (dt_text_roundtrip_l src_cfg ev (fmt_of OShortUnix) _ 6 e src_override eq_refl eq_refl eq_refl H60 Hoff
                (valid_realtime_range _ _ Hvalid Hoff)) as [s [Hs Hp]]; [intros _; lia|].
    exists s. split.
    - unfold next_entry. change (cfg_dispatch src_cfg OShortUnix) with (DShort (fmt_of OShortUnix) false).
      unfold render_short, short_head. rewrite Hs. reflexivity.
    - change (chrono_parse (fmt_of OShortUnix) false 0 (classify s)
              = StrftimeParse.POk (e_time e * 1000 / 1000 * 1000)) in Hp.
      rewrite Hp. f_equal. rewrite Z.div_mul by lia. reflexivity.
  Qed.

  (* short-iso-precise: date, time, microseconds and offset: the receive time exactly *)
  Theorem short_iso_precise_roundtrip_l :
    exists s, next_entry src_cfg ev OShortIsoPrecise e = NFound (s ++ short_tail (short_found src_cfg e)) /\
      chrono_parse (fmt_of OShortIsoPrecise) true (env_off ev) (classify s) = StrftimeParse.POk (e_time e * 1000).
  Proof.
    destruct (dt_text_roundtrip_l src_cfg ev (fmt_of OShortIsoPrecise) _ 6 e src_override eq_refl eq_refl eq_refl H60 Hoff
                (valid_realtime_range _ _ Hvalid Hoff)) as [s [Hs Hp]]; [intro X; discriminate X|].
    exists s. split.
    - unfold next_entry. change (cfg_dispatch src_cfg OShortIsoPrecise) with (DShort (fmt_of OShortIsoPrecise) false).
      unfold render_short, short_head. rewrite Hs. reflexivity.
    - change (chrono_parse (fmt_of OShortIsoPrecise) true (env_off ev) (classify s)
              = StrftimeParse.POk (e_time e * 1000 / 1000 * 1000)) in Hp.
      rewrite Hp. f_equal. rewrite Z.div_mul by lia. reflexivity.
  Qed.

  (* short-iso: date and time without offset, read in the zone it was printed in: the receive time
     truncated to the second *)
  Theorem short_iso_roundtrip_l :
    exists s, next_entry src_cfg ev OShortIso e = NFound (s ++ short_tail (short_found src_cfg e)) /\
      chrono_parse (fmt_of OShortIso) false (env_off ev) (classify s)
      = StrftimeParse.POk (e_time e / 1000000 * 1000000000).
  Proof.
    destruct (dt_text_roundtrip_l src_cfg ev (fmt_of OShortIso) _ 9 e src_override eq_refl eq_refl eq_refl H60 Hoff
                (valid_realtime_range _ _ Hvalid Hoff)) as [s [Hs Hp]]; [intro X; discriminate X|].
    exists s. split.
    - unfold next_entry. change (cfg_dispatch src_cfg OShortIso) with (DShort (fmt_of OShortIso) false).
      unfold render_short, short_head. rewrite Hs. reflexivity.
    - change (chrono_parse (fmt_of OShortIso) false (env_off ev) (classify s)
              = StrftimeParse.POk (e_time e * 1000 / 1000000000 * 1000000000)) in Hp.
      rewrite Hp. f_equal. f_equal.
      replace 1000000000 with (1000 * 1000000) by reflexivity.
      rewrite (Z.mul_comm (e_time e) 1000), Z.div_mul_cancel_l by lia. reflexivity.
  Qed.
End Instances.

(* the hypotheses are satisfiable: an entry of the Ubuntu 16 fixture at --tz-offset=-03:30 *)
Example roundtrip_example :
  let e := mkEntry 1702683843814918 [] None [] in
  let ev := mkEnv (-12600) true in
  0 < e_time e < 36028797018963968 /\ env_off ev mod 60 = 0 /\ -86400 < env_off ev < 86400 /\
  next_entry src_cfg ev OShortIsoPrecise e = NFound (s2b "2023-12-15T20:14:03.814918-0330" ++ [NL]) /\
  next_entry src_cfg ev OShortUnix e = NFound (s2b "1702683843.814918" ++ [NL]) /\
  next_entry src_cfg ev OShortIso e = NFound (s2b "2023-12-15 20:14:03" ++ [NL]) /\
  next_entry src_cfg ev OShortFull e = NFound (s2b "Fri 2023-12-15 20:14:03 -03:30" ++ [NL]) /\
  next_entry src_cfg ev OShort e = NFound (s2b "Dec 15 20:14:03" ++ [NL]).
Proof. vm_compute. repeat split; reflexivity. Qed.

(* ------------------------------------------------------------------ the formats with %b %a %Z *)

Definition two (v : Z) : bytes := digits_n 2 v.
Definition hms (c : civil) : bytes := two (c_hour c) ++ [58%N] ++ two (c_min c) ++ [58%N] ++ two (c_sec c).
Definition ymd (c : civil) : bytes := fmt_year (c_year c) ++ [45%N] ++ two (c_mon c) ++ [45%N] ++ two (c_day c).
Definition micros (c : civil) : bytes := digits_n 6 (c_nano c / 1000).

Section Texts.
  Variables t off : Z.
  Let c := civil_of t off.

  Lemma short_text_l :
    jstrftime (fmt_of OShort) t off = Some (month_abbr (c_mon c) ++ [32%N] ++ two (c_day c) ++ [32%N] ++ hms c).
  Proof.
    unfold jstrftime. change (split_fmt (fmt_of OShort) []) with [SMon; SPlain (s2b " %d %H:%M:%S")].
    cbn [map fmt_seg]. unfold strftime.
    change (parse_fmt (s2b " %d %H:%M:%S")) with (Some [FLit 32%N; Fd; FLit 32%N; FH; FLit 58%N; FM; FLit 58%N; FS]).
    unfold fmt_items. fold c. cbn [flat_map fmt_item concat_opt app]. unfold hms, two.
    rewrite ?app_nil_r, <- ?app_assoc. cbn [app]. reflexivity.
  Qed.

  Lemma short_iso_text_l :
    jstrftime (fmt_of OShortIso) t off = Some (ymd c ++ [32%N] ++ hms c).
  Proof.
    unfold jstrftime. change (split_fmt (fmt_of OShortIso) []) with [SPlain (s2b "%Y-%m-%d %H:%M:%S")].
    cbn [map fmt_seg]. unfold strftime.
    change (parse_fmt (s2b "%Y-%m-%d %H:%M:%S"))
      with (Some [FY; FLit 45%N; Fm; FLit 45%N; Fd; FLit 32%N; FH; FLit 58%N; FM; FLit 58%N; FS]).
    unfold fmt_items. fold c. cbn [flat_map fmt_item concat_opt app]. unfold ymd, hms, two.
    rewrite ?app_nil_r, <- ?app_assoc. cbn [app]. reflexivity.
  Qed.

  (* short-precise = short + "." + six digits of microseconds *)
  Lemma short_precise_text_l :
    exists s, jstrftime (fmt_of OShort) t off = Some s /\
              jstrftime (fmt_of OShortPrecise) t off = Some (s ++ [46%N] ++ micros c).
  Proof.
    eexists. split; [apply short_text_l|].
    unfold jstrftime. change (split_fmt (fmt_of OShortPrecise) []) with [SMon; SPlain (s2b " %d %H:%M:%S.%6f")].
    cbn [map fmt_seg]. unfold strftime.
    change (parse_fmt (s2b " %d %H:%M:%S.%6f"))
      with (Some [FLit 32%N; Fd; FLit 32%N; FH; FLit 58%N; FM; FLit 58%N; FS; FLit 46%N; F6]).
    unfold fmt_items. fold c. cbn [flat_map fmt_item concat_opt app]. unfold hms, two, micros.
    rewrite ?app_nil_r, <- ?app_assoc. cbn [app]. reflexivity.
  Qed.

  (* short-full = weekday + " " + short-iso + " " + zone name *)
  Lemma short_full_text_l :
    exists s, jstrftime (fmt_of OShortIso) t off = Some s /\
              jstrftime (fmt_of OShortFull) t off
              = Some (wday_abbr (local_days t off) ++ [32%N] ++ s ++ [32%N] ++ zone_name off).
  Proof.
    eexists. split; [apply short_iso_text_l|].
    unfold jstrftime.
    change (split_fmt (fmt_of OShortFull) []) with [SWday; SPlain (s2b " %Y-%m-%d %H:%M:%S "); SZone].
    cbn [map fmt_seg]. unfold strftime.
    change (parse_fmt (s2b " %Y-%m-%d %H:%M:%S "))
      with (Some [FLit 32%N; FY; FLit 45%N; Fm; FLit 45%N; Fd; FLit 32%N; FH; FLit 58%N; FM; FLit 58%N; FS; FLit 32%N]).
    unfold fmt_items. fold c. cbn [flat_map fmt_item concat_opt app]. unfold ymd, hms, two.
    rewrite ?app_nil_r, <- ?app_assoc. cbn [app]. reflexivity.
  Qed.

  (* verbose header = weekday + " " + short-iso + "." + microseconds + " " + zone name *)
  Lemma verbose_text_l :
    exists s, jstrftime (fmt_of OShortIso) t off = Some s /\
              jstrftime (cfg_fmt_verbose src_cfg) t off
              = Some (wday_abbr (local_days t off) ++ [32%N] ++ s ++ [46%N] ++ micros c ++ [32%N] ++ zone_name off).
  Proof.
    eexists. split; [apply short_iso_text_l|].
    unfold jstrftime.
    change (split_fmt (cfg_fmt_verbose src_cfg) []) with [SWday; SPlain (s2b " %Y-%m-%d %H:%M:%S.%6f "); SZone].
    cbn [map fmt_seg]. unfold strftime.
    change (parse_fmt (s2b " %Y-%m-%d %H:%M:%S.%6f "))
      with (Some [FLit 32%N; FY; FLit 45%N; Fm; FLit 45%N; Fd; FLit 32%N; FH; FLit 58%N; FM; FLit 58%N; FS; FLit 46%N; F6; FLit 32%N]).
    unfold fmt_items. fold c. cbn [flat_map fmt_item concat_opt app]. unfold ymd, hms, two, micros.
    rewrite ?app_nil_r, <- ?app_assoc. cbn [app]. reflexivity.
  Qed.

  (* the weekday shown is the weekday of the date shown *)
  Lemma wday_of_printed_date_l :
    local_days t off = Calendar.days_from_civil (c_year c) (c_mon c) (c_day c).
  Proof.
    pose proof (civil_of_spec t off) as H. cbv zeta in H. destruct H as [_ [H _]].
    unfold local_days. change NS with 1000000000. fold c in H. symmetry. exact H.
  Qed.
End Texts.

Lemma wday_period d : wday_abbr (d + 7) = wday_abbr d.
Proof.
  unfold wday_abbr. replace ((d + 7 + 3) mod 7) with ((d + 3) mod 7); [reflexivity|].
  replace (d + 7 + 3) with (d + 3 + 1 * 7) by lia. rewrite Z.mod_add by lia. reflexivity.
Qed.

Example wday_anchor : wday_abbr 0 = s2b "Thu" /\ wday_abbr (-1) = s2b "Wed" /\ wday_abbr 19706 = s2b "Fri".
Proof. vm_compute. repeat split; reflexivity. Qed.

(* for a whole-minute offset the zone name is the %:z text (sign, hours, ':', minutes) *)
Lemma zone_name_colon_z off : off mod 60 = 0 -> zone_name off = fmt_off true off.
Proof.
  intro H. unfold zone_name, fmt_off.
  assert (Ha : Z.abs off mod 60 = 0).
  { destruct (Z.abs_spec off) as [[_ ->]|[_ ->]]; [exact H|].
    apply Z.mod_divide in H; [|lia]. apply Z.mod_divide; [lia|]. apply Z.divide_opp_r. exact H. }
  rewrite Ha. cbn [Z.eqb]. rewrite app_nil_r.
  replace ((Z.abs off + 30) / 60) with (Z.abs off / 60); [reflexivity|].
  apply Z.mod_divide in Ha; [|lia]. destruct Ha as [k Hk]. rewrite Hk.
  rewrite Z.div_mul by lia. apply Z.div_unique with 30; lia.
Qed.
