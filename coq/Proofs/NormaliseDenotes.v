(* Proofs/NormaliseDenotes.v — C04: the universal theorem.  For EVERY DTFSSet whose strftime pattern is
   the one its fields require ([dtfs_ok], checked for each regenerated row), every capture set, every
   fill year and every fallback zone: if the captured text denotes an instant (Spec/NormaliseSpec.v),
   then  captures_to_buffer_bytes + chrono parsing  (Model/Normalise.v) yields exactly that instant. *)
From Coq Require Import String Lia ZifyN ZifyNat.
From S4.Base Require Import Bytes.
From S4.Model Require Import Calendar Normalise.
From S4.Gen Require Import DatetimeTables.
From S4.Spec Require Import CalendarSpec TzRef NormaliseSpec.
From S4.Proofs Require Import CalendarProofs CalendarExtra NormaliseTablesOk NormaliseProofs.
Close Scope string_scope.
Open Scope list_scope.
Open Scope N_scope.

Ltac Zify.zify_post_hook ::= Z.div_mod_to_equations.

(* ------------------------------------------------------------------ digits *)
Lemma digit_bounds b : is_digit b = true -> 48 <= b <= 57.
Proof. unfold is_digit. intros H. apply andb_true_iff in H as [A B]. apply N.leb_le in A, B. lia. Qed.

Lemma digit_of_bounds b : 48 <= b <= 57 -> is_digit b = true.
Proof. intros H. unfold is_digit. apply andb_true_iff. split; apply N.leb_le; lia. Qed.

Lemma digit_not_ws b : is_digit b = true -> is_ws b = false.
Proof.
  intros H. apply digit_bounds in H. unfold is_ws. apply orb_false_iff. split.
  - apply N.eqb_neq. lia.
  - apply andb_false_iff. right. apply N.leb_gt. lia.
Qed.

Lemma digit_not_sign b : is_digit b = true -> (b =? 43) || (b =? 45) = false.
Proof.
  intros H. apply digit_bounds in H. apply orb_false_iff. split; apply N.eqb_neq; lia.
Qed.

Lemma take_digits_app ds : forall rest acc cnt, forallb is_digit ds = true ->
  take_digits (length ds) (ds ++ rest) acc cnt = (num_of ds acc, (cnt + length ds)%nat, rest).
Proof.
  induction ds as [|b ds IH]; intros rest acc cnt H.
  - cbn. rewrite Nat.add_0_r. reflexivity.
  - cbn [forallb] in H. apply andb_true_iff in H as [Hb Hds].
    cbn [length app take_digits num_of]. rewrite Hb. rewrite IH by assumption.
    replace (S cnt + length ds)%nat with (cnt + S (length ds))%nat by lia. reflexivity.
Qed.

Lemma scan_number_exact ds rest : ds <> [] -> forallb is_digit ds = true ->
  scan_number (length ds) (ds ++ rest) = Some (num_of ds 0, rest).
Proof.
  intros N H. unfold scan_number. rewrite take_digits_app by assumption.
  destruct ds; [contradiction|]. reflexivity.
Qed.

Lemma num_of_bound ds : forall acc, (0 <= acc)%Z -> forallb is_digit ds = true ->
  (0 <= num_of ds acc < (acc + 1) * 10 ^ Z.of_nat (length ds))%Z.
Proof.
  induction ds as [|b ds IH]; intros acc Ha H.
  - cbn. lia.
  - cbn [forallb] in H. apply andb_true_iff in H as [Hb Hds]. apply digit_bounds in Hb.
    cbn [num_of length]. rewrite Nat2Z.inj_succ, Z.pow_succ_r by lia.
    specialize (IH (acc * 10 + Z.of_N (b - 48))%Z ltac:(lia) Hds).
    assert (P : (0 < 10 ^ Z.of_nat (length ds))%Z) by (apply Z.pow_pos_nonneg; lia).
    assert (Q : (acc * 10 + Z.of_N (b - 48) + 1 <= (acc + 1) * 10)%Z) by lia.
    split; [lia|]. eapply Z.lt_le_trans; [apply IH|].
    replace ((acc + 1) * (10 * 10 ^ Z.of_nat (length ds)))%Z with (((acc + 1) * 10) * 10 ^ Z.of_nat (length ds))%Z by ring.
    apply Z.mul_le_mono_nonneg_r; lia.
Qed.

Definition dig (n : nat) (ds : bytes) (v : Z) : Prop :=
  length ds = n /\ forallb is_digit ds = true /\ num_of ds 0 = v.

Lemma dig_bound n ds v : dig n ds v -> (0 <= v < 10 ^ Z.of_nat n)%Z.
Proof.
  intros [L [D V]]. pose proof (num_of_bound ds 0%Z ltac:(lia) D) as B. rewrite L, V in B. lia.
Qed.

Lemma digits_n_dig n t v : digits_n n t = Some v -> dig n t v.
Proof.
  unfold digits_n. destruct (length t =? n)%nat eqn:E; [|discriminate].
  change (forallb digit t) with (forallb is_digit t).
  destruct (forallb is_digit t) eqn:D; [|discriminate]. cbn [andb]. intros H. inversion H.
  apply Nat.eqb_eq in E. repeat split; assumption.
Qed.

Lemma digits_1_2_cases t v : digits_1_2 t = Some v -> dig 1 t v \/ dig 2 t v.
Proof.
  unfold digits_1_2. destruct (digits_n 1 t) eqn:E.
  - intros H. inversion H; subst. left. apply digits_n_dig. exact E.
  - intros H. right. apply digits_n_dig. exact H.
Qed.

(* a one-digit field is given a leading '0' *)
Lemma dig_pad1 t v : dig 1 t v -> dig 2 (48 :: t) v.
Proof.
  intros [L [D V]]. destruct t as [|x [|? ?]]; try discriminate.
  split; [reflexivity|]. split.
  - cbn [forallb] in *. exact D.
  - cbn [num_of] in *. change (Z.of_N (48 - 48)) with 0%Z. lia.
Qed.

(* ------------------------------------------------------------------ one numeric item *)
Definition numeric (i : item) : bool := match i with ILit _ | IOffset _ => false | _ => true end.

Lemma step_num i ds rest p :
  numeric i = true -> length ds = width i -> forallb is_digit ds = true -> (length ds <= 18)%nat ->
  step i (ds ++ rest) p = option_map (fun p' => (rest, p')) (set_field i (num_of ds 0) p).
Proof.
  intros Hn Hw Hd Hl.
  assert (Hne : ds <> []).
  { intros ->. cbn in Hw. destruct i; cbn in Hw; discriminate. }
  pose proof (scan_number_exact ds rest Hne Hd) as S. rewrite Hw in S.
  pose proof (num_of_bound ds 0%Z ltac:(lia) Hd) as B.
  assert (B2 : (num_of ds 0 <=? 9223372036854775807)%Z = true).
  { apply Z.leb_le.
    assert ((10 ^ Z.of_nat (length ds) <= 10 ^ 18)%Z) by (apply Z.pow_le_mono_r; lia).
    change (10 ^ 18)%Z with 1000000000000000000%Z in *. lia. }
  destruct ds as [|b ds']; [contradiction|].
  cbn [forallb] in Hd. apply andb_true_iff in Hd as [Hb _].
  pose proof (digit_not_ws b Hb) as W. pose proof (digit_not_sign b Hb) as G.
  destruct i; try discriminate; unfold step; cbn [app trim_start]; rewrite W, G;
    change (b :: ds' ++ rest) with ((b :: ds') ++ rest); rewrite S, B2; reflexivity.
Qed.

Lemma step_lit b r p : step (ILit b) (b :: r) p = Some (r, p).
Proof. unfold step. rewrite N.eqb_refl. reflexivity. Qed.

Lemma step_offset perm txt o p :
  scan_offset perm txt = Some (o, []) -> trim_start txt = txt ->
  step (IOffset perm) txt p = option_map (fun p' => ([], p')) (set_field (IOffset perm) o p).
Proof. intros S T. unfold step. rewrite T, S. reflexivity. Qed.

(* ------------------------------------------------------------------ chrono's offset scanner on the shapes
   the normalised buffer can end with *)
Definition signed (neg : bool) (s : Z) : Z := if neg then (- s)%Z else s.

Lemma colon_or_space_digit m r : is_digit m = true -> colon_or_space (m :: r) = m :: r.
Proof.
  intros H. cbn [colon_or_space]. rewrite (digit_not_ws m H).
  replace (m =? 58) with false by (symmetry; apply N.eqb_neq; apply digit_bounds in H; lia). reflexivity.
Qed.

Lemma colon_or_space_colon r : colon_or_space (58 :: r) = colon_or_space r.
Proof. reflexivity. Qed.

Definition sign_ok (sg : N) (neg : bool) : Prop :=
  (sg =? 90) = false /\ (sg =? 122) = false /\
  (((sg =? 43) = true /\ neg = false) \/ ((sg =? 43) = false /\ (sg =? 45) = true /\ neg = true)).

Lemma sign_ok_plus : sign_ok 43 false.
Proof. repeat split. left. split; reflexivity. Qed.
Lemma sign_ok_minus : sign_ok 45 true.
Proof. repeat split. right. repeat split; reflexivity. Qed.

Lemma sign_not_ws sg neg : sign_ok sg neg -> is_ws sg = false.
Proof.
  intros [_ [_ [[H _]|[_ [H _]]]]]; apply N.eqb_eq in H; subst; reflexivity.
Qed.

Lemma scan_offset_head perm sg neg h1 h2 s2 :
  sign_ok sg neg -> is_digit h1 = true -> is_digit h2 = true ->
  scan_offset perm (sg :: h1 :: h2 :: s2) =
    match colon_or_space s2 with
    | m1 :: m2 :: s4 =>
        if (48 <=? m1) && (m1 <=? 53) && is_digit m2
        then Some (signed neg (val2 h1 h2 * 3600 + val2 m1 m2 * 60), s4) else None
    | [] => if perm then Some (signed neg (val2 h1 h2 * 3600 + 0 * 60), []) else None
    | [_] => None
    end.
Proof.
  intros [H90 [H122 Hs]] D1 D2. unfold scan_offset.
  rewrite H90, H122. cbn [orb]. rewrite andb_false_r.
  destruct Hs as [[Hp ->]|[Hp [Hm ->]]].
  - rewrite Hp. cbn [tl]. rewrite D1, D2. cbn [andb]. unfold val2, signed.
    destruct (colon_or_space s2) as [|m1 [|m2 s4]]; reflexivity.
  - rewrite Hp, Hm. cbn [tl]. rewrite D1, D2. cbn [andb]. unfold val2, signed.
    destruct (colon_or_space s2) as [|m1 [|m2 s4]]; reflexivity.
Qed.

Lemma m1_ok m1 : is_digit m1 = true -> m1 <= 53 -> (48 <=? m1) && (m1 <=? 53) = true.
Proof.
  intros D L. apply digit_bounds in D. apply andb_true_iff. split; apply N.leb_le; lia.
Qed.

Lemma scan_offset_z perm sg neg h1 h2 m1 m2 :
  sign_ok sg neg -> is_digit h1 = true -> is_digit h2 = true -> is_digit m1 = true -> is_digit m2 = true ->
  m1 <= 53 ->
  scan_offset perm [sg; h1; h2; m1; m2] = Some (signed neg (val2 h1 h2 * 3600 + val2 m1 m2 * 60), []).
Proof.
  intros S D1 D2 D3 D4 L. rewrite (scan_offset_head perm sg neg) by assumption.
  rewrite colon_or_space_digit by assumption. rewrite m1_ok by assumption. rewrite D4. reflexivity.
Qed.

Lemma scan_offset_zc perm sg neg h1 h2 m1 m2 :
  sign_ok sg neg -> is_digit h1 = true -> is_digit h2 = true -> is_digit m1 = true -> is_digit m2 = true ->
  m1 <= 53 ->
  scan_offset perm [sg; h1; h2; 58; m1; m2] = Some (signed neg (val2 h1 h2 * 3600 + val2 m1 m2 * 60), []).
Proof.
  intros S D1 D2 D3 D4 L. rewrite (scan_offset_head perm sg neg) by assumption.
  rewrite colon_or_space_colon, colon_or_space_digit by assumption. rewrite m1_ok by assumption. rewrite D4. reflexivity.
Qed.

Lemma scan_offset_zp sg neg h1 h2 :
  sign_ok sg neg -> is_digit h1 = true -> is_digit h2 = true ->
  scan_offset true [sg; h1; h2] = Some (signed neg (val2 h1 h2 * 3600 + 0 * 60), []).
Proof.
  intros S D1 D2. rewrite (scan_offset_head true sg neg) by assumption. reflexivity.
Qed.

(* val2 of a two-digit rendering *)
Lemma two_digits_val n : n <= 99 ->
  is_digit (48 + n / 10) = true /\ is_digit (48 + n mod 10) = true /\ val2 (48 + n / 10) (48 + n mod 10) = Z.of_N n.
Proof.
  intros H. repeat split; try (apply digit_of_bounds; lia). unfold val2. lia.
Qed.

(* the text of the fallback zone is read back as the fallback zone *)
Lemma scan_offset_offset_string off :
  fallback_ok off = true ->
  scan_offset false (offset_string off) = Some (off, []) /\ trim_start (offset_string off) = offset_string off
  /\ length (offset_string off) = 6%nat /\ offset_in_range off = true.
Proof.
  unfold fallback_ok. intros H. apply andb_true_iff in H as [H H3]. apply andb_true_iff in H as [H1 H2].
  apply Z.ltb_lt in H1, H2. apply Z.eqb_eq in H3.
  assert (R : offset_in_range off = true) by (unfold offset_in_range; apply andb_true_iff; split; apply Z.ltb_lt; lia).
  unfold offset_string.
  set (a := Z.to_N (Z.abs off)).
  assert (Ha : a < 86400) by lia.
  assert (Hs : a mod 60 = 0) by lia.
  replace (a mod 60 =? 0) with true by (symmetry; apply N.eqb_eq; exact Hs).
  set (h := a / 60 / 60). set (mi := (a / 60) mod 60).
  assert (Hh : h <= 23) by (subst h; lia). assert (Hmi : mi <= 59) by (subst mi; lia).
  destruct (two_digits_val h ltac:(lia)) as [A1 [A2 A3]].
  destruct (two_digits_val mi ltac:(lia)) as [B1 [B2 B3]].
  assert (Hm1 : 48 + mi / 10 <= 53) by lia.
  assert (Hv : (Z.of_N h * 3600 + Z.of_N mi * 60 = Z.abs off)%Z) by (subst h mi a; lia).
  unfold two_digits. cbn [app].
  destruct (off <? 0)%Z eqn:Neg.
  - apply Z.ltb_lt in Neg. repeat split; try assumption; try reflexivity.
    rewrite (scan_offset_zc false 45 true) by (assumption || apply sign_ok_minus).
    rewrite A3, B3, Hv. unfold signed. f_equal. f_equal. lia.
  - apply Z.ltb_ge in Neg. repeat split; try assumption; try reflexivity.
    rewrite (scan_offset_zc false 43 false) by (assumption || apply sign_ok_plus).
    rewrite A3, B3, Hv. unfold signed. f_equal. f_equal. lia.
Qed.

(* ------------------------------------------------------------------ segments of the normalised buffer *)
Lemma dec_fuel_step f n acc :
  dec_fuel (S f) n acc = if n / 10 =? 0 then (48 + n mod 10) :: acc else dec_fuel f (n / 10) ((48 + n mod 10) :: acc).
Proof. reflexivity. Qed.

Lemma dec4 (y : Z) : (1000 <= y <= 9999)%Z -> dig 4 (dec_of_Z y) y.
Proof.
  intros H. destruct y as [|p|p]; try lia. unfold dec_of_Z, dec_of_N.
  set (n := N.pos p). assert (Hn : 1000 <= n <= 9999) by lia.
  rewrite (dec_fuel_step 39). replace (n / 10 =? 0) with false by (symmetry; apply N.eqb_neq; lia).
  rewrite (dec_fuel_step 38). replace (n / 10 / 10 =? 0) with false by (symmetry; apply N.eqb_neq; lia).
  rewrite (dec_fuel_step 37). replace (n / 10 / 10 / 10 =? 0) with false by (symmetry; apply N.eqb_neq; lia).
  rewrite (dec_fuel_step 36). replace (n / 10 / 10 / 10 / 10 =? 0) with true by (symmetry; apply N.eqb_eq; lia).
  split; [reflexivity|]. split.
  - cbn [forallb]. rewrite !digit_of_bounds by lia. reflexivity.
  - cbn [num_of]. change (Z.pos p) with (Z.of_N n). lia.
Qed.

Lemma seg_year_ok d c yo y :
  rd_year d c yo = Some y ->
  exists yd v, seg_year d c yo = Some yd /\ dig (if is_y2 d then 2 else 4)%nat yd v /\
               y = (if is_y2 d then v + (if v <? 70 then 2000 else 1900) else v)%Z.
Proof.
  unfold rd_year, seg_year, is_y2. destruct (f_year d).
  - destruct (c_year c) as [t|]; [|discriminate]. intros H. exists t, y.
    split; [reflexivity|]. split; [apply digits_n_dig; exact H|reflexivity].
  - destruct (c_year c) as [t|]; [|discriminate]. destruct (digits_n 2 t) as [r|] eqn:E; [|discriminate].
    cbn [option_map]. intros H. inversion H. exists t, r.
    split; [reflexivity|]. split; [apply digits_n_dig; exact E|reflexivity].
  - destruct (c_year c) as [t|].
    + intros H. exists t, y. split; [reflexivity|]. split; [apply digits_n_dig; exact H|reflexivity].
    + destruct yo as [y0|].
      * destruct ((1000 <=? y0)%Z && (y0 <=? 9999)%Z) eqn:R; [|discriminate]. intros H. inversion H; subst.
        apply andb_true_iff in R as [R1 R2]. apply Z.leb_le in R1, R2.
        exists (dec_of_Z y), y. split; [reflexivity|]. split; [apply dec4; lia|reflexivity].
      * intros H. inversion H. exists YEAR_FALLBACKDUMMY, 1972%Z.
        split; [reflexivity|]. split; [|reflexivity]. repeat split; reflexivity.
  - discriminate.
Qed.

Lemma two_digit_val_dig v n : two_digit_val v = Some n -> dig 2 v n.
Proof.
  unfold two_digit_val. destruct v as [|a [|b [|? ?]]]; try discriminate.
  destruct (is_digit a) eqn:A, (is_digit b) eqn:B; cbn [andb]; try discriminate.
  intros H. inversion H. split; [reflexivity|]. split.
  - cbn [forallb]. rewrite A, B. reflexivity.
  - cbn [num_of]. apply digit_bounds in A, B. lia.
Qed.

Lemma seg_pad12 t v : dig 1 t v \/ dig 2 t v ->
  exists md, (match length t with 1%nat => Some (48 :: t) | _ => Some t end) = Some md /\ dig 2 md v.
Proof.
  intros [H|H].
  - pose proof H as [L _]. rewrite L. exists (48 :: t). split; [reflexivity|]. apply dig_pad1. exact H.
  - pose proof H as [L _]. rewrite L. exists t. split; [reflexivity|]. exact H.
Qed.

Lemma seg_hour_ok d c h :
  rd_hour d c = Some h -> exists hd, seg_hour d c = Some hd /\ dig 2 hd h.
Proof.
  unfold rd_hour, seg_hour. destruct (c_hour c) as [t|]; [|discriminate].
  destruct (f_hour d); try discriminate.
  - intros H. exists t. split; [reflexivity|]. apply digits_n_dig. exact H.
  - intros H. apply digits_1_2_cases in H. apply seg_pad12. exact H.
Qed.

Lemma seg_minute_ok d c mi :
  rd_minute d c = Some mi -> exists md, seg_minute d c = Some md /\ dig 2 md mi.
Proof.
  unfold rd_minute, seg_minute. destruct (f_minute d); [|discriminate].
  destruct (c_minute c) as [t|]; [|discriminate].
  intros H. exists t. split; [reflexivity|]. apply digits_n_dig. exact H.
Qed.

Lemma seg_second_ok d c s :
  rd_second d c = Some s ->
  exists sd, seg_second d c = Some sd /\
             (if sec_present d then dig 2 sd s else sd = [] /\ s = 0%Z).
Proof.
  unfold rd_second, seg_second, sec_present. destruct (f_second d).
  - destruct (c_second c) as [t|]; [|discriminate]. intros H. exists t. split; [reflexivity|].
    apply digits_n_dig. exact H.
  - intros H. inversion H. exists [48; 48]. split; [reflexivity|]. repeat split; reflexivity.
  - intros H. inversion H. exists []. repeat split; reflexivity.
Qed.

Lemma seg_day_ok d c dd :
  rd_day d c = Some dd -> exists ds, seg_day d c = Some ds /\ dig 2 ds dd.
Proof.
  unfold rd_day, seg_day. destruct (f_day d); [|discriminate].
  destruct (c_day c) as [t|]; [|discriminate].
  destruct t as [|a [|b [|x r]]].
  - intros H. apply digits_1_2_cases in H as [[L _]|[L _]]; discriminate.
  - intros H. apply digits_1_2_cases in H as [H|[L _]]; [|discriminate].
    exists [48; a]. split; [reflexivity|]. apply (dig_pad1 [a]). exact H.
  - destruct (a =? 32) eqn:E.
    + intros H. apply digits_n_dig in H. exists [48; b]. split; [reflexivity|]. apply (dig_pad1 [b]). exact H.
    + intros H. apply digits_1_2_cases in H as [[L _]|H]; [discriminate|].
      exists [a; b]. split; [reflexivity|]. exact H.
  - intros H. apply digits_1_2_cases in H as [[L _]|[L _]]; discriminate.
Qed.

Lemma seg_frac_ok d c fr :
  rd_frac d c = Some fr ->
  exists fd, seg_frac d c = Some fd /\
             (if frac_present d then exists f9, fd = 46 :: f9 /\ dig 9 f9 fr else fd = [] /\ fr = 0%Z).
Proof.
  unfold rd_frac, seg_frac, frac_present. destruct (f_frac d).
  - destruct (c_frac c) as [t|]; [|discriminate]. intros H.
    exists (46 :: pad_frac t). split; [reflexivity|]. exists (pad_frac t). split; [reflexivity|].
    unfold frac_ns in H.
    destruct ((1 <=? length t)%nat && (length t <=? 9)%nat) eqn:L; cbn [andb] in H; [|discriminate].
    change (forallb digit t) with (forallb is_digit t) in H.
    destruct (forallb is_digit t) eqn:D; [|discriminate].
    apply andb_true_iff in L as [L1 L2]. apply Nat.leb_le in L1, L2.
    destruct (pad9_value_lemma t (conj L1 L2) D) as [P1 [P2 [P3 _]]].
    inversion H as [H1]. split; [exact P1|]. split; [exact P2|]. rewrite P3. reflexivity.
  - intros H. inversion H. exists []. repeat split; reflexivity.
Qed.

(* ------------------------------------------------------------------ the zone segment *)
Lemma starts_with_minus_first a r : a <> 226 -> starts_with MINUS_SIGN (a :: r) = false.
Proof.
  intros H. unfold starts_with, MINUS_SIGN. cbn [length firstn beqb].
  replace (a =? 226) with false by (symmetry; apply N.eqb_neq; exact H). reflexivity.
Qed.

Lemma starts_with_minus_yes r : starts_with MINUS_SIGN (226 :: 136 :: 146 :: r) = true.
Proof. reflexivity. Qed.

Definition numeric_tz_seg (t : bytes) : option bytes :=
  if starts_with MINUS_SIGN t
  then (let rest := skipn 3 t in if forallb (fun b => b <? 128) rest then Some (45 :: rest) else Some [45])
  else Some t.

Lemma split_sign_seg t neg r :
  split_sign t = Some (neg, r) -> forallb (fun b => b <? 128) r = true ->
  exists sg, sign_ok sg neg /\ numeric_tz_seg t = Some (sg :: r).
Proof.
  unfold split_sign, numeric_tz_seg. destruct t as [|a r0]; [discriminate|].
  destruct (a =? 43) eqn:E1.
  - intros H A. inversion H; subst. apply N.eqb_eq in E1. subst a.
    exists 43. split; [apply sign_ok_plus|]. rewrite starts_with_minus_first by lia. reflexivity.
  - destruct (a =? 45) eqn:E2.
    + intros H A. inversion H; subst. apply N.eqb_eq in E2. subst a.
      exists 45. split; [apply sign_ok_minus|]. rewrite starts_with_minus_first by lia. reflexivity.
    + destruct r0 as [|b [|c r']]; try discriminate.
      destruct ((a =? 226) && (b =? 136) && (c =? 146)) eqn:E3; [|discriminate].
      intros H A. inversion H; subst.
      apply andb_true_iff in E3 as [E3 E5]. apply andb_true_iff in E3 as [E3 E4].
      apply N.eqb_eq in E3, E4, E5. subst a b c.
      exists 45. split; [apply sign_ok_minus|]. rewrite starts_with_minus_yes. cbn [skipn]. rewrite A. reflexivity.
Qed.

Lemma digit_lt128 b : is_digit b = true -> (b <? 128) = true.
Proof. intros H. apply digit_bounds in H. apply N.ltb_lt. lia. Qed.

Lemma mk_off_inv neg hh mm o : mk_off neg hh mm = Some o ->
  (hh <= 23)%Z /\ (mm <= 59)%Z /\ o = signed neg (hh * 3600 + mm * 60)%Z.
Proof.
  unfold mk_off. destruct ((hh <=? 23)%Z && (mm <=? 59)%Z) eqn:E; [|discriminate].
  apply andb_true_iff in E as [E1 E2]. apply Z.leb_le in E1, E2. intros H. inversion H. auto.
Qed.

Lemma val2_bounds a b : is_digit a = true -> is_digit b = true -> (0 <= val2 a b <= 99)%Z.
Proof. intros A B. apply digit_bounds in A, B. unfold val2. lia. Qed.

Lemma signed_range neg v : (0 <= v < 86400)%Z -> offset_in_range (signed neg v) = true.
Proof.
  intros H. unfold offset_in_range, signed. apply andb_true_iff. destruct neg; split; apply Z.ltb_lt; lia.
Qed.

(* numeric zone notations: the segment is read by chrono's scanner as exactly the written offset *)
Lemma numeric_tz_ok k t o :
  (k = Tz_z \/ k = Tz_zc \/ k = Tz_zp) -> off_of_text k t = Some o ->
  exists txt, numeric_tz_seg t = Some txt /\
    scan_offset (match k with Tz_zp => true | _ => false end) txt = Some (o, []) /\
    trim_start txt = txt /\ (length txt <= 6)%nat /\ offset_in_range o = true.
Proof.
  intros K. unfold off_of_text. destruct (split_sign t) as [[neg r]|] eqn:S; [|discriminate].
  destruct K as [->|[->| ->]].
  - destruct r as [|h1 [|h2 [|m1 [|m2 [|? ?]]]]]; try discriminate.
    change (digit h1) with (is_digit h1). change (digit h2) with (is_digit h2).
    change (digit m1) with (is_digit m1). change (digit m2) with (is_digit m2).
    destruct (is_digit h1) eqn:D1, (is_digit h2) eqn:D2, (is_digit m1) eqn:D3, (is_digit m2) eqn:D4; cbn [andb]; try discriminate.
    intros H. apply mk_off_inv in H as [Hh [Hm ->]].
    destruct (split_sign_seg t neg [h1; h2; m1; m2] S) as [sg [Sg Seg]].
    { cbn [forallb]. rewrite !digit_lt128 by assumption. reflexivity. }
    exists [sg; h1; h2; m1; m2]. split; [exact Seg|].
    pose proof (val2_bounds h1 h2 D1 D2). pose proof (val2_bounds m1 m2 D3 D4).
    assert (m1 <= 53) by (apply digit_bounds in D3, D4; unfold val2 in Hm; lia).
    split; [apply scan_offset_z; assumption|].
    split; [cbn [trim_start]; rewrite (sign_not_ws sg neg Sg); reflexivity|].
    split; [cbn; lia|]. apply signed_range. lia.
  - destruct r as [|h1 [|h2 [|cc [|m1 [|m2 [|? ?]]]]]]; try discriminate.
    change (digit h1) with (is_digit h1). change (digit h2) with (is_digit h2).
    change (digit m1) with (is_digit m1). change (digit m2) with (is_digit m2).
    destruct (is_digit h1) eqn:D1, (is_digit h2) eqn:D2, (cc =? 58) eqn:C, (is_digit m1) eqn:D3, (is_digit m2) eqn:D4; cbn [andb]; try discriminate.
    apply N.eqb_eq in C. subst cc.
    intros H. apply mk_off_inv in H as [Hh [Hm ->]].
    destruct (split_sign_seg t neg [h1; h2; 58; m1; m2] S) as [sg [Sg Seg]].
    { cbn [forallb]. rewrite (digit_lt128 h1), (digit_lt128 h2), (digit_lt128 m1), (digit_lt128 m2) by assumption. reflexivity. }
    exists [sg; h1; h2; 58; m1; m2]. split; [exact Seg|].
    pose proof (val2_bounds h1 h2 D1 D2). pose proof (val2_bounds m1 m2 D3 D4).
    assert (m1 <= 53) by (apply digit_bounds in D3, D4; unfold val2 in Hm; lia).
    split; [apply scan_offset_zc; assumption|].
    split; [cbn [trim_start]; rewrite (sign_not_ws sg neg Sg); reflexivity|].
    split; [cbn; lia|]. apply signed_range. lia.
  - destruct r as [|h1 [|h2 [|? ?]]]; try discriminate.
    change (digit h1) with (is_digit h1). change (digit h2) with (is_digit h2).
    destruct (is_digit h1) eqn:D1, (is_digit h2) eqn:D2; cbn [andb]; try discriminate.
    intros H. apply mk_off_inv in H as [Hh [Hm ->]].
    destruct (split_sign_seg t neg [h1; h2] S) as [sg [Sg Seg]].
    { cbn [forallb]. rewrite !digit_lt128 by assumption. reflexivity. }
    exists [sg; h1; h2]. split; [exact Seg|].
    pose proof (val2_bounds h1 h2 D1 D2).
    split; [apply scan_offset_zp; assumption|].
    split; [cbn [trim_start]; rewrite (sign_not_ws sg neg Sg); reflexivity|].
    split; [cbn; lia|]. apply signed_range. lia.
Qed.

(* a table value that denotes an offset has the wf shape, hence is scanned completely, in range *)
Lemma table_value_ok k s o :
  In (k, s) tz_table -> tz_value_off s = Some (Some o) ->
  scan_offset false s = Some (o, []) /\ trim_start s = s /\ (length s <= 6)%nat /\ offset_in_range o = true.
Proof.
  intros Hin Hv. pose proof (tz_table_wf_all k s Hin) as W.
  unfold tz_value_off in Hv. destruct s as [|sg [|h1 [|h2 [|cc [|m1 [|m2 [|? ?]]]]]]]; try discriminate.
  unfold tz_value_wf in W.
  repeat (apply andb_true_iff in W as [W ?]).
  match goal with H : (cc =? 58) = true |- _ => apply N.eqb_eq in H; subst cc end.
  assert (Sg : exists neg, sign_ok sg neg).
  { apply orb_true_iff in W as [E|E]; apply N.eqb_eq in E; subst sg;
      [exists false; apply sign_ok_plus|exists true; apply sign_ok_minus]. }
  destruct Sg as [neg Sg].
  match goal with H : is_digit h1 = true |- _ => pose proof H as D1 end.
  match goal with H : is_digit h2 = true |- _ => pose proof H as D2 end.
  match goal with H : is_digit m1 = true |- _ => pose proof H as D3 end.
  match goal with H : is_digit m2 = true |- _ => pose proof H as D4 end.
  match goal with H : ((h1 - 48) * 10 + (h2 - 48) <=? 14) = true |- _ => apply N.leb_le in H; pose proof H as HH end.
  match goal with H : (_ || _ || _ || _) = true |- _ => pose proof H as HM end.
  assert (Mm : (m1 - 48) * 10 + (m2 - 48) <= 45).
  { repeat (apply orb_true_iff in HM as [HM|HM]); apply N.eqb_eq in HM; lia. }
  assert (M53 : m1 <= 53) by (apply digit_bounds in D3, D4; lia).
  pose proof (scan_offset_zc false sg neg h1 h2 m1 m2 Sg D1 D2 D3 D4 M53) as SC.
  rewrite SC in Hv. inversion Hv; subst o.
  split; [exact SC|]. split; [cbn [trim_start]; rewrite (sign_not_ws sg neg Sg); reflexivity|].
  split; [cbn; lia|]. apply signed_range.
  apply digit_bounds in D1, D2, D3, D4. unfold val2. lia.
Qed.

Lemma seg_tz_ok d c off o :
  fallback_ok off = true -> rd_off d c off = Some o ->
  exists txt o', seg_tz tz_table d c (offset_string off) = Some txt /\
    scan_offset (tz_perm d) txt = Some (o', []) /\ trim_start txt = txt /\ (length txt <= 6)%nat /\
    (if has_tz d then o' = o /\ offset_in_range o = true else o = off).
Proof.
  intros F. destruct (scan_offset_offset_string off F) as [FS [FT [FL FR]]].
  unfold rd_off, seg_tz, tz_perm, has_tz.
  destruct (f_tz d) eqn:K.
  - destruct (c_tz c) as [t|]; [|discriminate]. intros H.
    destruct (numeric_tz_ok Tz_z t o ltac:(auto) H) as [txt [A [B [C [D E]]]]].
    exists txt, o. unfold numeric_tz_seg in A. cbv zeta in A. rewrite A. repeat split; assumption.
  - destruct (c_tz c) as [t|]; [|discriminate]. intros H.
    destruct (numeric_tz_ok Tz_zc t o ltac:(auto) H) as [txt [A [B [C [D E]]]]].
    exists txt, o. unfold numeric_tz_seg in A. cbv zeta in A. rewrite A. repeat split; assumption.
  - destruct (c_tz c) as [t|]; [|discriminate]. intros H.
    destruct (numeric_tz_ok Tz_zp t o ltac:(auto) H) as [txt [A [B [C [D E]]]]].
    exists txt, o. unfold numeric_tz_seg in A. cbv zeta in A. rewrite A. repeat split; assumption.
  - destruct (c_tz c) as [t|]; [|discriminate].
    destruct (zone_of_name t) as [[oz|]|] eqn:Z; try discriminate.
    + intros H. inversion H; subst oz. unfold zone_of_name in Z. apply assoc_in in Z.
      destruct (tz_matches_ref_all _ _ Z) as [s [Hs Hv]]. rewrite Hs.
      pose proof (assoc_in _ _ _ Hs) as Hin.
      destruct (table_value_ok t s o Hin Hv) as [A [B [C D]]].
      destruct s as [|b s']; [discriminate|].
      exists (b :: s'), o. repeat split; assumption.
    + intros H. inversion H; subst o. unfold zone_of_name in Z. apply assoc_in in Z.
      destruct (tz_matches_ref_all _ _ Z) as [s [Hs Hv]]. rewrite Hs.
      destruct s as [|b s'].
      * exists (offset_string off), off. repeat split; try assumption. lia.
      * exfalso. unfold tz_value_off in Hv.
        destruct (scan_offset false (b :: s')) as [[o' [|x r]]|]; discriminate.
  - intros H. inversion H; subst o. exists (offset_string off), off. repeat split; try assumption. lia.
  - discriminate.
Qed.

(* ------------------------------------------------------------------ the whole item chain *)
Ltac donum i H :=
  let L := fresh "L" in let D := fresh "D" in let V := fresh "V" in
  destruct H as [L [D V]];
  rewrite (step_num i) by (reflexivity || exact D || (rewrite L; reflexivity) || (rewrite L; lia));
  rewrite V; cbn [set_field setc option_map p_year p_year2 p_month p_day p_hour p_minute p_second p_nano p_ts p_off].

Lemma canon_parse (y2 hs hf perm : bool) yd md dd hd mid sd fd txt Y MO DD H MI S F o :
  dig (if y2 then 2 else 4)%nat yd Y -> dig 2 md MO -> dig 2 dd DD -> dig 2 hd H -> dig 2 mid MI ->
  (if hs then dig 2 sd S else sd = []) ->
  (if hf then exists f9, fd = 46 :: f9 /\ dig 9 f9 F else fd = []) ->
  scan_offset perm txt = Some (o, []) -> trim_start txt = txt ->
  parse_items (canon_items y2 hs hf perm) (yd ++ md ++ dd ++ [84] ++ hd ++ mid ++ sd ++ fd ++ txt) parsed0 =
  Some ([], mkParsed (if y2 then None else Some Y) (if y2 then Some Y else None) (Some MO) (Some DD) (Some H)
                     (Some MI) (if hs then Some S else None) (if hf then Some F else None) None (Some o)).
Proof.
  intros HY HMO HDD HH HMI HS HF HO HT.
  assert (Y100 : y2 = true -> (Y <? 100)%Z = true).
  { intros ->. apply dig_bound in HY. apply Z.ltb_lt. change (10 ^ Z.of_nat 2)%Z with 100%Z in HY. lia. }
  unfold canon_items, parsed0.
  destruct y2.
  - cbn [app parse_items]. donum IYear2 HY. rewrite (Y100 eq_refl). cbn [option_map].
    donum IMonth HMO. donum IDay HDD. rewrite step_lit. donum IHour HH. donum IMinute HMI.
    destruct hs, hf; cbn [app parse_items].
    + donum ISecond HS. destruct HF as [f9 [-> HF]]. cbn [app]. rewrite step_lit. donum INano HF.
      rewrite (step_offset perm txt o) by assumption. reflexivity.
    + donum ISecond HS. subst fd. cbn [app]. rewrite (step_offset perm txt o) by assumption. reflexivity.
    + subst sd. destruct HF as [f9 [-> HF]]. cbn [app]. rewrite step_lit. donum INano HF.
      rewrite (step_offset perm txt o) by assumption. reflexivity.
    + subst sd fd. cbn [app]. rewrite (step_offset perm txt o) by assumption. reflexivity.
  - cbn [app parse_items]. donum IYear HY.
    donum IMonth HMO. donum IDay HDD. rewrite step_lit. donum IHour HH. donum IMinute HMI.
    destruct hs, hf; cbn [app parse_items].
    + donum ISecond HS. destruct HF as [f9 [-> HF]]. cbn [app]. rewrite step_lit. donum INano HF.
      rewrite (step_offset perm txt o) by assumption. reflexivity.
    + donum ISecond HS. subst fd. cbn [app]. rewrite (step_offset perm txt o) by assumption. reflexivity.
    + subst sd. destruct HF as [f9 [-> HF]]. cbn [app]. rewrite step_lit. donum INano HF.
      rewrite (step_offset perm txt o) by assumption. reflexivity.
    + subst sd fd. cbn [app]. rewrite (step_offset perm txt o) by assumption. reflexivity.
Qed.

(* ------------------------------------------------------------------ the theorem *)
Section Denotes.
(* the month table has an arm for every accepted spelling (C04_month_table_complete) *)
Hypothesis month_complete : forall sp n, In (sp, n) ref_month_spellings ->
  exists v, assoc sp month_table = Some v /\ two_digit_val v = Some n.

Lemma seg_month_ok d c mo :
  rd_month d c = Some mo -> exists md, seg_month month_table d c = Some md /\ dig 2 md mo.
Proof.
  unfold rd_month, seg_month. destruct (c_month c) as [t|]; [|discriminate].
  destruct (f_month d); try discriminate.
  - intros H. exists t. split; [reflexivity|]. apply digits_n_dig. exact H.
  - intros H. apply digits_1_2_cases in H. apply seg_pad12. exact H.
  - intros H. unfold month_of_name in H. apply assoc_in in H.
    destruct (month_complete _ _ H) as [v [A B]]. exists v. split; [exact A|]. apply two_digit_val_dig. exact B.
  - intros H. unfold month_of_name in H. apply assoc_in in H.
    destruct (month_complete _ _ H) as [v [A B]]. exists v. split; [exact A|]. apply two_digit_val_dig. exact B.
Qed.

Lemma civil_branch d : dtfs_ok d = true -> f_epoch d = E_none ->
  civil_supported d = true /\
  items_of_pattern (f_pattern d) = Some (canon_items (is_y2 d) (sec_present d) (frac_present d) (tz_perm d)).
Proof.
  unfold dtfs_ok. intros H E. apply orb_true_iff in H as [H|H].
  - apply andb_true_iff in H as [H1 H2]. split; [exact H1|].
    unfold pattern_is in H2. destruct (items_of_pattern (f_pattern d)) as [p|]; [|discriminate].
    apply items_eqb_eq in H2. congruence.
  - apply andb_true_iff in H as [H1 _]. unfold epoch_supported in H1. rewrite E in H1. discriminate.
Qed.

Theorem normalise_denotes_lemma d c yo off t :
  dtfs_ok d = true -> f_epoch d = E_none -> fallback_ok off = true ->
  denoted_instant d c yo off = Some t ->
  model_instant month_table tz_table d c yo off = Some t.
Proof.
  intros OK E F Den.
  destruct (civil_branch d OK E) as [Sup Pat].
  unfold denoted_instant in Den. rewrite E in Den. unfold denoted_civil, obind' in Den.
  destruct (rd_year d c yo) as [y|] eqn:Ry; [|discriminate].
  destruct (rd_month d c) as [mo|] eqn:Rmo; [|discriminate].
  destruct (rd_day d c) as [dd|] eqn:Rd; [|discriminate].
  destruct (rd_hour d c) as [h|] eqn:Rh; [|discriminate].
  destruct (rd_minute d c) as [mi|] eqn:Rmi; [|discriminate].
  destruct (rd_second d c) as [s|] eqn:Rs; [|discriminate].
  destruct (rd_frac d c) as [fr|] eqn:Rf; [|discriminate].
  destruct (rd_off d c off) as [o|] eqn:Ro; [|discriminate].
  match type of Den with (if ?b then _ else _) = _ => destruct b eqn:Val; [|discriminate] end.
  inversion Den; subst t. clear Den.
  repeat (apply andb_true_iff in Val as [Val ?]).
  repeat match goal with H : (_ <=? _)%Z = true |- _ => apply Z.leb_le in H end.
  destruct (seg_year_ok _ _ _ _ Ry) as [yd [yv [Sy [Dy Ey]]]].
  destruct (seg_month_ok _ _ _ Rmo) as [md [Smo Dmo]].
  destruct (seg_day_ok _ _ _ Rd) as [ds [Sd Dd]].
  destruct (seg_hour_ok _ _ _ Rh) as [hd [Sh Dh]].
  destruct (seg_minute_ok _ _ _ Rmi) as [mid [Smi Dmi]].
  destruct (seg_second_ok _ _ _ Rs) as [sd [Ss Ds]].
  destruct (seg_frac_ok _ _ _ Rf) as [fd [Sf Df]].
  destruct (seg_tz_ok _ _ _ _ F Ro) as [txt [o' [Stz [Sc [Tr [Ltxt Hoff]]]]]].
  unfold model_instant, normalise, obind, seg_epoch. rewrite E, Sy, Smo, Sd, Sh, Smi, Ss, Sf, Stz.
  cbn [app].
  (* lengths: the buffer fits in BUFLEN = 35 *)
  pose proof Dy as [Ly _]. pose proof Dmo as [Lmo _]. pose proof Dd as [Ld _]. pose proof Dh as [Lh _]. pose proof Dmi as [Lmi _].
  assert (Lsd : (length sd <= 2)%nat) by (destruct (sec_present d); [destruct Ds as [-> _]; lia|destruct Ds as [-> _]; cbn; lia]).
  assert (Lfd : (length fd <= 10)%nat).
  { destruct (frac_present d); [destruct Df as [f9 [-> [L9 _]]]; cbn; lia|destruct Df as [-> _]; cbn; lia]. }
  assert (Lyd : (length yd <= 4)%nat) by (destruct (is_y2 d); lia).
  replace (Nat.leb (length (yd ++ md ++ ds ++ 84 :: hd ++ mid ++ sd ++ fd ++ txt)) 35) with true
    by (symmetry; apply Nat.leb_le; rewrite !app_length; cbn [length]; rewrite !app_length; lia).
  unfold parse_buffer. rewrite Pat.
  (* the item chain *)
  assert (HS : if sec_present d then dig 2 sd s else sd = []) by (destruct (sec_present d); tauto).
  assert (HF : if frac_present d then exists f9, fd = 46 :: f9 /\ dig 9 f9 fr else fd = []) by (destruct (frac_present d); tauto).
  change (yd ++ md ++ ds ++ 84 :: hd ++ mid ++ sd ++ fd ++ txt) with (yd ++ md ++ ds ++ [84] ++ hd ++ mid ++ sd ++ fd ++ txt).
  rewrite (canon_parse (is_y2 d) (sec_present d) (frac_present d) (tz_perm d) yd md ds hd mid sd fd txt
             yv mo dd h mi s fr o' Dy Dmo Dd Dh Dmi HS HF Sc Tr).
  (* resolution *)
  assert (Hy9 : (0 <= y <= 9999)%Z).
  { apply dig_bound in Dy. destruct (is_y2 d).
    - change (10 ^ Z.of_nat 2)%Z with 100%Z in Dy. destruct (yv <? 70)%Z; lia.
    - change (10 ^ Z.of_nat 4)%Z with 10000%Z in Dy. lia. }
  assert (Ryear : resolve_year (mkParsed (if is_y2 d then None else Some yv) (if is_y2 d then Some yv else None)
                       (Some mo) (Some dd) (Some h) (Some mi) (if sec_present d then Some s else None)
                       (if frac_present d then Some fr else None) None (Some o')) = Some y).
  { unfold resolve_year. cbn [p_year p_year2]. destruct (is_y2 d); subst y; reflexivity. }
  assert (Vd : valid_date y mo dd = true).
  { unfold valid_date. rewrite <- month_len_days_in_month.
    repeat (apply andb_true_iff; split); apply Z.leb_le; lia. }
  assert (Hs0 : sec_present d = false -> s = 0%Z) by (intros X; rewrite X in Ds; tauto).
  assert (Hf0 : frac_present d = false -> fr = 0%Z) by (intros X; rewrite X in Df; tauto).
  assert (Hf9 : (0 <= fr <= 999999999)%Z).
  { destruct (frac_present d) eqn:X; [|rewrite (Hf0 eq_refl); lia].
    destruct Df as [f9 [_ D9]]. apply dig_bound in D9. change (10 ^ Z.of_nat 9)%Z with 1000000000%Z in D9. lia. }
  assert (Hsf : sec_present d = true \/ frac_present d = false).
  { unfold civil_supported in Sup. repeat (apply andb_true_iff in Sup as [Sup ?]).
    match goal with X : sec_present d || negb (frac_present d) = true |- _ => apply orb_true_iff in X as [X|X] end;
      [left; assumption|right; destruct (frac_present d); [discriminate|reflexivity]]. }
  assert (Hs59 : (0 <= s)%Z).
  { destruct (sec_present d) eqn:X; [apply dig_bound in Ds; lia|rewrite (Hs0 eq_refl); lia]. }
  assert (Hh0 : (0 <= h)%Z) by (apply dig_bound in Dh; lia).
  assert (Hmi0 : (0 <= mi)%Z) by (apply dig_bound in Dmi; lia).
  set (P := mkParsed _ _ _ _ _ _ _ _ _ _) in *.
  assert (ND : naive_date P = Some (days_from_civil y mo dd)).
  { unfold naive_date. rewrite Ryear. subst P. cbn [p_month p_day]. rewrite Vd.
    replace (-262143 <=? y)%Z with true by (symmetry; apply Z.leb_le; lia).
    replace (y <=? 262142)%Z with true by (symmetry; apply Z.leb_le; lia). reflexivity. }
  assert (NT : naive_time P = Some ((h * 3600 + mi * 60 + s) * NS + fr)%Z).
  { unfold naive_time. subst P. cbn [p_hour p_minute p_second p_nano].
    replace (h <=? 23)%Z with true by (symmetry; apply Z.leb_le; lia).
    replace (mi <=? 59)%Z with true by (symmetry; apply Z.leb_le; lia). cbn [andb].
    destruct (sec_present d) eqn:X1, (frac_present d) eqn:X2.
    - replace (s <=? 60)%Z with true by (symmetry; apply Z.leb_le; lia).
      replace (fr <=? 999999999)%Z with true by (symmetry; apply Z.leb_le; lia). reflexivity.
    - replace (s <=? 60)%Z with true by (symmetry; apply Z.leb_le; lia). rewrite (Hf0 eq_refl). f_equal. lia.
    - destruct Hsf; discriminate.
    - rewrite (Hs0 eq_refl), (Hf0 eq_refl). cbn. f_equal. lia. }
  assert (NDT : forall off0, naive_datetime P off0 =
                  Some (days_from_civil y mo dd * 86400 * NS + ((h * 3600 + mi * 60 + s) * NS + fr))%Z).
  { intros off0. unfold naive_datetime. rewrite ND, NT. subst P. reflexivity. }
  assert (SD : days_from_civil y mo dd = spec_days y mo dd) by (apply days_from_civil_spec; lia).
  assert (PO : p_off P = Some o') by reflexivity.
  cbv beta iota.
  destruct (has_tz d).
  - destruct Hoff as [EO OR]. rewrite PO, EO, OR, (NDT o). cbn [option_map]. f_equal.
    unfold spec_instant. rewrite SD. unfold NS. lia.
  - subst o. rewrite (NDT 0%Z). cbn [option_map]. f_equal. unfold spec_instant. rewrite SD. unfold NS. lia.
Qed.
End Denotes.

(* ------------------------------------------------------------------ epoch notations: F7 characterised.
   For every epoch row, every epoch text and every fallback zone the code's instant is the denoted
   instant shifted by the fallback offset: right exactly when the fallback zone is UTC. *)
Lemma take_digits_stop ds : forall w rest acc cnt b,
  forallb is_digit ds = true -> is_digit b = false -> (length ds <= w)%nat ->
  take_digits w (ds ++ b :: rest) acc cnt = (num_of ds acc, (cnt + length ds)%nat, b :: rest).
Proof.
  induction ds as [|x ds IH]; intros w rest acc cnt b D B L.
  - cbn [app length num_of]. rewrite Nat.add_0_r. destruct w; cbn [take_digits]; [reflexivity|]. rewrite B. reflexivity.
  - cbn [forallb] in D. apply andb_true_iff in D as [Dx Dds]. cbn [length] in L.
    destruct w as [|w]; [lia|]. cbn [app take_digits num_of length]. rewrite Dx.
    rewrite IH by (assumption || lia). f_equal. f_equal. lia.
Qed.

Lemma step_ts ds rest p :
  ds <> [] -> forallb is_digit ds = true -> (length ds <= 18)%nat ->
  step ITimestamp (ds ++ 84 :: rest) p = option_map (fun p' => (84 :: rest, p')) (set_field ITimestamp (num_of ds 0) p).
Proof.
  intros Hne Hd Hl.
  pose proof (num_of_bound ds 0%Z ltac:(lia) Hd) as B.
  assert (B2 : (num_of ds 0 <=? 9223372036854775807)%Z = true).
  { apply Z.leb_le.
    assert ((10 ^ Z.of_nat (length ds) <= 10 ^ 18)%Z) by (apply Z.pow_le_mono_r; lia).
    change (10 ^ 18)%Z with 1000000000000000000%Z in *. lia. }
  assert (S : scan_number (width ITimestamp) (ds ++ 84 :: rest) = Some (num_of ds 0, 84 :: rest)).
  { unfold scan_number. rewrite take_digits_stop by (assumption || reflexivity || (cbn [width]; lia)).
    destruct ds; [contradiction|]. reflexivity. }
  destruct ds as [|b ds']; [contradiction|].
  cbn [forallb] in Hd. apply andb_true_iff in Hd as [Hb _].
  pose proof (digit_not_ws b Hb) as W. pose proof (digit_not_sign b Hb) as G.
  unfold step. cbn [app trim_start]. rewrite W, G.
  change (b :: ds' ++ 84 :: rest) with ((b :: ds') ++ 84 :: rest). rewrite S, B2. reflexivity.
Qed.

Theorem epoch_shift_lemma d c yo off t :
  dtfs_ok d = true -> f_epoch d = E_s ->
  denoted_instant d c yo off = Some t ->
  model_instant month_table tz_table d c yo off = Some (t - off * NS)%Z.
Proof.
  intros OK E Den.
  assert (Sup : epoch_supported d = true /\ items_of_pattern (f_pattern d) = Some (epoch_items (frac_present d))).
  { unfold dtfs_ok in OK. apply orb_true_iff in OK as [H|H].
    - apply andb_true_iff in H as [H1 _]. unfold civil_supported in H1. rewrite E in H1.
      repeat rewrite andb_false_r in H1. cbn in H1. rewrite ?andb_false_r in H1. discriminate.
    - apply andb_true_iff in H as [H1 H2]. split; [exact H1|].
      unfold pattern_is in H2. destruct (items_of_pattern (f_pattern d)) as [p|]; [|discriminate].
      apply items_eqb_eq in H2. congruence. }
  destruct Sup as [Sup Pat]. unfold epoch_supported in Sup. rewrite E in Sup.
  destruct (f_year d) eqn:Fy; try discriminate. destruct (f_month d) eqn:Fm; try discriminate.
  destruct (f_day d) eqn:Fd; try discriminate. destruct (f_hour d) eqn:Fh; try discriminate.
  destruct (f_minute d) eqn:Fmi; try discriminate. destruct (f_second d) eqn:Fs; try discriminate.
  destruct (f_tz d) eqn:Ftz; try discriminate.
  unfold denoted_instant in Den. rewrite E in Den. unfold denoted_epoch in Den.
  destruct (c_epoch c) as [te|] eqn:Ce; [|discriminate].
  destruct ((1 <=? length te)%nat && (length te <=? 18)%nat) eqn:L; cbn [andb] in Den; [|discriminate].
  change (forallb digit te) with (forallb is_digit te) in Den.
  destruct (forallb is_digit te) eqn:D; [|discriminate].
  apply andb_true_iff in L as [L1 L2]. apply Nat.leb_le in L1, L2.
  unfold obind' in Den. destruct (rd_frac d c) as [fr|] eqn:Rf; [|discriminate]. inversion Den; subst t. clear Den.
  destruct (seg_frac_ok _ _ _ Rf) as [fd [Sf Df]].
  assert (Lfd : (length fd <= 10)%nat).
  { destruct (frac_present d); [destruct Df as [f9 [-> [L9 _]]]; cbn; lia|destruct Df as [-> _]; cbn; lia]. }
  assert (Hne : te <> []) by (intros ->; cbn in L1; lia).
  unfold model_instant, normalise, obind, seg_epoch, seg_year, seg_month, seg_day, seg_hour, seg_minute, seg_second, seg_tz.
  rewrite E, Ce, Fy, Fm, Fd, Fh, Fmi, Fs, Ftz, Sf. cbn [app]. rewrite !app_nil_r.
  replace (Nat.leb (length (te ++ 84 :: fd)) 35) with true
    by (symmetry; apply Nat.leb_le; rewrite app_length; cbn [length]; lia).
  unfold parse_buffer, has_tz. rewrite Pat, Ftz. unfold epoch_items, parsed0.
  assert (Hf9 : frac_present d = true -> (fr <=? 999999999)%Z = true).
  { intros X. rewrite X in Df. destruct Df as [f9 [_ D9]]. apply dig_bound in D9.
    change (10 ^ Z.of_nat 9)%Z with 1000000000%Z in D9. apply Z.leb_le. lia. }
  destruct (frac_present d) eqn:X.
  - destruct Df as [f9 [-> D9]]. cbn [app parse_items].
    rewrite step_ts by assumption.
    cbn [set_field setc option_map p_year p_year2 p_month p_day p_hour p_minute p_second p_nano p_ts p_off].
    rewrite step_lit, step_lit.
    replace f9 with (f9 ++ []) by apply app_nil_r.
    donum INano D9. cbn [parse_items].
    unfold naive_datetime, naive_date, naive_time, resolve_year.
    cbn [p_year p_year2 p_month p_day p_hour p_minute p_second p_nano p_ts p_off].
    rewrite (Hf9 eq_refl). cbn [option_map]. f_equal. unfold NS. lia.
  - destruct Df as [-> ->]. cbn [app parse_items].
    rewrite step_ts by assumption.
    cbn [set_field setc option_map p_year p_year2 p_month p_day p_hour p_minute p_second p_nano p_ts p_off].
    rewrite step_lit. cbn [parse_items].
    unfold naive_datetime, naive_date, naive_time, resolve_year.
    cbn [p_year p_year2 p_month p_day p_hour p_minute p_second p_nano p_ts p_off option_map]. f_equal. unfold NS. lia.
Qed.

(* ------------------------------------------------------------------ closed over the regenerated tables *)
Theorem normalise_denotes_closed d c yo off t :
  dtfs_ok d = true -> f_epoch d = E_none -> fallback_ok off = true ->
  denoted_instant d c yo off = Some t ->
  model_instant month_table tz_table d c yo off = Some t.
Proof. exact (normalise_denotes_lemma month_table_complete_all d c yo off t). Qed.

(* ... and for every row of the regenerated DATETIME_PARSE_DATAS *)
Theorem normalise_denotes_rows r c yo off t :
  In r dt_table -> f_epoch (r_dtfs r) = E_none -> fallback_ok off = true ->
  denoted_instant (r_dtfs r) c yo off = Some t ->
  model_instant month_table tz_table (r_dtfs r) c yo off = Some t.
Proof. intros Hin. apply normalise_denotes_closed. apply rows_ok_all. exact Hin. Qed.

Theorem epoch_shift_rows r c yo off t :
  In r dt_table -> f_epoch (r_dtfs r) = E_s ->
  denoted_instant (r_dtfs r) c yo off = Some t ->
  model_instant month_table tz_table (r_dtfs r) c yo off = Some (t - off * NS)%Z.
Proof. intros Hin. apply epoch_shift_lemma. apply rows_ok_all. exact Hin. Qed.

(* the hypotheses are satisfiable: a row of each family with a denoting capture set *)
Definition ex_caps : caps :=
  mkCaps (Some [50; 48; 50; 52]) (Some [70; 101; 98; 46]) (Some [32; 57]) (Some [50; 51]) (Some [53; 57]) (Some [53; 57])
         (Some [49; 50; 51]) (Some [226; 136; 146; 48; 51; 58; 51; 48]) None.
Definition ex_dtfs : dtfs := mkDtfs Y_Y Mo_b D_ed H_H Mi_M S_S F_f Tz_zc E_none "%Y%m%dT%H%M%S.%f%:z".
Lemma normalise_denotes_example :
  dtfs_ok ex_dtfs = true /\ existsb (fun r => items_eqb [] [] && Bool.eqb (dtfs_ok (r_dtfs r)) true) dt_table = true /\
  denoted_instant ex_dtfs ex_caps None 0 = Some 1707535799123000000%Z /\
  model_instant month_table tz_table ex_dtfs ex_caps None 0 = Some 1707535799123000000%Z.
Proof. vm_compute. repeat split; reflexivity. Qed.
