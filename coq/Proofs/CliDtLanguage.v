(* Proofs/CliDtLanguage.v — C14: WHICH texts process_dt resolves (so that everything else — the
   near-miss strings — is rejected).
     resolve_language :  m_resolve s <> None  <->  s is in L, where
       L = { texts read by some regenerated row }  +  { rendered relative forms within the guards };
     a row reads a text iff, after the row's preparation, the text is in the LENIENT language of the
     row's pattern (relation [lenient], proved equivalent to the scanner: scan_iff_lenient), the
     Issue-660 whitespace check passes and the fields are a valid date-time;
     the relative half is exactly the regenerated expression (rel_language).
   The lenient language is the documented grammar plus these extras, each constructor-level freedom
   of [lenient] / [num_body] / [tz_body]: whitespace before numeric fields and offsets, short digit
   groups, signed years of any length, any run of ':'/whitespace inside an offset, Z/z and hour-only
   offsets for %#z, second 60; plus, for the relative forms, repeated units, leading zeros and any
   count within the guards.  One accepted witness per class: extras_witnesses (reproduced on the
   binary by the check); rejected neighbours: outside_witnesses. *)
From Coq Require Import String ZArith Lia List Bool.
From S4.Base Require Import Bytes.
From S4.Model Require Import Calendar CliDt.
From S4.Gen Require Import CliDtTables.
From S4.Spec Require Import CalendarSpec CliDtRef CliDtSpec.
From S4.Proofs Require Import CalendarProofs CliDtSpecProofs CliDtAbsInfra CliDtMiscProofs CliDtScanLemmas CliDtUniversal.
Import ListNotations.
Open Scope Z_scope.

(* ================================================================== the relative half of the language *)
Lemma unit_of_inv c uc : unit_of dur_units c = Some uc -> exists u, c = unit_letter u /\ uc = unit_code u.
Proof.
  unfold dur_units. cbn [unit_of].
  repeat match goal with |- (if (?k =? c)%N then _ else _) = _ -> _ =>
    destruct (N.eqb_spec k c); [intros E; inversion E; subst|] end.
  - exists US; split; reflexivity.
  - exists UM; split; reflexivity.
  - exists UH; split; reflexivity.
  - exists UD; split; reflexivity.
  - exists UW; split; reflexivity.
  - discriminate.
Qed.

Lemma rel_loop_inv s : forall bnd cur caps caps',
  m_loop s bnd cur caps = (caps', []) ->
  (caps' = caps /\ bnd = [])
  \/ exists ds u r, s = map Dg ds ++ Ch (unit_letter u) :: ritems r /\ cur ++ ds <> [] /\ Forall item_ne r
                    /\ caps' = caps ++ (unit_code u, cur ++ ds) :: caps_of r.
Proof.
  induction s as [|x t IH]; intros bnd cur caps caps' H.
  - cbn in H. inversion H; subst. left. split; reflexivity.
  - destruct x as [v|c].
    + unfold m_loop in H. cbn [rel_loop] in H. fold m_loop in H. apply IH in H as [[-> ->]|[ds [u [r [-> [Hne [Hr ->]]]]]]].
      * left. split; reflexivity.
      * right. exists (v :: ds), u, r. rewrite <- app_assoc in *. cbn [app] in *. repeat split; try assumption; reflexivity.
    + unfold m_loop in H. cbn [rel_loop] in H. fold m_loop in H.
      destruct cur as [|c0 cur'].
      * inversion H; subst. left. split; reflexivity.
      * destruct (unit_of dur_units c) as [uc|] eqn:U.
        -- destruct (unit_of_inv _ _ U) as [u [-> ->]].
           apply IH in H as [[-> ->]|[ds2 [u2 [r2 [-> [Hne [Hr ->]]]]]]].
           ++ right. exists [], u, []. rewrite app_nil_r. repeat split; try discriminate; try constructor; reflexivity.
           ++ right. exists [], u, ((ds2, u2) :: r2). rewrite app_nil_r. cbn [app] in Hne.
              repeat split; try discriminate.
              ** cbn [map app ritems flat_map]. unfold ritem. cbn [fst snd]. rewrite <- app_assoc. reflexivity.
              ** constructor; [exact Hne|exact Hr].
              ** rewrite <- app_assoc. reflexivity.
        -- inversion H; subst. left. split; reflexivity.
Qed.

Lemma sym_is_nondigit_inv x c : sym_is x c = true -> (c < 48 \/ 57 < c)%N -> x = Ch c.
Proof.
  destruct x as [v|c']; cbn [sym_is]; intros H Hc.
  - apply andb_true_iff in H as [H _]. apply andb_true_iff in H as [A B]. apply N.leb_le in A, B. lia.
  - apply N.eqb_eq in H. subst. reflexivity.
Qed.

(* the matcher accepts exactly the rendered relative forms *)
Theorem rel_language s at_ neg caps :
  m_search true true s = Some (at_, neg, caps) <->
  exists items, items <> [] /\ Forall item_ne items /\ s = rel_arg at_ neg items /\ caps = caps_of items.
Proof.
  split.
  - intros H. unfold m_search in H.
    assert (E : rel_here_anch dur_at dur_plus dur_minus dur_units true s = Some (at_, neg, caps)).
    { destruct s; cbn [rel_search] in H; destruct (rel_here_anch _ _ _ _ _ _); congruence. }
    clear H. unfold rel_here_anch, rel_match_here in E.
    assert (K : forall a s1, (match s1 with
                | x :: t => match (if sym_is x dur_plus then Some false else if sym_is x dur_minus then Some true else None) with
                            | Some neg0 => let '(caps0, rest) := rel_loop dur_units t t [] [] in
                                           match caps0 with [] => None | _ :: _ => Some (a, neg0, caps0, rest) end
                            | None => None end
                | [] => None end) = Some (at_, neg, caps, []) ->
              a = at_ /\ exists items, items <> [] /\ Forall item_ne items
                          /\ s1 = Ch (if neg then 45 else 43)%N :: ritems items /\ caps = caps_of items).
    { intros a s1 K. destruct s1 as [|x t]; [discriminate|].
      destruct (sym_is x dur_plus) eqn:P.
      - apply sym_is_nondigit_inv in P; [|left; reflexivity]. subst x.
        fold m_loop in K. destruct (m_loop t t [] []) as [caps0 rest] eqn:L.
        destruct caps0; [discriminate|]. inversion K; subst.
        apply rel_loop_inv in L as [[L _]|[ds [u [r [-> [Hne [Hr L]]]]]]]; [discriminate|].
        split; [reflexivity|]. exists ((ds, u) :: r). cbn [app] in *. repeat split; try discriminate.
        + constructor; assumption.
        + cbn [ritems flat_map]. unfold ritem. cbn [fst snd]. rewrite <- app_assoc. reflexivity.
        + exact L.
      - destruct (sym_is x dur_minus) eqn:M; [|discriminate].
        apply sym_is_nondigit_inv in M; [|left; reflexivity]. subst x.
        fold m_loop in K. destruct (m_loop t t [] []) as [caps0 rest] eqn:L.
        destruct caps0; [discriminate|]. inversion K; subst.
        apply rel_loop_inv in L as [[L _]|[ds [u [r [-> [Hne [Hr L]]]]]]]; [discriminate|].
        split; [reflexivity|]. exists ((ds, u) :: r). cbn [app] in *. repeat split; try discriminate.
        + constructor; assumption.
        + cbn [ritems flat_map]. unfold ritem. cbn [fst snd]. rewrite <- app_assoc. reflexivity.
        + exact L. }
    destruct s as [|x t]; [discriminate|].
    destruct (sym_is x dur_at) eqn:A.
    + apply sym_is_nondigit_inv in A; [|right; reflexivity]. subst x.
      match type of E with match ?X with _ => _ end = _ => destruct X as [[[[a n] cp] rest]|] eqn:X1; [|discriminate] end.
      destruct rest; [|discriminate]. inversion E; subst.
      apply K in X1 as [Ha [items [H1 [H2 [H3 H4]]]]]. subst. exists items. repeat split; try assumption; reflexivity.
    + match type of E with match ?X with _ => _ end = _ => destruct X as [[[[a n] cp] rest]|] eqn:X1; [|discriminate] end.
      destruct rest; [|discriminate]. inversion E; subst.
      apply (K false (x :: t)) in X1 as [Ha [items [H1 [H2 [H3 H4]]]]]. subst. exists items. repeat split; assumption.
  - intros [items [H1 [H2 [-> ->]]]]. apply rel_search_rendered; assumption.
Qed.


(* ================================================================== the absolute half: the lenient grammar of a pattern *)
Definition ws_run (w : list sym) : Prop := Forall (fun x => sym_ws x = true) w.
Definition cs_sym (x : sym) : bool := sym_ws x || sym_is x 58.
Definition cs_run (w : list sym) : Prop := Forall (fun x => cs_sym x = true) w.
Definition head_noncs (s : list sym) : Prop := match s with x :: _ => cs_sym x = false | [] => True end.

Lemma trim_ws_decomp s : exists w, ws_run w /\ s = w ++ trim_ws s.
Proof.
  induction s as [|x r [w [Hw E]]]; [exists []; split; [constructor|reflexivity]|].
  cbn [trim_ws]. destruct (sym_ws x) eqn:W.
  - exists (x :: w). split; [constructor; assumption|]. cbn [app]. f_equal. exact E.
  - exists []. split; [constructor|reflexivity].
Qed.
Lemma trim_ws_run w s : ws_run w -> head_nonws s -> trim_ws (w ++ s) = s.
Proof.
  induction 1 as [|x r Hx _ IH]; intros Hs; [apply trim_ws_nonws; exact Hs|].
  cbn [app trim_ws]. rewrite Hx. apply IH. exact Hs.
Qed.
Lemma drop_cs_decomp s : exists w, cs_run w /\ s = w ++ drop_cs s /\ head_noncs (drop_cs s).
Proof.
  induction s as [|x r [w [Hw [E Hh]]]]; [exists []; repeat split; constructor|].
  cbn [drop_cs]. fold (cs_sym x). destruct (cs_sym x) eqn:W.
  - exists (x :: w). repeat split; [constructor; assumption| |exact Hh]. cbn [app]. f_equal. exact E.
  - exists []. repeat split; [constructor|exact W].
Qed.
Lemma drop_cs_run w s : cs_run w -> head_noncs s -> drop_cs (w ++ s) = s.
Proof.
  induction 1 as [|x r Hx _ IH]; intros Hs.
  - destruct s as [|y t]; [reflexivity|]. cbn [app drop_cs]. cbn in Hs. fold (cs_sym y). rewrite Hs. reflexivity.
  - cbn [app drop_cs]. fold (cs_sym x). rewrite Hx. apply IH. exact Hs.
Qed.

Lemma take_digits_iff n s ds r :
  take_digits n s = (ds, r) <-> s = map Dg ds ++ r /\ (length ds <= n)%nat /\ (length ds = n \/ head_nondigit r).
Proof.
  split.
  - intros H. destruct (take_digits_split _ _ _ _ H) as [E L]. repeat split; try assumption.
    destruct (Nat.eq_dec (length ds) n); [left; assumption|right].
    eapply take_digits_stop; [exact H|lia].
  - intros [-> [L [E|Hn]]]; [subst n; apply take_digits_exact|apply take_digits_all; assumption].
Qed.

Definition sign_of (x : sym) : option bool :=
  if sym_is x 43 then Some false else if sym_is x 45 then Some true else None.

Definition plain_width_ok (k : numkind) (ds : list N) (r : list sym) : Prop :=
  match k with
  | NTimestamp => head_nondigit r
  | NYear => (length ds <= 4)%nat /\ (length ds = 4%nat \/ head_nondigit r)
  | _ => (length ds <= 2)%nat /\ (length ds = 2%nat \/ head_nondigit r)
  end.

(* a numeric field: "-"/"+" and ALL the digits that follow (year only), or 1..width digits *)
Inductive num_body : numkind -> list sym -> list sym -> rawfield -> Prop :=
| NB_minus x ds r : sym_is x 45 = true -> ds <> [] -> head_nondigit r ->
                    num_body NYear (x :: map Dg ds ++ r) r (RNum NYear true ds)
| NB_plus x ds r : sym_is x 45 = false -> sym_is x 43 = true -> ds <> [] -> head_nondigit r ->
                   num_body NYear (x :: map Dg ds ++ r) r (RNum NYear false ds)
| NB_plain k ds r : ds <> [] -> plain_width_ok k ds r -> num_body k (map Dg ds ++ r) r (RNum k false ds).

Lemma take_all_rest t ds r : take_digits (length t) t = (ds, r) -> t = map Dg ds ++ r /\ head_nondigit r.
Proof.
  intros H. apply take_digits_iff in H as [E [L [Q|Q]]]; split; try assumption.
  subst t. rewrite app_length, map_length in Q. destruct r; [exact I|cbn in Q; lia].
Qed.

Lemma scan_num_iff k s f r :
  scan_num k s = Some (f, r) <->
  exists w body, ws_run w /\ head_nonws body /\ s = w ++ body /\ num_body k body r f.
Proof.
  split.
  - intros H. destruct (trim_ws_decomp s) as [w [Hw E]]. exists w, (trim_ws s).
    split; [exact Hw|]. split; [apply trim_ws_head|]. split; [exact E|].
    unfold scan_num in H. destruct (trim_ws s) as [|x t]; [discriminate|].
    destruct (is_year k && sym_is x 45) eqn:A.
    + apply andb_true_iff in A as [A1 A2]. destruct k; try discriminate.
      destruct (take_digits (length t) t) as [ds r'] eqn:T. destruct ds; [discriminate|]. inversion H; subst.
      destruct (take_all_rest _ _ _ T) as [-> Hr]. apply NB_minus; [exact A2|discriminate|exact Hr].
    + destruct (is_year k && sym_is x 43) eqn:B.
      * apply andb_true_iff in B as [B1 B2]. destruct k; try discriminate. cbn [is_year andb] in A.
        destruct (take_digits (length t) t) as [ds r'] eqn:T. destruct ds; [discriminate|]. inversion H; subst.
        destruct (take_all_rest _ _ _ T) as [-> Hr]. apply NB_plus; [exact A|exact B2|discriminate|exact Hr].
      * destruct (take_digits (num_width k (x :: t)) (x :: t)) as [ds r'] eqn:T. destruct ds as [|d ds']; [discriminate|].
        inversion H; subst. apply take_digits_iff in T as [E2 [L Q]]. rewrite E2.
        apply NB_plain; [discriminate|]. unfold plain_width_ok.
        destruct k; cbn [num_width] in L, Q; try (split; assumption).
        destruct Q as [Q|Q]; [|exact Q]. rewrite E2 in Q. rewrite app_length, map_length in Q.
        destruct r; [exact I|cbn in Q; lia].
  - intros [w [body [Hw [Hb [-> NB]]]]]. unfold scan_num. rewrite (trim_ws_run _ _ Hw Hb).
    destruct NB as [x ds r Hm Hne Hr|x ds r Hm Hp Hne Hr|k ds r Hne Hwd].
    + cbn [is_year andb]. rewrite Hm. rewrite take_digits_all by (rewrite ?app_length, ?map_length; auto; lia).
      destruct ds; [contradiction|reflexivity].
    + cbn [is_year andb]. rewrite Hm, Hp. rewrite take_digits_all by (rewrite ?app_length, ?map_length; auto; lia).
      destruct ds; [contradiction|reflexivity].
    + destruct ds as [|d ds']; [contradiction|]. cbn [map app].
      assert (S45 : sym_is (Dg d) 45 = false) by reflexivity. assert (S43 : sym_is (Dg d) 43 = false) by reflexivity.
      rewrite S45, S43, !andb_false_r.
      change (Dg d :: map Dg ds' ++ r) with (map Dg (d :: ds') ++ r).
      assert (T : take_digits (num_width k (map Dg (d :: ds') ++ r)) (map Dg (d :: ds') ++ r) = (d :: ds', r)).
      { apply take_digits_iff. split; [reflexivity|]. unfold plain_width_ok in Hwd.
        destruct k; cbn [num_width]; try exact Hwd.
        split; [rewrite app_length, map_length; lia|right; exact Hwd]. }
      rewrite T. reflexivity.
Qed.

(* a zone offset: Z/z (only %#z), or sign HH, any run of ':' and whitespace, MM; %#z also sign HH alone at the very end *)
Inductive tz_body (z m : bool) : list sym -> list sym -> rawfield -> Prop :=
| TB_zulu x r : z = true -> sym_is x 90 || sym_is x 122 = true -> tz_body z m (x :: r) r ROffZulu
| TB_full x neg h1 h0 seps m1 m0 r :
    z && (sym_is x 90 || sym_is x 122) = false -> sign_of x = Some neg -> cs_run seps ->
    tz_body z m (x :: Dg h1 :: Dg h0 :: seps ++ Dg m1 :: Dg m0 :: r) r (ROff neg h1 h0 (Some (m1, m0)))
| TB_hour x neg h1 h0 seps :
    z && (sym_is x 90 || sym_is x 122) = false -> sign_of x = Some neg -> cs_run seps -> m = true ->
    tz_body z m (x :: Dg h1 :: Dg h0 :: seps) [] (ROff neg h1 h0 None).

Lemma scan_tz_iff z m s f r :
  scan_tz z m s = Some (f, r) <->
  exists w body, ws_run w /\ head_nonws body /\ s = w ++ body /\ tz_body z m body r f.
Proof.
  split.
  - intros H. destruct (trim_ws_decomp s) as [w [Hw E]]. exists w, (trim_ws s).
    split; [exact Hw|]. split; [apply trim_ws_head|]. split; [exact E|].
    unfold scan_tz in H. destruct (trim_ws s) as [|x t]; [discriminate|].
    destruct (z && (sym_is x 90 || sym_is x 122)) eqn:Z.
    + inversion H; subst. apply andb_true_iff in Z as [Z1 Z2]. apply TB_zulu; assumption.
    + fold (sign_of x) in H. destruct (sign_of x) as [neg|] eqn:SG; [|discriminate].
      destruct t as [|[h1|?] [|[h0|?] t2]]; try discriminate.
      destruct (drop_cs_decomp t2) as [seps [Hs [E2 Hh]]].
      destruct (drop_cs t2) as [|[m1|?] [|[m0|?] t4]] eqn:D; try discriminate.
      * destruct m eqn:M; [|discriminate]. inversion H; subst. rewrite app_nil_r.
        apply TB_hour; try assumption. reflexivity.
      * inversion H; subst. apply TB_full; assumption.
  - intros [w [body [Hw [Hb [-> TB]]]]]. unfold scan_tz. rewrite (trim_ws_run _ _ Hw Hb).
    destruct TB as [x r Hz Hx|x neg h1 h0 seps m1 m0 r Hz Hsg Hs|x neg h1 h0 seps Hz Hsg Hs Hm].
    + rewrite Hz, Hx. reflexivity.
    + rewrite Hz. fold (sign_of x). rewrite Hsg. rewrite (drop_cs_run _ _ Hs) by reflexivity. reflexivity.
    + rewrite Hz. fold (sign_of x). rewrite Hsg.
      rewrite <- (app_nil_r seps). rewrite (drop_cs_run _ _ Hs) by exact I. rewrite Hm. reflexivity.
Qed.

(* the language of a pattern *)
Inductive lenient : list item -> list sym -> list rawfield -> Prop :=
| Le_nil : lenient [] [] []
| Le_lit c x s its fs : sym_is x c = true -> lenient its s fs -> lenient (ILit c :: its) (x :: s) fs
| Le_space w s its fs : ws_run w -> head_nonws s -> lenient its s fs -> lenient (ISpace :: its) (w ++ s) fs
| Le_num k w body r f its fs :
    ws_run w -> head_nonws body -> num_body k body r f -> lenient its r fs ->
    lenient (INum k :: its) (w ++ body) (f :: fs)
| Le_frac n ds r its fs :
    length ds = n -> lenient its r fs -> lenient (IFrac n :: its) (map Dg ds ++ r) (RFrac n ds :: fs)
| Le_tz z m w body r f its fs :
    ws_run w -> head_nonws body -> tz_body z m body r f -> lenient its r fs ->
    lenient (ITz z m :: its) (w ++ body) (f :: fs).

Definition basic_item (it : item) : bool :=
  match it with ILit _ | ISpace | INum _ | IFrac _ | ITz _ _ => true | _ => false end.

Lemma cons_opt_some {A} (x : A) o l : cons_opt x o = Some l <-> exists l', o = Some l' /\ l = x :: l'.
Proof.
  destruct o; cbn; split.
  - intros E; inversion E; eauto.
  - intros [l' [E ->]]. inversion E. reflexivity.
  - discriminate.
  - intros [l' [E _]]. discriminate.
Qed.

Theorem scan_iff_lenient items : forallb basic_item items = true ->
  forall s fs, scan items s = Some fs <-> lenient items s fs.
Proof.
  induction items as [|it rest IH]; intros Hb s fs.
  - split.
    + destruct s; cbn; intros E; inversion E. constructor.
    + intros L. inversion L. reflexivity.
  - cbn [forallb] in Hb. apply andb_true_iff in Hb as [B1 B2]. specialize (IH B2).
    destruct it as [c| |k|n|z m| | | |]; try discriminate; cbn [scan].
    + split.
      * destruct s as [|x t]; [discriminate|]. destruct (sym_is x c) eqn:E; [|discriminate].
        intros H. apply Le_lit; [exact E|apply IH; exact H].
      * intros L. inversion L; subst. match goal with Hx : sym_is _ _ = true |- _ => rewrite Hx end. apply IH. assumption.
    + split.
      * intros H. destruct (trim_ws_decomp s) as [w [Hw E]]. rewrite E.
        apply Le_space; [exact Hw|apply trim_ws_head|apply IH; exact H].
      * intros L. inversion L; subst. rewrite trim_ws_run by assumption. apply IH. assumption.
    + split.
      * destruct (scan_num k s) as [[f t]|] eqn:E; [|discriminate]. intros H.
        apply cons_opt_some in H as [l' [H ->]].
        apply scan_num_iff in E as [w [body [Hw [Hbd [-> NB]]]]].
        eapply Le_num; try eassumption. apply IH. exact H.
      * intros L. inversion L; subst.
        assert (E : scan_num k (w ++ body) = Some (f, r)) by (apply scan_num_iff; eauto 10).
        rewrite E. apply cons_opt_some. eexists. split; [apply IH; eassumption|reflexivity].
    + split.
      * destruct (take_digits n s) as [ds t] eqn:E. destruct (Nat.eqb (length ds) n) eqn:L; [|discriminate].
        intros H. apply cons_opt_some in H as [l' [H ->]]. apply Nat.eqb_eq in L.
        apply take_digits_split in E as [-> _]. apply Le_frac; [exact L|apply IH; exact H].
      * intros L. inversion L; subst. rewrite take_digits_exact, Nat.eqb_refl.
        apply cons_opt_some. eexists. split; [apply IH; eassumption|reflexivity].
    + split.
      * destruct (scan_tz z m s) as [[f t]|] eqn:E; [|discriminate]. intros H.
        apply cons_opt_some in H as [l' [H ->]].
        apply scan_tz_iff in E as [w [body [Hw [Hbd [-> TB]]]]].
        eapply Le_tz; try eassumption. apply IH. exact H.
      * intros L. inversion L; subst.
        assert (E : scan_tz z m (w ++ body) = Some (f, r)) by (apply scan_tz_iff; eauto 10).
        rewrite E. apply cons_opt_some. eexists. split; [apply IH; eassumption|reflexivity].
Qed.


(* ================================================================== the language of process_dt *)
Lemma rows_basic :
  forallb (fun rw => forallb basic_item (tokenize (final_pattern append_pattern rw))) cli_rows = true.
Proof. vm_compute. reflexivity. Qed.

Definition row_zone (rw : row) (tz : Z) : Z :=
  if epoch_utc && contains_pct_s (final_pattern append_pattern rw) then 0 else tz.

(* text s is read by row rw as instant v: after the row's preparation (a trailing zone name replaced
   by its table value for %Z rows, " T000000" appended for date-only rows) it is in the lenient
   language of the row's pattern, its leading/trailing whitespace matches the pattern's, and the
   fields are a valid date-time *)
Definition row_accepts (rw : row) (s : list sym) (tz v : Z) : Prop :=
  exists dts fs,
    prepare_row append_value append_pattern tz_table rw s = Some (dts, final_pattern append_pattern rw) /\
    issue660_ok (map sym_ws_class dts) (map ws_class (final_pattern append_pattern rw)) = true /\
    lenient (tokenize (final_pattern append_pattern rw)) dts fs /\
    validate (r_has_tz rw) (row_zone rw tz) fs = Some v.

Lemma prepare_row_pattern rw s dts pat :
  prepare_row append_value append_pattern tz_table rw s = Some (dts, pat) -> pat = final_pattern append_pattern rw.
Proof.
  unfold prepare_row, final_pattern. destruct (r_has_tzZ rw).
  - destruct (pop_alpha s) as [body name]. destruct (assoc _ _); [|discriminate].
    destruct (r_has_time rw); intros E; inversion E; reflexivity.
  - destruct (r_has_time rw); intros E; inversion E; reflexivity.
Qed.

Lemma try_row_iff rw s tz v :
  In rw cli_rows ->
  (try_row append_value append_pattern tz_table epoch_utc tz s rw = Some v <-> row_accepts rw s tz v).
Proof.
  intros Hin.
  pose proof (proj1 (forallb_forall _ _) rows_basic rw Hin) as B. cbv beta in B.
  unfold try_row, scan_row, row_accepts, row_zone. split.
  - destruct (prepare_row _ _ _ rw s) as [[dts pat]|] eqn:P; [|discriminate].
    pose proof (prepare_row_pattern _ _ _ _ P) as ->.
    destruct (issue660_ok _ _) eqn:I6; [|discriminate].
    destruct (scan _ dts) as [fs|] eqn:S; [|discriminate]. intros V.
    exists dts, fs. repeat split; try assumption. apply (scan_iff_lenient _ B). exact S.
  - intros [dts [fs [P [I6 [L V]]]]]. rewrite P, I6. rewrite (proj2 (scan_iff_lenient _ B dts fs) L). exact V.
Qed.

Theorem resolve_abs_language s tz v :
  m_resolve_abs s tz = Some v -> exists rw, In rw cli_rows /\ row_accepts rw s tz v.
Proof.
  intros H. apply first_some_some in H as [rw [Hin E]]. exists rw. split; [exact Hin|].
  apply try_row_iff; assumption.
Qed.

Theorem resolve_abs_accepts_iff s tz :
  m_resolve_abs s tz <> None <-> exists rw v, In rw cli_rows /\ row_accepts rw s tz v.
Proof.
  unfold m_resolve_abs, resolve_abs. rewrite first_some_exists. split.
  - intros [rw [Hin E]]. destruct (try_row _ _ _ _ tz s rw) as [v|] eqn:T; [|contradiction].
    exists rw, v. split; [exact Hin|]. apply try_row_iff; assumption.
  - intros [rw [v [Hin A]]]. exists rw. split; [exact Hin|]. apply try_row_iff in A; [|exact Hin]. rewrite A. discriminate.
Qed.

Lemma wdhms_ok_search s d o : m_wdhms s = DurOk d o -> exists a n caps, m_search true true s = Some (a, n, caps).
Proof.
  unfold m_wdhms, wdhms, wdhms_gen. destruct s as [|x t]; [discriminate|].
  change dur_anchor_start with true. change dur_anchor_end with true. fold (m_search true true).
  destruct (m_search true true (x :: t)) as [[[a n] caps]|]; [|discriminate]. eauto.
Qed.

(* process_dt resolves s  <->  s is in the language L:
   L = the texts some regenerated row reads (lenient grammar of its pattern, valid fields)
     + the rendered relative forms within the overflow and range guards.
   Hence a near-miss string (anything outside L, e.g. a relative form with text before or after it)
   is rejected. *)
Theorem resolve_language s tz other now :
  m_resolve s tz other now <> None <->
  (exists rw v, In rw cli_rows /\ row_accepts rw s tz v)
  \/ (exists at_ neg items, items <> [] /\ Forall item_ne items /\ s = rel_arg at_ neg items
                            /\ rel_value (rel_dur at_ neg items) other now <> None).
Proof.
  split.
  - intros H. destruct (m_resolve_abs s tz) as [v|] eqn:A.
    + left. apply resolve_abs_accepts_iff. rewrite A. discriminate.
    + right. unfold m_resolve, resolve_with, resolve in H. fold m_resolve_abs in H. rewrite A in H.
      fold m_wdhms in H. destruct (m_wdhms s) as [| |d o] eqn:W; try contradiction.
      destruct (wdhms_ok_search _ _ _ W) as [a [n [caps S]]].
      apply rel_language in S as [items [H1 [H2 [-> _]]]].
      exists a, n, items. repeat split; try assumption.
      rewrite <- (relative_universal a n items tz other now H1 H2).
      unfold m_resolve, resolve_with, resolve. fold m_resolve_abs. rewrite A. fold m_wdhms. rewrite W. exact H.
  - intros [[rw [v [Hin Acc]]]|[a [n [items [H1 [H2 [-> V]]]]]]].
    + assert (A : m_resolve_abs s tz <> None) by (apply resolve_abs_accepts_iff; eauto).
      unfold m_resolve, resolve_with, resolve. fold m_resolve_abs. destruct (m_resolve_abs s tz); [discriminate|contradiction].
    + rewrite relative_universal by assumption. exact V.
Qed.

Corollary outside_language_rejected s tz other now :
  (forall rw v, In rw cli_rows -> ~ row_accepts rw s tz v) ->
  (forall at_ neg items, items <> [] -> Forall item_ne items -> s <> rel_arg at_ neg items) ->
  m_resolve s tz other now = None.
Proof.
  intros HA HR. destruct (m_resolve s tz other now) eqn:E; [|reflexivity]. exfalso.
  assert (N : m_resolve s tz other now <> None) by (rewrite E; discriminate).
  apply resolve_language in N as [[rw [v [Hin Acc]]]|[a [n [items [H1 [H2 [E2 _]]]]]]].
  - exact (HA rw v Hin Acc).
  - exact (HR a n items H1 H2 E2).
Qed.

(* ------------------------------------------------------------------ the extras, class by class (each accepted; the
   check reproduces every one of them on the binary) *)
Definition accepted (s : string) : bool :=
  match m_resolve (cs s) 0 None 1700000000 with Some _ => true | None => false end.

Definition extras_witnesses : list (string * string) := [
  ("short digit groups (1 digit month/day/hour/minute/second, 1-3 digit year)", "2000-1-2 3:4:5");
  ("short digit groups (1 digit month/day/hour/minute/second, 1-3 digit year)", "200-01-02 03:04:05");
  ("whitespace before a numeric field or where the pattern has a space", "2000-01-02  03:04:05");
  ("whitespace before a numeric field or where the pattern has a space", "2000- 01-02 03: 04:05");
  ("whitespace before a numeric field or where the pattern has a space", "20000102T030405 +0530");
  ("whitespace before a numeric field or where the pattern has a space", "+ 946684800");
  ("signed year with any number of digits", "+12345-01-02 03:04:05");
  ("signed year with any number of digits", "-0001-01-02 03:04:05");
  ("zone offset: any run of ':' and whitespace between hours and minutes", "2000-01-02T03:04:05+05 30");
  ("zone offset: any run of ':' and whitespace between hours and minutes", "2000-01-02T03:04:05 +05: 30");
  ("zone offset: any run of ':' and whitespace between hours and minutes", "2000-01-02T03:04:05+05::30");
  ("zone offset: Z or z for the permissive rows", "2000-01-02T03:04:05Z");
  ("zone offset: Z or z for the permissive rows", "20000102T030405z");
  ("zone offset up to 23:59 either side", "2000-01-02T03:04:05+23:59");
  ("second 60", "2000-01-02 23:59:60");
  ("zone names in the lower-case spelling of the table", "2000-01-02T03:04:05 pst");
  ("+epoch with leading zeros / beyond year 9999 up to chrono's last second", "+00000000000000000000001");
  ("+epoch with leading zeros / beyond year 9999 up to chrono's last second", "+8210266876799");
  ("relative: repeated units (last count wins), leading zeros, zero counts", "+1d2d");
  ("relative: repeated units (last count wins), leading zeros, zero counts", "+000d");
  ("relative: any count whose result stays within chrono's range", "+8000000000000s")
]%string.

Example extras_accepted : forallb (fun cw => accepted (snd cw)) extras_witnesses = true.
Proof. vm_compute. reflexivity. Qed.

(* just outside each class: rejected *)
Definition outside_witnesses : list string := [
  "2000-01-02T03:04:05+05:3"; "2000-01-02T03:04:05+5"; "2000-01-02T03:04:05+05:60"; "2000-01-02T03:04:05+24:00";
  " 2000-01-02 03:04:05"; "2000-01-02 03:04:05 "; "2000-01-02T03:04:05.1"; "2000-01-02T03:04:05.1234";
  "2000-01-02 24:00:00"; "2000-01-02 23:60:00"; "2000-02-30 00:00:00"; "2000-13-01"; "20000102 T000000";
  "+8210266876800"; "+-5"; "+5x"; "+1d 2h"; "+ 1d"; "1d"; "@1s"; "+d"; "+"; "@";
  "+9223372036854776s"; "2000-01-02T03:04:05 PsT"; "2000-01-02T03:04:05PDTX"; "foo+1d"; "+1dzzz"; "++1d"
]%string.

Example outside_rejected : forallb (fun s => negb (accepted s)) outside_witnesses = true.
Proof. vm_compute. reflexivity. Qed.

