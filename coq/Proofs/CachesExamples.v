(* Proofs/CachesExamples.v — the hypotheses of the cache theorems are satisfiable by non-trivial
   cases, and the statements that the CURRENT code does NOT satisfy, each with a witness evaluated
   by vm_compute on the faithful model (all three reproduced in-process on the real readers by
   checks/c02.py, cache mode, fixed cases "W1".."W3").

   Toy oracle: a line is dated iff it begins with the byte '2'. *)
From S4.Base Require Import Bytes Chunk.
From S4.Spec Require Import LinesSpec.
From S4.Model Require Import Lines Syslines Caches.
From S4.Proofs Require Import LinesProofs SyslinesProofs CachesProofs CachesSysProofs CachesRunProofs.
Open Scope N_scope.

Definition d2 : list N -> option Z := fun l => match l with 50 :: _ => Some 7%Z | _ => None end.

(* "x\n2a\ny\n2b\n\n2c" : an undated leading line, three messages, a one-byte line, no final newline *)
Definition fx : file := [120; 10; 50; 97; 10; 121; 10; 50; 98; 10; 10; 50; 99].

(* a sequence without drops that takes every path: search, LRU hit, lines hit, by-end hit, A1a
   (after the one-byte line), A1b, range hit, backward calls, cache off and on, the driver *)
Definition ops_x : list cop :=
  [OL 2; OL 2; OL 3; OLE false; OL 3; OLE true; OL 2; OL 10; OL 11; OL 5; OL 0; OL 13;
   OS 6; OS 6; OS 2; OSE false; OS 3; OSE true; OS 12; OS 0; OS 40; OLB 7; ORD []; OS 8; OL 9].

Example nodrop_hypothesis_satisfiable : Forall op_nodrop ops_x /\ 0 < 3.
Proof. split; [repeat constructor|reflexivity]. Qed.

Example nodrop_run_paths :
  map (fun x => match x with RL _ p => Some (inl p) | RS _ p => Some (inr p) | _ => None end)
      (snd (c_run d2 3 fx cinit ops_x)) =
  [Some (inl PSearch); Some (inl PLru); Some (inl PByEnd); None; Some (inl PByEnd); None;
   Some (inl PLines); Some (inl PSearch); Some (inl PA1a); Some (inl PA1b); Some (inl PA0);
   Some (inl PEof); Some (inr QSearch); Some (inr QLru); Some (inr QRange); None;
   Some (inr QRange); None; Some (inr QSearch); Some (inr QSearch); Some (inr QDoneLine);
   None; None; Some (inr QRange); Some (inl PSearch)].
Proof. vm_compute. reflexivity. Qed.

Example nodrop_run_observations :
  map (obs_cres 3 fx) (snd (c_run d2 3 fx cinit ops_x)) = map (spec_cobs d2 fx) ops_x.
Proof. vm_compute. reflexivity. Qed.

(* the driver with drops still emits every message (plan: always drop); one sysline and its line are
   released, its range stays in the range map (5 ranges, 4 syslines) *)
Definition fy : file := [50; 97; 10; 50; 98; 10; 50; 99; 10; 50; 100; 10; 50; 101; 10].
Example driver_with_drops_example :
  obs_stream 2 fy (rmap (snd (c_stream d2 2 fy [true] sr_init))) = Some (syslines d2 fy) /\
  (let st := fst (c_stream d2 2 fy [true] sr_init) in
   (sc_drop_ok (s_cnt st), lc_drop_ok (l_cnt (s_lr st)), lenN (s_syslines st), lenN (s_range st))) = (1, 1, 4, 5).
Proof. vm_compute. split; reflexivity. Qed.

(* ---------------------------------------------------------------- refuted statements *)

(* W1.  "find_sysline answers the spec group after any drop": NO.  drop_sysline removes the entry
   of `syslines` (and the LRU entry keyed by the sysline's begin) but leaves its range in
   `syslines_by_range`; the next find_sysline inside that range takes the range hit and indexes
   `self.syslines[fo]`: panic.  The stage driver never calls there (cached_driver_complete). *)
Definition f_w1 : file := [50; 97; 10; 50; 98; 10].            (* "2a\n2b\n" *)
Lemma find_sysline_after_drop_refuted :
  exists (dated : list N -> option Z) (bs : N) (f : file) (ops : list cop),
    0 < bs /\ Forall op_safe ops /\
    exists st p, c_run dated bs f cinit ops = (st, [RS (Found (3, (0, 7%Z, [(0, [(0, 0, 2); (1, 0, 1)])]))) QSearch;
                                                    RU; RS Panic p]).
Proof.
  exists d2, 2, f_w1, [OS 0; ODS 0; OS 0]. split; [reflexivity|]. split; [repeat constructor|].
  eexists _, _. vm_compute. reflexivity.
Qed.

(* W2.  "find_sysline answers the spec group whatever find_sysline_in_block calls came before": NO.
   find_sysline_in_block walks FORWARD only and caches its answer under the requested offset in
   the LRU cache that find_sysline consults first: called inside a continuation line it caches the
   NEXT message there, and find_sysline at that offset then returns the next message instead of
   the message that contains the offset. *)
Definition f_w2 : file := [50; 97; 10; 120; 10; 50; 98; 10].    (* "2a\nx\n2b\n" *)
Lemma sysline_in_block_poisons_lru_refuted :
  exists (dated : list N -> option Z) (bs : N) (f : file) (fo : N),
    0 < bs /\
    nth 1 (map (obs_cres bs f) (snd (c_run dated bs f cinit [OSB fo; OS fo]))) CU <>
    CS (spec_find_sysline dated f fo).
Proof. exists d2, 16, f_w2, 3. split; [reflexivity|]. vm_compute. discriminate. Qed.

(* W3.  "every sysline the reader stores is a whole message": NO.  A line that find_line_in_block
   finds by its backward scan is returned but not stored; when the file's last line is a single
   byte at the first byte of a block, the next find_line_in_block cannot see its predecessor
   (not stored, previous block) and answers Done; loop B of find_sysline_in_block takes Done at
   fileoffset_last for the end of the file and stores the message WITHOUT its last line. *)
Definition f_w3 : file := [117; 10; 50; 10; 99].                 (* "u\n2\nc" *)
Lemma sysline_in_block_truncates_refuted :
  exists (dated : list N -> option Z) (bs : N) (f : file) (fo : N),
    0 < bs /\
    nth 1 (map (obs_cres bs f) (snd (c_run dated bs f cinit [OSB fo; OS fo]))) CU <>
    CS (spec_find_sysline dated f fo).
Proof. exists d2, 4, f_w3, 2. split; [reflexivity|]. vm_compute. discriminate. Qed.

(* ---------------------------------------------------------------- the gate pattern *)
From S4.Proofs Require Import CachesGateProofs.

(* the oracle hypothesis of gate_then_refines is satisfiable: d2 decides on the first byte *)
Example gate_hypothesis_satisfiable : forall (f : file) b z, b < lenN f -> line_beg f b = b ->
  d2 (slice f b (b + 1)) = Some z -> d2 (slice f b (line_end f b + 1)) = Some z.
Proof.
  intros f b z L _ D. destruct (span_of f b L) as (_ & _ & LE).
  unfold slice in *. destruct (skipnN b f) as [|x l] eqn:S.
  - replace (b + 1 - b) with 1 in D by lia. cbn in D. discriminate.
  - replace (b + 1 - b) with 1 in D by lia.
    replace (line_end f b + 1 - b) with ((line_end f b - b) + 1) by lia.
    unfold firstnN in *. rewrite N2Nat.inj_add. replace (N.to_nat 1) with 1%nat in * by reflexivity.
    rewrite Nat.add_comm. cbn [plus firstn] in *. destruct x as [|p]; [discriminate|]. exact D.
Qed.

(* block-zero analysis on fx (3 in-block line finds, 3 in-block sysline finds, block size 16), then reads
   and the driver: every answer is the spec answer *)
Example gate_example :
  let st0 := (lr_init, c_gate d2 3 3 16 fx sr_init) in
  map (obs_cres 16 fx) (snd (c_run d2 16 fx st0 [OS 0; OS 8; OL 3; ORD [true]])) =
  map (spec_cobs d2 fx) [OS 0; OS 8; OL 3; ORD [true]] /\
  sc_count (s_cnt (snd st0)) = 3.
Proof. vm_compute. split; reflexivity. Qed.
