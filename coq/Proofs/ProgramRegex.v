(* Proofs/ProgramRegex.v — work package H, stage 4: the composed theorem with NO timestamp oracle for text sources.

   A text source of kind [KTextRows (rx_dated yo off) rx_rows] (Model/Program.v) is read as the code reads it:
   stage 1 = the complete block-zero analysis Model/Gate.gate_rows over ALL rows of the regenerated pattern table,
   with "row i dates line l" = work package B's proved function of the BYTES
       rx_dated yo off i l  =  dated_model (slice -> regex search -> named groups -> captures -> normalise + chrono)
   which names the row the file is parsed with; stages 2 + 3 date every line with that row alone (cached reader
   machine, search, coordinator, printer, summary as in C01_program_correct).

   Layer A ([program_correct_rows]): C01_program_correct for such sources - every hypothesis is a statement about
            bytes (decidable for a concrete file), no `dated` oracle.
   Layer B ([rx_file_domain], [program_correct_regex], [regex_spec_instants]): those hypotheses follow from a
            NUMBER-level description of the file: every dated line is a numeric family line of one row r (work
            package B's C04_regex_numbers domain: admitted standard renderings of a valid date / time / zone, any
            family texts at the other items, admissible rest), every other line is one on which row r's model
            gives nothing, and the first dated line satisfies the choice rule (C04_regex_choice_numeric: the
            listed competitors of r are silent on it; rows 0, 7, 24, 25 have none).  Then the messages of the
            file are ordered by the instants their NUMBERS denote (fread_instant). *)
From Coq Require Import List NArith ZArith Bool Arith Lia Sorted.
Import ListNotations.
From S4.Base Require Import Bytes Chunk.
From S4.Spec Require Import LinesSpec WindowSpec.
From S4.Spec Require NormaliseSpec.
From S4.Model Require Lines Syslines Gate GateSpec Print Summary Normalise Regex RegexPlan RegexDt RegexNum.
From S4.Gen Require BlockConsts DatetimeTables RegexTables.
From S4.Model Require Import Program.
From S4.Proofs Require SyslinesProofs GateProofs RegexUniv RegexIso RegexNumProofs RegexComp RegexChoice.
From S4.Proofs Require Import ProgramProofs.
Local Open Scope N_scope.

(* ================================================================ generic: instants of the messages of a file
   whose lines are described one by one *)
Fixpoint somes {A} (l : list (option A)) : list A :=
  match l with [] => [] | Some x :: r => x :: somes r | None :: r => somes r end.

Lemma groups_instants (dated : list N -> option Z) ls : forall os,
  Forall2 (fun l o => dated l = o) ls os ->
  map fst (snd (groups dated ls)) = somes os.
Proof.
  induction ls as [|l ls IH]; intros os F; inversion F as [|? o ? os' D F']; subst; [reflexivity|].
  rewrite SyslinesProofs.groups_cons. destruct (dated l) as [t|]; cbn [snd map fst somes].
  - rewrite (IH _ F'). reflexivity.
  - apply IH. exact F'.
Qed.

Lemma nondecreasing_sorted_list (l : list Z) : StronglySorted Z.le l ->
  forall (gs : list group), map fst gs = l -> nondecreasing (@fst Z (list (list N))) gs = true.
Proof.
  induction 1 as [|x l S IH A]; intros [|g gs] E; try discriminate; [reflexivity|].
  cbn [map] in E. injection E as E1 E2. destruct gs as [|g2 gs]; [reflexivity|].
  change (nondecreasing fst (g :: g2 :: gs)) with ((fst g <=? fst g2)%Z && nondecreasing fst (g2 :: gs)).
  apply andb_true_iff. split.
  - apply Z.leb_le. rewrite E1. rewrite Forall_forall in A. apply A. rewrite <- E2. left. reflexivity.
  - apply IH. exact E2.
Qed.

(* ================================================================ Layer A: no oracle, hypotheses about bytes *)
Section Rows.
  Variable yo : option Z.        (* None: the notation writes a year *)
  Variable off : Z.              (* fallback zone offset (-z / local zone) *)

  Definition rxd : N -> list N -> option Z := RegexChoice.rx_dated yo off.
  Definition rx_kind : pkind := KTextRows rxd RegexChoice.rx_rows.

  (* a text source in the sense of this file *)
  Definition rx_source (pf : pfile) : Prop := pf_kind pf = rx_kind.

  (* what C01_program_correct asks of such a file at block size bs, all of it about the file's bytes:
     the bs-free decision names row r; under r's regex model the messages are chronological and >= 2 bytes, and
     no single byte of the file is dated (first_byte_ok); the analysis at bs decides as the bs-free decision *)
  Definition rx_bytes_ok (bs : N) (f : file) (r : N) : Prop :=
    GateSpec.spec_accept rxd RegexChoice.rx_rows f = Some r /\
    file_ok (rxd r) f /\ first_byte_ok (rxd r) f /\
    GateSpec.accepted (Gate.gate_rows rxd RegexChoice.rx_rows bs f) = GateSpec.spec_accept rxd RegexChoice.rx_rows f.

  (* every source: a regex text file with these properties, or a source of a kind that has no timestamp oracle
     (records, event log, journal) inside Program.src_ok *)
  Definition rx_src_ok (O : oracles) (bs : N) (o : options) (pf : pfile) : Prop :=
    match pf_kind pf with
    | KTextRows dbr rows => dbr = rxd /\ rows = RegexChoice.rx_rows /\ exists r, rx_bytes_ok bs (pf_data pf) r
    | KText | KYearless _ _ => False
    | _ => src_ok O o pf
    end.

  Theorem program_correct_rows O cap bs rps sched o files :
    (0 < bs)%N -> span_ok (o_dtspan O) -> Forall (rx_src_ok O bs o) files ->
    complete O cap o files sched ->
    program_m O cap bs rps sched o files = POk (program_spec O o files).
  Proof.
    intros H SP F C. apply program_correct; [exact H| |  |exact C].
    - split; [exact SP|]. eapply Forall_impl; [|exact F]. intros pf S. unfold rx_src_ok, src_ok in *.
      destruct (pf_kind pf) as [|? ?|? ?|?|?|dbr rows]; try contradiction; try exact S.
      destruct S as (-> & -> & r & SA & OK & FB & _). exists r. auto.
    - unfold gate_passed. eapply Forall_impl; [|exact F]. intros pf S. unfold rx_src_ok in S.
      destruct (pf_kind pf) as [|? ?|? ?|?|?|dbr rows]; try contradiction; try exact I.
      destruct S as (-> & -> & r & _ & _ & _ & G). exact G.
  Qed.

  (* ================================================================ Layer B: from the NUMBERS *)

  (* l is a numeric family line of row, read as rd: the domain of C04_regex_numbers with the timestamp at the
     start of the line (texts = the item texts, rest = what follows inside the row's slice, tail = beyond it) *)
  Definition numeric_line (row : Regex.rx_row) (dr : Normalise.dt_row) (rd : RegexNum.fread) (l : bytes) : Prop :=
    exists texts rest tail,
      l = (concat texts ++ rest) ++ tail /\
      RegexNum.fread_admitted row (Normalise.r_dtfs dr) (RegexPlan.row_plan row) (RegexNum.row_fam row) rd = true /\
      RegexNum.fread_valid rd yo = true /\
      RegexDt.plan_caps row (RegexPlan.row_plan row) texts = RegexNum.fread_caps rd /\
      RegexNumProofs.seps_in_family row texts = true /\ RegexNum.rest_ok (RegexNum.row_rf row) true rest = true /\
      Regex.slice_of row ((concat texts ++ rest) ++ tail) = Some (concat texts ++ rest).

  Record row_ok (row : Regex.rx_row) (dr : Normalise.dt_row) : Prop := {
    ro_rx : RegexUniv.nth_rx' (Regex.rx_index row) = Some row;
    ro_dt : RegexUniv.nth_dt' (Regex.rx_index row) = Some dr;
    ro_num : RegexNum.row_numeric row (Normalise.r_dtfs dr) = true;
    ro_off : NormaliseSpec.fallback_ok off = true }.

  (* bytes -> regex -> captures -> normalise -> instant = the instant of the NUMBERS (C04_regex_numbers) *)
  Lemma numeric_line_instant row dr rd l : row_ok row dr -> numeric_line row dr rd l ->
    rxd (Regex.rx_index row) l = Some (RegexNum.fread_instant rd yo off).
  Proof.
    intros [Er Ed Hn Hfb] (texts & rest & tail & -> & Ha & Hv & Hc & Hs & Hr & Hsl).
    pose proof (find_some _ _ Er) as [Hin _]. pose proof (find_some _ _ Ed) as [Hdr _].
    unfold rxd, RegexChoice.rx_dated, RegexIso.dated_by. rewrite Er, Ed.
    apply (RegexNumProofs.row_numbers_fields row dr rd texts rest tail yo off); assumption.
  Qed.

  (* the description of a file, line by line: a dated line with its reading, or a line row r's model does not date *)
  Inductive line_desc : Type := LDated (rd : RegexNum.fread) | LOther.
  Definition line_is row dr (l : bytes) (d : line_desc) : Prop :=
    match d with
    | LDated rd => numeric_line row dr rd l /\ 2 <= lenN l
    | LOther => rxd (Regex.rx_index row) l = None
    end.
  Definition described row dr (f : file) (ds : list line_desc) : Prop := Forall2 (line_is row dr) (lines f) ds.
  Definition desc_instants (ds : list line_desc) : list Z :=
    flat_map (fun d => match d with LDated rd => [RegexNum.fread_instant rd yo off] | LOther => [] end) ds.

  (* the messages of a described file carry the instants their numbers denote, in file order *)
  Theorem regex_spec_instants row dr (f : file) ds : row_ok row dr -> described row dr f ds ->
    map fst (syslines (rxd (Regex.rx_index row)) f) = desc_instants ds.
  Proof.
    intros RO D. unfold syslines.
    rewrite (groups_instants _ _ (map (fun d => match d with LDated rd => Some (RegexNum.fread_instant rd yo off) | LOther => None end) ds)).
    - unfold desc_instants. clear D. induction ds as [|[rd|] ds IH]; cbn; [reflexivity| |]; rewrite IH; reflexivity.
    - unfold described in D. induction D as [|l d ls ds' L _ IH]; cbn [map]; constructor; [|exact IH].
      destruct d as [rd|]; cbn in L; [|exact L]. destruct L as [NL _]. exact (numeric_line_instant row dr rd l RO NL).
  Qed.

  (* no single byte is dated by the row: decidable per row on the regenerated pattern *)
  Definition single_byte_silent (row : Regex.rx_row) : bool :=
    forallb (fun c => match Regex.row_spans row [c] with Regex.Match (Some _) => false | _ => true end)
            (map N.of_nat (seq 0 256)).

  Lemma single_byte_undated row dr c : row_ok row dr -> single_byte_silent row = true -> c < 256 ->
    rxd (Regex.rx_index row) [c] = None.
  Proof.
    intros [Er Ed _ _] S L. unfold rxd, RegexChoice.rx_dated, RegexIso.dated_by. rewrite Er, Ed.
    unfold single_byte_silent in S. rewrite forallb_forall in S.
    assert (IN : In c (map N.of_nat (seq 0 256))).
    { apply in_map_iff. exists (N.to_nat c). split; [apply N2Nat.id|]. apply in_seq. lia. }
    specialize (S c IN). unfold RegexDt.dated_model.
    destruct (Regex.row_spans row [c]) as [[sp|]| | |]; try reflexivity. discriminate.
  Qed.

  (* the number-level description of one file at block size bs *)
  Record rx_file_numbers (bs : N) (row : Regex.rx_row) (dr : Normalise.dt_row) (f : file) (ds : list line_desc) : Prop := {
    fn_row : row_ok row dr;
    fn_desc : described row dr f ds;
    fn_sorted : StronglySorted Z.le (desc_instants ds);                 (* the numbers do not step back *)
    fn_bytes : Forall (fun c => c < 256) f;
    fn_silent : single_byte_silent row = true;
    fn_bs : BlockConsts.sp_blocksz_min <= bs /\ bs <= BlockConsts.blocksz_max;
    fn_classes : GateSpec.in_classes rxd RegexChoice.rx_rows bs f = false;   (* C12: outside F3a-d at this block size *)
    fn_size : (lenN f <? BlockConsts.bytes_min) || Gate.all_zero (firstnN BlockConsts.bytes_null_max f) = false;
    (* the choice rule on the first dated line (C04_regex_choice_numeric) *)
    fn_first : exists b e t x rd texts rest tail,
      GateSpec.first_dated rxd RegexChoice.rx_rows f = Some (b, e, t, x) /\
      slice f b (e + 1) = (concat texts ++ rest) ++ tail /\
      RegexNum.fread_admitted row (Normalise.r_dtfs dr) (RegexPlan.row_plan row) (RegexNum.row_fam row) rd = true /\
      RegexNum.fread_valid rd yo = true /\
      RegexDt.plan_caps row (RegexPlan.row_plan row) texts = RegexNum.fread_caps rd /\
      RegexNumProofs.seps_in_family row texts = true /\ RegexNum.rest_ok (RegexNum.row_rf row) true rest = true /\
      Regex.slice_of row ((concat texts ++ rest) ++ tail) = Some (concat texts ++ rest) /\
      concat texts <> [] /\ RegexChoice.ts_fits (Regex.rx_index row) (concat texts) = true /\
      (forall j, In j (RegexNum.competitors RegexTables.rx_table row) -> rxd j ((concat texts ++ rest) ++ tail) = None) }.

  Theorem rx_file_domain bs row dr (f : file) ds : rx_file_numbers bs row dr f ds ->
    rx_bytes_ok bs f (Regex.rx_index row).
  Proof.
    intros [RO D SO BY SI [B1 B2] CL SZ (b & e & t & x & rd & texts & rest & tail & FD & SL & Ha & Hv & Hc & Hs & Hr & Hsl & NE & FIT & COMP)].
    pose proof RO as [Er Ed Hn Hfb].
    pose proof (RegexChoice.choice_numeric yo off bs f b e t x row dr rd texts rest tail B1 B2 CL FD Er Ed SL Hn Ha Hv Hfb Hc Hs Hr Hsl NE FIT COMP) as CH.
    fold rxd in CH. rewrite SZ in CH.
    pose proof (GateProofs.gate_accept_spec rxd RegexChoice.rx_rows RegexChoice.rx_rows_nodup bs f B1 B2 CL) as GA.
    unfold rx_bytes_ok. rewrite <- GA, CH. split; [reflexivity|]. split; [|split; [|reflexivity]].
    - pose proof (regex_spec_instants row dr f ds RO D) as IN. split.
      + unfold file_chronological. eapply nondecreasing_sorted_list; [exact SO|exact IN].
      + unfold file_msgs_2bytes. unfold syslines.
        assert (G : forall ls ds', Forall2 (line_is row dr) ls ds' ->
                  Forall (fun g => 2 <= lenN (group_bytes g)) (snd (groups (rxd (Regex.rx_index row)) ls))).
        { clear. induction 1 as [|l d ls ds' L _ IH]; [constructor|].
          rewrite SyslinesProofs.groups_cons. destruct (rxd (Regex.rx_index row) l) eqn:E; cbn [snd]; [|exact IH].
          constructor; [|exact IH]. unfold group_bytes. cbn [snd concat]. rewrite lenN_app.
          destruct d as [rd|]; cbn in L; [destruct L as [_ L2]; lia|congruence]. }
        exact (G _ _ D).
    - apply first_byte_ok_undated. intros c IN. rewrite Forall_forall in BY.
      eapply single_byte_undated; [exact RO|exact SI|apply BY; exact IN].
  Qed.

  (* THE COROLLARY: every text source is a regex text file described by its numbers *)
  Definition rx_src_numbers (O : oracles) (bs : N) (o : options) (pf : pfile) : Prop :=
    match pf_kind pf with
    | KTextRows dbr rows => dbr = rxd /\ rows = RegexChoice.rx_rows /\
                            exists row dr ds, rx_file_numbers bs row dr (pf_data pf) ds
    | KText | KYearless _ _ => False
    | _ => src_ok O o pf
    end.

  Theorem program_correct_regex O cap bs rps sched o files :
    (0 < bs)%N -> span_ok (o_dtspan O) -> Forall (rx_src_numbers O bs o) files ->
    complete O cap o files sched ->
    program_m O cap bs rps sched o files = POk (program_spec O o files).
  Proof.
    intros H SP F C. apply program_correct_rows; [exact H|exact SP| |exact C].
    eapply Forall_impl; [|exact F]. intros pf S. unfold rx_src_numbers, rx_src_ok, src_ok in *.
    destruct (pf_kind pf) as [|? ?|? ?|?|?|dbr rows]; try contradiction; try exact S.
    destruct S as (-> & -> & row & dr & ds & FN). split; [reflexivity|]. split; [reflexivity|].
    exists (Regex.rx_index row). eapply rx_file_domain. exact FN.
  Qed.

  (* ... and what the specification says of such a source: its messages are the groups under row r's model, whose
     instants are those of the numbers; program_spec sorts by them (stable: source order, then file order) *)
  Theorem program_spec_regex_source O bs o pf row dr ds : pf_kind pf = rx_kind ->
    rx_file_numbers bs row dr (pf_data pf) ds ->
    spec_out O o pf = text_spec (rxd (Regex.rx_index row)) (o_dtspan O) (op_after o) (op_before o) (pf_data pf) /\
    map fst (syslines (rxd (Regex.rx_index row)) (pf_data pf)) = desc_instants ds.
  Proof.
    intros K FN. destruct (rx_file_domain bs row dr _ ds FN) as (SA & _).
    split; [|destruct FN as [RO D]; exact (regex_spec_instants row dr _ ds RO D)].
    unfold spec_out. rewrite K. unfold rx_kind. cbv zeta. rewrite SA. reflexivity.
  Qed.
End Rows.

(* ================================================================ EXAMPLE: two files in two rows' notations
   fA: samba notation "[2000/01/01 00:00:01.123] ..." = row 0 (no competitors: the choice hypothesis is free), with a
       continuation line; seekable.
   fB: "2000-01-01 00:00:02 daemon[17]: ..." = row 79 (24 listed competitors, all silent on its first line), with a
       continuation line; streamed.
   Both are described by their NUMBERS (rx_file_numbers), so program_correct_regex applies: no timestamp oracle. *)
From Coq Require Import String.
From S4.Model Require Coord Journal RecordRender JournalRender.
From S4.Proofs Require RegexCompRows ProgramExamples.
Section Example.
  Import RegexNum.
  Local Open Scope list_scope.
  Definition nl1 : bytes := [10%N].
  Definition fA : file :=
    s2b "[2000/01/01 00:00:01.123] ../source3/smbd/oplock.c:1340(init_oplocks)" ++ nl1 ++
    s2b "  init_oplocks: initializing messages." ++ nl1 ++
    s2b "[2000/01/01 00:00:02.456] ../source3/smbd/server.c:1(main)" ++ nl1 ++
    s2b "[2000/01/01 00:00:04.000] ../source3/smbd/server.c:2(main)" ++ nl1.
  Definition fB : file :=
    s2b "2000-01-01 00:00:02 daemon[17]: started" ++ nl1 ++
    s2b "2000-01-01 00:00:03 daemon[17]: listening" ++ nl1 ++ s2b "    on port 514" ++ nl1 ++
    s2b "2000-01-01 00:00:05 daemon[17]: stopped" ++ nl1.

  Definition row0 : Regex.rx_row := RegexCompRows.row_at 0.
  Definition row79 : Regex.rx_row := RegexCompRows.row_at 79.
  Definition dr_at (i : N) : Normalise.dt_row :=
    match RegexUniv.nth_dt' i with
    | Some d => d
    | None => Normalise.mkRow 0 (Normalise.mkDtfs Normalise.Y_none Normalise.Mo_none Normalise.D_none Normalise.H_none Normalise.Mi_none
                                  Normalise.S_none Normalise.F_none Normalise.Tz_none Normalise.E_none EmptyString) 0 0 0
    end.
  (* the readings: 2000-01-01 00:00:SS[.fff], no zone written (fallback zone 0) *)
  Definition rd_of (s : N) (fr : option bytes) : fread :=
    mkFR (Some (dec4 2000, 2000%Z)) (dd 1, 1%Z) (dd 1, 1%Z) (dd 0, 0%Z) (dd 0, 0%Z) (Some (dd s, Z.of_N s)) fr None.
  Definition dsA : list line_desc :=
    [LDated (rd_of 1 (Some (s2b "123"))); LOther; LDated (rd_of 2 (Some (s2b "456"))); LDated (rd_of 4 (Some (s2b "000")))].
  Definition dsB : list line_desc := [LDated (rd_of 2 None); LDated (rd_of 3 None); LOther; LDated (rd_of 5 None)].

  (* the decomposition of a line along the row's plan (RegexDt.in_domain): item texts, rest of the slice, tail *)
  Definition dom (row : Regex.rx_row) (l : bytes) : list bytes * bytes * bytes :=
    match Regex.slice_of row l with
    | Some sl => match RegexDt.in_domain (RegexPlan.row_plan row) sl with
                 | Some (ts, r) => (ts, r, skipn (List.length sl) l)
                 | None => ([], [], [])
                 end
    | None => ([], [], [])
    end.
  Ltac vmr := match goal with |- ?a = ?b => vm_cast_no_check (eq_refl b) end.
  Ltac numeric row l :=
    exists (fst (fst (dom row l))), (snd (fst (dom row l))), (snd (dom row l)); repeat split; vmr.

  Lemma row_ok_0 : row_ok 0 row0 (dr_at 0).
  Proof. split; vmr. Qed.
  Lemma row_ok_79 : row_ok 0 row79 (dr_at 79).
  Proof. split; vmr. Qed.

  Lemma forallb_Forall' {A} (p : A -> bool) (P : A -> Prop) l : (forall x, p x = true -> P x) -> forallb p l = true -> Forall P l.
  Proof. intros H E. apply Forall_forall. intros x Hx. apply H. exact (proj1 (forallb_forall p l) E x Hx). Qed.

  Lemma fA_numbers : rx_file_numbers None 0 256 row0 (dr_at 0) fA dsA.
  Proof.
    split.
    - exact row_ok_0.
    - unfold described. replace (lines fA) with
        [s2b "[2000/01/01 00:00:01.123] ../source3/smbd/oplock.c:1340(init_oplocks)" ++ nl1;
         s2b "  init_oplocks: initializing messages." ++ nl1;
         s2b "[2000/01/01 00:00:02.456] ../source3/smbd/server.c:1(main)" ++ nl1;
         s2b "[2000/01/01 00:00:04.000] ../source3/smbd/server.c:2(main)" ++ nl1] by vmr.
      unfold dsA. repeat (apply Forall2_cons); try apply Forall2_nil; cbn [line_is].
      + split; [|vm_compute; discriminate]. numeric row0 (s2b "[2000/01/01 00:00:01.123] ../source3/smbd/oplock.c:1340(init_oplocks)" ++ nl1).
      + vmr.
      + split; [|vm_compute; discriminate]. numeric row0 (s2b "[2000/01/01 00:00:02.456] ../source3/smbd/server.c:1(main)" ++ nl1).
      + split; [|vm_compute; discriminate]. numeric row0 (s2b "[2000/01/01 00:00:04.000] ../source3/smbd/server.c:2(main)" ++ nl1).
    - replace (desc_instants None 0 dsA) with [946684801123000000; 946684802456000000; 946684804000000000]%Z by vmr.
      repeat constructor; lia.
    - apply (forallb_Forall' (fun c => c <? 256)); [intros x Hx; apply N.ltb_lt; exact Hx|vmr].
    - vmr.
    - split; vm_compute; discriminate.
    - vmr.
    - vmr.
    - exists 0, 69, 946684801123000000%Z, 0, (rd_of 1 (Some (s2b "123"))).
      exists (fst (fst (dom row0 (slice fA 0 (69 + 1))))), (snd (fst (dom row0 (slice fA 0 (69 + 1))))), (snd (dom row0 (slice fA 0 (69 + 1)))).
      repeat split; try vmr.
      + vm_compute. discriminate.
      + unfold row0. rewrite RegexCompRows.competitors_0. intros j [].
  Qed.

  Lemma fB_numbers : rx_file_numbers None 0 256 row79 (dr_at 79) fB dsB.
  Proof.
    split.
    - exact row_ok_79.
    - unfold described. replace (lines fB) with
        [s2b "2000-01-01 00:00:02 daemon[17]: started" ++ nl1; s2b "2000-01-01 00:00:03 daemon[17]: listening" ++ nl1;
         s2b "    on port 514" ++ nl1; s2b "2000-01-01 00:00:05 daemon[17]: stopped" ++ nl1] by vmr.
      unfold dsB. repeat (apply Forall2_cons); try apply Forall2_nil; cbn [line_is].
      + split; [|vm_compute; discriminate]. numeric row79 (s2b "2000-01-01 00:00:02 daemon[17]: started" ++ nl1).
      + split; [|vm_compute; discriminate]. numeric row79 (s2b "2000-01-01 00:00:03 daemon[17]: listening" ++ nl1).
      + vmr.
      + split; [|vm_compute; discriminate]. numeric row79 (s2b "2000-01-01 00:00:05 daemon[17]: stopped" ++ nl1).
    - replace (desc_instants None 0 dsB) with [946684802000000000; 946684803000000000; 946684805000000000]%Z by vmr.
      repeat constructor; lia.
    - apply (forallb_Forall' (fun c => c <? 256)); [intros x Hx; apply N.ltb_lt; exact Hx|vmr].
    - vmr.
    - split; vm_compute; discriminate.
    - vmr.
    - vmr.
    - exists 0, 39, 946684802000000000%Z, 79, (rd_of 2 None).
      exists (fst (fst (dom row79 (slice fB 0 (39 + 1))))), (snd (fst (dom row79 (slice fB 0 (39 + 1))))), (snd (dom row79 (slice fB 0 (39 + 1)))).
      repeat split; try vmr.
      + vm_compute. discriminate.
      + unfold row79. rewrite RegexCompRows.competitors_79. intros j HJ.
        repeat (destruct HJ as [<-|HJ]; [vmr|]). destruct HJ.
  Qed.

  (* the invocation: `s4 -n -a 2000-01-01T00:00:02 --summary smbd.log daemon.log.gz` at block size 256 *)
  Definition O_rx : oracles :=
    mkOracles (fun _ => None) ProgramExamples.dtspan_ex (fun _ => None) RecordRender.f32_int_text
              Journal.ref_seek_head Journal.ref_seek_realtime.                (* no timestamp oracle is consulted *)
  Definition files_rx : list pfile :=
    [mkPfile (ProgramExamples.src_ex "smbd.log") false fA (rx_kind None 0);
     mkPfile (ProgramExamples.src_ex "daemon.log.gz") true fB (rx_kind None 0)].
  Definition cli_rx : Summary.cli :=
    {| Summary.c_colour := false; Summary.c_prepend_file := true; Summary.c_align := false;
       Summary.c_psep := s2b ":"; Summary.c_fmt := None; Summary.c_off := 0%Z;
       Summary.c_sep := []; Summary.c_summary := true |}.
  Definition opts_rx : options :=
    mkOptions cli_rx (Some 946684802000000000%Z) None JournalRender.OCat ProgramExamples.jenv_ex.
  Definition sched_rx : schedule :=
    ProgramExamples.greedy 200 2 [Coord.Send 1; Coord.Send 0; Coord.Recv 0; Coord.Recv 1; Coord.Print]
      (Coord.init (tags_of (spec_sources O_rx opts_rx files_rx))).
  Definition expected_rx : bytes :=
    s2b "daemon.log.gz:2000-01-01 00:00:02 daemon[17]: started" ++ nl1 ++
    s2b "smbd.log:[2000/01/01 00:00:02.456] ../source3/smbd/server.c:1(main)" ++ nl1 ++
    s2b "daemon.log.gz:2000-01-01 00:00:03 daemon[17]: listening" ++ nl1 ++ s2b "daemon.log.gz:    on port 514" ++ nl1 ++
    s2b "smbd.log:[2000/01/01 00:00:04.000] ../source3/smbd/server.c:2(main)" ++ nl1 ++
    s2b "daemon.log.gz:2000-01-01 00:00:05 daemon[17]: stopped" ++ nl1.

  Example ex_regex_program :
    (* the two files are chosen rows 0 and 79 by the bs-free decision ... *)
    GateSpec.spec_accept (rxd None 0) RegexChoice.rx_rows fA = Some 0 /\
    GateSpec.spec_accept (rxd None 0) RegexChoice.rx_rows fB = Some 79 /\
    (* ... the composed code-level model prints the specification (by the theorem, not by evaluation) ... *)
    program_m O_rx 2 256 ProgramExamples.rps_ex sched_rx opts_rx files_rx = POk (program_spec O_rx opts_rx files_rx) /\
    (* ... which is the merge by the instants of the NUMBERS, inside the window *)
    Print.payload (fst (program_spec O_rx opts_rx files_rx)) = expected_rx /\
    Summary.u_sys (snd (program_spec O_rx opts_rx files_rx)) = 5.
  Proof.
    split; [vmr|]. split; [vmr|]. split; [|split; vmr].
    apply (program_correct_regex None 0); [reflexivity|intro l; cbn; lia| |eexists; split; vm_compute; reflexivity].
    constructor; [|constructor; [|constructor]]; unfold rx_src_numbers; cbn [pf_kind pf_data]; (split; [reflexivity|]); (split; [reflexivity|]).
    - exists row0, (dr_at 0), dsA. exact fA_numbers.
    - exists row79, (dr_at 79), dsB. exact fB_numbers.
  Qed.
End Example.
