(* Proofs/ClassifyInst.v — the generic C16 theorems instantiated with the regenerated
   tables (Gen/ClassifyTables.v), the refutation witness of known finding F6, and
   examples showing that the hypotheses of every implication are satisfiable. *)
From Coq Require Import String.
From S4.Base Require Import Bytes.
From S4.Model Require Import Classify.
From S4.Gen Require Import ClassifyTables.
From S4.Spec Require Import ClassifySpec.
From S4.Proofs Require Import ClassifyTablesOk ClassifyProofs ClassifyStructured.
Open Scope N_scope.

Local Notation classify := (classify sfx_table name_table junk junk_lead).
Local Notation classify_top := (classify_top sfx_table name_table junk junk_lead).
Local Notation spec_scan := (spec_scan sfx_table name_table).
Local Notation spec_classify := (spec_classify sfx_table name_table).
Local Notation wf_u := (wf_sname_u junk junk_lead).

(* ---- 1. totality ------------------------------------------------------------ *)

Lemma inst_classify_total : forall uat a (p : bytes), classify (S (length p)) uat a p <> ROutOfFuel.
Proof. exact (classify_total _ _ _ _ tables_wf_ok). Qed.

Lemma inst_classify_top_total : forall uat (p : bytes), classify_top uat p <> ROutOfFuel.
Proof. exact (classify_top_total _ _ _ _ tables_wf_ok). Qed.

Lemma inst_classify_fuel_mono : forall fuel k uat a (p : bytes) r,
  classify fuel uat a p = r -> r <> ROutOfFuel -> classify (fuel + k) uat a p = r.
Proof. exact (classify_fuel_mono sfx_table name_table junk junk_lead). Qed.

(* ---- 2. structured names ------------------------------------------------------ *)

Lemma inst_classify_structured : forall uat pre c0 comps post,
  wf_sname junk junk_lead pre c0 comps post = true ->
  classify_top uat (render pre c0 comps post) = spec_classify uat c0 comps.
Proof. exact (classify_structured _ _ _ _ tables_wf_ok). Qed.

Lemma inst_classify_structured_wide : forall uat pre c0 comps post,
  wf_sname_wide junk junk_lead pre c0 comps post = true -> f6_pre pre = false ->
  classify_top uat (render pre c0 comps post) = spec_classify uat c0 comps.
Proof. exact (classify_structured_wide _ _ _ _ tables_wf_ok). Qed.

Lemma inst_classify_structured_u : forall uat pre c0 comps post,
  wf_u pre c0 comps post = true -> f6_pre pre = false ->
  classify_top uat (render pre c0 comps post) = spec_classify uat c0 comps.
Proof. exact (classify_structured_u _ _ _ _ tables_wf_ok). Qed.

Lemma inst_classify_structured_from : forall uat a fuel pre c0 comps post,
  wf_u pre c0 comps post = true -> f6_pre pre = false -> (length comps < fuel)%nat ->
  classify fuel uat a (render pre c0 comps post) = spec_scan uat a c0 (rev comps).
Proof. exact (classify_structured_from _ _ _ _ tables_wf_ok). Qed.

(* ---- 3. corollaries ------------------------------------------------------------ *)

Lemma inst_classify_case : forall uat pre c0 comps post pre' c0' comps' post',
  wf_u pre c0 comps post = true -> f6_pre pre = false ->
  wf_u pre' c0' comps' post' = true -> f6_pre pre' = false ->
  lower_bytes c0 = lower_bytes c0' -> map lower_bytes comps = map lower_bytes comps' ->
  classify_top uat (render pre c0 comps post) = classify_top uat (render pre' c0' comps' post').
Proof. exact (classify_case _ _ _ _ tables_wf_ok). Qed.

Lemma inst_classify_rotation : forall uat pre c0 comps extra post,
  wf_u pre c0 (comps ++ extra) post = true -> f6_pre pre = false ->
  forallb (rot_comp sfx_table) extra = true ->
  classify_top uat (render pre c0 (comps ++ extra) post) = classify_top uat (render pre c0 comps post).
Proof. exact (classify_rotation _ _ _ _ tables_wf_ok). Qed.

(* no word of the suffix table is numeric, so a compression word is never skipped as a number *)
Lemma assoc_In {A} w (act : A) t : assoc w t = Some act -> In (w, act) t.
Proof.
  induction t as [|[k v] t IH]; cbn [assoc]; [discriminate|].
  destruct (beqb w k) eqn:E.
  - intro H. inversion H; subst. apply beqb_eq in E. subst. left. reflexivity.
  - intro H. right. apply IH. exact H.
Qed.

Lemma sfx_keys_not_numeric_b : forallb (fun wa => negb (parse_i32_ok (fst wa))) sfx_table = true.
Proof. vm_compute. reflexivity. Qed.

Lemma sfx_keys_not_numeric w act : assoc w sfx_table = Some act -> parse_i32_ok w = false.
Proof.
  intro H. apply assoc_In in H. pose proof sfx_keys_not_numeric_b as F.
  rewrite forallb_forall in F. apply F in H. cbn [fst] in H. apply negb_true_iff in H. exact H.
Qed.

Lemma inst_classify_compress : forall uat pre c0 comps c post a',
  wf_u pre c0 (comps ++ [c]) post = true -> f6_pre pre = false ->
  assoc (lower_bytes c) sfx_table = Some (SCompress a') ->
  classify_top uat (render pre c0 (comps ++ [c]) post) = spec_scan uat a' c0 (rev comps)
  /\ classify_top uat (render pre c0 (comps ++ [c]) post)
     = classify (S (length (render pre c0 comps post))) uat a' (render pre c0 comps post).
Proof.
  intros uat pre c0 comps c post a' W F Ha.
  apply (classify_compress _ _ _ _ tables_wf_ok); try assumption.
  eapply sfx_keys_not_numeric. exact Ha.
Qed.

Lemma inst_classify_default_text : forall uat pre c0 comps post,
  wf_u pre c0 comps post = true -> f6_pre pre = false ->
  (forall c, In c comps -> assoc (lower_bytes c) sfx_table = None) ->
  assoc (lower_bytes c0) name_table = None ->
  classify_top uat (render pre c0 comps post) = RFile (Text Normal).
Proof. exact (classify_default_text _ _ _ _ tables_wf_ok). Qed.

Lemma inst_classify_junk : forall uat pre c0 comps post,
  wf_u pre c0 comps post = true -> f6_pre pre = false ->
  classify_top uat (render pre c0 comps post) = classify_top uat (render [] c0 comps []).
Proof. exact (classify_junk _ _ _ _ tables_wf_ok). Qed.

(* ---- 4. known finding F6: the hypothesis [f6_pre pre = false] cannot be dropped --- *)

Open Scope string_scope.

(* "-.foo.messages", walked directory: the spec says Text/Normal, the code says Unparsable *)
Lemma classify_junk_first_component_refuted :
  exists pre c0 comps post,
    wf_sname_wide junk junk_lead pre c0 comps post = true /\
    classify_top false (render pre c0 comps post) <> spec_classify false c0 comps.
Proof.
  exists (s2b "-."), (s2b "foo"), [s2b "messages"], []. split.
  - vm_compute. reflexivity.
  - vm_compute. discriminate.
Qed.

Lemma f6_witness_values :
  f6_pre (s2b "-.") = true /\
  render (s2b "-.") (s2b "foo") [s2b "messages"] [] = s2b "-.foo.messages" /\
  classify_top false (s2b "-.foo.messages") = RFile Unparsable /\
  spec_classify false (s2b "foo") [s2b "messages"] = RFile (Text Normal).
Proof. vm_compute. repeat split; reflexivity. Qed.

(* what the code does on EVERY name of the F6 class, and the uniformly failing subclass *)
Lemma inst_classify_structured_f6 : forall uat pre c0 comps post,
  wf_u pre c0 comps post = true -> f6_pre pre = true ->
  classify_top uat (render pre c0 comps post) = f6_classify sfx_table uat c0 comps.
Proof. exact (classify_structured_f6 _ _ _ _ tables_wf_ok). Qed.

Lemma inst_classify_f6_walked_unparsable : forall pre c0 comps post,
  wf_u pre c0 comps post = true -> f6_pre pre = true ->
  forallb (transparent_comp sfx_table) (c0 :: comps) = true ->
  classify_top false (render pre c0 comps post) = RFile Unparsable
  /\ spec_classify false c0 comps <> RFile Unparsable.
Proof. exact (classify_f6_walked_unparsable _ _ _ _ tables_wf_ok). Qed.

Lemma ex_f6 :
  wf_u (s2b "~-.") (s2b "Foo") [s2b "messages"; s2b "GZ"; s2b "3"] (s2b ";") = true /\
  f6_pre (s2b "~-.") = true /\
  forallb (transparent_comp sfx_table) (s2b "Foo" :: [s2b "messages"; s2b "GZ"; s2b "3"]) = true /\
  f6_classify sfx_table true (s2b "Foo") [s2b "messages"; s2b "GZ"; s2b "3"] = RFile (Text Gz).
Proof. vm_compute. repeat split; reflexivity. Qed.

(* ---- examples: the hypotheses are satisfiable ------------------------------------ *)

(* "~SysLog.LOG.1.GZ~" is a structured name of the narrow domain; it is a gzipped text log *)
Lemma ex_structured :
  wf_sname junk junk_lead (s2b "~") (s2b "SysLog") [s2b "LOG"; s2b "1"; s2b "GZ"] (s2b "~") = true /\
  render (s2b "~") (s2b "SysLog") [s2b "LOG"; s2b "1"; s2b "GZ"] (s2b "~") = s2b "~SysLog.LOG.1.GZ~" /\
  spec_classify true (s2b "SysLog") [s2b "LOG"; s2b "1"; s2b "GZ"] = RFile (Text Gz).
Proof. vm_compute. repeat split; reflexivity. Qed.

(* widest domain: dots in the leading junk (not of the F6 class), a non-ASCII component:
   ".-" ++ E6 97 A5 E6 9C AC ++ ".utmp.xz" *)
Lemma ex_structured_u :
  wf_u (s2b ".-") (unhex "e697a5e69cac") [s2b "utmp"; s2b "xz"] [] = true /\
  f6_pre (s2b ".-") = false /\
  wf_sname_wide junk junk_lead (s2b ".-") (unhex "e697a5e69cac") [s2b "utmp"; s2b "xz"] [] = false /\
  spec_classify false (unhex "e697a5e69cac") [s2b "utmp"; s2b "xz"] = RFile (Fixed Xz Utmp).
Proof. vm_compute. repeat split; reflexivity. Qed.

Lemma ex_case :
  wf_u (s2b "~") (s2b "Messages") [s2b "GZ"] [] = true /\ f6_pre (s2b "~") = false /\
  wf_u [] (s2b "messages") [s2b "gz"] (s2b ";") = true /\ f6_pre [] = false /\
  lower_bytes (s2b "Messages") = lower_bytes (s2b "messages") /\
  map lower_bytes [s2b "GZ"] = map lower_bytes [s2b "gz"].
Proof. vm_compute. repeat split; reflexivity. Qed.

Lemma ex_rotation :
  wf_u [] (s2b "auth") ([s2b "log"] ++ [s2b "1"; s2b "old"; s2b "20230101"]) (s2b "~") = true /\
  f6_pre [] = false /\
  forallb (rot_comp sfx_table) [s2b "1"; s2b "old"; s2b "20230101"] = true.
Proof. vm_compute. repeat split; reflexivity. Qed.

Lemma ex_compress :
  wf_u [] (s2b "wtmp") ([s2b "1"] ++ [s2b "Xz"]) [] = true /\ f6_pre [] = false /\
  assoc (lower_bytes (s2b "Xz")) sfx_table = Some (SCompress Xz) /\
  spec_scan false Xz (s2b "wtmp") (rev [s2b "1"]) = RFile (Fixed Xz Utmp).
Proof. vm_compute. repeat split; reflexivity. Qed.

Lemma ex_default_text :
  wf_u (s2b "-") (s2b "kern") [s2b "prev"; s2b "2"] [] = true /\ f6_pre (s2b "-") = false /\
  forallb (fun c => match assoc (lower_bytes c) sfx_table with None => true | Some _ => false end)
          [s2b "prev"; s2b "2"] = true /\
  assoc (lower_bytes (s2b "kern")) name_table = None.
Proof. vm_compute. repeat split; reflexivity. Qed.
