(* Proofs/BlockszArgProofs.v — cli_process_blocksz (Model/BlockszArg.v) accepts exactly the `--blocksz` arguments
   that DENOTE a value in the permitted range and returns the denoted value: decimal, or one or more repetitions of
   0x / 0o / 0b followed by a numeral of that radix; a numeral = optional '+', then >= 1 digits of the radix. *)
From S4.Base Require Import Bytes Chunk.
From S4.Gen Require Import BlockConsts.
From S4.Model Require Import BlockszArg.
Open Scope N_scope.

Definition step (radix : N) (a c : N) : N := a * radix + match digit_val radix c with Some d => d | None => 0 end.
Lemma value_fold radix ds : value radix ds = fold_left (step radix) ds 0.
Proof. reflexivity. Qed.

Lemma fold_step_mono radix : 0 < radix -> forall s a, a <= fold_left (step radix) s a.
Proof.
  intros R s. induction s as [|c s IH]; intro a; cbn [fold_left]; [lia|].
  specialize (IH (step radix a c)). unfold step in *. nia.
Qed.

Lemma from_digits_spec radix : 0 < radix -> forall s acc v, acc <= u64_max ->
  (from_digits radix acc s = Some v <-> all_digits radix s /\ v = fold_left (step radix) s acc /\ v <= u64_max).
Proof.
  intros R s. induction s as [|c s IH]; intros acc v A; cbn [from_digits fold_left].
  - split.
    + intro H. injection H as <-. split; [constructor|]. split; [reflexivity|exact A].
    + intros (_ & -> & _). reflexivity.
  - destruct (digit_val radix c) as [d|] eqn:D.
    + assert (ST : step radix acc c = acc * radix + d) by (unfold step; rewrite D; reflexivity).
      destruct (N.leb_spec (acc * radix + d) u64_max) as [L|L].
      * rewrite IH by exact L. rewrite ST. split.
        -- intros (F & E & U). split; [constructor; [congruence|exact F]|]. split; assumption.
        -- intros (F & E & U). inversion F; subst. split; [assumption|]. split; [reflexivity|assumption].
      * split; [discriminate|]. intros (F & E & U). exfalso.
        pose proof (fold_step_mono radix R s (step radix acc c)) as M. rewrite ST in *. lia.
    + split; [discriminate|]. intros (F & _). inversion F; subst. congruence.
Qed.

Lemma sign_not_digit radix : digit_val radix 43 = None /\ digit_val radix 45 = None.
Proof. split; reflexivity. Qed.

Lemma from_str_radix_spec radix s v : 0 < radix ->
  (from_str_radix radix s = Some v <-> numeral radix s v /\ v <= u64_max).
Proof.
  intro R. assert (Z : 0 <= u64_max) by lia.
  destruct (sign_not_digit radix) as (P43 & P45).
  destruct s as [|c r].
  - cbn. split; [discriminate|]. intros ((sg & ds & E & _ & NE & _) & _).
    destruct sg, ds; try discriminate; congruence.
  - (* the two ways a numeral can be cut *)
    assert (PLAIN : c <> 43 -> (from_digits radix 0 (c :: r) = Some v <-> numeral radix (c :: r) v /\ v <= u64_max)).
    { intro NC. rewrite (from_digits_spec radix R (c :: r) 0 v Z). rewrite <- value_fold. split.
      - intros (F & E & U). split; [|exact U]. exists [], (c :: r). repeat split; auto; discriminate.
      - intros ((sg & ds & E & SG & NE & F & V) & U). destruct SG as [->| ->].
        + cbn in E. subst ds. repeat split; assumption.
        + cbn in E. injection E as E1 E2. congruence. }
    assert (PLUS : c = 43 -> r <> [] -> (from_digits radix 0 r = Some v <-> numeral radix (c :: r) v /\ v <= u64_max)).
    { intros -> NR. rewrite (from_digits_spec radix R r 0 v Z). rewrite <- value_fold. split.
      - intros (F & E & U). split; [|exact U]. exists [43], r. repeat split; auto.
      - intros ((sg & ds & E & SG & NE & F & V) & U). destruct SG as [->| ->].
        + cbn in E. subst ds. inversion F; subst. congruence.
        + cbn in E. injection E as <-. repeat split; assumption. }
    destruct r as [|c2 r].
    + cbn [from_str_radix]. destruct (N.eqb_spec c 43) as [->|N1]; cbn [orb].
      * split; [discriminate|]. intros ((sg & ds & E & SG & NE & F & V) & U). destruct SG as [->| ->]; cbn in E.
        -- subst ds. inversion F; subst. congruence.
        -- injection E as <-. congruence.
      * destruct (N.eqb_spec c 45) as [->|N2].
        -- split; [discriminate|]. intros ((sg & ds & E & SG & NE & F & V) & U). destruct SG as [->| ->]; cbn in E.
           ++ subst ds. inversion F; subst. congruence.
           ++ injection E as E1 E2. congruence.
        -- apply PLAIN. exact N1.
    + cbn [from_str_radix]. destruct (N.eqb_spec c 43) as [E|N1].
      * apply PLUS; [exact E|discriminate].
      * apply PLAIN. exact N1.
Qed.

Lemma starts_with_iff p s : starts_with p s = true <-> exists r, s = p ++ r.
Proof.
  revert s; induction p as [|a p IH]; intro s; cbn [starts_with].
  - split; [intros _; exists s; reflexivity|reflexivity].
  - destruct s as [|b s]; [split; [discriminate|intros (r & E); discriminate]|].
    rewrite Bool.andb_true_iff, N.eqb_eq, IH. split.
    + intros (-> & r & ->). exists r. reflexivity.
    + intros (r & E). injection E as -> ->. split; [reflexivity|exists r; reflexivity].
Qed.

Lemma skipn_app_exact {A} (p r : list A) : skipn (length p) (p ++ r) = r.
Proof. induction p; [reflexivity|exact IHp]. Qed.

(* trim_start_matches strips every repetition *)
Lemma trim_repeat p r : p <> [] -> starts_with p r = false ->
  forall k fuel, (length (repeat_app p k ++ r) <= fuel)%nat -> trim_start fuel p (repeat_app p k ++ r) = r.
Proof.
  intros NP NS. induction k as [|k IH]; intros fuel L; cbn [repeat_app app] in *.
  - destruct fuel; cbn [trim_start]; [reflexivity|]. rewrite NS. reflexivity.
  - destruct fuel as [|fuel].
    + exfalso. destruct p; [congruence|]. cbn in L. lia.
    + cbn [trim_start]. rewrite <- app_assoc.
      assert (SW : starts_with p (p ++ (repeat_app p k ++ r)) = true) by (apply starts_with_iff; eexists; reflexivity).
      rewrite SW, skipn_app_exact. apply IH.
      rewrite <- app_assoc, app_length in L. destruct p; [congruence|]. cbn in L. lia.
Qed.

Lemma trim_decomp p : p <> [] -> forall fuel s, (length s <= fuel)%nat ->
  exists k, s = repeat_app p k ++ trim_start fuel p s /\ (starts_with p s = true -> k <> O).
Proof.
  intros NP fuel. induction fuel as [|fuel IH]; intros s L.
  - destruct s; [|cbn in L; lia]. exists O. split; [reflexivity|].
    destruct p; [congruence|]. cbn. discriminate.
  - cbn [trim_start]. destruct (starts_with p s) eqn:SW.
    + apply starts_with_iff in SW as (r & ->). rewrite skipn_app_exact.
      destruct (IH r) as (k & E & _).
      { rewrite app_length in L. destruct p; [congruence|]. cbn in L. lia. }
      exists (S k). split; [cbn [repeat_app]; rewrite <- app_assoc; f_equal; exact E|discriminate].
    + exists O. split; [reflexivity|discriminate].
Qed.

(* a numeral of the radix does not begin with a prefix whose second byte is not a digit of the radix *)
Lemma numeral_no_prefix radix x r v : digit_val radix x = None -> numeral radix r v -> starts_with [48; x] r = false.
Proof.
  intros DX (sg & ds & -> & SG & NE & F & _).
  destruct (starts_with [48; x] (sg ++ ds)) eqn:SW; [|reflexivity]. exfalso.
  apply starts_with_iff in SW as (t & E). destruct SG as [->| ->]; cbn in E.
  - subst ds. inversion F as [|? ? _ F2]; subst. inversion F2; subst. congruence.
  - discriminate.
Qed.

Lemma forms_are : blocksz_forms = [([48; 120], 16); ([48; 111], 8); ([48; 98], 2)].
Proof. reflexivity. Qed.

Lemma hi_fits : blocksz_max <= u64_max. Proof. vm_compute. congruence. Qed.

(* cli_process_blocksz accepts exactly the arguments that denote a value inside the permitted range, and returns
   that value *)
Theorem blocksz_parse_correct s v :
  process_blocksz s = Some v <-> denotes s v /\ blocksz_lo <= v /\ v <= blocksz_max.
Proof.
  unfold process_blocksz, denotes. rewrite forms_are. cbn [parse_forms].
  assert (R16 : 0 < 16) by lia. assert (R8 : 0 < 8) by lia. assert (R2 : 0 < 2) by lia. assert (R10 : 0 < 10) by lia.
  pose proof hi_fits as HF.
  (* which branch a denoting argument takes *)
  assert (RANGE : forall w, (if (blocksz_lo <=? w) && (w <=? blocksz_max) then Some w else None) = Some v <->
                            w = v /\ blocksz_lo <= v /\ v <= blocksz_max).
  { intro w. destruct (N.leb_spec blocksz_lo w) as [L1|L1], (N.leb_spec w blocksz_max) as [L2|L2]; cbn [andb]; split; intro H;
      try discriminate; try (injection H as ->; repeat split; assumption);
      destruct H as (-> & A & B); try reflexivity; lia. }
  assert (PRE : forall x radix, 0 < radix -> digit_val radix x = None -> starts_with [48; x] s = true ->
    (match from_str_radix radix (trim_start (length s) [48; x] s) with
     | Some w => if (blocksz_lo <=? w) && (w <=? blocksz_max) then Some w else None | None => None end = Some v <->
     (exists k r, s = repeat_app [48; x] (S k) ++ r /\ numeral radix r v) /\ blocksz_lo <= v /\ v <= blocksz_max)).
  { intros x radix R DX SW. split.
    - destruct (from_str_radix radix _) as [w|] eqn:FS; [|discriminate].
      intro H. apply RANGE in H as (-> & A & B).
      apply from_str_radix_spec in FS as (NU & _); [|exact R].
      destruct (trim_decomp [48; x] ltac:(discriminate) (length s) s (le_n _)) as (k & E & K).
      destruct k as [|k]; [exfalso; apply (K SW); reflexivity|].
      split; [|split; assumption]. exists k, (trim_start (length s) [48; x] s). split; assumption.
    - intros ((k & r & E & NU) & A & B).
      rewrite E at 2. rewrite trim_repeat; [|discriminate|eapply numeral_no_prefix; eassumption|rewrite <- E; apply le_n].
      assert (FS : from_str_radix radix r = Some v) by (apply from_str_radix_spec; [exact R|split; [exact NU|lia]]).
      rewrite FS. apply RANGE. auto. }
  assert (NOPRE : forall x y k r, x <> y -> s = repeat_app [48; y] (S k) ++ r -> starts_with [48; x] s = false).
  { intros x y k r D E. destruct (starts_with [48; x] s) eqn:SW; [|reflexivity].
    apply starts_with_iff in SW as (t & E2). rewrite E in E2. cbn in E2. congruence. }
  destruct (starts_with [48; 120] s) eqn:S1.
  { rewrite (PRE 120 16 R16 eq_refl S1). split.
    - intros ((k & r & E & NU) & A & B). split; [|split; assumption]. right. exists [48; 120], 16, k, r.
      split; [left; reflexivity|split; assumption].
    - intros ([NU|(p & radix & k & r & I & E & NU)] & A & B).
      + rewrite (numeral_no_prefix 10 120 s v eq_refl NU) in S1. discriminate.
      + destruct I as [I|[I|[I|[]]]]; injection I as <- <-.
        * split; [eauto|split; assumption].
        * rewrite (NOPRE 120 111 k r ltac:(discriminate) E) in S1. discriminate.
        * rewrite (NOPRE 120 98 k r ltac:(discriminate) E) in S1. discriminate. }
  destruct (starts_with [48; 111] s) eqn:S2.
  { rewrite (PRE 111 8 R8 eq_refl S2). split.
    - intros ((k & r & E & NU) & A & B). split; [|split; assumption]. right. exists [48; 111], 8, k, r.
      split; [right; left; reflexivity|split; assumption].
    - intros ([NU|(p & radix & k & r & I & E & NU)] & A & B).
      + rewrite (numeral_no_prefix 10 111 s v eq_refl NU) in S2. discriminate.
      + destruct I as [I|[I|[I|[]]]]; injection I as <- <-.
        * rewrite (NOPRE 111 120 k r ltac:(discriminate) E) in S2. discriminate.
        * split; [eauto|split; assumption].
        * rewrite (NOPRE 111 98 k r ltac:(discriminate) E) in S2. discriminate. }
  destruct (starts_with [48; 98] s) eqn:S3.
  { rewrite (PRE 98 2 R2 eq_refl S3). split.
    - intros ((k & r & E & NU) & A & B). split; [|split; assumption]. right. exists [48; 98], 2, k, r.
      split; [right; right; left; reflexivity|split; assumption].
    - intros ([NU|(p & radix & k & r & I & E & NU)] & A & B).
      + rewrite (numeral_no_prefix 10 98 s v eq_refl NU) in S3. discriminate.
      + destruct I as [I|[I|[I|[]]]]; injection I as <- <-.
        * rewrite (NOPRE 98 120 k r ltac:(discriminate) E) in S3. discriminate.
        * rewrite (NOPRE 98 111 k r ltac:(discriminate) E) in S3. discriminate.
        * split; [eauto|split; assumption]. }
  (* no prefix: decimal *)
  split.
  - destruct (from_str_radix 10 s) as [w|] eqn:FS; [|discriminate].
    intro H. apply RANGE in H as (-> & A & B). apply from_str_radix_spec in FS as (NU & _); [|exact R10].
    split; [left; exact NU|split; assumption].
  - intros ([NU|(p & radix & k & r & I & E & NU)] & A & B).
    + assert (FS : from_str_radix 10 s = Some v) by (apply from_str_radix_spec; [exact R10|split; [exact NU|lia]]).
      rewrite FS. apply RANGE. auto.
    + exfalso. assert (SW : starts_with p s = true) by (apply starts_with_iff; rewrite E; cbn [repeat_app]; rewrite <- app_assoc; eexists; reflexivity).
      destruct I as [I|[I|[I|[]]]]; injection I as <- <-; congruence.
Qed.

(* consequences in plain words *)
Corollary blocksz_value_in_range s v : process_blocksz s = Some v -> blocksz_lo <= v <= blocksz_max.
Proof. intro H. apply blocksz_parse_correct in H. tauto. Qed.

Corollary blocksz_malformed_rejected s : (forall v, ~ denotes s v) -> process_blocksz s = None.
Proof.
  intro H. destruct (process_blocksz s) as [v|] eqn:E; [|reflexivity].
  apply blocksz_parse_correct in E. exfalso. apply (H v). tauto.
Qed.

Corollary blocksz_out_of_range_rejected s :
  (forall v, denotes s v -> v < blocksz_lo \/ blocksz_max < v) -> process_blocksz s = None.
Proof.
  intro H. destruct (process_blocksz s) as [w|] eqn:E; [|reflexivity].
  apply blocksz_parse_correct in E as (D & A & B). destruct (H w D); lia.
Qed.

Require Import String.
(* examples: every accepted form, the bounds, the quirks (repeated prefix, '+'), rejected forms *)
Example blocksz_examples :
  process_blocksz (s2b "64"%string) = Some 64 /\ process_blocksz (s2b "0x40"%string) = Some 64 /\
  process_blocksz (s2b "0o100"%string) = Some 64 /\ process_blocksz (s2b "0b1000000"%string) = Some 64 /\
  process_blocksz (s2b "+64"%string) = Some 64 /\ process_blocksz (s2b "0x+40"%string) = Some 64 /\
  process_blocksz (s2b "0x0x40"%string) = Some 64 /\ process_blocksz (s2b "0xFFFFFF"%string) = Some 16777215 /\
  process_blocksz (s2b "63"%string) = None /\ process_blocksz (s2b "0x1000000"%string) = None /\
  process_blocksz (s2b "0X40"%string) = None /\ process_blocksz (s2b ""%string) = None /\ process_blocksz (s2b "0x"%string) = None /\
  process_blocksz (s2b "1_000"%string) = None /\ process_blocksz (s2b "-64"%string) = None /\ process_blocksz (s2b "64 "%string) = None /\
  process_blocksz (s2b "99999999999999999999"%string) = None /\ process_blocksz (s2b "0x0o100"%string) = None.
Proof. vm_compute. repeat split. Qed.
