(* Proofs/LinesProofs.v — the block-wise model of find_line returns exactly the spec line,
   for every block size bs > 0, every file over arbitrary bytes and every offset. *)
From S4.Base Require Import Bytes Chunk.
From S4.Spec Require Import LinesSpec.
From S4.Model Require Import Lines.
Open Scope N_scope.

(* ---------------------------------------------------------------- spec characterisation *)

Definition noNL (f : file) (a b : N) : Prop := forall k, a <= k -> k < b -> nthN f k <> Some NL.

Definition is_end (f : file) (fo e : N) : Prop :=
  fo <= e /\ e < lenN f /\ noNL f fo e /\ (nthN f e = Some NL \/ e = lenN f - 1).

Definition is_beg (f : file) (fo b : N) : Prop :=
  b <= fo /\ noNL f b fo /\ (b = 0 \/ nthN f (b - 1) = Some NL).

Lemma line_end_char (f : file) fo e : is_end f fo e -> line_end f fo = e.
Proof.
  intros (L1 & L2 & NN & E). unfold line_end.
  destruct (find_nl (skipnN fo f)) as [d|] eqn:F.
  - apply find_nl_Some in F as [A B]. rewrite nthN_skipnN in A.
    destruct (N.lt_trichotomy (fo + d) e) as [C|[C|C]]; [|exact C|].
    + exfalso. apply (NN (fo + d)); [lia|exact C|exact A].
    + exfalso. destruct E as [E|E].
      * apply (B (e - fo)); [lia|]. rewrite nthN_skipnN. replace (fo + (e - fo)) with e by lia. exact E.
      * apply nthN_Some_lt in A. lia.
  - destruct E as [E|E]; [|lia].
    exfalso. apply (find_nl_None _ F (e - fo)). rewrite nthN_skipnN.
    replace (fo + (e - fo)) with e by lia. exact E.
Qed.

Lemma line_beg_char (f : file) fo b : fo <= lenN f -> is_beg f fo b -> line_beg f fo = b.
Proof.
  intros LF (L1 & NN & B). unfold line_beg.
  destruct (rfind_nl (firstnN fo f)) as [i|] eqn:F.
  - apply rfind_nl_Some in F as [A C].
    assert (I : i < fo).
    { apply nthN_Some_lt in A. rewrite lenN_firstnN in A. lia. }
    rewrite nthN_firstnN in A. destruct (N.ltb_spec i fo); [|lia].
    destruct (N.lt_trichotomy (i + 1) b) as [D|[D|D]]; [|exact D|].
    + exfalso. destruct B as [B|B]; [lia|].
      apply (C (b - 1)); [lia|]. rewrite nthN_firstnN.
      destruct (N.ltb_spec (b - 1) fo); [exact B|lia].
    + exfalso. apply (NN i); [lia|lia|exact A].
  - destruct B as [B|B]; [lia|].
    destruct (N.eq_dec b 0) as [->|B0]; [reflexivity|].
    exfalso. apply (rfind_nl_None _ F (b - 1)). rewrite nthN_firstnN.
    destruct (N.ltb_spec (b - 1) fo); [exact B|lia].
Qed.

(* ---------------------------------------------------------------- chains of parts *)

(* ps covers exactly the file offsets lo .. hi-1, part after part *)
Fixpoint chain (bs : N) (ps : line) (lo hi : N) : Prop :=
  match ps with
  | [] => lo = hi
  | p :: r => part_fo bs p = lo /\ part_beg p < part_end p /\ part_end p <= bs /\
              chain bs r (part_bo p * bs + part_end p) hi
  end.

Lemma chain_app bs a b lo mid hi : chain bs a lo mid -> chain bs b mid hi -> chain bs (a ++ b) lo hi.
Proof.
  revert lo; induction a as [|p a IH]; intros lo A B.
  - cbn in A. subst. exact B.
  - cbn [app chain] in *. destruct A as (A1 & A2 & A3 & A4). repeat split; auto.
Qed.

Lemma chain_le bs ps lo hi : chain bs ps lo hi -> lo <= hi.
Proof.
  revert lo; induction ps as [|p ps IH]; intros lo C.
  - cbn in C. lia.
  - destruct C as (A1 & A2 & A3 & A4). apply IH in A4.
    unfold part_fo, file_offset_at_block_offset_index, file_offset_at_block_offset in A1. lia.
Qed.

Lemma chain_nonempty bs ps lo hi : chain bs ps lo hi -> lo < hi -> ps <> [].
Proof. intros C L E. subst ps. cbn in C. lia. Qed.

Lemma chain_single bs bo b e : b < e -> e <= bs -> chain bs [(bo, b, e)] (bo * bs + b) (bo * bs + e).
Proof. intros. cbn. repeat split; auto. Qed.

Lemma chain_begin bs ps lo hi : chain bs ps lo hi -> lo < hi -> line_fo_begin bs ps = Some lo.
Proof.
  intros C L. destruct ps as [|p ps]; [cbn in C; lia|].
  destruct C as (A1 & _). cbn. congruence.
Qed.

Lemma chain_end bs ps lo hi : chain bs ps lo hi -> lo < hi -> line_fo_end bs ps = Some (hi - 1).
Proof.
  intros C L. unfold line_fo_end.
  assert (NE : ps <> []) by (eapply chain_nonempty; eauto).
  destruct (exists_last NE) as (q & p & ->). rewrite rev_unit.
  f_equal.
  clear NE L. revert lo C. induction q as [|x q IH]; intros lo C.
  - cbn in C. destruct C as (A1 & A2 & A3 & A4).
    unfold part_fo, file_offset_at_block_offset_index, file_offset_at_block_offset in *. lia.
  - cbn [app chain] in C. destruct C as (_ & _ & _ & C). eapply IH. exact C.
Qed.

(* the head part of a chain that starts on a block boundary lies in that block *)
Lemma chain_head_bo bs ps bo hi : 0 < bs -> chain bs ps (bo * bs) hi -> bo * bs < hi ->
  stores_blockoffset bo ps = true.
Proof.
  intros H C L. destruct ps as [|p ps]; [cbn in C; lia|].
  destruct C as (A1 & A2 & A3 & _). cbn [stores_blockoffset existsb].
  unfold part_fo, file_offset_at_block_offset_index, file_offset_at_block_offset in A1.
  assert (part_bo p = bo).
  { assert (E : (part_bo p * bs + part_beg p) / bs = part_bo p) by (apply div_unique_bs; lia).
    rewrite A1 in E. rewrite <- E. replace (bo * bs) with (bo * bs + 0) by lia.
    apply div_unique_bs. exact H. }
  rewrite H0, N.eqb_refl. reflexivity.
Qed.

(* bytes of a chain = slice of the file *)
Lemma chain_bytes bs (f : file) ps lo hi : chain bs ps lo hi -> hi <= lenN f ->
  bytes_of bs f ps = slice f lo hi.
Proof.
  revert lo; induction ps as [|p ps IH]; intros lo C L.
  - cbn in C. subst. cbn. symmetry. apply slice_nil.
  - destruct C as (A1 & A2 & A3 & A4).
    unfold bytes_of in *. cbn [map concat]. rewrite (IH _ A4 L).
    unfold part_bytes. rewrite slice_block by exact A3.
    unfold part_fo, file_offset_at_block_offset_index, file_offset_at_block_offset in A1.
    rewrite A1. apply slice_app; [lia| |exact L].
    apply chain_le in A4. exact A4.
Qed.

(* ---------------------------------------------------------------- forward over blocks *)

Lemma block_nonempty bs (f : file) bo : 0 < bs -> bo * bs < lenN f -> block bs f bo <> [].
Proof.
  intros H L E. pose proof (lenN_block_pos bs f bo H L) as P. rewrite E in P. cbn in P. lia.
Qed.

Lemma last_mul_lt bs (f : file) : 0 < bs -> 0 < lenN f -> blockoffset_last (lenN f) bs * bs < lenN f.
Proof.
  intros H F. rewrite blockoffset_last_spec by assumption.
  pose proof (div_le_mul (lenN f - 1) bs H). lia.
Qed.

Lemma fwd_blocks_ok bs (f : file) fo lo : 0 < bs -> fo < lenN f ->
  forall fuel bof acc bi_prev pos,
  let last := blockoffset_last (lenN f) bs in
  (N.to_nat (last + 1 - bof) < fuel)%nat ->
  fo <= pos -> noNL f fo pos -> chain bs acc lo pos ->
  ((bof <= last /\ pos = bof * bs) \/
   (bof = last + 1 /\ pos = lenN f /\ exists bl, bi_prev = Some bl /\ 0 < bl /\ last * bs + bl = lenN f)) ->
  exists e ps, fwd_blocks fuel bs f bof last acc bi_prev = Found (e, ps) /\
               chain bs ps lo (e + 1) /\ is_end f fo e.
Proof.
  intros H F fuel. induction fuel as [|fuel IH]; intros bof acc bi_prev pos last FU P NN C ST; [lia|].
  assert (F0 : 0 < lenN f) by lia.
  pose proof (last_mul_lt bs f H F0) as LL. fold last in LL.
  cbn [fwd_blocks]. destruct ST as [(B1 & B2)|(B1 & B2 & bl & B3 & B4 & B5)].
  - destruct (N.leb_spec bof last); [|lia].
    assert (BL : bof * bs < lenN f) by (pose proof (mul_le_bs bof last bs B1); lia).
    pose proof (block_nonempty bs f bof H BL) as NE.
    destruct (block bs f bof) as [|x0 blk0] eqn:EB; [congruence|]. rewrite <- EB.
    destruct (find_nl (block bs f bof)) as [d|] eqn:FN.
    + apply find_nl_Some in FN as [A B].
      assert (D : d < lenN (block bs f bof)) by (eapply nthN_Some_lt; eauto).
      pose proof (lenN_block_le bs f bof) as LB.
      pose proof (block_end_le bs f bof ltac:(lia)) as BE.
      rewrite byte_at_block in A by lia.
      exists (bof * bs + d), (acc ++ [(bof, 0, d + 1)]). split; [reflexivity|]. split.
      * eapply chain_app; [exact C|]. subst pos.
        replace (bof * bs) with (bof * bs + 0) at 1 by lia.
        replace (bof * bs + d + 1) with (bof * bs + (d + 1)) by lia.
        apply chain_single; lia.
      * unfold is_end. repeat split; [lia|lia| |left; exact A].
        intros k K1 K2. destruct (N.lt_ge_cases k pos) as [K|K]; [apply NN; assumption|].
        subst pos. specialize (B (k - bof * bs) ltac:(lia)).
        rewrite byte_at_block in B by lia. replace (bof * bs + (k - bof * bs)) with k in B by lia. exact B.
    + pose proof (find_nl_None _ FN) as B.
      assert (NN' : noNL f fo (bof * bs + lenN (block bs f bof))).
      { intros k K1 K2. destruct (N.lt_ge_cases k pos) as [K|K]; [apply NN; assumption|].
        subst pos. specialize (B (k - bof * bs)).
        pose proof (lenN_block_le bs f bof).
        rewrite byte_at_block in B by lia. replace (bof * bs + (k - bof * bs)) with k in B by lia. exact B. }
      assert (C' : chain bs (acc ++ [(bof, 0, lenN (block bs f bof))]) lo (bof * bs + lenN (block bs f bof))).
      { eapply chain_app; [exact C|]. subst pos.
        replace (bof * bs) with (bof * bs + 0) at 1 by lia.
        apply chain_single; [apply lenN_block_pos; assumption | apply lenN_block_le]. }
      destruct (N.eq_dec bof last) as [EL|EL].
      * (* that was the last block *)
        pose proof (block_last_end bs f H F0) as LE. cbv zeta in LE. fold last in LE.
        subst bof. rewrite LE in *.
        apply (IH (last + 1) _ _ (lenN f)); [lia|lia|exact NN'|exact C'|].
        right. repeat split; auto. exists (lenN (block bs f last)). repeat split; auto.
        apply lenN_block_pos; assumption.
      * assert (FB : lenN (block bs f bof) = bs).
        { apply lenN_block_not_last; [assumption|assumption|]. fold last. lia. }
        rewrite FB in *.
        apply (IH (bof + 1) _ _ (bof * bs + bs)); [lia|lia|exact NN'|exact C'|].
        left. split; lia.
  - destruct (N.leb_spec bof last); [lia|]. rewrite B3.
    destruct (N.eqb_spec bl 0); [lia|].
    exists (lenN f - 1), acc.
    unfold file_offset_at_block_offset_index, file_offset_at_block_offset.
    split; [do 2 f_equal; lia|]. split.
    + replace (lenN f - 1 + 1) with (lenN f) by lia. subst pos. exact C.
    + unfold is_end. repeat split; [lia|lia| |right; reflexivity].
      intros k K1 K2. apply NN; [exact K1|lia].
Qed.

(* ---------------------------------------------------------------- backward over blocks *)

Lemma bwd_blocks_ok bs (f : file) fo hi : 0 < bs -> fo < lenN f ->
  forall fuel bof acc bsp,
  (N.to_nat bof < fuel)%nat ->
  (bof + 1) * bs <= fo -> fo < hi ->
  noNL f ((bof + 1) * bs) fo -> chain bs acc ((bof + 1) * bs) hi ->
  exists ps b, bwd_blocks fuel bs f bof acc bsp = Found ps /\ chain bs ps b hi /\ is_beg f fo b.
Proof.
  intros H F fuel. induction fuel as [|fuel IH]; intros bof acc bsp FU P PH NN C; [lia|].
  cbn [bwd_blocks].
  assert (NE : block bs f bof <> []) by (apply block_nonempty; lia).
  destruct (block bs f bof) as [|x0 blk0] eqn:EB; [congruence|]. rewrite <- EB. clear NE.
  assert (FB : lenN (block bs f bof) = bs) by (apply lenN_block_full; lia). rewrite FB.
  destruct (rfind_nl (block bs f bof)) as [i|] eqn:RF.
  - apply rfind_nl_Some in RF as [A B].
    assert (I : i < bs) by (apply nthN_Some_lt in A; lia).
    rewrite byte_at_block in A by lia.
    unfold file_offset_at_block_offset_index, file_offset_at_block_offset, block_offset_at_file_offset.
    assert (BG : is_beg f fo (bof * bs + i + 1)).
    { unfold is_beg. repeat split; [lia| |right; replace (bof * bs + i + 1 - 1) with (bof * bs + i) by lia; exact A].
      intros k K1 K2. destruct (N.lt_ge_cases k ((bof + 1) * bs)) as [K|K]; [|apply NN; assumption].
      specialize (B (k - bof * bs) ltac:(lia)). rewrite byte_at_block in B by lia.
      replace (bof * bs + (k - bof * bs)) with k in B by lia. exact B. }
    destruct (N.eq_dec (i + 1) bs) as [E|E].
    + (* the newline is the last byte of this block: the line starts in the next block *)
      assert (Q : (bof * bs + i + 1) / bs = bof + 1).
      { replace (bof * bs + i + 1) with ((bof + 1) * bs + 0) by lia. apply div_unique_bs. exact H. }
      rewrite Q. destruct (N.eqb_spec (bof + 1) bof); [lia|].
      rewrite (chain_head_bo bs acc (bof + 1) hi H C ltac:(lia)). cbn [negb].
      exists acc, (bof * bs + i + 1). split; [reflexivity|]. split; [|exact BG].
      replace (bof * bs + i + 1) with ((bof + 1) * bs) by lia. exact C.
    + assert (Q : (bof * bs + i + 1) / bs = bof).
      { replace (bof * bs + i + 1) with (bof * bs + (i + 1)) by lia. apply div_unique_bs. lia. }
      rewrite Q, N.eqb_refl.
      exists ((bof, i + 1, bs - 1 + 1) :: acc), (bof * bs + i + 1). split; [reflexivity|]. split; [|exact BG].
      cbn [chain]. unfold part_fo, part_bo, part_beg, part_end, file_offset_at_block_offset_index,
        file_offset_at_block_offset. cbn [fst snd].
      repeat split; [lia|lia|lia|]. replace (bof * bs + (bs - 1 + 1)) with ((bof + 1) * bs) by lia. exact C.
  - pose proof (rfind_nl_None _ RF) as B.
    assert (NN' : noNL f (bof * bs) fo).
    { intros k K1 K2. destruct (N.lt_ge_cases k ((bof + 1) * bs)) as [K|K]; [|apply NN; assumption].
      specialize (B (k - bof * bs)). rewrite byte_at_block in B by lia.
      replace (bof * bs + (k - bof * bs)) with k in B by lia. exact B. }
    assert (C' : chain bs ((bof, 0, bs - 1 + 1) :: acc) (bof * bs) hi).
    { cbn [chain]. unfold part_fo, part_bo, part_beg, part_end, file_offset_at_block_offset_index,
        file_offset_at_block_offset. cbn [fst snd].
      repeat split; [lia|lia|lia|]. replace (bof * bs + (bs - 1 + 1)) with ((bof + 1) * bs) by lia. exact C. }
    destruct (N.eqb_spec bof 0) as [Z|Z]; cbn [negb].
    + subst bof. eexists _, 0. split; [reflexivity|]. split; [exact C'|].
      unfold is_beg. repeat split; [lia|exact NN'|left; reflexivity].
    + apply IH; [lia| | |replace (bof - 1 + 1) with bof by lia; exact NN'
                 |replace (bof - 1 + 1) with bof by lia; exact C'].
      * replace (bof - 1 + 1) with bof by lia. lia.
      * exact PH.
Qed.

(* ---------------------------------------------------------------- find_line *)

Definition line_ok (bs : N) (f : file) (fo : N) (r : res (N * line)) : Prop :=
  exists ps, r = Found (line_end f fo + 1, ps) /\
             chain bs ps (line_beg f fo) (line_end f fo + 1).

Lemma find_line_fuel_ok bs (f : file) fo fuel : 0 < bs -> fo < lenN f ->
  (N.to_nat (blockoffset_last (lenN f) bs) + 1 < fuel)%nat ->
  line_ok bs f fo (find_line_fuel fuel bs f fo).
Proof.
  intros H F FU.
  assert (F0 : 0 < lenN f) by lia.
  set (last := blockoffset_last (lenN f) bs) in *.
  pose proof (div_mod_bs fo bs H) as [EQ BI].
  set (bo := fo / bs) in *. set (bi := block_index_at_file_offset fo bs) in *.
  assert (BOL : bo <= last) by (apply blockoffset_last_ge; assumption).
  pose proof (last_mul_lt bs f H F0) as LL. fold last in LL.
  assert (BL : bo * bs < lenN f) by lia.
  pose proof (lenN_block_le bs f bo) as LB.
  pose proof (block_end_le bs f bo ltac:(lia)) as BE.
  assert (BIL : bi < lenN (block bs f bo)) by (rewrite lenN_block; lia).
  (* it suffices to exhibit begin / end / chain *)
  assert (SUFF : forall r, (exists ps b e, r = Found (e + 1, ps) /\ chain bs ps b (e + 1) /\
                             is_beg f fo b /\ is_end f fo e) -> line_ok bs f fo r).
  { intros r (ps & b & e & R & C & B & E).
    apply line_end_char in E. apply line_beg_char in B; [|lia]. subst b e.
    exists ps. split; assumption. }
  unfold find_line_fuel.
  destruct (N.eqb_spec (lenN f) 0); [lia|].
  destruct (N.ltb_spec (lenN f) fo); [lia|].
  destruct (N.eqb_spec fo (lenN f)); [lia|].
  change (block_offset_at_file_offset fo bs) with bo. fold bi. fold last.
  clearbody bo bi.
  destruct (nthN_lt_Some (block bs f bo) bi BIL) as [x0 X0]. rewrite X0.
  (* ---- B1 / B2: the end of the line *)
  assert (B12 : exists e after bme,
      (let '(found_b, fo_nl_b0, bi_mid_end) :=
         match find_nl (skipnN bi (block bs f bo)) with
         | Some d => (true, file_offset_at_block_offset_index bo bs (bi + d), bi + d)
         | None => if bo =? last
                   then (true, file_offset_at_block_offset_index bo bs (lenN (block bs f bo) - 1),
                         lenN (block bs f bo) - 1)
                   else (false, fo, lenN (block bs f bo) - 1)
         end in
       (if found_b then Found (fo_nl_b0, []) else fwd_blocks fuel bs f (bo + 1) last [] None,
        bi_mid_end)) = (Found (e, after), bme) /\
      is_end f fo e /\ bi <= bme /\ bme < lenN (block bs f bo) /\
      chain bs after (bo * bs + bme + 1) (e + 1)).
  { destruct (find_nl (skipnN bi (block bs f bo))) as [d|] eqn:FN.
    - apply find_nl_Some in FN as [A B]. rewrite nthN_skipnN in A.
      assert (D : bi + d < lenN (block bs f bo)) by (eapply nthN_Some_lt; eauto).
      rewrite byte_at_block in A by lia.
      exists (bo * bs + (bi + d)), [], (bi + d). split; [reflexivity|]. split; [|split; [lia|split; [lia|cbn; lia]]].
      unfold is_end. repeat split; [lia|lia| |left; exact A].
      intros k K1 K2. specialize (B (k - fo) ltac:(lia)). rewrite nthN_skipnN in B.
      rewrite byte_at_block in B by lia. replace (bo * bs + (bi + (k - fo))) with k in B by lia. exact B.
    - pose proof (find_nl_None _ FN) as B.
      assert (NN : noNL f fo (bo * bs + lenN (block bs f bo))).
      { intros k K1 K2. specialize (B (k - fo)). rewrite nthN_skipnN in B.
        rewrite byte_at_block in B by lia. replace (bo * bs + (bi + (k - fo))) with k in B by lia. exact B. }
      destruct (N.eqb_spec bo last) as [EL|EL].
      + pose proof (block_last_end bs f H F0) as LE. cbv zeta in LE. fold last in LE. rewrite <- EL in LE.
        exists (lenN f - 1), [], (lenN (block bs f bo) - 1).
        unfold file_offset_at_block_offset_index, file_offset_at_block_offset.
        split; [do 3 f_equal; lia|]. split; [|split; [lia|split; [lia|cbn; lia]]].
        unfold is_end. repeat split; [lia|lia| |right; reflexivity].
        intros k K1 K2. apply NN; lia.
      + assert (FB : lenN (block bs f bo) = bs).
        { apply lenN_block_not_last; [assumption|assumption|]. fold last. lia. }
        rewrite FB in *.
        destruct (fwd_blocks_ok bs f fo (bo * bs + bs) H F fuel (bo + 1) [] None (bo * bs + bs))
          as (e & ps & R & C & E).
        * fold last. lia.
        * lia.
        * exact NN.
        * cbn. reflexivity.
        * left. fold last. split; lia.
        * fold last in R. exists e, ps, (bs - 1). split; [rewrite R; reflexivity|].
          split; [exact E|]. split; [lia|]. split; [lia|].
          replace (bo * bs + (bs - 1) + 1) with (bo * bs + bs) by lia. exact C. }
  destruct B12 as (e & after & bme & R12 & E & M1 & M2 & CA).
  destruct (match find_nl (skipnN bi (block bs f bo)) with
            | Some d => _ | None => _ end) as [[found_b fo_nl_b0] bi_mid_end].
  inversion R12 as [[R1 R2]]. clear R12. rewrite R1. subst bi_mid_end.
  assert (EE : fo <= e /\ e < lenN f) by (destruct E as (? & ? & _); split; assumption).
  (* the middle part, from index b0 of the middle block *)
  assert (MID : forall b0, b0 <= bi ->
            chain bs ((bo, b0, bme + 1) :: after) (bo * bs + b0) (e + 1)).
  { intros b0 B0. cbn [chain]. unfold part_fo, part_bo, part_beg, part_end,
      file_offset_at_block_offset_index, file_offset_at_block_offset. cbn [fst snd].
    repeat split; [lia|lia|]. replace (bo * bs + (bme + 1)) with (bo * bs + bme + 1) by lia. exact CA. }
  destruct (N.eqb_spec fo 0) as [Z|Z].
  - (* A0 *)
    apply SUFF. subst fo.
    assert (bo = 0 /\ bi = 0) as [B0 B1].
    { split; [|lia]. destruct (N.eq_dec bo 0) as [?|NZ]; [assumption|].
      pose proof (mul_lt_bs 0 bo bs ltac:(lia)). lia. }
    subst bo bi.
    exists ((block_offset_at_file_offset 0 bs, block_index_at_file_offset 0 bs, bme + 1) :: after), 0, e.
    split; [reflexivity|]. split; [|split; [|exact E]].
    + unfold block_offset_at_file_offset, block_index_at_file_offset, file_offset_at_block_offset.
      rewrite N.div_0_l by lia. replace (0 - 0 * bs) with 0 by lia.
      specialize (MID 0 ltac:(lia)). replace (0 * bs + 0) with 0 in MID by lia. exact MID.
    + unfold is_beg. repeat split; [lia| |left; reflexivity]. intros k K1 K2. lia.
  - (* A2 *)
    pose proof (div_mod_bs (fo - 1) bs H) as [EQ1 BI1].
    change (block_offset_at_file_offset (fo - 1) bs) with ((fo - 1) / bs).
    set (bof := (fo - 1) / bs) in *. set (bi1 := block_index_at_file_offset (fo - 1) bs) in *.
    assert (BACK : exists ps b,
      (if bof =? bo
       then match rfind_nl (firstnN (bi1 + 1) (block bs f bo)) with
            | Some i => Found ((bo, i + 1, bme + 1) :: after)
            | None => if negb (bof =? 0)
                      then bwd_blocks fuel bs f (bof - 1) ((bo, 0, bme + 1) :: after) bi
                      else Found ((bo, 0, bme + 1) :: after)
            end
       else bwd_blocks fuel bs f bof ((bo, 0, bme + 1) :: after) bi) = Found ps /\
      chain bs ps b (e + 1) /\ is_beg f fo b).
    { destruct (N.eqb_spec bof bo) as [EB|EB].
      - (* A2a: fo is not the first byte of its block *)
        assert (bi1 + 1 = bi) by (rewrite EB in EQ1; lia).
        destruct (rfind_nl (firstnN (bi1 + 1) (block bs f bo))) as [i|] eqn:RF.
        + apply rfind_nl_Some in RF as [A B].
          assert (I : i < bi1 + 1).
          { apply nthN_Some_lt in A. rewrite lenN_firstnN in A. lia. }
          rewrite nthN_firstnN in A. destruct (N.ltb_spec i (bi1 + 1)); [|lia].
          rewrite byte_at_block in A by lia.
          exists ((bo, i + 1, bme + 1) :: after), (bo * bs + (i + 1)). split; [reflexivity|].
          split; [apply MID; lia|].
          unfold is_beg. repeat split; [lia| |right; replace (bo * bs + (i + 1) - 1) with (bo * bs + i) by lia; exact A].
          intros k K1 K2. specialize (B (k - bo * bs) ltac:(lia)). rewrite nthN_firstnN in B.
          destruct (N.ltb_spec (k - bo * bs) (bi1 + 1)); [|lia].
          rewrite byte_at_block in B by lia. replace (bo * bs + (k - bo * bs)) with k in B by lia. exact B.
        + pose proof (rfind_nl_None _ RF) as B.
          assert (NN : noNL f (bo * bs) fo).
          { intros k K1 K2. specialize (B (k - bo * bs)). rewrite nthN_firstnN in B.
            destruct (N.ltb_spec (k - bo * bs) (bi1 + 1)); [|lia].
            rewrite byte_at_block in B by lia. replace (bo * bs + (k - bo * bs)) with k in B by lia. exact B. }
          specialize (MID 0 ltac:(lia)). replace (bo * bs + 0) with (bo * bs) in MID by lia.
          destruct (N.eqb_spec bof 0) as [Z0|Z0]; cbn [negb].
          * exists ((bo, 0, bme + 1) :: after), 0. split; [reflexivity|].
            assert (BZ : bo * bs = 0) by (rewrite <- EB, Z0; lia).
            rewrite BZ in MID, NN.
            split; [exact MID|]. unfold is_beg. repeat split; [lia|exact NN|left; reflexivity].
          * rewrite EB.
            apply (bwd_blocks_ok bs f fo (e + 1) H F fuel (bo - 1)); [lia| | |
              replace (bo - 1 + 1) with bo by lia; exact NN|replace (bo - 1 + 1) with bo by lia; exact MID].
            -- replace (bo - 1 + 1) with bo by lia. lia.
            -- lia.
      - (* A2b: fo is the first byte of its block *)
        assert (BB : bof + 1 = bo /\ bi = 0).
        { destruct (N.lt_trichotomy bof bo) as [X|[X|X]]; [|lia|].
          - pose proof (mul_lt_bs bof bo bs X).
            destruct (N.lt_ge_cases (bof + 1) bo) as [Y|Y];
              [pose proof (mul_lt_bs (bof + 1) bo bs Y); lia|]. split; lia.
          - pose proof (mul_lt_bs bo bof bs X). lia. }
        destruct BB as [BB1 BB2].
        specialize (MID 0 ltac:(lia)). replace (bo * bs + 0) with (bo * bs) in MID by lia.
        apply (bwd_blocks_ok bs f fo (e + 1) H F fuel bof); [lia| | | |rewrite BB1; exact MID].
        + rewrite BB1. lia.
        + lia.
        + rewrite BB1. intros k K1 K2. lia. }
    destruct BACK as (ps & b & RB & CB & BG).
    match goal with |- line_ok _ _ _ (match ?X with _ => _ end) => replace X with (@Found line ps) end.
    apply SUFF.
    assert (LT : b < e + 1) by (destruct BG as (? & _); lia).
    rewrite (chain_end bs ps b (e + 1) CB LT).
    exists ps, b, e. replace (e + 1 - 1 + 1) with (e + 1) by lia.
    split; [reflexivity|]. split; [exact CB|]. split; assumption.
Qed.

Lemma blocks_le_length bs (f : file) : 0 < bs -> (N.to_nat (blockoffset_last (lenN f) bs) + 1 < S (S (length f)))%nat.
Proof.
  intro H. destruct (N.eq_dec (lenN f) 0) as [Z|Z].
  - unfold blockoffset_last. rewrite Z. cbn. lia.
  - rewrite blockoffset_last_spec by lia.
    assert ((lenN f - 1) / bs <= lenN f - 1).
    { pose proof (div_le_mul (lenN f - 1) bs H).
      assert ((lenN f - 1) / bs * 1 <= (lenN f - 1) / bs * bs) by (apply N.mul_le_mono_l; lia). lia. }
    unfold lenN in *. lia.
Qed.

(* ---------------------------------------------------------------- the theorems *)

(* find_line returns the spec line containing fo: fo_next = end + 1, the parts are
   contiguous, well formed (bi_beg < bi_end <= bs) and cover exactly begin .. end *)
Theorem find_line_correct bs (f : file) fo : 0 < bs -> fo < lenN f ->
  exists ps, find_line_m bs f fo = Found (line_end f fo + 1, ps) /\
             chain bs ps (line_beg f fo) (line_end f fo + 1) /\
             bytes_of bs f ps = slice f (line_beg f fo) (line_end f fo + 1) /\
             line_fo_begin bs ps = Some (line_beg f fo) /\
             line_fo_end bs ps = Some (line_end f fo).
Proof.
  intros H F. unfold find_line_m.
  destruct (find_line_fuel_ok bs f fo (S (length f)) H F) as (ps & R & C).
  - pose proof (blocks_le_length bs f H). destruct (N.eq_dec (lenN f) 0); [lia|].
    rewrite blockoffset_last_spec in * by lia.
    assert ((lenN f - 1) / bs <= lenN f - 1).
    { pose proof (div_le_mul (lenN f - 1) bs H).
      assert ((lenN f - 1) / bs * 1 <= (lenN f - 1) / bs * bs) by (apply N.mul_le_mono_l; lia). lia. }
    unfold lenN in *. lia.
  - exists ps. split; [exact R|]. split; [exact C|].
    assert (E : is_end f fo (line_end f fo)).
    { unfold line_end. destruct (find_nl (skipnN fo f)) as [d|] eqn:FN.
      - apply find_nl_Some in FN as [A B]. rewrite nthN_skipnN in A.
        unfold is_end. repeat split; [lia|eapply nthN_Some_lt; eauto| |left; exact A].
        intros k K1 K2. specialize (B (k - fo) ltac:(lia)). rewrite nthN_skipnN in B.
        replace (fo + (k - fo)) with k in B by lia. exact B.
      - unfold is_end. repeat split; [lia|lia| |right; reflexivity].
        intros k K1 K2. pose proof (find_nl_None _ FN (k - fo)) as B. rewrite nthN_skipnN in B.
        replace (fo + (k - fo)) with k in B by lia. exact B. }
    destruct E as (E1 & E2 & _).
    assert (LB : line_beg f fo <= fo).
    { unfold line_beg. destruct (rfind_nl (firstnN fo f)) as [i|] eqn:RF; [|lia].
      apply rfind_nl_Some in RF as [A _]. apply nthN_Some_lt in A. rewrite lenN_firstnN in A. lia. }
    split; [apply chain_bytes; [exact C|lia]|].
    split; [eapply chain_begin; [exact C|lia]|].
    rewrite (chain_end bs ps _ _ C ltac:(lia)). f_equal. lia.
Qed.

Theorem find_line_done bs (f : file) fo : lenN f <= fo -> find_line_m bs f fo = Done.
Proof.
  intro L. unfold find_line_m, find_line_fuel.
  destruct (N.eqb_spec (lenN f) 0); [reflexivity|].
  destruct (N.ltb_spec (lenN f) fo); [reflexivity|].
  destruct (N.eqb_spec fo (lenN f)); [reflexivity|lia].
Qed.

(* what the caller observes of a Line, as a function of the file only *)
Definition obs_line (bs : N) (f : file) (r : res (N * line)) : option (N * N * N * list N) :=
  match r with
  | Found (fo_next, ps) =>
      match line_fo_begin bs ps, line_fo_end bs ps with
      | Some b, Some e => Some (fo_next, b, e, bytes_of bs f ps)
      | _, _ => None
      end
  | _ => None
  end.

Theorem find_line_spec bs (f : file) fo : 0 < bs ->
  obs_line bs f (find_line_m bs f fo) = spec_find_line f fo.
Proof.
  intro H. unfold spec_find_line. destruct (N.ltb_spec fo (lenN f)) as [L|L].
  - destruct (find_line_correct bs f fo H L) as (ps & R & _ & B & BG & EN).
    rewrite R. cbn [obs_line]. rewrite BG, EN, B. reflexivity.
  - rewrite find_line_done by exact L. reflexivity.
Qed.

(* never a Panic, never out of fuel *)
Theorem find_line_total bs (f : file) fo : 0 < bs ->
  find_line_m bs f fo <> Panic /\ find_line_m bs f fo <> OutOfFuel.
Proof.
  intro H. destruct (N.lt_ge_cases fo (lenN f)) as [L|L].
  - destruct (find_line_correct bs f fo H L) as (ps & R & _). rewrite R. split; discriminate.
  - rewrite find_line_done by exact L. split; discriminate.
Qed.

(* the hypotheses are satisfiable and the statement is not vacuous *)
Example find_line_example :
  find_line_m 2 [97; 98; 10; 99; 100; 101; 102; 10; 120] 4 = Found (8, [(1, 1, 2); (2, 0, 2); (3, 0, 2)]).
Proof. vm_compute. reflexivity. Qed.
