(* Proofs/JournalRenderShort.v — which fields the short* renderings look up, with the fallbacks.
   For an entry whose (first cfg_emerg_short) data objects have pairwise different field names, the
   text after the timestamp is a function of the values of six fields only:
       [" " _HOSTNAME] [" " (SYSLOG_IDENTIFIER, else _COMM)] ["[" (_PID, else SYSLOG_PID) "]"] [": " MESSAGE] "\n"
   each part absent when the field is.  The early end of the enumeration loop (all of _HOSTNAME,
   SYSLOG_IDENTIFIER, SYSLOG_PID, _PID, MESSAGE seen) never changes that text: what it may miss is a
   later _COMM, which is only the fallback of SYSLOG_IDENTIFIER. *)
From Coq Require Import String.
From S4.Base Require Import Bytes.
From S4.Model Require Import Journal JournalRender.
From S4.Proofs Require Import JournalExport JournalRenderBasic JournalRenderMessage.
Open Scope list_scope.
Open Scope N_scope.

(* the six field values, looked up directly *)
Definition sf_lookup (cfg : jcfg) (fs : list field) : sfound :=
  mkSF (assoc (cfg_k_host cfg) fs) (assoc (cfg_k_ident cfg) fs) (assoc (cfg_k_spid cfg) fs)
       (assoc (cfg_k_comm cfg) fs) (assoc (cfg_k_pid cfg) fs) (assoc (cfg_k_msg cfg) fs).

(* the loop without its early end *)
Fixpoint scan_nobreak (cfg : jcfg) (fs : list field) (st : sfound) : sfound :=
  match fs with
  | [] => st
  | f :: r => scan_nobreak cfg r (sf_update cfg st (fst f) (snd f))
  end.

(* slots by number, in the order of the found-tuple *)
Definition slot (i : nat) (st : sfound) : option bytes :=
  match i with
  | 0 => sf_host st | 1 => sf_ident st | 2 => sf_spid st | 3 => sf_comm st | 4 => sf_pid st | _ => sf_msg st
  end%nat.
Definition skey (cfg : jcfg) (i : nat) : bytes := nth i (short_keys cfg) (cfg_k_msg cfg).

Lemma sfound_ext a b : (forall i, (i < 6)%nat -> slot i a = slot i b) -> a = b.
Proof.
  intro H. destruct a, b.
  pose proof (H 0%nat ltac:(lia)). pose proof (H 1%nat ltac:(lia)). pose proof (H 2%nat ltac:(lia)).
  pose proof (H 3%nat ltac:(lia)). pose proof (H 4%nat ltac:(lia)). pose proof (H 5%nat ltac:(lia)).
  cbn in *. congruence.
Qed.

(* a slot changes only when the key is the slot's key *)
Lemma sf_update_other_slot cfg st k v i : (i < 6)%nat -> k <> skey cfg i -> slot i (sf_update cfg st k v) = slot i st.
Proof.
  intros Hi Hk. unfold sf_update.
  repeat match goal with
         | |- context [if beqb k ?b then _ else _] =>
             let E := fresh "E" in
             destruct (beqb k b) eqn:E;
             [apply beqb_eq in E;
              do 6 (destruct i as [|i]; [first [reflexivity | exfalso; apply Hk; exact E]|]); lia|]
         end.
  reflexivity.
Qed.

Lemma distinctb_NoDup l : distinctb l = true -> NoDup l.
Proof.
  induction l as [|k r IH]; [constructor|]. cbn [distinctb]. intro H. apply andb_true_iff in H as [H1 H2].
  constructor; [|apply IH; exact H2]. intro Hin. apply negb_true_iff in H1.
  assert (existsb (beqb k) r = true) by (apply existsb_exists; exists k; split; [exact Hin|apply beqb_refl]). congruence.
Qed.

Lemma NoDup_nth_neq {A} (l : list A) d i j : NoDup l -> (i < length l)%nat -> (j < length l)%nat -> i <> j -> nth i l d <> nth j l d.
Proof. intros Hn Hi Hj Hij E. apply Hij. exact (proj1 (NoDup_nth l d) Hn i j Hi Hj E). Qed.

(* the slot's own key sets it *)
Lemma sf_update_own_slot cfg st v i :
  NoDup (short_keys cfg) -> (i < 6)%nat -> slot i (sf_update cfg st (skey cfg i) v) = Some v.
Proof.
  intros Hn Hi.
  assert (D : forall j, (j < 6)%nat -> j <> i -> beqb (skey cfg i) (skey cfg j) = false).
  { intros j Hj Hij. apply beqb_neq_false. unfold skey. apply NoDup_nth_neq; [exact Hn|cbn; lia|cbn; lia|lia]. }
  unfold sf_update.
  do 6 (destruct i as [|i];
        [cbn [skey short_keys nth] in *;
         repeat match goal with
                | |- context [beqb ?a ?a] => rewrite (beqb_refl a)
                | |- context [if beqb ?a ?b then _ else _] =>
                    first [ rewrite (D 0%nat ltac:(lia) ltac:(lia)) | rewrite (D 1%nat ltac:(lia) ltac:(lia))
                          | rewrite (D 2%nat ltac:(lia) ltac:(lia)) | rewrite (D 3%nat ltac:(lia) ltac:(lia))
                          | rewrite (D 4%nat ltac:(lia) ltac:(lia)) | rewrite (D 5%nat ltac:(lia) ltac:(lia)) ]
                end; reflexivity|]).
  lia.
Qed.

(* without the early end: each slot is the first (only) value of its key *)
Lemma scan_nobreak_slot cfg i : NoDup (short_keys cfg) -> (i < 6)%nat -> forall fs st,
  NoDup (map fst fs) ->
  slot i (scan_nobreak cfg fs st) = match assoc (skey cfg i) fs with Some v => Some v | None => slot i st end.
Proof.
  intros Hn Hi. induction fs as [|[k v] r IH]; intros st Hnd; [reflexivity|].
  cbn [scan_nobreak assoc fst snd map] in *. inversion Hnd as [|? ? Hk Hr]; subst.
  rewrite (IH _ Hr). destruct (beqb (skey cfg i) k) eqn:E.
  - apply beqb_eq in E. subst k. rewrite (assoc_absent (skey cfg i) r).
    + apply sf_update_own_slot; assumption.
    + intros f Hf E. apply Hk. rewrite <- E. apply in_map. exact Hf.
  - rewrite sf_update_other_slot; [reflexivity|exact Hi|]. intro E2. subst k. rewrite beqb_refl in E. discriminate.
Qed.

Lemma scan_nobreak_lookup cfg fs :
  NoDup (short_keys cfg) -> NoDup (map fst fs) -> scan_nobreak cfg fs sf_empty = sf_lookup cfg fs.
Proof.
  intros Hn Hnd. apply sfound_ext. intros i Hi. rewrite (scan_nobreak_slot cfg i Hn Hi fs sf_empty Hnd).
  do 6 (destruct i as [|i]; [cbn; match goal with |- context [assoc ?k fs] => destruct (assoc k fs) end; reflexivity|]). lia.
Qed.

(* fields whose keys are none of the five needed ones leave those five slots alone *)
Lemma scan_nobreak_keeps cfg i : (i < 6)%nat -> forall fs st,
  ~ In (skey cfg i) (map fst fs) -> slot i (scan_nobreak cfg fs st) = slot i st.
Proof.
  intro Hi. induction fs as [|[k v] r IH]; intros st H; [reflexivity|].
  cbn [scan_nobreak fst snd map] in *. rewrite IH by (intro X; apply H; right; exact X).
  apply sf_update_other_slot; [exact Hi|]. intro E. apply H. left. exact E.
Qed.

(* the text after the timestamp does not see the _COMM slot once SYSLOG_IDENTIFIER is there *)
Lemma short_tail_comm_irrelevant a b :
  (forall i, (i < 6)%nat -> i <> 3%nat -> slot i a = slot i b) -> (exists x, sf_ident a = Some x) ->
  short_tail a = short_tail b.
Proof.
  intros H [x Hx].
  pose proof (H 0%nat ltac:(lia) ltac:(lia)) as H0. pose proof (H 1%nat ltac:(lia) ltac:(lia)) as H1.
  pose proof (H 2%nat ltac:(lia) ltac:(lia)) as H2. pose proof (H 4%nat ltac:(lia) ltac:(lia)) as H4.
  pose proof (H 5%nat ltac:(lia) ltac:(lia)) as H5. cbn [slot] in *.
  unfold short_tail. rewrite <- H0, <- H1, <- H2, <- H4, <- H5, Hx. reflexivity.
Qed.

Definition need_five (cfg : jcfg) : Prop := cfg_short_need cfg = [true; true; true; false; true; true].

(* every Some slot comes from a key that does not occur in the fields still to come *)
Definition settled (cfg : jcfg) (st : sfound) (fs : list field) : Prop :=
  forall i, (i < 6)%nat -> slot i st <> None -> ~ In (skey cfg i) (map fst fs).

Lemma scan_fields_tail cfg : NoDup (short_keys cfg) -> need_five cfg -> forall fs st,
  NoDup (map fst fs) -> settled cfg st fs ->
  short_tail (scan_fields cfg fs st) = short_tail (scan_nobreak cfg fs st).
Proof.
  intros Hn Hneed. induction fs as [|[k v] r IH]; intros st Hnd Hs; [reflexivity|].
  cbn [scan_fields scan_nobreak fst snd map] in *. inversion Hnd as [|? ? Hk Hr]; subst.
  set (st' := sf_update cfg st k v).
  assert (Hs' : settled cfg st' r).
  { intros i Hi Hsome Hin.
    destruct (beqb k (skey cfg i)) eqn:E.
    - apply beqb_eq in E. subst k. contradiction.
    - unfold st' in Hsome. rewrite sf_update_other_slot in Hsome; [|exact Hi|apply beqb_false_neq; exact E].
      apply (Hs i Hi Hsome). right. exact Hin. }
  destruct (sf_all cfg st') eqn:Hall; [|apply IH; assumption].
  (* early end: the five needed slots are settled, the rest of the fields can only fill _COMM *)
  unfold sf_all in Hall. rewrite Hneed in Hall. unfold sf_flags in Hall. cbn [need_met] in Hall.
  repeat (apply andb_true_iff in Hall; destruct Hall as [? Hall]).
  apply short_tail_comm_irrelevant.
  - intros i Hi Hne3. symmetry. apply scan_nobreak_keeps; [exact Hi|]. apply Hs'; [exact Hi|].
    do 6 (destruct i as [|i]; [cbn [slot]; try contradiction;
      match goal with X : is_some ?o = true |- ?o <> None => destruct o; [discriminate|discriminate X] end|]). lia.
  - destruct (sf_ident st') as [x|]; [exists x; reflexivity|discriminate].
Qed.

(* the short* text after the timestamp, as a function of six field values *)
Theorem short_tail_spec_l cfg e :
  cfg_ok cfg = true -> need_five cfg -> keys_wf (e_fields e) ->
  NoDup (map fst (firstn (cfg_emerg_short cfg) (e_fields e))) ->
  short_tail (short_found cfg e) = short_tail (sf_lookup cfg (firstn (cfg_emerg_short cfg) (e_fields e))).
Proof.
  intros Hok Hneed Hwf Hnd.
  assert (Hn : NoDup (short_keys cfg)).
  { apply distinctb_NoDup. unfold cfg_ok in Hok. do 6 (apply andb_true_iff in Hok as [Hok _]).
    apply andb_true_iff in Hok as [_ Hok]. exact Hok. }
  unfold short_found. rewrite raw_data_firstn, scan_short_fields by (apply keys_wf_firstn; exact Hwf).
  rewrite (scan_fields_tail cfg Hn Hneed _ sf_empty Hnd).
  - rewrite (scan_nobreak_lookup cfg _ Hn Hnd). reflexivity.
  - intros i Hi Hsome. exfalso. apply Hsome. do 6 (destruct i as [|i]; [reflexivity|]). lia.
Qed.
