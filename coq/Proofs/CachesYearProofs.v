(* Proofs/CachesYearProofs.v — the operations of the year-less path (SyslogProcessor::process_missing_year) on the
   cached reader: SyslineReader::clear_syslines and remove_sysline (Model/Caches.v c_clear_syslines, c_remove_sysline,
   c_year_loop, c_stream_year).

   Proved here, for EVERY oracle D (in particular the oracle of any one year, dated_y (Some y)):
     clear_rinv     after clear_syslines the reader satisfies the cache invariant of D, whatever oracle filled the
                    caches before (block-zero analysis dates with the filler year): only Line objects survive, and
                    they do not depend on the oracle; no range dangles
     remove_rinv    remove_sysline keeps the invariant and - unlike drop_sysline (finding W1) - removes the range with
                    the message: no range dangles, so the find_sysline_year that follows cannot panic
     year_call_ok   hence, as long as the year does not change, every find_sysline_year call of the reverse pass is
                    answered as the spec of that year's oracle says (backward calls included: every block readable)
   The invariant ACROSS a change of the year (messages dated with the later year stay in `syslines`) is proved in
   CachesYearParam.v / CachesYearDriver.v; what is still missing: Props/C02.v yearless_driver_partial. *)
From S4.Base Require Import Bytes Chunk.
From S4.Spec Require Import LinesSpec.
From S4.Model Require Import Lines Syslines Caches.
From S4.Proofs Require Import LinesProofs SyslinesProofs CachesProofs CachesSysProofs CachesRunProofs.
Open Scope N_scope.

Section YearOps.
  Variable dated : list N -> option Z.
  Variable bs : N.
  Variable f : file.
  Hypothesis Hbs : 0 < bs.

  Local Notation lr_inv := (lr_inv bs f).
  Local Notation sr_inv := (@sr_inv dated bs f lr_inv).
  Local Notation rinv := (@rinv dated bs f lr_inv).
  Local Notation is_group := (is_group dated f).

  Lemma clear_rinv st : lr_inv (s_lr st) ->
    rinv (c_clear_syslines st) /\ no_dangling (c_clear_syslines st) /\ s_lr (c_clear_syslines st) = s_lr st.
  Proof.
    intro L. unfold c_clear_syslines, sr_lru_disable, sr_lru_enable. destruct (s_on st); cbn.
    - split; [split; [split; cbn; intros; try discriminate; try contradiction; exact L|exact I]|].
      split; [intros a b v []|reflexivity].
    - split; [split; [split; cbn; intros; try discriminate; try contradiction; exact L|exact I]|].
      split; [intros a b v []|reflexivity].
  Qed.

  (* the range map after the exact range of the message at b was cut out: the ranges of the other messages *)
  Lemma cut_own_range st b g : sr_inv st -> is_group b g ->
    forall a' b' v, In (a', b', v) (range_cut b (b + glen g) (s_range st)) ->
    In (a', b', v) (s_range st) /\ v <> b.
  Proof.
    intros I G a' b' v IN.
    destruct (In_range_cut _ _ _ _ IN) as (s & e & v0 & INR & C).
    destruct (si_range _ _ _ _ I _ _ _ INR) as (g' & G' & -> & ->).
    destruct (is_group_pos dated f _ _ G) as (P & _). destruct (is_group_pos dated f _ _ G') as (P' & _).
    destruct (with_offsets_disjoint _ _ _ _ _ _ G G') as [E|[E|E]].
    - inversion E; subst. destruct C as [[_ C]|[_ C]]; lia.
    - destruct C as [[_ C]|[Q C]]; [lia|]. inversion Q; subst.
      replace (N.max v0 (b + glen g)) with v0 by lia. split; [exact INR|lia].
    - destruct C as [[Q C]|[_ C]]; [|lia]. inversion Q; subst.
      replace (N.min (v0 + glen g') b) with (v0 + glen g') by lia. split; [exact INR|lia].
  Qed.

  Lemma remove_rinv st fo : rinv st -> no_dangling st ->
    rinv (c_remove_sysline bs st fo) /\ no_dangling (c_remove_sysline bs st fo) /\
    s_lr (c_remove_sysline bs st fo) = s_lr st.
  Proof.
    intros [I AS] ND. unfold c_remove_sysline.
    assert (FIN : forall st2, s_lr st2 = s_lr st -> s_lru st2 = [] -> s_parse st2 = [] ->
              (forall k s, alookup k (s_syslines st2) = Some s -> alookup k (s_syslines st) = Some s) ->
              (forall a b v, In (a, b, v) (s_range st2) -> In (a, b, v) (s_range st) /\ alookup v (s_syslines st2) = alookup v (s_syslines st)) ->
              asc (s_syslines st2) ->
              rinv (if s_on st then sr_lru_enable st2 else st2) /\ no_dangling (if s_on st then sr_lru_enable st2 else st2) /\
              s_lr (if s_on st then sr_lru_enable st2 else st2) = s_lr st).
    { intros st2 LR LU PA SY RG AS2.
      assert (I2 : sr_inv st2).
      { split.
        - rewrite LR. apply (si_lr _ _ _ _ I).
        - intros k s X. apply (si_sys _ _ _ _ I k s). apply SY. exact X.
        - intros a b v X. apply (si_range _ _ _ _ I a b v). apply (RG a b v X).
        - rewrite LU. intros; discriminate.
        - rewrite PA. intros; discriminate. }
      assert (ND2 : no_dangling st2).
      { intros a b v X Y. destruct (RG a b v X) as [X' E]. rewrite E in Y. exact (ND a b v X' Y). }
      destruct (s_on st).
      - split; [split; [apply sr_lru_enable_inv; exact I2|exact AS2]|]. split; [exact ND2|exact LR].
      - split; [split; [exact I2|exact AS2]|]. split; [exact ND2|exact LR]. }
    cbn [sr_lru_disable s_syslines s_lr s_range s_lru s_on s_parse s_parse_on s_nid s_cnt].
    destruct (alookup fo (s_syslines st)) as [s|] eqn:LK.
    - destruct (si_sys _ _ _ _ I _ _ LK) as (g & G & OK).
      destruct (is_group_pos dated f _ _ G) as (P & _).
      destruct (ssl_ok_facts bs f Hbs _ _ _ OK P) as (BG & EN & _). rewrite BG, EN.
      replace (fo + glen g - 1 + 1) with (fo + glen g) by lia.
      apply FIN; cbn; auto.
      + intros k x X. eapply alookup_aremove_Some; eauto.
      + intros a b v X. destruct (cut_own_range st fo g I G a b v X) as [X' NE]. split; [exact X'|].
        rewrite alookup_aremove. destruct (N.eqb_spec v fo); [contradiction|reflexivity].
      + apply asc_aremove. exact AS.
    - apply FIN; cbn; auto.
  Qed.

  (* one find_sysline_year call of the reverse pass, the year's oracle being `dated` *)
  Lemma year_call_ok st fo st' r p : rinv st -> no_dangling st -> c_find_sysline dated bs f st fo = (st', r, p) ->
    rinv st' /\ no_dangling st' /\ r <> Panic /\ sres_ok dated bs f st fo r.
  Proof.
    intros RI ND C. destruct (find_step dated bs f Hbs _ _ _ _ _ RI C) as (RI' & R & _).
    destruct (find_step0 dated bs f Hbs _ _ _ _ _ RI ND C) as [NP ND']. auto.
  Qed.
End YearOps.

(* the statements in the order Props/C02.v uses *)
Theorem yearless_ops_keep_invariant dated bs (f : file) st fo : 0 < bs ->
  (lr_inv bs f (s_lr st) ->
     @rinv dated bs f (lr_inv bs f) (c_clear_syslines st) /\ no_dangling (c_clear_syslines st)) /\
  (@rinv dated bs f (lr_inv bs f) st -> no_dangling st ->
     @rinv dated bs f (lr_inv bs f) (c_remove_sysline bs st fo) /\ no_dangling (c_remove_sysline bs st fo)) /\
  (forall st' r p, @rinv dated bs f (lr_inv bs f) st -> no_dangling st -> c_find_sysline dated bs f st fo = (st', r, p) ->
     @rinv dated bs f (lr_inv bs f) st' /\ no_dangling st' /\ r <> Panic /\ sres_ok dated bs f st fo r).
Proof.
  intro H. split; [|split].
  - intro L. destruct (clear_rinv dated bs f st L) as (A & B & _). auto.
  - intros RI ND. destruct (remove_rinv dated bs f H st fo RI ND) as (A & B & _). auto.
  - intros st' r p RI ND C. exact (year_call_ok dated bs f H st fo st' r p RI ND C).
Qed.

(* the year-less driver on a log whose messages all lie in the year of the modification time, read by the toy oracle
   "a line that begins with '2' is dated; the year is added to the instant": evaluated *)
Definition dy2 : option Z -> list N -> option Z :=
  fun y l => match l with 50 :: c :: _ => Some (match y with Some v => v * 1000 | None => 0 end + Z.of_N c)%Z | _ => None end.
Definition fyl : file := [50; 97; 10; 50; 98; 10; 120; 10; 50; 99; 10].       (* "2a\n2b\nx\n2c\n" *)
Example yearless_driver_example :
  let r := c_stream_year dy2 3 fyl 50 7 None None [true] (sr_init_b (b_init true)) in
  option_map (map (fun s => (ss_dt s, ss_begin 3 s))) (match snd r with Found l => Some l | _ => None end) =
  Some [(7097%Z, Some 0); (7098%Z, Some 3); (7099%Z, Some 8)] /\
  b_drop (l_blk (s_lr (fst r))) = false.
Proof. vm_compute. split; reflexivity. Qed.

(* ... and with a jump of more than tol back in time going up (the first message is "later" than the second in the same
   year): the first message gets the year before *)
Definition fyj : file := [50; 122; 10; 50; 98; 10].                           (* "2z\n2b\n" *)
Example yearless_driver_year_change :
  option_map (map ss_dt) (match snd (c_stream_year dy2 2 fyj 10 7 None None [] (sr_init_b (b_init false))) with Found l => Some l | _ => None end) =
  Some [6122%Z; 7098%Z].
Proof. vm_compute. reflexivity. Qed.
