(* Proofs/CachesGateProofs.v — the caches that block-zero analysis leaves behind.

   SyslogProcessor::blockzero_analysis calls find_line_in_block from offset 0 and then at each
   returned offset, then find_sysline_in_block in the same way, on the reader that stages 2 and 3
   use afterwards.  find_sysline_in_block is NOT safe in general (CachesExamples W2, W3); in this
   pattern it is: every line it meets has its predecessor stored, every offset it is called at
   is 0 or the begin of a message.  Theorem gate_then_refines: after the gate pattern the
   invariant of CachesSysProofs holds, so every later answer is the spec answer
   (c_run_nodrop, c_stream_ok apply to the state it leaves). *)
From S4.Base Require Import Bytes Chunk.
From S4.Spec Require Import LinesSpec.
From S4.Model Require Import Lines Syslines Caches.
From S4.Proofs Require Import LinesProofs SyslinesProofs CachesProofs CachesSysProofs CachesRunProofs.
Open Scope N_scope.

Lemma rfind_nl_last (l : list N) k : nthN l k = Some NL -> rfind_nl (firstnN (k + 1) l) = Some k.
Proof.
  intro A. destruct (rfind_nl (firstnN (k + 1) l)) as [i|] eqn:R.
  - apply rfind_nl_Some in R as [B C].
    assert (I : i < k + 1). { apply nthN_Some_lt in B. rewrite lenN_firstnN in B. lia. }
    destruct (N.eq_dec i k) as [->|NE]; [reflexivity|exfalso].
    apply (C k ltac:(lia)). rewrite nthN_firstnN. destruct (N.ltb_spec k (k + 1)); [exact A|lia].
  - exfalso. apply (rfind_nl_None _ R k). rewrite nthN_firstnN. destruct (N.ltb_spec k (k + 1)); [exact A|lia].
Qed.

Section GateSpec.
  Variable dated : list N -> option Z.
  Variable f : file.

  Local Notation is_group := (is_group dated f).

  Lemma loop_b_head bs fo1 ln : 0 < bs -> fo1 = lenN f \/ (fo1 < lenN f /\ line_beg f fo1 = fo1) ->
    exists n rest, loop_b dated (2 * length f + 3) bs f fo1 [ln] = Found (n, ln :: rest).
  Proof.
    intros Hbs H. destruct (split_at_begin f fo1 H) as (before & after & E & <-).
    pose proof (lines_wf f) as W. pose proof (lines_concat f) as CF.
    pose proof (loop_b_ok dated bs Hbs after before (2 * length f + 3) [ln]) as LB.
    rewrite <- E in LB. specialize (LB W).
    assert (FU : (length after < 2 * length f + 3)%nat).
    { pose proof (wf_lines_len _ W) as X. rewrite CF in X. rewrite E, app_length in X. lia. }
    specialize (LB FU). cbv zeta in LB. rewrite CF in LB. destruct LB as (lns & R & _).
    eexists _, lns. exact R.
  Qed.

  (* a dated line opens a message *)
  Lemma dated_line_is_group x t : x < lenN f -> line_beg f x = x ->
    dated (slice f x (line_end f x + 1)) = Some t -> exists g, is_group x g.
  Proof.
    intros L LB D.
    assert (H1 : 0 < 1) by lia.
    destruct (find_line_correct 1 f x H1 L) as (ps & R & _ & BY & BG & EN). rewrite LB in *.
    pose proof (find_sysline_correct dated 1 f x H1) as PURE.
    unfold find_sysline_m, find_sysline_fuel in PURE.
    replace (2 * length f + 3)%nat with (S (2 * length f + 2)) in PURE at 1 by lia.
    cbn [loop_a] in PURE. rewrite R, BY, D, EN in PURE.
    destruct (span_of f x L) as (SP & _ & _). rewrite LB in SP.
    destruct (loop_b_head 1 (line_end f x + 1) ps H1) as (n & rest & LBH).
    { pose proof SP as (_ & EL & _).
      destruct (N.eq_dec (line_end f x + 1) (lenN f)) as [Q|Q]; [left; exact Q|right].
      split; [lia|]. apply (span_next_beg f x _ SP). lia. }
    rewrite LBH in PURE. cbn [obs_find_sysline sysline_fo_begin snd] in PURE. rewrite BG in PURE.
    symmetry in PURE. destruct (spec_In dated f _ _ _ _ PURE) as (G & _). eexists. exact G.
  Qed.

  (* inside a message no line is dated *)
  Lemma group_inside b g x : is_group b g -> b < x -> x < b + glen g -> line_beg f x = x ->
    dated (slice f x (line_end f x + 1)) = None.
  Proof.
    intros G L1 L2 LB. destruct (dated (slice f x (line_end f x + 1))) as [t|] eqn:D; [exfalso|reflexivity].
    destruct (is_group_pos dated f _ _ G) as (_ & LE & _).
    destruct (dated_line_is_group x t ltac:(lia) LB D) as (g' & G').
    destruct (is_group_pos dated f _ _ G') as (P' & _).
    destruct (is_group_overlap dated f _ _ _ _ x G G' ltac:(lia) L2 ltac:(lia) ltac:(lia)) as [E _]. lia.
  Qed.

  (* the answer of the spec for an offset from which only undated lines precede the message at hb *)
  Lemma spec_first_after fo hb g : is_group hb g -> fo <= hb ->
    (forall b' g', is_group b' g' -> b' < hb -> b' + glen g' <= fo) ->
    spec_find_sysline dated f fo = Some (hb + glen g, hb, g).
  Proof.
    intros G L PRE. unfold spec_find_sysline.
    destruct (is_group_pos dated f _ _ G) as (P & _).
    destruct (pick_group fo (syslines_at dated f)) as [[[n b] g']|] eqn:PG.
    - destruct (pick_group_In _ _ _ _ _ PG) as (G' & -> & LT).
      destruct (N.lt_trichotomy b hb) as [C|[C|C]].
      + specialize (PRE _ _ G' C). lia.
      + subst b. rewrite (is_group_unique dated f _ _ _ G' G). reflexivity.
      + exfalso. (* the group at hb comes first in the list and already satisfies fo < end *)
        unfold is_group, syslines_at in G, G'. revert PG G G' C. unfold syslines_at.
        generalize (first_dated_offset dated f). generalize (syslines dated f).
        intro gs; induction gs as [|y gs IH]; intros o PG G G' C; [contradiction|].
        cbn [with_offsets pick_group] in *.
        destruct (N.ltb_spec fo (o + lenN (group_bytes y))) as [Q|Q].
        * inversion PG; subst. destruct G as [G|G]; [inversion G; lia|].
          apply with_offsets_ge in G. unfold glen in *. lia.
        * destruct G as [G|G]; [inversion G; subst; unfold glen in *; lia|].
          destruct G' as [G'|G']; [inversion G'; subst; apply with_offsets_ge in G; unfold glen in *; lia|].
          eapply IH; eauto.
    - exfalso. pose proof (pick_group_None_ge fo _ _ PG _ _ G). lia.
  Qed.
End GateSpec.

(* ================================================================ LineReader: the sequential pattern *)

Section GateLines.
  Variable bs : N.
  Variable f : file.
  Hypothesis Hbs : 0 < bs.

  Local Notation lr_inv0 := (lr_inv0 bs f).
  Local Notation lr_inv := (lr_inv bs f).
  Local Notation sline_ok := (sline_ok bs f).

  Definition stored_at (l : lr_state) (b : N) : Prop := alookup b (l_lines l) <> None.

  (* the line that ends right before fo is known to the reader (or fo is the first byte) *)
  Definition pred_stored (l : lr_state) (fo : N) : Prop :=
    fo = 0 \/ alookup (fo - 1) (l_lines l) <> None \/ lr_get_linep l (fo - 1) <> None.

  (* every offset under which the LRU cache holds a line is the begin of a stored line (the requests of
     the sequential pattern are at line begins; drop_line pops the key whose line it removes) *)
  Definition lru_stored (l : lr_state) : Prop :=
    forall k n s, alookup k (l_lru l) = Some (LF n s) -> stored_at l k.

  Lemma lru_stored_init_b b : lru_stored (lr_init_b b).
  Proof. intros k n s H. discriminate. Qed.
  Lemma lru_stored_init stream : lru_stored (lr_init_k stream).
  Proof. apply lru_stored_init_b. Qed.

  Lemma lru_stored_same l l' : l_lines l' = l_lines l ->
    (forall k r, alookup k (l_lru l') = Some r -> alookup k (l_lru l) = Some r) -> lru_stored l -> lru_stored l'.
  Proof. intros A B S k n s X. unfold stored_at. rewrite A. apply (S k n s). apply B. exact X. Qed.

  Lemma lru_stored_put l fo n s : lru_stored l -> stored_at l fo ->
    lru_stored (lr_put l fo (LF n s)) /\ l_lines (lr_put l fo (LF n s)) = l_lines l /\
    l_foend (lr_put l fo (LF n s)) = l_foend l.
  Proof.
    intros S ST. unfold lr_put. destruct (l_on l); [|auto]. split; [|split; reflexivity].
    intros k n' s' X. change (alookup k (lru_put LINE_LRU_CAP fo (LF n s) (l_lru l)) = Some (LF n' s')) in X.
    apply lru_put_lookup in X as [[-> E]|[_ X]].
    - exact ST.
    - exact (S _ _ _ X).
  Qed.

  Lemma check_lru_seq l fo l' o : lru_stored l -> lr_check_lru l fo = (l', o) ->
    lru_stored l' /\ l_lines l' = l_lines l /\ l_foend l' = l_foend l /\
    match o with Some (LF n s) => stored_at l fo | _ => True end.
  Proof.
    intros S. unfold lr_check_lru. destruct (l_on l).
    - destruct (lru_get fo (l_lru l)) as [[r|] c] eqn:G; intro H; injection H as <- <-.
      + apply lru_get_Some in G as [A B]. split; [|split; [reflexivity|split; [reflexivity|]]].
        * apply (lru_stored_same l); [reflexivity| |exact S]. intros k r0 X. apply B. exact X.
        * destruct r as [n s|]; [|exact I]. exact (S _ _ _ A).
      + split; [apply (lru_stored_same l); auto|]. auto.
    - intro H; injection H as <- <-. auto.
  Qed.

  Lemma insert_line_seq l ps b e : lr_inv0 l -> lru_stored l -> line_ok bs f ps b e ->
    exists l', lr_insert_line bs l ps = Some (l', (l_nid l, ps)) /\ lr_inv0 l' /\ lru_stored l' /\
      (forall x, stored_at l x -> stored_at l' x) /\ stored_at l' b /\ l_on l' = l_on l /\
      (forall x, stored_at l' x -> stored_at l x \/ x = b) /\ l_blk l' = l_blk l.
  Proof.
    intros I S OK. destruct (lr_insert_line_ok0 bs f l ps b e I OK) as (l' & E & I' & ON & LR).
    exists l'. split; [exact E|]. split; [exact I'|].
    unfold lr_insert_line in E. destruct (line_ok_facts bs f _ _ _ OK) as (LB & LE & _). rewrite LB, LE in E.
    injection E as <-. cbn [l_lines l_lru] in *.
    assert (MONO : forall x, stored_at l x -> stored_at (mkLR (ainsert b (l_nid l, ps) (l_lines l)) (ainsert e b (l_foend l)) (l_lru l) (l_on l) (l_nid l + 1) (lc_inserted (lenN (ainsert b (l_nid l, ps) (l_lines l))) (l_cnt l)) (l_blk l) (l_ext l)) x).
    { intros x X. unfold stored_at in *. cbn. rewrite alookup_ainsert. destruct (x =? b); [discriminate|exact X]. }
    split; [|split; [exact MONO|split; [|split; [reflexivity|split; [|reflexivity]]]]].
    - intros k n s X. cbn in X. apply MONO. exact (S _ _ _ X).
    - unfold stored_at. cbn. rewrite alookup_ainsert, N.eqb_refl. discriminate.
    - intros x. unfold stored_at. cbn. rewrite alookup_ainsert. destruct (N.eqb_spec x b); [right; assumption|left; assumption].
  Qed.

  Lemma store_found_seq l fo n ps p l' r p' e : lr_inv0 l -> lru_stored l -> line_ok bs f ps fo e ->
    lr_store_found bs l fo n ps p = (l', r, p') ->
    lru_stored l' /\ (forall x, stored_at l x -> stored_at l' x) /\ stored_at l' fo /\ (exists s, r = Found (n, s)) /\
    (forall x, stored_at l' x -> stored_at l x \/ x = fo) /\ l_blk l' = l_blk l.
  Proof.
    intros I S OK. unfold lr_store_found.
    destruct (insert_line_seq l ps fo e I S OK) as (l1 & E & I1 & S1 & MONO & ST & _ & FR & BK). rewrite E.
    intro H; injection H as <- <- <-.
    destruct (lru_stored_put l1 fo n (l_nid l, ps) S1 ST) as (S2 & L2 & _).
    split; [exact S2|]. unfold stored_at in *. rewrite L2. split; [exact MONO|]. split; [exact ST|]. split; [eauto|].
    split; [exact FR|]. rewrite blk_put. exact BK.
  Qed.

  Lemma answer_seq l fo s p l' r p' : lru_stored l -> stored_at l fo ->
    lr_answer l fo bs s p = (l', r, p') ->
    lru_stored l' /\ l_lines l' = l_lines l /\ l_foend l' = l_foend l.
  Proof.
    intros S ST. unfold lr_answer. destruct (line_fo_end bs (sl_parts s)) as [e|].
    - intro H; injection H as <- <- <-. apply (lru_stored_put l fo (e + 1) s); assumption.
    - intro H; injection H as <- <- <-. auto.
  Qed.

  Lemma cnt_seq g l : lru_stored l -> lru_stored (lr_cnt g l).
  Proof. apply lru_stored_same; auto. Qed.

  (* a stored line makes its successor's predecessor known *)
  Lemma stored_pred l b e : lr_inv0 l -> stored_at l b -> span f b e -> pred_stored l (e + 1).
  Proof.
    intros I ST SP. unfold stored_at in ST. destruct (alookup b (l_lines l)) as [s|] eqn:LK; [|congruence].
    right. replace (e + 1 - 1) with e by lia.
    destruct (get_linep_complete0 bs f Hbs l e b e s I LK SP ltac:(destruct SP; lia) ltac:(lia)); auto.
  Qed.

  (* ---------------------------------------------------------------- what a call does to the BlockReader
     and to the set of stored lines (whatever the answer) *)

  (* reading block bo succeeds from the block state of l (whatever the reference counts) *)
  Definition reads_ok (l : lr_state) (bo : N) : Prop :=
    forall l2 ip, l_blk l2 = l_blk l -> snd (lr_read bs f l2 ip bo) = BFound.

  Lemma store_found_frame st fo n ps p st' r p' : lr_store_found bs st fo n ps p = (st', r, p') ->
    forall y, stored_at st' y -> stored_at st y \/ (line_fo_begin bs ps = Some y /\ exists s, r = Found (n, s)).
  Proof.
    unfold lr_store_found, lr_insert_line.
    destruct (line_fo_begin bs ps) as [b|]; [destruct (line_fo_end bs ps) as [e|]|]; intro H; injection H as <- <- _; try (intros y Y; left; exact Y).
    intros y. unfold stored_at. unfold lr_put. destruct (l_on _); cbn; rewrite alookup_ainsert;
      (destruct (N.eqb_spec y b); [intros _; right; split; [congruence|eauto]|intro Y; left; exact Y]).
  Qed.

  Lemma mid_begin fo e : line_fo_begin bs [(block_offset_at_file_offset fo bs, block_index_at_file_offset fo bs, e)] = Some fo.
  Proof.
    unfold line_fo_begin, part_fo, part_bo, part_beg, file_offset_at_block_offset_index, file_offset_at_block_offset. cbn [fst snd].
    destruct (div_mod_bs fo bs Hbs) as [EQ _]. unfold block_offset_at_file_offset. f_equal. lia.
  Qed.

  Lemma c_flib_core_frame st fo st' x p : c_flib_core bs f st fo = (st', x, p) ->
    forall y, stored_at st' y -> stored_at st y \/ (y = fo /\ exists n s, fst x = Found (n, s)).
  Proof.
    unfold c_flib_core. cbv zeta.
    repeat match goal with
    | |- context [lr_store_found ?a ?b ?c ?d ?e ?g] => destruct (lr_store_found a b c d e g) as [[? ?] ?] eqn:?SF
    | |- context [lr_fresh_line ?a ?b] => destruct (lr_fresh_line a b) as [? ?] eqn:?FL
    | |- context [if ?X then _ else _] => destruct X eqn:?
    | |- context [match ?X with _ => _ end] => destruct X eqn:?
    end;
    intro H; injection H as <- <- _;
    try (match goal with FL : lr_fresh_line _ _ = _ |- _ => unfold lr_fresh_line in FL; injection FL as <- _ end);
    try (intros y Y; left; exact Y);
    match goal with SF : lr_store_found _ _ _ _ _ _ = _ |- _ =>
      intros y Y; destruct (store_found_frame _ _ _ _ _ _ _ _ SF y Y) as [Q|[Q (s0 & ->)]]; [left; exact Q|right] end.
    all: try (match goal with E : (?z =? 0) = true |- _ => apply N.eqb_eq in E; subst z end).
    all: rewrite mid_begin in Q; split; [congruence|cbn [fst]; eauto].
  Qed.

  Lemma lb_blk_frame l fo l' x p : c_find_line_in_block bs f l fo = (l', x, p) ->
    (forall y, stored_at l' y -> stored_at l y \/ (y = fo /\ exists n s, fst x = Found (n, s))) /\
    (l_blk l' = l_blk l /\ l_lines l' = l_lines l \/
     (~ stored_at l fo /\ exists l2 ip, l_blk l2 = l_blk l /\
        l_blk l' = l_blk (fst (lr_read bs f l2 ip (block_offset_at_file_offset fo bs))))).
  Proof.
    assert (SAME : forall l'', l_blk l'' = l_blk l -> l_lines l'' = l_lines l ->
      (forall y, stored_at l'' y -> stored_at l y \/ (y = fo /\ exists n s, fst x = Found (n, s))) /\
      (l_blk l'' = l_blk l /\ l_lines l'' = l_lines l \/
       (~ stored_at l fo /\ exists l2 ip, l_blk l2 = l_blk l /\
          l_blk l'' = l_blk (fst (lr_read bs f l2 ip (block_offset_at_file_offset fo bs)))))).
    { intros l'' B LL. split; [|left; split; assumption]. intros z Z. left. unfold stored_at in *. rewrite <- LL. exact Z. }
    assert (ANS : forall l1 s pp l2 r2 p2, lr_answer l1 fo bs s pp = (l2, r2, p2) -> l_lines l2 = l_lines l1).
    { intros l1 s pp l2 r2 p2. unfold lr_answer. destruct (line_fo_end bs (sl_parts s)); intro Q; injection Q as <- _ _; [|reflexivity].
      unfold lr_put. destruct (l_on l1); reflexivity. }
    unfold c_find_line_in_block.
    destruct (lr_check_lru l fo) as [l1 [y|]] eqn:CL.
    - pose proof (blk_check_lru _ _ _ _ CL) as B1. intro H; injection H as <- _ _.
      apply SAME; [exact B1|]. revert CL. unfold lr_check_lru.
      destruct (l_on l); [|discriminate].
      destruct (lru_get fo (l_lru l)) as [[w|] c]; [|discriminate]. intro Q; injection Q as <- _. reflexivity.
    - pose proof (blk_check_lru _ _ _ _ CL) as B1.
      assert (L1 : l_lines l1 = l_lines l).
      { revert CL. unfold lr_check_lru. destruct (l_on l); [|intro Q; injection Q as <-; reflexivity].
        destruct (lru_get fo (l_lru l)) as [[w|] c]; [discriminate|]. intro Q; injection Q as <-. reflexivity. }
      destruct ((lenN f =? 0) || (lenN f <? fo) || (fo =? lenN f)).
      { intro H; injection H as <- _ _. apply SAME; assumption. }
      unfold lr_check_store.
      destruct (alookup fo (l_lines l1)) as [s|] eqn:LK.
      { destruct (lr_answer _ _ _ _ _) as [[l2 r2] p2] eqn:AN. intro H; injection H as <- _ _.
        apply SAME; [rewrite (blk_answer _ _ _ _ _ _ _ _ AN); exact B1|rewrite (ANS _ _ _ _ _ _ AN); exact L1]. }
      destruct (lr_get_linep (lr_cnt lc_miss_up l1) fo) as [s|] eqn:GL.
      { destruct (lr_answer _ _ _ _ _) as [[l2 r2] p2] eqn:AN. intro H; injection H as <- _ _.
        apply SAME; [rewrite (blk_answer _ _ _ _ _ _ _ _ AN); exact B1|rewrite (ANS _ _ _ _ _ _ AN); exact L1]. }
      assert (NS : ~ stored_at l fo) by (unfold stored_at; rewrite <- L1, LK; intro Q; apply Q; reflexivity).
      set (l2 := lr_cnt lc_miss_up l1).
      destruct (lr_read bs f l2 (fun _ => false) (block_offset_at_file_offset fo bs)) as [l3 rr] eqn:RD.
      destruct (lr_read_ok bs f _ _ _ _ _ RD) as ((SA & _) & _).
      assert (BK : exists l2' ip, l_blk l2' = l_blk l /\ l_blk l3 = l_blk (fst (lr_read bs f l2' ip (block_offset_at_file_offset fo bs)))).
      { exists l2, (fun _ => false). split; [exact B1|]. rewrite RD. reflexivity. }
      destruct rr.
      + intro H. split.
        * intros z Z. destruct (c_flib_core_frame _ _ _ _ _ H z Z) as [Q|Q]; [left|right; exact Q].
          unfold stored_at in *. rewrite SA in Q. cbn in Q. rewrite L1 in Q. exact Q.
        * right. split; [exact NS|]. rewrite (c_flib_core_blk bs f _ _ _ _ _ H). exact BK.
      + intro H; injection H as <- _ _. split; [|right; split; [exact NS|exact BK]].
        intros z Z. left. unfold stored_at in *. rewrite SA in Z. cbn in Z. rewrite L1 in Z. exact Z.
      + intro H; injection H as <- _ _. split; [|right; split; [exact NS|exact BK]].
        intros z Z. left. unfold stored_at in *. rewrite SA in Z. cbn in Z. rewrite L1 in Z. exact Z.
      + intro H; injection H as <- _ _. split; [|right; split; [exact NS|exact BK]].
        intros z Z. left. unfold stored_at in *. rewrite SA in Z. cbn in Z. rewrite L1 in Z. exact Z.
  Qed.

  (* find_line_in_block at the begin of a line whose predecessor is known: the line is found AND
     stored, or it does not end inside the block (Done; the partial line is its first byte) *)
  Theorem lb_seq_main l fo l' r part p : lr_inv0 l -> lru_stored l -> fo < lenN f -> line_beg f fo = fo ->
    pred_stored l fo -> (~ stored_at l fo -> reads_ok l (block_offset_at_file_offset fo bs)) ->
    c_find_line_in_block bs f l fo = (l', (r, part), p) ->
    lr_inv0 l' /\ lru_stored l' /\ (forall x, stored_at l x -> stored_at l' x) /\
    ((exists s, r = Found (line_end f fo + 1, s) /\ sline_ok s fo (line_end f fo) /\ stored_at l' fo) \/
     (r = Done /\ fo + 1 < lenN f /\
      match part with
      | None => True
      | Some s => bytes_of bs f (sl_parts s) = slice f fo (fo + 1) /\ line_fo_begin bs (sl_parts s) = Some fo
      end)).
  Proof.
    intros I SS L LB PS RD0 H.
    destruct (c_find_line_in_block_ok0 bs f Hbs _ _ _ _ _ _ I H) as (I' & R & _).
    split; [exact I'|].
    assert (SHAPE : forall n s, r = Found (n, s) -> n = line_end f fo + 1 /\ sline_ok s fo (line_end f fo)).
    { intros n s ->. destruct R as [R|[[R _]|[R _]]]; [|discriminate R|discriminate R].
      cbn in R. unfold lres_ok in R. destruct (N.ltb_spec fo (lenN f)); [|lia].
      destruct R as (s' & E & OK). inversion E; subst. rewrite LB in OK. auto. }
    revert H. unfold c_find_line_in_block.
    destruct (lr_check_lru l fo) as [l1 [x|]] eqn:CL.
    { (* LRU hit *)
      destruct (check_lru_seq _ _ _ _ SS CL) as (S1 & L1 & _ & X).
      destruct (lr_check_lru_ok0 bs f _ _ _ _ I CL) as [_ EO].
      intro H; injection H as <- <- <- <-. split; [exact S1|]. split; [unfold stored_at; rewrite L1; auto|].
      destruct x as [n s|]; [|destruct EO]. left. destruct (SHAPE n s eq_refl) as [-> OK].
      exists s. split; [reflexivity|]. split; [exact OK|].
      unfold stored_at in *. rewrite L1. exact X. }
    destruct (check_lru_seq _ _ _ _ SS CL) as (S1 & L1 & E1 & _).
    destruct (lr_check_lru_ok0 bs f _ _ _ _ I CL) as [I1 _]. pose proof (blk_check_lru _ _ _ _ CL) as BK1.
    destruct (N.eqb_spec (lenN f) 0) as [Z|Z]; [lia|]. cbn [orb].
    destruct (N.ltb_spec (lenN f) fo) as [Z2|Z2]; [lia|]. cbn [orb].
    destruct (N.eqb_spec fo (lenN f)) as [Z3|Z3]; [lia|].
    assert (MONO1 : forall x, stored_at l x -> stored_at l1 x) by (unfold stored_at; rewrite L1; auto).
    unfold lr_check_store.
    destruct (alookup fo (l_lines l1)) as [s|] eqn:LK.
    { (* lines hit *)
      destruct (lr_answer _ _ _ _ _) as [[l2 r2] p2] eqn:AN.
      destruct (li0_lines bs f _ I1 _ _ LK) as (e & OK). destruct (line_ok_facts bs f _ _ _ OK) as (B & _).
      assert (STq : stored_at (lr_cnt lc_hits_up l1) fo) by (unfold stored_at; cbn; congruence).
      destruct (answer_seq _ _ _ _ _ _ _ (cnt_seq _ _ S1) STq AN) as (S2 & L2 & _).
      cbn in L2. intro H; injection H as <- <- <- <-.
      split; [exact S2|]. split; [unfold stored_at in *; rewrite L2; auto|].
      unfold lr_answer in AN. destruct (line_ok_facts bs f _ _ _ OK) as (_ & EN & _). unfold sl_parts in *. rewrite EN in AN.
      injection AN as <- <- <-.
      assert (ST2 : stored_at (lr_put (lr_cnt lc_hits_up l1) fo (LF (e + 1) s)) fo) by (unfold stored_at; rewrite L2; congruence).
      left. destruct (SHAPE _ _ eq_refl) as [EQ' OK']. exists s. rewrite <- EQ'. split; [reflexivity|]. split; [exact OK'|exact ST2]. }
    destruct (lr_get_linep (lr_cnt lc_miss_up l1) fo) as [s|] eqn:GL.
    { (* by-end hit *)
      destruct (lr_answer _ _ _ _ _) as [[l2 r2] p2] eqn:AN.
      destruct (get_linep_sound0 bs f _ _ _ (lr_inv0_cnt bs f _ _ I1) GL) as (b & e & OK & B1 & B2 & LKB & _).
      destruct (line_ok_facts bs f _ _ _ OK) as (B & EN & _).
      assert (b = fo).
      { destruct OK as [SP _]. destruct (span_in f b e fo SP B1 B2) as [X _]. congruence. }
      subst b.
      assert (STq : stored_at (lr_cnt lc_miss_up l1) fo) by (unfold stored_at; cbn in *; congruence).
      destruct (answer_seq _ _ _ _ _ _ _ (cnt_seq _ _ S1) STq AN) as (S2 & L2 & _).
      cbn in L2. intro H; injection H as <- <- <- <-.
      split; [exact S2|]. split; [unfold stored_at in *; rewrite L2; auto|].
      unfold lr_answer in AN. unfold sl_parts in *. rewrite EN in AN. injection AN as <- <- <-.
      assert (ST2 : stored_at (lr_put (lr_cnt lc_miss_up l1) fo (LF (e + 1) s)) fo) by (unfold stored_at; rewrite L2; cbn in LKB; congruence).
      left. destruct (SHAPE _ _ eq_refl) as [EQ' OK']. exists s. rewrite <- EQ'. split; [reflexivity|]. split; [exact OK'|exact ST2]. }
    (* miss: read the block of the offset (hypothesis: it can be read), then search inside it *)
    set (l2 := lr_cnt lc_miss_up l1) in *.
    assert (I2 : lr_inv0 l2) by (apply lr_inv0_cnt; exact I1).
    assert (NS : ~ stored_at l fo) by (unfold stored_at; rewrite <- L1, LK; intro Q; apply Q; reflexivity).
    destruct (lr_read bs f l2 (fun _ => false) (block_offset_at_file_offset fo bs)) as [l3 rr] eqn:RD.
    destruct (lr_read_ok bs f _ _ _ _ _ RD) as (SM & _).
    pose proof (RD0 NS l2 (fun _ => false) BK1) as RR. rewrite RD in RR. cbn [snd] in RR. subst rr.
    assert (I3 : lr_inv0 l3) by (eapply same_maps_inv; [exact SM|exact I2]).
    destruct SM as (SA & SB & SC & _).
    assert (S3 : lru_stored l3).
    { apply (lru_stored_same l2); [exact SA|intros k r0 X; rewrite SC in X; exact X|apply cnt_seq; exact S1]. }
    assert (MONO3 : forall x, stored_at l x -> stored_at l3 x) by (unfold stored_at in *; rewrite SA; cbn; exact MONO1).
    assert (PS3 : fo <> 0 -> alookup (fo - 1) (l_lines l3) <> None \/ lr_get_linep l3 (fo - 1) <> None).
    { intro NZ. destruct PS as [PS|[PS|PS]]; [contradiction|left|right].
      - rewrite SA. cbn. rewrite L1. exact PS.
      - unfold lr_get_linep in *. rewrite SA, SB. cbn. rewrite L1, E1. exact PS. }
    unfold c_flib_core.
    destruct (fwd_search_ok bs f fo (S (length f)) Hbs L (fuel_ok bs f Hbs ltac:(lia)))
      as (e & after & bme & FW & E & B1 & B2 & _ & MID & CASES & NOAFTER).
    cbv zeta in *.
    set (bo := block_offset_at_file_offset fo bs) in *.
    set (bi := block_index_at_file_offset fo bs) in *.
    destruct (nthN (block bs f bo) bi) as [x0|] eqn:X0.
    2:{ exfalso. unfold fwd_search in FW. fold bo bi in FW. rewrite X0 in FW. discriminate. }
    assert (LE : e = line_end f fo) by (symmetry; apply line_end_char; exact E).
    destruct (div_mod_bs fo bs Hbs) as [EQ BI]. fold bi in BI. change (fo / bs) with bo in EQ. fold bi in EQ.
    destruct CASES as [(d & FN & BM)|[(FN & BL & BM)|(FN & BL & BM)]]; rewrite FN.
    3:{ (* partial line *)
      destruct (N.eqb_spec bo (blockoffset_last (lenN f) bs)); [contradiction|].
      assert (LONG : fo + 1 < lenN f).
      { assert (BLT : bo < blockoffset_last (lenN f) bs).
        { pose proof (blockoffset_last_ge (lenN f) bs fo Hbs L) as Q. change (fo / bs) with bo in Q. lia. }
        assert (FB : lenN (block bs f bo) = bs).
        { apply lenN_block_not_last; [exact Hbs|lia|exact BLT]. }
        destruct E as (E1' & E2' & NN & _).
        (* the line does not end inside this block: e >= (bo+1)*bs > fo *)
        assert (bo * bs + bs <= e).
        { destruct (N.lt_ge_cases e (bo * bs + bs)) as [Q|Q]; [exfalso|exact Q].
          pose proof (find_nl_None _ FN (e - fo)) as NONL. rewrite nthN_skipnN in NONL.
          rewrite byte_at_block in NONL by lia. replace (bo * bs + (bi + (e - fo))) with e in NONL by lia.
          destruct (line_end_is_end f fo L) as (_ & _ & _ & [X|X]); rewrite <- LE in X; [contradiction|].
          pose proof (last_mul_lt bs f Hbs ltac:(lia)) as LM.
          pose proof (mul_lt_bs _ _ bs BLT). lia. }
        lia. }
      destruct (N.eqb_spec fo 0) as [Z0|Z0].
      - destruct (lr_fresh_line l3 _) as [l5 s5] eqn:FL.
        destruct (lr_fresh_line_inv0 bs f _ _ _ _ I3 FL) as [_ ->].
        unfold lr_fresh_line in FL. injection FL as <-.
        intro H; injection H as <- <- <- <-.
        split; [apply (lru_stored_same l3); auto|]. split; [exact MONO3|]. right.
        split; [reflexivity|]. split; [exact LONG|]. cbn [sl_parts snd].
        assert (Q0 : block_offset_at_file_offset 0 bs = 0 /\ block_index_at_file_offset 0 bs = 0).
        { unfold block_offset_at_file_offset, block_index_at_file_offset, file_offset_at_block_offset.
          rewrite N.div_0_l by lia. split; lia. }
        destruct Q0 as [Q1 Q2]. rewrite ?Q1, ?Q2.
        assert (BZ : bi = 0) by lia.
        unfold bytes_of, part_bytes, part_bo, part_beg, part_end, line_fo_begin, part_fo,
          file_offset_at_block_offset_index, file_offset_at_block_offset. cbn [map concat fst snd].
        rewrite app_nil_r, BZ, Z0. rewrite slice_block by lia. split; [f_equal; lia|unfold part_bo, part_beg; cbn [fst snd]; f_equal; lia].
      - destruct (N.eqb_spec (block_offset_at_file_offset (fo - 1) bs) bo) as [EB|EB]; cbn [negb].
        2:{ intro H; injection H as <- <- <- <-. split; [exact S3|]. split; [exact MONO3|]. right. auto. }
        (* the newline before fo is the last one before bi in this block *)
        assert (NLB : nthN f (fo - 1) = Some NL).
        { destruct (line_beg_is_beg f fo ltac:(lia)) as (_ & _ & X). rewrite LB in X. destruct X as [X|X]; [lia|exact X]. }
        destruct (div_mod_bs (fo - 1) bs Hbs) as [EQ1 BI1].
        change ((fo - 1) / bs) with (block_offset_at_file_offset (fo - 1) bs) in EQ1. rewrite EB in EQ1.
        set (bi1 := block_index_at_file_offset (fo - 1) bs) in *.
        assert (BB : bi1 + 1 = bi) by lia.
        assert (RF : rfind_nl (firstnN (bi1 + 1) (block bs f bo)) = Some bi1).
        { apply rfind_nl_last. rewrite byte_at_block by lia. replace (bo * bs + bi1) with (fo - 1) by lia. exact NLB. }
        rewrite RF.
        match goal with |- context [lr_fresh_line ?st ?ps] => destruct (lr_fresh_line st ps) as [l5 s5] eqn:FL end.
        destruct (lr_fresh_line_inv0 bs f _ _ _ _ (lr_inv0_cnt bs f lc_miss_up _ I3) FL) as [_ ->].
        unfold lr_fresh_line in FL. injection FL as <-.
        intro H; injection H as <- <- <- <-.
        split; [apply (lru_stored_same l3); auto|]. split; [exact MONO3|]. right.
        split; [reflexivity|]. split; [exact LONG|]. cbn [sl_parts snd].
        unfold bytes_of, part_bytes, part_bo, part_beg, part_end, line_fo_begin, part_fo,
          file_offset_at_block_offset_index, file_offset_at_block_offset. cbn [map concat fst snd].
        rewrite app_nil_r, BB. rewrite slice_block by lia. split; [f_equal; lia|unfold part_bo, part_beg; cbn [fst snd]; f_equal; lia]. }
    (* newline B (or the end of the file) inside this block: the line is found and stored *)
    all: destruct NOAFTER as [-> EE]; [first [right; congruence|left; assumption]|].
    all: try (destruct (N.eqb_spec bo (blockoffset_last (lenN f) bs)); [|contradiction]).
    all: unfold file_offset_at_block_offset_index, file_offset_at_block_offset; rewrite <- ?BM; rewrite <- EE.
    all: assert (OK : line_ok bs f [(bo, bi, bme + 1)] fo (line_end f fo))
           by (rewrite <- LB at 1; apply (mid_line_ok bs f Hbs fo e [] bme L LB E (MID bi ltac:(lia)))).
    all: destruct (N.eqb_spec fo 0) as [Z0|Z0];
      [ cbn [negb];
        assert (Q1 : block_offset_at_file_offset 0 bs = bo) by (unfold bo; rewrite Z0; reflexivity);
        assert (Q2 : block_index_at_file_offset 0 bs = bi) by (unfold bi; rewrite Z0; reflexivity);
        assert (BZ : bi = 0) by lia;
        rewrite ?Q1, ?Q2; rewrite BZ in OK; rewrite ?BZ;
        destruct (lr_store_found _ _ _ _ _ _) as [[l5 r5] p5] eqn:SF;
        intro H; injection H as <- <- <- <-;
        destruct (store_found_seq _ _ _ _ _ _ _ _ _ I3 S3 OK SF) as (S5 & M5 & ST5 & (s5 & ->) & _);
        split; [exact S5|]; split; [intros x X; apply M5; apply MONO3; exact X|]; left;
        destruct (SHAPE _ _ eq_refl) as [_ OK5]; exists s5; rewrite LE; auto
      | ].
    all: destruct (PS3 Z0) as [P1|P1].
    all: try (destruct (alookup (fo - 1) (l_lines l3)) as [sp|] eqn:A1; [|congruence];
              destruct (lr_store_found _ _ _ _ _ _) as [[l5 r5] p5] eqn:SF;
              intro H; injection H as <- <- <- <-;
              destruct (store_found_seq _ _ _ _ _ _ _ _ _ (lr_inv0_cnt bs f lc_hits_up _ I3) (cnt_seq lc_hits_up _ S3) OK SF)
                as (S5 & M5 & ST5 & (s5 & ->) & _);
              split; [exact S5|]; split; [intros x X; apply M5; apply MONO3; exact X|]; left;
              destruct (SHAPE _ _ eq_refl) as [_ OK5]; exists s5; rewrite LE; auto).
    all: destruct (alookup (fo - 1) (l_lines l3)) as [sp|] eqn:A1.
    all: try (destruct (lr_store_found _ _ _ _ _ _) as [[l5 r5] p5] eqn:SF;
              intro H; injection H as <- <- <- <-;
              destruct (store_found_seq _ _ _ _ _ _ _ _ _ (lr_inv0_cnt bs f lc_hits_up _ I3) (cnt_seq lc_hits_up _ S3) OK SF)
                as (S5 & M5 & ST5 & (s5 & ->) & _);
              split; [exact S5|]; split; [intros x X; apply M5; apply MONO3; exact X|]; left;
              destruct (SHAPE _ _ eq_refl) as [_ OK5]; exists s5; rewrite LE; auto).
    all: destruct (lr_get_linep (lr_cnt lc_miss_up l3) (fo - 1)) as [sq|] eqn:A2;
      [|exfalso; apply P1; unfold lr_get_linep in *; cbn in A2; exact A2].
    all: destruct (lr_store_found _ _ _ _ _ _) as [[l5 r5] p5] eqn:SF;
         intro H; injection H as <- <- <- <-;
         destruct (store_found_seq _ _ _ _ _ _ _ _ _ (lr_inv0_cnt bs f lc_miss_up _ I3) (cnt_seq lc_miss_up _ S3) OK SF)
           as (S5 & M5 & ST5 & (s5 & ->) & _);
         split; [exact S5|]; split; [intros x X; apply M5; apply MONO3; exact X|]; left;
         destruct (SHAPE _ _ eq_refl) as [_ OK5]; exists s5; rewrite LE; auto.
  Qed.
  (* at the end of the file: Done, nothing changes but counters and the order of the LRU list *)
  Lemma lb_eof0 l l' r part p : lr_inv0 l -> lru_stored l ->
    c_find_line_in_block bs f l (lenN f) = (l', (r, part), p) ->
    r = Done /\ part = None /\ lr_inv0 l' /\ lru_stored l' /\ (forall x, stored_at l x -> stored_at l' x) /\
    l_lines l' = l_lines l.
  Proof.
    intros I S C.
    destruct (c_find_line_in_block_ok0 bs f Hbs _ _ _ _ _ _ I C) as (I' & R & _).
    assert (r = Done /\ part = None /\ l_lines l' = l_lines l /\ l_lru l' = l_lru l) as (-> & -> & LL & LU).
    { revert C. unfold c_find_line_in_block.
      destruct (lr_check_lru l (lenN f)) as [l1 [x|]] eqn:CL.
      - destruct (lr_check_lru_ok0 bs f _ _ _ _ I CL) as [_ EO]. pose proof (entry_lt bs f Hbs _ _ EO) as ELT. lia.
      - destruct (N.eqb_spec (lenN f) 0); cbn [orb];
          [|destruct (N.ltb_spec (lenN f) (lenN f)); cbn [orb]; [|destruct (N.eqb_spec (lenN f) (lenN f)); [|lia]]];
          intro HH; injection HH as <- <- <- <-; (split; [reflexivity|split; [reflexivity|]]);
          unfold lr_check_lru in CL; destruct (l_on l);
            try (destruct (lru_get (lenN f) (l_lru l)) as [[y|] c] eqn:G; [discriminate|];
                 apply lru_get_None in G as [_ ->]); injection CL as <-; auto. }
    split; [reflexivity|]. split; [reflexivity|]. split; [exact I'|]. split; [|split; [|exact LL]].
    - intros k0 n0 s0 X. unfold stored_at. rewrite LL. rewrite LU in X. exact (S _ _ _ X).
    - unfold stored_at. rewrite LL. auto.
  Qed.

  (* the same with the effect on the BlockReader and on the set of stored lines *)
  Theorem lb_seq0 l fo l' r part p : lr_inv0 l -> lru_stored l -> fo < lenN f -> line_beg f fo = fo ->
    pred_stored l fo -> (~ stored_at l fo -> reads_ok l (block_offset_at_file_offset fo bs)) ->
    c_find_line_in_block bs f l fo = (l', (r, part), p) ->
    lr_inv0 l' /\ lru_stored l' /\ (forall x, stored_at l x -> stored_at l' x) /\
    (forall y, stored_at l' y -> stored_at l y \/ (y = fo /\ exists n s, r = Found (n, s))) /\
    (l_blk l' = l_blk l /\ l_lines l' = l_lines l \/
     (~ stored_at l fo /\ exists l2 ip, l_blk l2 = l_blk l /\
        l_blk l' = l_blk (fst (lr_read bs f l2 ip (block_offset_at_file_offset fo bs))))) /\
    ((exists s, r = Found (line_end f fo + 1, s) /\ sline_ok s fo (line_end f fo) /\ stored_at l' fo) \/
     (r = Done /\ fo + 1 < lenN f /\
      match part with
      | None => True
      | Some s => bytes_of bs f (sl_parts s) = slice f fo (fo + 1) /\ line_fo_begin bs (sl_parts s) = Some fo
      end)).
  Proof.
    intros I S L LB PS RD0 H.
    destruct (lb_seq_main _ _ _ _ _ _ I S L LB PS RD0 H) as (A & B & C & D).
    destruct (lb_blk_frame _ _ _ _ _ H) as (E & F). auto 10.
  Qed.

  Lemma lb_eof_blk l l' x p : c_find_line_in_block bs f l (lenN f) = (l', x, p) -> l_blk l' = l_blk l \/ lenN f < lenN f.
  Proof.
    unfold c_find_line_in_block. destruct (lr_check_lru l (lenN f)) as [l1 [y|]] eqn:CL.
    - intro H; injection H as <- _ _. left. apply (blk_check_lru _ _ _ _ CL).
    - replace ((lenN f =? 0) || (lenN f <? lenN f) || (lenN f =? lenN f)) with true
        by (rewrite N.eqb_refl; destruct (lenN f =? 0), (lenN f <? lenN f); reflexivity).
      intro H; injection H as <- _ _. left. apply (blk_check_lru _ _ _ _ CL).
  Qed.

  (* every block can be read: the statements for lr_inv *)
  Lemma reads_ok_tot l bo : lr_tot l -> bo <= blast bs f -> 0 < lenN f -> reads_ok l bo.
  Proof.
    intros T B F l2 ip E. destruct (lr_read bs f l2 ip bo) as [l3 rr] eqn:RD.
    destruct (lr_read_ok bs f _ _ _ _ _ RD) as (_ & X). cbn. apply X; auto. unfold lr_tot. rewrite E. exact T.
  Qed.

  Theorem lb_seq l fo l' r part p : lr_inv l -> lru_stored l -> fo < lenN f -> line_beg f fo = fo ->
    pred_stored l fo -> c_find_line_in_block bs f l fo = (l', (r, part), p) ->
    lr_inv l' /\ lru_stored l' /\ (forall x, stored_at l x -> stored_at l' x) /\
    ((exists s, r = Found (line_end f fo + 1, s) /\ sline_ok s fo (line_end f fo) /\ stored_at l' fo) \/
     (r = Done /\ fo + 1 < lenN f /\
      match part with
      | None => True
      | Some s => bytes_of bs f (sl_parts s) = slice f fo (fo + 1) /\ line_fo_begin bs (sl_parts s) = Some fo
      end)).
  Proof.
    intros [I T] S L LB PS H.
    assert (RD0 : ~ stored_at l fo -> reads_ok l (block_offset_at_file_offset fo bs)).
    { intros _. apply reads_ok_tot; [exact T|apply (blockoffset_last_ge (lenN f) bs fo Hbs L)|lia]. }
    destruct (lb_seq0 _ _ _ _ _ _ I S L LB PS RD0 H) as (A & B & C & _ & BK & R).
    split; [|auto]. split; [exact A|].
    destruct BK as [[E _]|(_ & l2 & ip & E2 & E)]; unfold lr_tot in *; rewrite E; [exact T|].
    destruct (lr_read bs f l2 ip (block_offset_at_file_offset fo bs)) as [l3 rr] eqn:RD.
    destruct (lr_read_ok bs f _ _ _ _ _ RD) as (_ & X). cbn.
    apply X; [unfold lr_tot; rewrite E2; exact T|apply (blockoffset_last_ge (lenN f) bs fo Hbs L)|lia].
  Qed.

  Lemma lb_eof l l' r part p : lr_inv l -> lru_stored l ->
    c_find_line_in_block bs f l (lenN f) = (l', (r, part), p) ->
    r = Done /\ part = None /\ lr_inv l' /\ lru_stored l' /\ (forall x, stored_at l x -> stored_at l' x).
  Proof.
    intros [I T] S C. destruct (lb_eof0 _ _ _ _ _ I S C) as (A & B & I' & S' & M & _).
    split; [exact A|]. split; [exact B|]. split; [|auto]. split; [exact I'|].
    destruct (lb_eof_blk _ _ _ _ C) as [E|E]; [|lia]. unfold lr_tot. rewrite E. exact T.
  Qed.
End GateLines.

(* ================================================================ SyslineReader: the gate pattern *)

Section GateSys.
  Variable dated : list N -> option Z.
  Variable bs : N.
  Variable f : file.
  Hypothesis Hbs : 0 < bs.
  (* the first byte of a line never dates differently from the line (find_line_in_block's partial
     line is that byte, finding F3a; the real parser needs at least 8 bytes) *)
  Hypothesis Hpart : forall b z, b < lenN f -> line_beg f b = b ->
    dated (slice f b (b + 1)) = Some z -> dated (slice f b (line_end f b + 1)) = Some z.


  (* the section is generic in the invariant LI of the inner LineReader and in the guard RG l fo under which
     find_line_in_block at fo is answered (nothing for a plain file: every block can be read; for a streamed
     file: fo is not beyond the frontier of the forward reads, CachesFwdProofs); the two hypotheses are
     what the LineReader must provide (GateLines.lb_seq0, lb_eof0) *)
  Context {LI : lr_state -> Prop}.
  Variable RG : lr_state -> N -> Prop.
  Hypothesis LI_inv0 : forall l, LI l -> lr_inv0 bs f l.
  Hypothesis H_seq : forall l ex fo l' r part p, LI l -> lru_stored l -> fo < lenN f -> line_beg f fo = fo ->
    pred_stored l fo -> RG l fo -> c_find_line_in_block bs f (lr_set_ext ex l) fo = (l', (r, part), p) ->
    LI l' /\ lru_stored l' /\ (forall x, stored_at l x -> stored_at l' x) /\ (forall y, RG l y -> RG l' y) /\
    ((exists s, r = Found (line_end f fo + 1, s) /\ sline_ok bs f s fo (line_end f fo) /\ stored_at l' fo /\
                RG l' (line_end f fo + 1)) \/
     (r = Done /\ fo + 1 < lenN f /\
      match part with
      | None => True
      | Some s => bytes_of bs f (sl_parts s) = slice f fo (fo + 1) /\ line_fo_begin bs (sl_parts s) = Some fo
      end)).
  Hypothesis H_eof : forall l ex l' r part p, LI l -> lru_stored l ->
    c_find_line_in_block bs f (lr_set_ext ex l) (lenN f) = (l', (r, part), p) ->
    r = Done /\ part = None /\ LI l' /\ lru_stored l' /\ (forall x, stored_at l x -> stored_at l' x) /\
    (forall y, RG l y -> RG l' y).

  Local Notation sr_inv := (@sr_inv dated bs f LI).
  Local Notation is_group := (is_group dated f).
  Local Notation ssl_ok := (ssl_ok bs f).
  Local Notation sline_ok := (sline_ok bs f).
  Local Notation consec := (consec bs f).
  Local Notation stored_at := stored_at.
  Local Notation pred_stored := pred_stored.
  Local Notation rinv := (@rinv dated bs f LI).

  (* the line that follows each message the sysline-level caches hold (and that ends at or after d) is stored in
     the inner LineReader, unless the message ends the file: loop B found it *)
  Definition next_stored (st : sr_state) (d : N) : Prop :=
    (forall k s e, alookup k (s_syslines st) = Some s -> ss_end bs s = Some e -> d <= e + 1 ->
       e + 1 = lenN f \/ stored_at (s_lr st) (e + 1)) /\
    (forall k n s, alookup k (s_lru st) = Some (SF n s) -> d <= n -> n = lenN f \/ stored_at (s_lr st) n).

  Definition ginv (st : sr_state) : Prop :=
    rinv st /\ no_dangling st /\ lru_stored (s_lr st) /\ next_stored st 0.

  (* nothing the sysline-level caches hold reaches beyond fo *)
  Definition all_behind (st : sr_state) (fo : N) : Prop :=
    (forall a b v, In (a, b, v) (s_range st) -> b <= fo) /\
    (forall k r, alookup k (s_lru st) = Some r -> k < fo) /\
    (forall k s, alookup k (s_syslines st) = Some s -> k < fo).

  (* no message begins before fo and extends beyond it *)
  Definition gate_ok (fo : N) : Prop := forall b g, is_group b g -> b < fo -> b + glen g <= fo.

  Definition undated_between (a b : N) : Prop :=
    forall x, a <= x -> x < b -> line_beg f x = x -> dated (slice f x (line_end f x + 1)) = None.

  (* the line that ends right before fo is stored in the inner LineReader *)
  Definition pred_sem (st : sr_state) (fo : N) : Prop :=
    fo = 0 \/ exists b, stored_at (s_lr st) b /\ span f b (fo - 1) /\ 0 < fo.

  Definition at_line (st : sr_state) (fo : N) : Prop :=
    fo <= lenN f /\ (fo = lenN f \/ line_beg f fo = fo) /\ (fo < lenN f -> pred_sem st fo) /\ RG (s_lr st) fo.

  Lemma pred_sem_stored st fo : ginv st -> pred_sem st fo -> pred_stored (s_lr st) fo.
  Proof.
    intros ((I & _) & _) [Z|(b & ST & SP & P)]; [left; exact Z|].
    pose proof (stored_pred bs f Hbs _ _ _ (LI_inv0 _ (si_lr _ _ _ _ I)) ST SP) as X.
    replace (fo - 1 + 1) with fo in X by lia. exact X.
  Qed.

  Lemma pred_sem_mono st st' fo : (forall x, stored_at (s_lr st) x -> stored_at (s_lr st') x) ->
    pred_sem st fo -> pred_sem st' fo.
  Proof. intros M [Z|(b & ST & SP)]; [left; exact Z|right; exists b; split; [apply M; exact ST|exact SP]]. Qed.

  Lemma at_line_mono st st' fo : (forall x, stored_at (s_lr st) x -> stored_at (s_lr st') x) ->
    (forall y, RG (s_lr st) y -> RG (s_lr st') y) -> at_line st fo -> at_line st' fo.
  Proof.
    intros M MR (A & B & C & D). split; [exact A|]. split; [exact B|]. split; [|apply MR; exact D].
    intro L. eapply pred_sem_mono; eauto.
  Qed.

  Lemma consec_lt lns b e1 : consec lns b e1 -> lns <> [] -> b < e1.
  Proof. intros C NE. destruct (consec_end bs f Hbs _ _ _ C NE) as (? & ? & ? & _ & _ & _ & _ & X). exact X. Qed.

  Lemma consec_unique a : forall c b e1, consec a b e1 -> consec c b e1 -> map (sbytes bs f) a = map (sbytes bs f) c.
  Proof.
    induction a as [|s a IH]; intros c b e1 A C.
    - cbn in A. subst e1. destruct c as [|s' c]; [reflexivity|].
      pose proof (consec_lt _ _ _ C ltac:(discriminate)). lia.
    - destruct c as [|s' c].
      + cbn in C. subst e1. pose proof (consec_lt _ _ _ A ltac:(discriminate)). lia.
      + destruct A as (e & S1 & A). destruct C as (e' & S2 & C).
        assert (e = e') by (destruct S1 as [P1 _]; destruct S2 as [P2 _]; eapply span_unique_e; eauto). subst e'.
        destruct (line_ok_facts bs f _ _ _ S1) as (_ & _ & Y1 & _). destruct (line_ok_facts bs f _ _ _ S2) as (_ & _ & Y2 & _).
        cbn [map]. unfold sbytes at 1 3. rewrite Y1, Y2. f_equal. eapply IH; eauto.
  Qed.

  (* every message has a representation by consecutive lines (what find_sysline returns for it) *)
  Lemma group_consec hb g : is_group hb g ->
    exists lns, consec lns hb (hb + glen g) /\ map (sbytes bs f) lns = snd g /\ lns <> [].
  Proof.
    intro G. destruct (is_group_pos dated f _ _ G) as (P & _).
    destruct (c_find_sysline dated bs f sr_init hb) as [[st' r] p] eqn:C.
    destruct (c_find_sysline_ok dated bs f Hbs _ _ _ _ _ (sr_inv_init dated bs f) C) as (_ & R & _).
    pose proof (spec_at_group dated f _ _ hb G ltac:(lia) ltac:(lia)) as SP.
    destruct r as [[n s]| | |]; cbn in R.
    - destruct R as (b' & g' & _ & (D & M & CC & NE) & SP'). rewrite SP in SP'. inversion SP'; subst.
      exists (ss_lines s). auto.
    - congruence.
    - contradiction.
    - destruct R as (v & RGv & _). cbn in RGv. discriminate.
  Qed.

  (* the parse of find_line_in_block's partial line: the first byte of the line that begins at b *)
  Lemma sr_parse_partial st s b st' o : sr_inv st -> b < lenN f -> line_beg f b = b ->
    bytes_of bs f (sl_parts s) = slice f b (b + 1) -> line_fo_begin bs (sl_parts s) = Some b ->
    sr_parse dated bs f st s = (st', o) ->
    sr_inv st' /\ frame st st' /\ s_lru st' = s_lru st /\ s_lr st' = s_lr st.
  Proof.
    intros I L LB BY BG. unfold sr_parse. rewrite BY, BG. destruct (s_parse_on st).
    - destruct (lru_get b (s_parse st)) as [[z|] c] eqn:G.
      + apply lru_get_Some in G as [A B]. intro H; injection H as <- <-.
        split; [|split; [repeat split|split; reflexivity]].
        apply sr_inv_cnt. unfold sr_set_parse. apply sr_inv_upd; try exact I; [apply (si_lr _ _ _ _ I)|apply (si_lru _ _ _ _ I)|].
        intros k x X. apply (si_parse _ _ _ _ I). auto.
      + destruct (dated (slice f b (b + 1))) as [z|] eqn:D; intro H; injection H as <- <-.
        * split; [|split; [repeat split|split; reflexivity]].
          unfold sr_set_parse. pose proof (sr_inv_cnt dated bs f d_parse_miss st I) as I'.
          apply sr_inv_upd; [exact I'|apply (si_lr _ _ _ _ I')|apply (si_lru _ _ _ _ I')|].
          intros k x X. apply lru_put_lookup in X as [[-> ->]|[_ X]].
          -- split; [exact L|]. split; [exact LB|]. apply Hpart; assumption.
          -- apply (si_parse _ _ _ _ I'). exact X.
        * split; [apply sr_inv_cnt; exact I|]. split; [repeat split|split; reflexivity].
    - intro H; injection H as <- <-. split; [exact I|]. split; [repeat split|split; reflexivity].
  Qed.

  Lemma ginv_lr st l : ginv st -> LI l -> lru_stored l -> (forall x, stored_at (s_lr st) x -> stored_at l x) ->
    ginv (sr_set_lr l st).
  Proof.
    intros ((I & AS) & ND & _ & (N1 & N2)) L S M. split; [split; [apply sr_inv_set_lr; assumption|exact AS]|].
    split; [exact ND|]. split; [exact S|]. split.
    - intros k s e A B C. destruct (N1 k s e A B C) as [Q|Q]; [left; exact Q|right; apply M; exact Q].
    - intros k n s A C. destruct (N2 k n s A C) as [Q|Q]; [left; exact Q|right; apply M; exact Q].
  Qed.

  Lemma ginv_frame st st' : ginv st -> sr_inv st' -> frame st st' -> s_lr st' = s_lr st -> s_lru st' = s_lru st ->
    ginv st'.
  Proof.
    intros ((I & AS) & ND & S & (N1 & N2)) I' (F1 & F2 & _) LR LU. split; [split; [exact I'|rewrite F1; exact AS]|].
    split; [intros a b v; rewrite F1, F2; apply ND|]. split; [rewrite LR; exact S|].
    split; [rewrite F1, LR; exact N1|rewrite LU, LR; exact N2].
  Qed.

  (* find_line_in_block through the SyslineReader, at a line begin whose predecessor is known *)
  Lemma sr_lb_seq st acc fo st' r part : ginv st -> fo < lenN f -> line_beg f fo = fo -> pred_stored (s_lr st) fo ->
    RG (s_lr st) fo ->
    sr_find_line_in_block bs f st acc fo = (st', (r, part)) ->
    ginv st' /\ frame st st' /\ s_lru st' = s_lru st /\ s_parse st' = s_parse st /\
    (forall x, stored_at (s_lr st) x -> stored_at (s_lr st') x) /\
    (forall y, RG (s_lr st) y -> RG (s_lr st') y) /\
    ((exists s, r = Found (line_end f fo + 1, s) /\ sline_ok s fo (line_end f fo) /\ stored_at (s_lr st') fo /\
                RG (s_lr st') (line_end f fo + 1)) \/
     (r = Done /\ fo + 1 < lenN f /\
      match part with
      | None => True
      | Some s => bytes_of bs f (sl_parts s) = slice f fo (fo + 1) /\ line_fo_begin bs (sl_parts s) = Some fo
      end)).
  Proof.
    intros GI L LB PS G0. unfold sr_find_line_in_block.
    destruct (c_find_line_in_block bs f (lr_set_ext (sr_held st acc) (s_lr st)) fo) as [[l' [r' part']] p] eqn:C.
    intro H; injection H as <- <- <-.
    pose proof GI as ((I & _) & _ & S & _).
    destruct (H_seq _ _ _ _ _ _ _ (si_lr _ _ _ _ I) S L LB PS G0 C) as (I' & S' & MONO & MR & R).
    split; [apply ginv_lr; assumption|]. split; [repeat split|]. split; [reflexivity|]. split; [reflexivity|].
    split; [exact MONO|]. split; [exact MR|exact R].
  Qed.

  Lemma sr_lb_eof st acc st' r part : ginv st -> sr_find_line_in_block bs f st acc (lenN f) = (st', (r, part)) ->
    r = Done /\ part = None /\ ginv st' /\ frame st st' /\ s_lru st' = s_lru st /\
    (forall x, stored_at (s_lr st) x -> stored_at (s_lr st') x) /\
    (forall y, RG (s_lr st) y -> RG (s_lr st') y).
  Proof.
    intros GI FL. unfold sr_find_line_in_block in FL.
    destruct (c_find_line_in_block bs f (lr_set_ext (sr_held st acc) (s_lr st)) (lenN f)) as [[l' [r' part']] p] eqn:C.
    injection FL as <- <- <-.
    pose proof GI as ((I & _) & _ & S & _).
    destruct (H_eof _ _ _ _ _ _ (si_lr _ _ _ _ I) S C) as (-> & -> & I' & S' & MONO & MR).
    split; [reflexivity|]. split; [reflexivity|]. split; [apply ginv_lr; assumption|].
    split; [repeat split|]. split; [reflexivity|]. split; [exact MONO|exact MR].
  Qed.

  (* loop A of find_sysline_in_block *)
  Lemma ib_loop_a_ok fuel : forall st fo1 st' r, ginv st -> at_line st fo1 ->
    ib_loop_a dated fuel bs f st fo1 = (st', r) ->
    ginv st' /\ frame st st' /\ s_lru st' = s_lru st /\
    (forall x, stored_at (s_lr st) x -> stored_at (s_lr st') x) /\
    (forall y, RG (s_lr st) y -> RG (s_lr st') y) /\
    match r with
    | IBhead dt ln fo1' =>
        exists hb he, fo1 <= hb /\ sline_ok ln hb he /\ fo1' = he + 1 /\ stored_at (s_lr st') hb /\
                      dated (slice f hb (he + 1)) = Some dt /\ undated_between fo1 hb /\ RG (s_lr st') fo1'
    | IBdone _ => True
    | IBfail x => x = OutOfFuel
    end.
  Proof.
    induction fuel as [|k IH]; intros st fo1 st' r GI (A1 & A2 & A3 & A4); cbn [ib_loop_a].
    { intro H; injection H as <- <-. split; [exact GI|]. split; [apply frame_refl|]. auto. }
    destruct (sr_find_line_in_block bs f st [] fo1) as [st1 [r1 part1]] eqn:FL.
    destruct (N.eq_dec fo1 (lenN f)) as [EOF|NEOF].
    { (* at the end of the file: Done *)
      rewrite EOF in FL. destruct (sr_lb_eof _ _ _ _ _ GI FL) as (-> & -> & GI1 & F1 & U1 & MONO1 & MR1).
      intro H; injection H as <- <-. split; [exact GI1|]. split; [exact F1|]. split; [exact U1|]. split; [exact MONO1|].
      split; [exact MR1|exact Logic.I]. }
    assert (L : fo1 < lenN f) by lia.
    assert (LB : line_beg f fo1 = fo1) by (destruct A2; [contradiction|assumption]).
    destruct (sr_lb_seq _ _ _ _ _ _ GI L LB (pred_sem_stored _ _ GI (A3 L)) A4 FL) as (GI1 & F1 & U1 & P1 & MONO1 & MR1 & [(s & -> & OK & ST & RGN)|(-> & LONG & PART)]).
    - destruct (sr_parse dated bs f st1 s) as [st2 o] eqn:PA.
      pose proof GI1 as ((I1 & _) & _).
      destruct (sr_parse_ok dated bs f Hbs _ _ _ _ _ _ I1 OK PA) as (I2 & -> & F2 & U2).
      assert (LR2 : s_lr st2 = s_lr st1).
      { revert PA. unfold sr_parse. destruct (s_parse_on st1); [|intro H; injection H as <- _; reflexivity].
        destruct (line_fo_begin bs (sl_parts s)); [|intro H; injection H as <- _; reflexivity].
        destruct (lru_get n (s_parse st1)) as [[z|] c]; [intro H; injection H as <- _; reflexivity|].
        destruct (dated _); intro H; injection H as <- _; reflexivity. }
      pose proof (ginv_frame _ _ GI1 I2 F2 LR2 U2) as GI2.
      destruct (line_ok_facts bs f _ _ _ OK) as (_ & EN & _). unfold sl_parts in *.
      destruct (dated (slice f fo1 (line_end f fo1 + 1))) as [dt|] eqn:D.
      + rewrite EN. intro H; injection H as <- <-. split; [exact GI2|]. split; [eapply frame_trans; eauto|].
        split; [congruence|]. split; [intros x X; rewrite LR2; apply MONO1; exact X|].
        split; [intros y Y; rewrite LR2; apply MR1; exact Y|].
        exists fo1, (line_end f fo1). split; [lia|]. split; [exact OK|]. split; [reflexivity|].
        split; [rewrite LR2; exact ST|]. split; [exact D|]. split; [intros x X1 X2; lia|rewrite LR2; exact RGN].
      + intro H.
        destruct OK as [SP CH]. pose proof SP as (_ & EL & _).
        assert (AT2 : at_line st2 (line_end f fo1 + 1)).
        { split; [lia|]. split; [|split].
          - destruct (N.eq_dec (line_end f fo1 + 1) (lenN f)); [left; assumption|right]. apply (span_next_beg f fo1 _ SP). lia.
          - intros _. right. exists fo1. rewrite LR2. split; [exact ST|].
            replace (line_end f fo1 + 1 - 1) with (line_end f fo1) by lia. split; [exact SP|lia].
          - rewrite LR2. exact RGN. }
        destruct (IH _ _ _ _ GI2 AT2 H) as (GI3 & F3 & U3 & MONO3 & MR3 & R3).
        split; [exact GI3|]. split; [eapply frame_trans; [eapply frame_trans|]; eauto|]. split; [congruence|].
        split; [intros x X; apply MONO3; rewrite LR2; apply MONO1; exact X|].
        split; [intros y Y; apply MR3; rewrite LR2; apply MR1; exact Y|].
        destruct r as [dt ln fo1'|b|x]; try exact R3.
        destruct R3 as (hb & he & B1 & OKh & E & STh & Dh & UB & RGh).
        assert (SLE : fo1 <= line_end f fo1) by (destruct SP as (? & _); assumption).
        exists hb, he. split; [lia|].
        split; [exact OKh|]. split; [exact E|]. split; [exact STh|]. split; [exact Dh|]. split; [|exact RGh].
        intros x X1 X2 X3. destruct (N.lt_ge_cases x (line_end f fo1 + 1)) as [C|C]; [|apply UB; assumption].
        destruct (span_in f _ _ x SP X1 ltac:(lia)) as [Q1 Q2]. rewrite X3 in Q1. subst x. exact D.
    - destruct part1 as [ps|].
      + destruct PART as [BY BG].
        destruct (sr_parse dated bs f st1 ps) as [st2 o] eqn:PA.
        pose proof GI1 as ((I1 & _) & _).
        destruct (sr_parse_partial _ _ _ _ _ I1 L LB BY BG PA) as (I2 & F2 & U2 & LR2).
        pose proof (ginv_frame _ _ GI1 I2 F2 LR2 U2) as GI2.
        destruct o; intro H; injection H as <- <-;
          (split; [exact GI2|]; split; [eapply frame_trans; eauto|]; split; [congruence|];
           split; [intros x X; rewrite LR2; apply MONO1; exact X|];
           split; [intros y Y; rewrite LR2; apply MR1; exact Y|exact Logic.I]).
      + intro H; injection H as <- <-. split; [exact GI1|]. split; [exact F1|]. split; [exact U1|]. split; [exact MONO1|].
        split; [exact MR1|exact Logic.I].
  Qed.

  Lemma parse_keeps_lr st s st' o : sr_parse dated bs f st s = (st', o) -> s_lr st' = s_lr st.
  Proof.
    unfold sr_parse. destruct (s_parse_on st); [|intro H; injection H as <- _; reflexivity].
    destruct (line_fo_begin bs (sl_parts s)); [|intro H; injection H as <- _; reflexivity].
    destruct (lru_get n (s_parse st)) as [[z|] c]; [intro H; injection H as <- _; reflexivity|].
    destruct (dated _); intro H; injection H as <- _; reflexivity.
  Qed.

  (* loop B of find_sysline_in_block *)
  Lemma ib_loop_b_ok fuel : forall st fo1 acc b0 st' r, ginv st -> at_line st fo1 -> consec acc b0 fo1 -> acc <> [] ->
    ib_loop_b dated fuel bs f st fo1 acc = (st', r) ->
    ginv st' /\ frame st st' /\ s_lru st' = s_lru st /\
    (forall x, stored_at (s_lr st) x -> stored_at (s_lr st') x) /\
    (forall y, RG (s_lr st) y -> RG (s_lr st') y) /\
    match r with
    | Found (Some (fo_b, lns)) =>
        consec lns b0 fo_b /\ lns <> [] /\ fo1 <= fo_b /\ undated_between fo1 fo_b /\
        (fo_b = lenN f \/ (fo_b < lenN f /\ line_beg f fo_b = fo_b /\ dated (slice f fo_b (line_end f fo_b + 1)) <> None)) /\
        at_line st' fo_b /\ (fo_b = lenN f \/ stored_at (s_lr st') fo_b)
    | Found None => True
    | OutOfFuel => True
    | _ => False
    end.
  Proof.
    induction fuel as [|k IH]; intros st fo1 acc b0 st' r GI AT C NE; cbn [ib_loop_b].
    { intro H; injection H as <- <-. split; [exact GI|]. split; [apply frame_refl|]. auto. }
    pose proof AT as (A1 & A2 & A3 & A4).
    destruct (sr_find_line_in_block bs f st acc fo1) as [st1 [r1 part1]] eqn:FL.
    destruct (consec_end bs f Hbs _ _ _ C NE) as (sl & b' & e' & LAST & SLOK & EE & _ & BLT).
    assert (F0 : 0 < lenN f) by (destruct SLOK as [(_ & ? & _) _]; lia).
    destruct (N.eq_dec fo1 (lenN f)) as [EOF|NEOF].
    { rewrite EOF in FL. destruct (sr_lb_eof _ _ _ _ _ GI FL) as (-> & -> & GI1 & F1 & U1 & MONO1 & MR1).
      unfold fileoffset_last. destruct (N.eqb_spec (lenN f) 0); [lia|].
      destruct (N.ltb_spec fo1 (lenN f - 1)) as [Q|Q]; [lia|].
      unfold slast in LAST. destruct (rev acc) as [|x xs]; [discriminate|]. inversion LAST; subst x.
      destruct (line_ok_facts bs f _ _ _ SLOK) as (_ & EN & _). unfold sl_parts in *. rewrite EN.
      intro HH; injection HH as <- <-. split; [exact GI1|]. split; [exact F1|]. split; [exact U1|]. split; [exact MONO1|].
      split; [exact MR1|].
      rewrite EE. split; [exact C|]. split; [exact NE|]. split; [lia|]. split; [intros x X1 X2; lia|].
      split; [left; exact EOF|]. split; [eapply at_line_mono; eauto|left; exact EOF]. }
    assert (L : fo1 < lenN f) by lia.
    assert (LB : line_beg f fo1 = fo1) by (destruct A2; [contradiction|assumption]).
    destruct (sr_lb_seq _ _ _ _ _ _ GI L LB (pred_sem_stored _ _ GI (A3 L)) A4 FL) as (GI1 & F1 & U1 & P1 & MONO1 & MR1 & [(s & -> & OK & ST & RGN)|(-> & LONG & PART)]).
    - destruct (sr_parse dated bs f st1 s) as [st2 o] eqn:PA.
      pose proof GI1 as ((I1 & _) & _).
      destruct (sr_parse_ok dated bs f Hbs _ _ _ _ _ _ I1 OK PA) as (I2 & -> & F2 & U2).
      pose proof (parse_keeps_lr _ _ _ _ PA) as LR2.
      pose proof (ginv_frame _ _ GI1 I2 F2 LR2 U2) as GI2.
      assert (MONO2 : forall x, stored_at (s_lr st) x -> stored_at (s_lr st2) x) by (intros x X; rewrite LR2; apply MONO1; exact X).
      assert (MR2 : forall y, RG (s_lr st) y -> RG (s_lr st2) y) by (intros y Y; rewrite LR2; apply MR1; exact Y).
      destruct (dated (slice f fo1 (line_end f fo1 + 1))) as [dt|] eqn:D.
      + intro H; injection H as <- <-. split; [exact GI2|]. split; [eapply frame_trans; eauto|]. split; [congruence|].
        split; [exact MONO2|]. split; [exact MR2|].
        split; [exact C|]. split; [exact NE|]. split; [lia|]. split; [intros x X1 X2; lia|].
        split; [right; split; [exact L|split; [exact LB|congruence]]|]. split; [eapply at_line_mono; eauto|].
        right. rewrite LR2. exact ST.
      + intro H. destruct OK as [SP CH]. pose proof SP as (SLE & EL & _).
        assert (AT2 : at_line st2 (line_end f fo1 + 1)).
        { split; [lia|]. split; [|split].
          - destruct (N.eq_dec (line_end f fo1 + 1) (lenN f)); [left; assumption|right]. apply (span_next_beg f fo1 _ SP). lia.
          - intros _. right. exists fo1. rewrite LR2. split; [exact ST|].
            replace (line_end f fo1 + 1 - 1) with (line_end f fo1) by lia. split; [exact SP|lia].
          - rewrite LR2. exact RGN. }
        assert (C2 : consec (acc ++ [s]) b0 (line_end f fo1 + 1)).
        { eapply consec_app; [exact C|]. cbn. exists (line_end f fo1). split; [split; assumption|reflexivity]. }
        destruct (IH _ _ _ b0 _ _ GI2 AT2 C2 ltac:(destruct acc; discriminate) H) as (GI3 & F3 & U3 & MONO3 & MR3 & R3).
        split; [exact GI3|]. split; [eapply frame_trans; [eapply frame_trans|]; eauto|]. split; [congruence|].
        split; [intros x X; apply MONO3; apply MONO2; exact X|].
        split; [intros y Y; apply MR3; apply MR2; exact Y|].
        destruct r as [[[fo_b lns]|]| | |]; try exact R3.
        destruct R3 as (CC & NE' & LE' & UB & STOP & AT3 & NX3).
        split; [exact CC|]. split; [exact NE'|]. split; [lia|]. split; [|split; [assumption|split; assumption]].
        intros x X1 X2 X3. destruct (N.lt_ge_cases x (line_end f fo1 + 1)) as [Q|Q]; [|apply UB; assumption].
        destruct (span_in f _ _ x SP X1 ltac:(lia)) as [Q1 Q2]. rewrite X3 in Q1. subst x. exact D.
    - unfold fileoffset_last. destruct (N.eqb_spec (lenN f) 0); [lia|].
      destruct (N.ltb_spec fo1 (lenN f - 1)) as [Q|Q]; [|lia].
      intro HH; injection HH as <- <-. split; [exact GI1|]. split; [exact F1|]. split; [exact U1|]. split; [exact MONO1|].
      split; [exact MR1|exact Logic.I].
  Qed.

  (* ---------------------------------------------------------------- one call of the pattern *)

  Definition gate_pre (st : sr_state) (fo : N) : Prop :=
    ginv st /\ all_behind st fo /\ gate_ok fo /\ at_line st fo.

  Lemma ginv_cnt d st : ginv st -> ginv (sr_cnt d st).
  Proof. intros ((I & AS) & ND & S & NX). split; [split; [apply sr_inv_cnt; exact I|exact AS]|]. split; [exact ND|]. split; assumption. Qed.

  Lemma check_store_miss st fo : all_behind st fo ->
    sr_check_store bs f st fo = (None, sr_cnt d_miss (sr_cnt d_range_miss (sr_cnt d_lru_miss st))) \/
    sr_check_store bs f st fo = (None, sr_cnt d_miss (sr_cnt d_range_miss st)).
  Proof.
    intros (B1 & B2 & B3).
    assert (L0 : alookup fo (s_lru st) = None).
    { destruct (alookup fo (s_lru st)) eqn:E; [|reflexivity]. specialize (B2 _ _ E). lia. }
    assert (R0 : range_get (s_range st) fo = None).
    { destruct (range_get (s_range st) fo) eqn:E; [|reflexivity].
      apply range_get_Some in E as (a & b & IN & A1 & A2). specialize (B1 _ _ _ IN). lia. }
    assert (S0 : alookup fo (s_syslines st) = None).
    { destruct (alookup fo (s_syslines st)) eqn:E; [|reflexivity]. specialize (B3 _ _ E). lia. }
    unfold sr_check_store. destruct (s_on st).
    - left. unfold lru_get. rewrite L0. cbn [s_range sr_cnt]. rewrite R0. cbn [s_syslines sr_cnt]. rewrite S0. reflexivity.
    - right. rewrite R0. cbn [s_syslines sr_cnt]. rewrite S0. reflexivity.
  Qed.

  Lemma insert_dangling st st' b s g bound : dangling_behind st bound -> 0 < glen g ->
    s_syslines st' = ainsert b s (s_syslines st) -> s_range st' = range_insert b (b + glen g) b (s_range st) ->
    dangling_behind st' bound.
  Proof.
    intros ND P E1 E2 a' b' v. rewrite E1, E2, alookup_ainsert. unfold range_insert.
    destruct (N.ltb_spec b (b + glen g)); [|lia]. intros [IN|IN] LK.
    - inversion IN; subst. rewrite N.eqb_refl in LK. discriminate.
    - destruct (N.eqb_spec v b); [discriminate|].
      destruct (In_range_cut _ _ _ _ IN) as (s0 & e0 & v0 & IN0 & [[E _]|[E _]]); inversion E; subst;
        specialize (ND _ _ _ IN0 LK); lia.
  Qed.

  (* storing the message hb .. fo_b that the two loops found, under the requested offset fo *)
  Lemma store_gate st fo hb he dt lns fo_b st' r p :
    ginv st -> all_behind st fo -> gate_ok fo -> fo <= hb -> undated_between fo hb ->
    span f hb he -> dated (slice f hb (he + 1)) = Some dt ->
    consec lns hb fo_b -> lns <> [] -> he + 1 <= fo_b -> undated_between (he + 1) fo_b ->
    (fo_b = lenN f \/ (fo_b < lenN f /\ line_beg f fo_b = fo_b /\ dated (slice f fo_b (line_end f fo_b + 1)) <> None)) ->
    at_line st fo_b -> (fo_b = lenN f \/ stored_at (s_lr st) fo_b) ->
    sr_store_found bs st fo fo_b dt lns = (st', r, p) ->
    gate_pre st' fo_b /\ fo < fo_b /\ exists s, r = Found (fo_b, s).
  Proof.
    intros GI AB GO LE UB SP DD CC NE HE UB2 STOP AT NXB.
    pose proof GI as ((I & AS) & ND & LS & (N1 & N2)).
    destruct (span_in f hb he hb SP ltac:(lia) ltac:(destruct SP; lia)) as [LBH LEH].
    assert (LH : hb < lenN f) by (destruct SP as (? & ? & _); lia).
    rewrite <- LEH in DD.
    destruct (dated_line_is_group dated f hb dt LH LBH DD) as (g & G).
    destruct (is_group_pos dated f _ _ G) as (P & EL & _).
    destruct (syslines_at_fact dated f _ _ G) as ((l & rest & SG & DL & PL & _ & _ & LEG & SLG) & _ & GN).
    assert (GL : glen g = lenN l + lenN (concat rest)).
    { destruct g as [t gl]. cbn [snd] in SG. subst gl. apply group_bytes_cons. }
    assert (LL : lenN l = he + 1 - hb) by lia.
    (* the message ends where loop B stopped *)
    assert (EQ : hb + glen g = fo_b).
    { destruct (N.lt_trichotomy fo_b (hb + glen g)) as [C|[C|C]]; [exfalso|symmetry; exact C|exfalso].
      - destruct STOP as [ST|(S1 & S2 & S3)]; [lia|]. apply S3.
        apply (group_inside dated f hb g fo_b G ltac:(lia) C S2).
      - destruct (GN ltac:(lia)) as (GB & GD). apply GD. apply UB2; [lia|exact C|exact GB]. }
    destruct (group_consec hb g G) as (lns' & CC' & MM & _). rewrite EQ in CC'.
    pose proof (consec_unique _ _ _ _ CC CC') as CU. rewrite MM in CU.
    assert (FG : fst g = dt).
    { rewrite <- SLG in DL. replace (hb + lenN l) with (line_end f hb + 1) in DL by lia. congruence. }
    assert (OK : ssl_ok (s_nid st, dt, lns) hb g).
    { unfold CachesSysProofs.ssl_ok. cbn. split; [congruence|]. split; [exact CU|]. split; [rewrite EQ; exact CC|exact NE]. }
    unfold sr_store_found.
    destruct (sr_insert_ok dated bs f Hbs st dt lns hb g I G OK) as (st5 & INS & I5 & Y1 & Y2 & Y3 & Y4). rewrite INS.
    intro H; injection H as <- <- <-.
    assert (PRE : forall b' g', is_group b' g' -> b' < hb -> b' + glen g' <= fo).
    { intros b' g' G' LT. destruct (N.lt_ge_cases b' fo) as [Q|Q]; [apply GO; assumption|exfalso].
      destruct (syslines_at_fact dated f _ _ G') as ((l' & rest' & _ & DL' & PL' & LT' & LB' & LE' & SL') & _).
      pose proof (UB b' Q LT LB') as U. rewrite LE' in U. replace (b' + lenN l' - 1 + 1) with (b' + lenN l') in U by lia.
      rewrite SL' in U. congruence. }
    pose proof (spec_first_after dated f fo hb g G LE PRE) as SPEC. rewrite EQ in SPEC.
    assert (EOK : sres_entry_ok dated bs f fo (SF fo_b (s_nid st, dt, lns))) by (exists hb, g; auto).
    assert (LR5 : s_lr st5 = s_lr st).
    { unfold sr_insert in INS.
      destruct (ss_begin bs (s_nid st, dt, lns)); [|discriminate]. destruct (ss_end bs (s_nid st, dt, lns)); [|discriminate].
      injection INS as <-. reflexivity. }
    assert (LRP : s_lr (sr_put st5 fo (SF fo_b (s_nid st, dt, lns))) = s_lr st).
    { unfold sr_put. destruct (s_on st5); cbn; exact LR5. }
    split; [|split; [lia|eauto]].
    split; [|split; [|split]].
    - (* ginv *)
      split; [split; [apply sr_put_inv; assumption|rewrite sys_put, Y1; apply asc_ainsert; exact AS]|].
      split; [eapply (insert_dangling st _ hb (s_nid st, dt, lns) g 0 ND P); [rewrite sys_put; exact Y1|rewrite range_put, Y2, EQ; reflexivity]|].
      split; [rewrite LRP; exact LS|].
      (* the line after the new message is stored (loop B stopped at it), or the message ends the file *)
      split.
      + intros k s e. rewrite sys_put, Y1, alookup_ainsert, LRP. destruct (N.eqb_spec k hb) as [->|NEk].
        * intro X; inversion X; subst s. intros EN _.
          destruct (ssl_ok_facts bs f Hbs _ _ _ OK P) as (_ & EN' & _). rewrite EN' in EN. inversion EN; subst e.
          replace (hb + glen g - 1 + 1) with fo_b by lia. exact NXB.
        * intros X EN D. exact (N1 k s e X EN D).
      + intros k n s. rewrite LRP. unfold sr_put. destruct (s_on st5).
        * intro X. change (alookup k (lru_put SYSLINE_LRU_CAP fo (SF fo_b (s_nid st, dt, lns)) (s_lru st5)) = Some (SF n s)) in X.
          apply lru_put_lookup in X as [[-> E]|[_ X]].
          -- inversion E; subst. intros _. exact NXB.
          -- rewrite Y4 in X. intros D. exact (N2 k n s X D).
        * rewrite Y4. intros X D. exact (N2 _ _ _ X D).
    - (* all_behind *)
      destruct AB as (B1 & B2 & B3). split; [|split].
      + intros a b v. rewrite range_put, Y2. unfold range_insert. destruct (N.ltb_spec hb (hb + glen g)); [|lia].
        intros [IN|IN]; [inversion IN; subst; lia|].
        destruct (In_range_cut _ _ _ _ IN) as (s0 & e0 & v0 & IN0 & [[E _]|[E _]]); inversion E; subst; specialize (B1 _ _ _ IN0); lia.
      + intros k x. unfold sr_put. destruct (s_on st5); [|rewrite Y4; intro X; specialize (B2 _ _ X); lia].
        intro X. change (alookup k (lru_put SYSLINE_LRU_CAP fo (SF fo_b (s_nid st, dt, lns)) (s_lru st5)) = Some x) in X.
        apply lru_put_lookup in X as [[-> _]|[_ X]]; [lia|]. rewrite Y4 in X. specialize (B2 _ _ X). lia.
      + intros k x. rewrite sys_put, Y1, alookup_ainsert. destruct (N.eqb_spec k hb); [intros _; lia|].
        intro X. specialize (B3 _ _ X). lia.
    - (* gate_ok *)
      intros b' g' G' LT. rewrite <- EQ in *.
      destruct (with_offsets_disjoint _ _ _ _ _ _ G G') as [E|[E|E]]; [inversion E; subst; lia|lia|].
      destruct (is_group_pos dated f _ _ G') as (P' & _). lia.
    - (* at_line *)
      destruct AT as (A1 & A2 & A3 & A4). split; [exact A1|]. split; [exact A2|]. split; [|rewrite LRP; exact A4].
      intro L2. specialize (A3 L2).
      destruct A3 as [Z|(b & ST & X)]; [left; exact Z|right]. exists b. unfold stored_at in *. rewrite LRP. auto.
  Qed.

  Theorem sb_gate st fo st' r pf p : gate_pre st fo ->
    c_find_sysline_in_block dated bs f st fo = (st', (r, pf), p) ->
    match r with
    | Found (n, _) => gate_pre st' n /\ fo < n
    | _ => ginv st'
    end.
  Proof.
    intros (GI & AB & GO & AT). unfold c_find_sysline_in_block.
    assert (CSM : exists st0, sr_check_store bs f st fo = (None, st0) /\ ginv st0 /\ all_behind st0 fo /\ at_line st0 fo).
    { destruct (check_store_miss st fo AB) as [E|E]; eexists; (split; [exact E|]);
        (split; [repeat apply ginv_cnt; exact GI|split; [exact AB|exact AT]]). }
    destruct CSM as (st0 & -> & GI0 & AB0' & AT0').
    pose proof AB0' as AB0. pose proof AT0' as AT0.
    destruct (ib_loop_a dated (S (length f)) bs f st0 fo) as [st1 ra] eqn:LA.
    destruct (ib_loop_a_ok _ _ _ _ _ GI0 AT0 LA) as (GI1 & F1 & U1 & MONO1 & MR1 & RA).
    assert (AB1 : forall stx, frame st0 stx -> s_lru stx = s_lru st0 -> all_behind stx fo).
    { intros stx (E1 & E2 & _) E3. destruct AB0 as (B1 & B2 & B3). split; [rewrite E2; exact B1|].
      split; [rewrite E3; exact B2|rewrite E1; exact B3]. }
    destruct ra as [dt ln fo1'|b|x].
    - destruct RA as (hb & he & LE & OK & -> & ST & DD & UB & RGH).
      destruct OK as [SP CH].
      destruct (is_sysline_last bs f (dt, [sl_parts ln])) eqn:LAST.
      + (* the head line is the last line of the file *)
        assert (HE : he + 1 = lenN f).
        { unfold is_sysline_last, sysline_fo_end in LAST. cbn [rev app snd] in LAST.
          destruct (line_ok_facts bs f _ _ _ (conj SP CH)) as (_ & EN & _). rewrite EN in LAST.
          unfold fileoffset_last in LAST. destruct (N.eqb_spec (lenN f) 0); [discriminate|].
          apply N.eqb_eq in LAST. lia. }
        destruct (sr_store_found bs st1 fo (he + 1) dt [ln]) as [[st2 r2] p2] eqn:SF.
        intro H; injection H as <- <- <- <-.
        assert (AT1 : at_line st1 (he + 1)).
        { split; [lia|]. split; [left; exact HE|]. split; [intro X; lia|exact RGH]. }
        assert (C1 : consec [ln] hb (he + 1)) by (cbn; exists he; split; [split; assumption|reflexivity]).
        assert (N1 : [ln] <> []) by discriminate.
        assert (UE : undated_between (he + 1) (he + 1)) by (intros x X1 X2; lia).
        destruct (store_gate st1 fo hb he dt [ln] (he + 1) _ _ _ GI1 (AB1 _ F1 U1) GO LE UB SP DD
                    C1 N1 (N.le_refl _) UE (or_introl HE) AT1 (or_introl HE) SF) as (GP & LT & s & ->).
        split; assumption.
      + destruct (ib_loop_b dated (S (length f)) bs f st1 (he + 1) [ln]) as [st2 rb] eqn:LBQ.
        assert (AT1 : at_line st1 (he + 1)).
        { pose proof SP as (_ & EL & _). split; [lia|]. split; [|split].
          - destruct (N.eq_dec (he + 1) (lenN f)); [left; assumption|right]. apply (span_next_beg f hb he SP). lia.
          - intros _. right. exists hb. split; [exact ST|]. replace (he + 1 - 1) with he by lia. split; [exact SP|lia].
          - exact RGH. }
        assert (C1 : consec [ln] hb (he + 1)) by (cbn; exists he; split; [split; assumption|reflexivity]).
        assert (N1 : [ln] <> []) by discriminate.
        destruct (ib_loop_b_ok _ _ _ _ hb _ _ GI1 AT1 C1 N1 LBQ) as (GI2 & F2 & U2 & MONO2 & MR2 & RB).
        destruct rb as [[[fo_b lns]|]| | |]; try contradiction.
        * destruct RB as (CC & NE & LE2 & UB2 & STOP & AT2 & NX2).
          destruct (sr_store_found bs st2 fo fo_b dt lns) as [[st3 r3] p3] eqn:SF.
          intro H; injection H as <- <- <- <-.
          destruct (store_gate st2 fo hb he dt lns fo_b _ _ _ GI2
                      (AB1 _ (frame_trans _ _ _ F1 F2) (eq_trans U2 U1)) GO LE UB SP DD CC NE LE2 UB2 STOP AT2 NX2 SF)
            as (GP & LT & s & ->).
          split; assumption.
        * intro H; injection H as <- <- <- <-. exact GI2.
        * intro H; injection H as <- <- <- <-. exact GI2.
    - intro H; injection H as <- <- <- <-. exact GI1.
    - subst x. intro H; injection H as <- <- <- <-. exact GI1.
  Qed.

  (* ---------------------------------------------------------------- the whole pattern *)

  Lemma c_gate_sys_ok k : forall st fo, gate_pre st fo -> ginv (c_gate_sys dated k bs f st fo).
  Proof.
    induction k as [|k IH]; intros st fo GP; cbn [c_gate_sys]; [destruct GP; assumption|].
    destruct (c_find_sysline_in_block dated bs f st fo) as [[st' [r pf]] p] eqn:C.
    pose proof (sb_gate _ _ _ _ _ _ GP C) as R.
    destruct r as [[n s]| | |]; [apply IH; destruct R; assumption|exact R|exact R|exact R].
  Qed.

  Lemma set_ext_id l : lr_set_ext (l_ext l) l = l.
  Proof. destruct l; reflexivity. Qed.

  Lemma c_gate_lines_ok k : forall l fo, LI l -> lru_stored l ->
    fo <= lenN f -> (fo = lenN f \/ line_beg f fo = fo) -> (fo < lenN f -> pred_stored l fo) -> RG l fo ->
    LI (c_gate_lines k bs f l fo) /\ lru_stored (c_gate_lines k bs f l fo) /\
    (forall x, stored_at l x -> stored_at (c_gate_lines k bs f l fo) x) /\
    (forall y, RG l y -> RG (c_gate_lines k bs f l fo) y).
  Proof.
    induction k as [|k IH]; intros l fo I S A1 A2 A3 A4; cbn [c_gate_lines]; [auto|].
    destruct (c_find_line_in_block bs f l fo) as [[l' [r part]] p] eqn:C.
    assert (C' : c_find_line_in_block bs f (lr_set_ext (l_ext l) l) fo = (l', (r, part), p)) by (rewrite set_ext_id; exact C).
    destruct (N.eq_dec fo (lenN f)) as [EOF|NEOF].
    - (* at the end of the file nothing changes but the counters and the order of the LRU list *)
      rewrite EOF in C'. destruct (H_eof _ _ _ _ _ _ I S C') as (-> & _ & I' & S' & M & MR). auto.
    - assert (L : fo < lenN f) by lia.
      assert (LB : line_beg f fo = fo) by (destruct A2; [contradiction|assumption]).
      destruct (H_seq _ _ _ _ _ _ _ I S L LB (A3 L) A4 C') as (I' & S' & MONO & MR & [(s & -> & OK & ST & RGN)|(-> & _)]).
      + destruct OK as [SP CH]. pose proof SP as (_ & EL & _).
        assert (B2 : line_end f fo + 1 = lenN f \/ line_beg f (line_end f fo + 1) = line_end f fo + 1).
        { destruct (N.eq_dec (line_end f fo + 1) (lenN f)); [left; assumption|right]. apply (span_next_beg f fo _ SP). lia. }
        assert (B3 : line_end f fo + 1 < lenN f -> pred_stored l' (line_end f fo + 1)).
        { intros _. eapply stored_pred; [exact Hbs|exact (LI_inv0 _ I')|exact ST|exact SP]. }
        destruct (IH l' (line_end f fo + 1) I' S' ltac:(lia) B2 B3 RGN) as (A & B & Cc & D).
        split; [exact A|]. split; [exact B|]. split; [intros x X; apply Cc; apply MONO; exact X|intros y Y; apply D; apply MR; exact Y].
      + auto.
  Qed.

  (* the whole block-zero pattern, from any state in which nothing is cached beyond offset 0 *)
  Theorem c_gate_ok k1 k2 st0 : gate_pre st0 0 -> ginv (c_gate dated k1 k2 bs f st0).
  Proof.
    intros (GI & AB & GO & (A1 & A2 & A3 & A4)). unfold c_gate. apply c_gate_sys_ok.
    pose proof GI as ((I & _) & _ & S & _).
    destruct (c_gate_lines_ok k1 (s_lr st0) 0 (si_lr _ _ _ _ I) S A1 A2 (fun _ => or_introl eq_refl) A4) as (I1 & S1 & M1 & MR1).
    split; [apply ginv_lr; assumption|]. split; [exact AB|]. split; [exact GO|].
    split; [exact A1|]. split; [exact A2|]. split; [intros _; left; reflexivity|apply MR1; exact A4].
  Qed.

  (* a reader on which nothing was called yet *)
  Lemma gate_pre_init_b b0 : LI (lr_init_b b0) -> RG (lr_init_b b0) 0 -> gate_pre (sr_init_b b0) 0.
  Proof.
    intros I0 G0.
    split; [|split; [|split]].
    - split; [split; [split; cbn; intros; try discriminate; try contradiction; exact I0|exact Logic.I]|].
      split; [intros a b v []|]. split; [apply lru_stored_init_b|]. split; intros; discriminate.
    - split; [intros a b v []|]. split; intros k x X; discriminate.
    - intros b g G LT. lia.
    - split; [lia|]. split; [right; apply (first_line_beg bs f Hbs); reflexivity|]. split; [intros _; left; reflexivity|exact G0].
  Qed.

  Lemma gate_pre_init stream : LI (lr_init_k stream) -> RG (lr_init_k stream) 0 -> gate_pre (sr_init_k stream) 0.
  Proof. apply gate_pre_init_b. Qed.
End GateSys.

(* ---------------------------------------------------------------- a file whose blocks can all be read *)

Section GatePlain.
  Variable dated : list N -> option Z.
  Variable bs : N.
  Variable f : file.
  Hypothesis Hbs : 0 < bs.
  Hypothesis Hpart : forall b z, b < lenN f -> line_beg f b = b ->
    dated (slice f b (b + 1)) = Some z -> dated (slice f b (line_end f b + 1)) = Some z.

  Local Notation lr_inv := (lr_inv bs f).
  Definition rg_any (l : lr_state) (fo : N) : Prop := True.

  Lemma plain_seq : forall l ex fo l' r part p, lr_inv l -> lru_stored l -> fo < lenN f -> line_beg f fo = fo ->
    pred_stored l fo -> rg_any l fo -> c_find_line_in_block bs f (lr_set_ext ex l) fo = (l', (r, part), p) ->
    lr_inv l' /\ lru_stored l' /\ (forall x, stored_at l x -> stored_at l' x) /\ (forall y, rg_any l y -> rg_any l' y) /\
    ((exists s, r = Found (line_end f fo + 1, s) /\ sline_ok bs f s fo (line_end f fo) /\ stored_at l' fo /\
                rg_any l' (line_end f fo + 1)) \/
     (r = Done /\ fo + 1 < lenN f /\
      match part with
      | None => True
      | Some s => bytes_of bs f (sl_parts s) = slice f fo (fo + 1) /\ line_fo_begin bs (sl_parts s) = Some fo
      end)).
  Proof.
    intros l ex fo l' r part p I S L LB PS _ C.
    assert (S0 : lru_stored (lr_set_ext ex l)) by (apply (lru_stored_same l); auto).
    destruct (lb_seq bs f Hbs _ _ _ _ _ _ (lr_set_ext_inv bs f ex _ I) S0 L LB PS C) as (I' & S' & MONO & R).
    split; [exact I'|]. split; [exact S'|]. split; [exact MONO|]. split; [intros; exact Logic.I|].
    destruct R as [(s & A & B & Cc)|R]; [left; exists s; split; [exact A|]; split; [exact B|]; split; [exact Cc|exact Logic.I]|right; exact R].
  Qed.

  Lemma plain_eof : forall l ex l' r part p, lr_inv l -> lru_stored l ->
    c_find_line_in_block bs f (lr_set_ext ex l) (lenN f) = (l', (r, part), p) ->
    r = Done /\ part = None /\ lr_inv l' /\ lru_stored l' /\ (forall x, stored_at l x -> stored_at l' x) /\
    (forall y, rg_any l y -> rg_any l' y).
  Proof.
    intros l ex l' r part p I S C.
    assert (S0 : lru_stored (lr_set_ext ex l)) by (apply (lru_stored_same l); auto).
    destruct (lb_eof bs f Hbs _ _ _ _ _ (lr_set_ext_inv bs f ex _ I) S0 C) as (A & B & I' & S' & M).
    split; [exact A|]. split; [exact B|]. split; [exact I'|]. split; [exact S'|]. split; [exact M|intros; exact Logic.I].
  Qed.

  Theorem c_gate_ok_plain k1 k2 : @ginv dated bs f lr_inv (c_gate dated k1 k2 bs f sr_init).
  Proof.
    apply (c_gate_ok dated bs f Hbs Hpart rg_any (fun l I => proj1 I) plain_seq plain_eof k1 k2 sr_init).
    apply (gate_pre_init dated bs f Hbs rg_any false); [apply lr_inv_init|exact Logic.I].
  Qed.
End GatePlain.

(* after block-zero analysis (any number of in-block line finds and in-block sysline finds from 0, on a
   fresh reader) every later operation sequence without drops is answered as the spec says, and the
   stage driver emits exactly the spec groups for every drop plan *)
Theorem gate_then_refines dated bs f k1 k2 ops plan : 0 < bs ->
  (forall b z, b < lenN f -> line_beg f b = b ->
     dated (slice f b (b + 1)) = Some z -> dated (slice f b (line_end f b + 1)) = Some z) ->
  Forall op_nodrop ops ->
  let st0 := (lr_init, c_gate dated k1 k2 bs f sr_init) in
  map (obs_cres bs f) (snd (c_run dated bs f st0 ops)) = map (spec_cobs dated f) ops /\
  obs_stream bs f (rmap (snd (c_stream dated bs f plan (snd (fst (c_run dated bs f st0 ops)))))) =
  Some (syslines dated f).
Proof.
  intros H HP ND st0.
  destruct (c_gate_ok_plain dated bs f H HP k1 k2) as (RI & NDG & _).
  assert (CI : cinv dated bs f st0) by (split; [apply lr_inv_init|exact RI]).
  destruct (c_run dated bs f st0 ops) as [st xs] eqn:R.
  destruct (c_run_nodrop dated bs f H ops _ _ _ CI NDG ND R) as ([_ RI'] & NDG' & M & _).
  cbn [fst snd]. split; [exact M|].
  destruct (c_stream dated bs f plan (snd st)) as [st' r] eqn:C.
  destruct (c_stream_ok dated bs f H _ _ _ _ RI' C) as (_ & [E|E] & NP); [|exact E].
  exfalso. apply (NP NDG'). exact E.
Qed.
