(* Proofs/ContainersTar.v — tar (ustar) format: the reference entry parser (transcription of the tar
   crate's next_entry_raw / Header accessors, Model/Containers.tar_ref_list) inverts the ustar encoder
   of Spec/ContainersSpec.v, for every list of entries: each member comes back with its path, type,
   size, mtime, the position of its data and exactly its data bytes — no padding, nothing of its
   neighbours. *)
From Coq Require Import String Lia ZArith ZifyN ZifyNat ZifyBool.
From S4.Base Require Import Bytes.
From S4.Spec Require Import AssembleSpec ContainersSpec.
From S4.Model Require Import Assemble Containers.
Open Scope N_scope.
Ltac Zify.zify_post_hook ::= Z.div_mod_to_equations.

(* ---------------------------------------------------------------------------------- list facts *)
Lemma sub_bytes_app_l (a r : bytes) k : k = length a -> sub_bytes (a ++ r) 0 k = a.
Proof. intros ->. unfold sub_bytes. cbn [skipn]. rewrite firstn_app, Nat.sub_diag, firstn_all, firstn_O, app_nil_r. reflexivity. Qed.

Lemma sub_bytes_skip (a r : bytes) n k : n = length a -> sub_bytes (a ++ r) n k = sub_bytes r 0 k.
Proof. intros ->. unfold sub_bytes. rewrite skipn_app, Nat.sub_diag, skipn_all. reflexivity. Qed.

Lemma sub_bytes_shift (a r : bytes) n m k : n = (length a + m)%nat -> sub_bytes (a ++ r) n k = sub_bytes r m k.
Proof.
  intros ->. unfold sub_bytes. rewrite skipn_app.
  rewrite skipn_all2 by lia. replace (length a + m - length a)%nat with m by lia. reflexivity.
Qed.

Lemma nth_shift (a r : bytes) n m : n = (length a + m)%nat -> byte_at (a ++ r) n = byte_at r m.
Proof. intros ->. unfold byte_at. rewrite app_nth2 by lia. f_equal. lia. Qed.

Lemma zeros_length k : length (zeros k) = k.
Proof. apply repeat_length. Qed.

Lemma oct_digits_length w v : length (oct_digits w v) = w.
Proof. revert v. induction w as [|w IH]; intro v; [reflexivity|]. cbn [oct_digits]. rewrite app_length, IH. cbn. lia. Qed.

Lemma oct_field_length w v : (1 <= w)%nat -> length (oct_field w v) = w.
Proof. intro H. unfold oct_field. rewrite app_length, oct_digits_length. cbn. lia. Qed.

Lemma field_length w s : (length s <= w)%nat -> length (field w s) = w.
Proof. intro H. unfold field. rewrite app_length, firstn_length, zeros_length. lia. Qed.

(* ---------------------------------------------------------------------------------- octal fields *)
Lemma oct_digits_are_digits w : forall v, Forall (fun b => 48 <= b <= 55) (oct_digits w v).
Proof.
  induction w as [|w IH]; intro v; [constructor|]. cbn [oct_digits]. apply Forall_app. split; [apply IH|].
  constructor; [|constructor]. lia.
Qed.

Lemma oct_value_app l : forall acc b, oct_value acc (l ++ [b]) =
  match oct_value acc l with
  | Some a => if (48 <=? b) && (b <=? 55) then Some (8 * a + (b - 48)) else None
  | None => None
  end.
Proof.
  induction l as [|x l IH]; intros acc b.
  - cbn. destruct ((48 <=? b) && (b <=? 55)); reflexivity.
  - cbn [app oct_value]. destruct ((48 <=? x) && (x <=? 55)); [apply IH|reflexivity].
Qed.

Lemma oct_value_digits w : forall v, v < 8 ^ N.of_nat w -> oct_value 0 (oct_digits w v) = Some v.
Proof.
  induction w as [|w IH]; intros v Hv.
  - cbn in *. f_equal. lia.
  - cbn [oct_digits]. rewrite oct_value_app.
    assert (Hq : v / 8 < 8 ^ N.of_nat w).
    { rewrite Nat2N.inj_succ, N.pow_succ_r' in Hv. apply N.div_lt_upper_bound; lia. }
    rewrite (IH _ Hq).
    replace ((48 <=? 48 + v mod 8) && (48 + v mod 8 <=? 55)) with true by (symmetry; apply andb_true_iff; split; apply N.leb_le; lia).
    f_equal. lia.
Qed.

Lemma truncate_nul_nonzero l r : Forall (fun b => b <> 0) l -> truncate_nul (l ++ 0 :: r) = l.
Proof.
  induction l as [|x l IH]; intro H; cbn [app truncate_nul].
  - reflexivity.
  - inversion H; subst. replace (x =? 0) with false by (symmetry; apply N.eqb_neq; assumption). rewrite IH by assumption. reflexivity.
Qed.

Lemma truncate_nul_all l : Forall (fun b => b <> 0) l -> truncate_nul l = l.
Proof.
  induction l as [|x l IH]; intro H; cbn [truncate_nul]; [reflexivity|].
  inversion H; subst. replace (x =? 0) with false by (symmetry; apply N.eqb_neq; assumption). rewrite IH by assumption. reflexivity.
Qed.

Lemma trim_left_digit l : match l with b :: _ => is_ws b = false | [] => True end -> trim_left l = l.
Proof. destruct l as [|b l]; intro H; [reflexivity|]. cbn [trim_left]. rewrite H. reflexivity. Qed.

Lemma digit_not_ws b : 48 <= b <= 55 -> is_ws b = false.
Proof. intro H. unfold is_ws. apply orb_false_iff. split; [apply N.eqb_neq; lia|]. apply andb_false_iff. right. apply N.leb_gt. lia. Qed.

Lemma trim_digits l : l <> [] -> Forall (fun b => 48 <= b <= 55) l -> trim l = l.
Proof.
  intros Hne Hd. unfold trim.
  rewrite (trim_left_digit l).
  - rewrite (trim_left_digit (rev l)); [apply rev_involutive|].
    destruct (rev l) as [|b r] eqn:E; [trivial|]. apply digit_not_ws.
    rewrite Forall_forall in Hd. apply Hd. apply in_rev. rewrite E. left. reflexivity.
  - destruct l as [|b r]; [trivial|]. apply digit_not_ws. inversion Hd. assumption.
Qed.

Lemma octal_dispatch (fld : bytes) :
  trim (truncate_nul fld) <> [] -> hd 0 (trim (truncate_nul fld)) <> 43 ->
  octal_from fld = oct_value 0 (trim (truncate_nul fld)).
Proof.
  unfold octal_from. destruct (trim (truncate_nul fld)) as [|b r]; [congruence|]. cbn [hd]. intros _ H.
  destruct b as [|p]; [reflexivity|].
  do 6 (try (destruct p as [p|p|]; try reflexivity)).
  all: try (exfalso; apply H; reflexivity).
Qed.

(* a numeric field as the encoder writes it parses back to its value *)
Lemma octal_from_digits w v tail : (1 <= w)%nat -> v < 8 ^ N.of_nat w ->
  octal_from (oct_digits w v ++ 0 :: tail) = Some v.
Proof.
  intros Hw Hv.
  pose proof (oct_digits_are_digits w v) as Hd.
  assert (Hne : oct_digits w v <> []).
  { intro E. apply (f_equal (@length N)) in E. rewrite oct_digits_length in E. cbn in E. lia. }
  assert (Ht : trim (truncate_nul (oct_digits w v ++ 0 :: tail)) = oct_digits w v).
  { rewrite truncate_nul_nonzero by (eapply Forall_impl; [|exact Hd]; cbv beta; intros; lia).
    apply trim_digits; assumption. }
  rewrite octal_dispatch; rewrite Ht.
  - apply oct_value_digits. exact Hv.
  - exact Hne.
  - destruct (oct_digits w v) as [|b r]; [congruence|]. cbn [hd]. inversion Hd; subst. lia.
Qed.

(* ------------------------------------------------------------------ the header as a list of fields *)
Definition total (l : list bytes) : nat := length (concat l).
Lemma total_sum l : total l = list_sum (map (@length N) l).
Proof. unfold total. induction l as [|x l IH]; [reflexivity|]. cbn [concat map list_sum]. rewrite app_length, IH. reflexivity. Qed.

Lemma sub_concat_range (fs : list bytes) j k :
  sub_bytes (concat fs) (total (firstn j fs)) (total (firstn k (skipn j fs))) = concat (firstn k (skipn j fs)).
Proof.
  rewrite <- (firstn_skipn j fs) at 1. rewrite concat_app.
  rewrite sub_bytes_skip by reflexivity.
  rewrite <- (firstn_skipn k (skipn j fs)) at 1. rewrite concat_app.
  apply sub_bytes_app_l. reflexivity.
Qed.

Definition hdr_fields (e : tar_ent) : list bytes :=
  [field 100 (te_name e); oct_field 8 (te_mode e); oct_field 8 (te_uid e); oct_field 8 (te_gid e);
   oct_field 12 (te_size e); oct_field 12 (te_mtime e); tar_ck_field (tar_cksum e); [te_type e];
   field 100 (te_link e); TMAGIC; zeros 32; zeros 32; zeros 8; zeros 8; field 155 (te_prefix e); zeros 12].
Definition HDR_LENS : list nat := [100; 8; 8; 8; 12; 12; 8; 1; 100; 8; 32; 32; 8; 8; 155; 12]%nat.

Lemma tar_header_concat e : tar_header e = concat (hdr_fields e).
Proof.
  unfold tar_header, tar_hdr_pre, tar_hdr_post, hdr_fields. cbn [concat].
  rewrite app_nil_r. repeat rewrite <- app_assoc. reflexivity.
Qed.

Lemma no_nul_forall l : no_nul l -> Forall (fun b => b <> 0) l.
Proof. intro H. apply Forall_forall. intros x Hx E. subst x. exact (H Hx). Qed.

Lemma nth_firstn_lt' (h : bytes) : forall n t, (t < n)%nat -> nth t (firstn n h) 0 = nth t h 0.
Proof.
  induction h as [|x h IH]; intros n t Ht.
  - rewrite firstn_nil. reflexivity.
  - destruct n as [|n]; [lia|]. destruct t as [|t]; [reflexivity|]. cbn [firstn nth]. apply IH. lia.
Qed.
Lemma nth_sub (h : bytes) : forall a n t, (t < n)%nat -> nth t (firstn n (skipn a h)) 0 = nth (a + t) h 0.
Proof.
  induction h as [|x h IH]; intros a n t Ht.
  - rewrite skipn_nil, firstn_nil. destruct t; destruct (a + _)%nat; reflexivity.
  - destruct a as [|a]; [cbn [skipn Nat.add]; apply nth_firstn_lt'; exact Ht|].
    cbn [skipn Nat.add nth]. apply IH. exact Ht.
Qed.

Section Header.
  Variable e : tar_ent.
  Hypothesis Hok : tar_ent_ok e.

  Lemma hdr_lens : map (@length N) (hdr_fields e) = HDR_LENS.
  Proof.
    destruct Hok as (_ & Hn & _ & _ & Hp & _ & _ & Hl & _).
    unfold hdr_fields, HDR_LENS. cbn [map].
    rewrite !field_length by assumption. rewrite !oct_field_length by lia. rewrite !zeros_length.
    unfold tar_ck_field. rewrite app_length, oct_digits_length. reflexivity.
  Qed.

  Lemma header_length : length (tar_header e) = 512%nat.
  Proof. rewrite tar_header_concat. change (length (concat (hdr_fields e))) with (total (hdr_fields e)). rewrite total_sum, hdr_lens. reflexivity. Qed.

  (* bytes [a, a+n) of the header are the fields j .. j+k-1 *)
  Lemma hdr_sub j k a n :
    a = list_sum (firstn j HDR_LENS) -> n = list_sum (firstn k (skipn j HDR_LENS)) ->
    sub_bytes (tar_header e) a n = concat (firstn k (skipn j (hdr_fields e))).
  Proof.
    intros -> ->. rewrite tar_header_concat, <- sub_concat_range. f_equal.
    - symmetry. rewrite total_sum, <- firstn_map. do 2 f_equal. exact hdr_lens.
    - symmetry. rewrite total_sum, <- firstn_map, <- skipn_map. do 3 f_equal. exact hdr_lens.
  Qed.

  Lemma hdr_pre : sub_bytes (tar_header e) 0 148 = tar_hdr_pre e.
  Proof.
    rewrite (hdr_sub 0 6) by reflexivity. unfold tar_hdr_pre, hdr_fields. cbn [skipn firstn concat].
    rewrite app_nil_r. repeat rewrite <- app_assoc. reflexivity.
  Qed.
  Lemma hdr_post : sub_bytes (tar_header e) 156 356 = tar_hdr_post e.
  Proof.
    rewrite (hdr_sub 7 9) by reflexivity. unfold tar_hdr_post, hdr_fields. cbn [skipn firstn concat].
    rewrite app_nil_r. repeat rewrite <- app_assoc. reflexivity.
  Qed.
  Lemma hdr_field j a n : a = list_sum (firstn j HDR_LENS) -> n = nth j HDR_LENS 0%nat -> (j < 16)%nat ->
    sub_bytes (tar_header e) a n = nth j (hdr_fields e) [].
  Proof.
    intros Ha Hn Hj. rewrite (hdr_sub j 1 a n Ha).
    - do 16 (destruct j as [|j]; [cbn [skipn firstn concat hdr_fields nth]; apply app_nil_r|]). lia.
    - subst n. do 16 (destruct j as [|j]; [reflexivity|]). lia.
  Qed.

  Lemma byte_at_sub (h : bytes) i : byte_at h i = byte_at (sub_bytes h i 1) 0.
  Proof.
    unfold byte_at, sub_bytes. revert h. induction i as [|i IH]; intro h.
    - destruct h; reflexivity.
    - destruct h as [|x h]; [reflexivity|]. cbn [nth skipn]. apply IH.
  Qed.
  Lemma byte_at_field j a t : a = list_sum (firstn j HDR_LENS) -> (j < 16)%nat -> (t < nth j HDR_LENS 0)%nat ->
    byte_at (tar_header e) (a + t) = byte_at (nth j (hdr_fields e) []) t.
  Proof.
    intros Ha Hj Ht. rewrite <- (hdr_field j a (nth j HDR_LENS 0%nat) Ha eq_refl Hj).
    unfold byte_at, sub_bytes.
    symmetry. apply nth_sub. exact Ht.
  Qed.
End Header.

(* ------------------------------------------------------------------ what the parser reads in a header *)
Definition tar_type_plain (t : N) : Prop := t <> 76 /\ t <> 75 /\ t <> 120 /\ t <> 83.   (* not L K x S *)

Lemma sum_bytes_app a b : sum_bytes (a ++ b) = sum_bytes a + sum_bytes b.
Proof. unfold sum_bytes. induction a as [|x a IH]; cbn [app fold_right]; [reflexivity|]. rewrite IH. lia. Qed.
Lemma sum_bytes_bound l : all_bytes l -> sum_bytes l <= 255 * N.of_nat (length l).
Proof.
  unfold all_bytes, sum_bytes. induction 1 as [|x l Hx Hl IH]; cbn [fold_right length]; [lia|]. lia.
Qed.
Lemma all_bytes_app a b : all_bytes a -> all_bytes b -> all_bytes (a ++ b).
Proof. unfold all_bytes. intros. apply Forall_app. split; assumption. Qed.
Lemma all_bytes_zeros k : all_bytes (zeros k).
Proof. unfold all_bytes, zeros. apply Forall_forall. intros x Hx. apply repeat_spec in Hx. subst. lia. Qed.
Lemma all_bytes_firstn k l : all_bytes l -> all_bytes (firstn k l).
Proof.
  unfold all_bytes. intro H. revert k. induction H as [|x l Hx Hl IH]; intro k.
  - rewrite firstn_nil. constructor.
  - destruct k; [constructor|]. cbn [firstn]. constructor; [exact Hx|apply IH].
Qed.
Lemma all_bytes_field w s : all_bytes s -> all_bytes (field w s).
Proof. intro H. unfold field. apply all_bytes_app; [apply all_bytes_firstn; exact H | apply all_bytes_zeros]. Qed.
Lemma all_bytes_oct w v : all_bytes (oct_field w v).
Proof.
  unfold oct_field. apply all_bytes_app.
  - unfold all_bytes. eapply Forall_impl; [|apply oct_digits_are_digits]. cbv beta. intros; lia.
  - repeat constructor.
Qed.

Section Header2.
  Variable e : tar_ent.
  Hypothesis Hok : tar_ent_ok e.

  Lemma pre_all_bytes : all_bytes (tar_hdr_pre e) /\ length (tar_hdr_pre e) = 148%nat.
  Proof.
    destruct Hok as (_ & Hn & _ & Hnb & _).
    split.
    - unfold tar_hdr_pre. Opaque field oct_field. repeat apply all_bytes_app; try apply all_bytes_oct. Transparent field oct_field.
      apply all_bytes_field; exact Hnb.
    - rewrite <- (hdr_pre e Hok). unfold sub_bytes. rewrite firstn_length. cbn [skipn]. rewrite header_length by exact Hok. reflexivity.
  Qed.
  Lemma post_all_bytes : all_bytes (tar_hdr_post e) /\ length (tar_hdr_post e) = 356%nat.
  Proof.
    destruct Hok as (_ & _ & _ & _ & _ & _ & Hpb & _ & Hlb & Ht & _).
    split.
    - unfold tar_hdr_post. Opaque field oct_field zeros. repeat apply all_bytes_app; try apply all_bytes_zeros; try (apply all_bytes_field; assumption).
      Transparent field oct_field zeros.
      + repeat constructor. exact Ht.
      + unfold TMAGIC. repeat constructor; lia.
    - rewrite <- (hdr_post e Hok). unfold sub_bytes. rewrite firstn_length, skipn_length, header_length by exact Hok. reflexivity.
  Qed.

  Lemma cksum_small : tar_cksum e < 8 ^ 6.
  Proof.
    unfold tar_cksum. destruct pre_all_bytes as [Ha La]. destruct post_all_bytes as [Hb Lb].
    pose proof (sum_bytes_bound _ Ha). pose proof (sum_bytes_bound _ Hb). rewrite La in *. rewrite Lb in *.
    change (8 ^ 6) with 262144. lia.
  Qed.

  Lemma hdr_cksum_ok :
    sum_bytes (sub_bytes (tar_header e) 0 148) + sum_bytes (sub_bytes (tar_header e) 156 356) + 8 * 32 = tar_cksum e
    /\ octal_from (sub_bytes (tar_header e) 148 8) = Some (tar_cksum e).
  Proof.
    rewrite hdr_pre, hdr_post by exact Hok. split; [unfold tar_cksum; lia|].
    rewrite (hdr_field e Hok 6 148 8) by (reflexivity || lia). cbn [nth hdr_fields].
    unfold tar_ck_field. apply octal_from_digits; [lia|]. exact cksum_small.
  Qed.

  Lemma hdr_size : octal_from (sub_bytes (tar_header e) 124 12) = Some (te_size e) /\ byte_at (tar_header e) 124 < 128.
  Proof.
    destruct Hok as (_ & _ & _ & _ & _ & _ & _ & _ & _ & _ & _ & _ & _ & Hs & _).
    split.
    - rewrite (hdr_field e Hok 4 124 12) by (reflexivity || lia). cbn [nth hdr_fields].
      unfold oct_field. apply octal_from_digits; [cbn; lia|]. exact Hs.
    - change 124%nat with (124 + 0)%nat. rewrite (byte_at_field e Hok 4 124 0) by (reflexivity || (cbn; lia)). cbn [nth hdr_fields].
      unfold oct_field, byte_at. change (12 - 1)%nat with 11%nat.
      pose proof (oct_digits_are_digits 11 (te_size e)) as Hd.
      destruct (oct_digits 11 (te_size e)) as [|b r] eqn:E.
      + apply (f_equal (@length N)) in E. rewrite oct_digits_length in E. discriminate.
      + cbn [app nth]. inversion Hd; subst. lia.
  Qed.

  Lemma hdr_mtime : octal_from (sub_bytes (tar_header e) 136 12) = Some (te_mtime e) /\ byte_at (tar_header e) 136 < 128.
  Proof.
    destruct Hok as (_ & _ & _ & _ & _ & _ & _ & _ & _ & _ & _ & _ & _ & _ & Hm & _).
    split.
    - rewrite (hdr_field e Hok 5 136 12) by (reflexivity || lia). cbn [nth hdr_fields].
      unfold oct_field. apply octal_from_digits; [cbn; lia|]. exact Hm.
    - change 136%nat with (136 + 0)%nat. rewrite (byte_at_field e Hok 5 136 0) by (reflexivity || (cbn; lia)). cbn [nth hdr_fields].
      unfold oct_field, byte_at. change (12 - 1)%nat with 11%nat.
      pose proof (oct_digits_are_digits 11 (te_mtime e)) as Hd.
      destruct (oct_digits 11 (te_mtime e)) as [|b r] eqn:E.
      + apply (f_equal (@length N)) in E. rewrite oct_digits_length in E. discriminate.
      + cbn [app nth]. inversion Hd; subst. lia.
  Qed.

  Lemma hdr_type : byte_at (tar_header e) 156 = te_type e.
  Proof. change 156%nat with (156 + 0)%nat. rewrite (byte_at_field e Hok 7 156 0) by (reflexivity || (cbn; lia)). reflexivity. Qed.

  Lemma truncate_field w s : (length s <= w)%nat -> no_nul s -> truncate_nul (field w s) = s.
  Proof.
    intros Hl Hn. unfold field. rewrite firstn_all2 by exact Hl.
    destruct (w - length s)%nat as [|k] eqn:E.
    - cbn [zeros repeat]. rewrite app_nil_r. apply truncate_nul_all. apply no_nul_forall. exact Hn.
    - cbn [zeros repeat]. apply truncate_nul_nonzero. apply no_nul_forall. exact Hn.
  Qed.

  Lemma hdr_path_ok : hdr_path (tar_header e) = tar_path e.
  Proof.
    destruct Hok as (_ & Hn & Hnn & _ & Hp & Hpn & _).
    unfold hdr_path, is_ustar.
    rewrite (hdr_field e Hok 9 257 8) by (reflexivity || lia). cbn [nth hdr_fields]. rewrite beqb_refl.
    rewrite (hdr_field e Hok 0 0 100) by (reflexivity || lia). cbn [nth hdr_fields].
    rewrite (hdr_field e Hok 14 345 155) by (reflexivity || lia). cbn [nth hdr_fields].
    rewrite !truncate_field by assumption.
    unfold tar_path. destruct (te_prefix e); reflexivity.
  Qed.

  Lemma header_not_zero : forallb (fun b => b =? 0) (tar_header e) = false.
  Proof.
    unfold tar_header, tar_hdr_post. rewrite !forallb_app.
    replace (forallb (fun b => b =? 0) TMAGIC) with false by reflexivity.
    cbn [andb]. rewrite !andb_false_r. reflexivity.
  Qed.
End Header2.

(* ------------------------------------------------------------------ one entry, then all of them *)
Definition ritem_of (pos : nat) (e : tar_ent) : tar_ritem :=
  RItem (tar_path e) (te_type e) (te_size e) (Some (te_mtime e)) (N.of_nat (pos + 512)) (te_data e).
Fixpoint ritems_from (pos : nat) (es : list tar_ent) : list tar_ritem :=
  match es with
  | [] => []
  | e :: r => ritem_of pos e :: ritems_from (pos + length (tar_member_bytes e)) r
  end.
Definition tar_ent_plain (e : tar_ent) : Prop := tar_ent_ok e /\ tar_type_plain (te_type e).

Lemma skipn_app_exact {A} (a b : list A) : skipn (length a) (a ++ b) = b.
Proof. rewrite skipn_app, Nat.sub_diag, skipn_all. reflexivity. Qed.

Lemma member_length e : tar_ent_ok e ->
  length (tar_member_bytes e) = (512 + N.to_nat ((te_size e + 511) / 512 * 512))%nat.
Proof.
  intro Hok. unfold tar_member_bytes. rewrite !app_length, header_length by exact Hok. rewrite zeros_length.
  destruct Hok as (_ & _ & _ & _ & _ & _ & _ & _ & _ & _ & _ & _ & _ & _ & _ & Hd & _).
  unfold blen in Hd. unfold pad512. rewrite <- Hd. lia.
Qed.

Lemma ref_step e pre rest fuel : tar_ent_plain e ->
  tar_ref_entries (S fuel) (pre ++ tar_member_bytes e ++ rest) (length pre)
  = ritem_of (length pre) e
    :: tar_ref_entries fuel (pre ++ tar_member_bytes e ++ rest) (length pre + length (tar_member_bytes e)).
Proof.
  intros [Hok (T1 & T2 & T3 & T4)].
  cbn [tar_ref_entries]. rewrite skipn_app_exact.
  assert (HX : tar_member_bytes e ++ rest = tar_header e ++ (te_data e ++ zeros (pad512 (length (te_data e))) ++ rest)).
  { unfold tar_member_bytes. repeat rewrite <- app_assoc. reflexivity. }
  assert (HlenX : (512 <= length (tar_member_bytes e ++ rest))%nat).
  { rewrite HX, app_length, header_length by exact Hok. lia. }
  destruct (tar_member_bytes e ++ rest) as [|x0 X'] eqn:EX; [cbn in HlenX; lia|]. rewrite <- EX in *. clear x0 X' EX.
  replace (length (tar_member_bytes e ++ rest) <? 512)%nat with false by (symmetry; apply Nat.ltb_ge; exact HlenX).
  assert (Hh : firstn 512 (tar_member_bytes e ++ rest) = tar_header e).
  { rewrite HX. rewrite firstn_app, header_length by exact Hok. rewrite Nat.sub_diag, firstn_O, app_nil_r.
    rewrite <- (header_length e Hok). apply firstn_all. }
  rewrite Hh. rewrite header_not_zero.
  destruct (hdr_cksum_ok e Hok) as [Hsum Hck]. rewrite Hck, Hsum.
  replace (tar_cksum e =? tar_cksum e mod TWO32) with true.
  2:{ symmetry. apply N.eqb_eq. symmetry. apply N.mod_small. pose proof (cksum_small e Hok). unfold TWO32. change (8 ^ 6) with 262144 in H. lia. }
  cbn [negb].
  destruct (hdr_size e Hok) as [Hsz Hs128]. destruct (hdr_mtime e Hok) as [Hmt Hm128].
  rewrite (hdr_type e Hok).
  replace (128 <=? byte_at (tar_header e) 124) with false by (symmetry; apply N.leb_gt; exact Hs128).
  replace (128 <=? byte_at (tar_header e) 136) with false by (symmetry; apply N.leb_gt; exact Hm128).
  replace (te_type e =? 76) with false by (symmetry; apply N.eqb_neq; exact T1).
  replace (te_type e =? 75) with false by (symmetry; apply N.eqb_neq; exact T2).
  replace (te_type e =? 120) with false by (symmetry; apply N.eqb_neq; exact T3).
  replace (te_type e =? 83) with false by (symmetry; apply N.eqb_neq; exact T4).
  cbn [orb]. rewrite Hsz, Hmt, (hdr_path_ok e Hok).
  f_equal.
  - unfold ritem_of. f_equal.
    (* the member's bytes: exactly its data *)
    rewrite HX. rewrite (sub_bytes_shift pre _ _ 512) by lia.
    rewrite (sub_bytes_shift (tar_header e) _ _ 0) by (rewrite header_length by exact Hok; lia).
    destruct Hok as (_ & _ & _ & _ & _ & _ & _ & _ & _ & _ & _ & _ & _ & _ & _ & Hd & _).
    apply sub_bytes_app_l. unfold blen in Hd. rewrite <- Hd. rewrite Nat2N.id. reflexivity.
  - f_equal. rewrite (member_length e Hok). lia.
Qed.

Lemma ref_end pre fuel : tar_ref_entries (S fuel) (pre ++ zeros 1024) (length pre) = [].
Proof.
  cbn [tar_ref_entries]. rewrite skipn_app_exact. reflexivity.
Qed.

Lemma members_length_ge es : Forall tar_ent_plain es -> (512 * length es <= length (flat_map tar_member_bytes es))%nat.
Proof.
  induction 1 as [|e es [Hok _] _ IH]; [cbn; lia|].
  cbn [flat_map length]. rewrite app_length, (member_length e Hok). lia.
Qed.

Lemma tar_ref_entries_encode : forall es pre fuel,
  Forall tar_ent_plain es -> (length es < fuel)%nat ->
  tar_ref_entries fuel (pre ++ flat_map tar_member_bytes es ++ zeros 1024) (length pre) = ritems_from (length pre) es.
Proof.
  induction es as [|e es IH]; intros pre fuel Hall Hf.
  - destruct fuel as [|fuel]; [lia|]. cbn [flat_map app]. apply ref_end.
  - destruct fuel as [|fuel]; [cbn in Hf; lia|].
    inversion Hall as [|? ? He Hes]; subst.
    cbn [flat_map ritems_from]. rewrite <- app_assoc. rewrite (ref_step e pre _ fuel He). f_equal.
    rewrite <- app_length. rewrite app_assoc. apply IH; [exact Hes|]. cbn in Hf. lia.
Qed.

(* parse (encode entries) = entries: path, type, size, mtime, where the data starts, and the data *)
Theorem tar_ref_encode_thm : forall es,
  Forall tar_ent_plain es -> tar_ref_list (tar_archive es) = ritems_from 0 es.
Proof.
  intros es Hall. unfold tar_ref_list, tar_archive.
  apply (tar_ref_entries_encode es [] _ Hall).
  rewrite app_length, zeros_length. pose proof (members_length_ge es Hall).
  assert (length es + 2 <= (length (flat_map tar_member_bytes es) + 1024) / 512)%nat.
  { apply Nat.div_le_lower_bound; lia. }
  lia.
Qed.

(* in particular every member's bytes come back exactly (no padding, nothing of the neighbours), at
   position = the end of its header *)
Corollary tar_member_data_thm : forall es k e,
  Forall tar_ent_plain es -> nth_error es k = Some e ->
  exists pos, nth_error (tar_ref_list (tar_archive es)) k
              = Some (RItem (tar_path e) (te_type e) (te_size e) (Some (te_mtime e)) pos (te_data e)).
Proof.
  intros es k e Hall Hk. rewrite tar_ref_encode_thm by exact Hall.
  generalize 0%nat as p. revert k Hk. clear Hall. induction es as [|x es IH]; intros k Hk p; [destruct k; discriminate|].
  destruct k as [|k].
  - cbn in Hk. inversion Hk; subst. eexists. reflexivity.
  - cbn [ritems_from nth_error]. apply IH. exact Hk.
Qed.

(* and the entry list handed to the s4 side (ritem_to_item) then carries size = |data| *)
Example tar_format_example :
  let e1 := mk_tent [100; 47] [] 53 493 0 0 0 5 [] [] in
  let e2 := mk_tent [120; 46; 108; 111; 103] [100] 48 420 0 0 3 1700000000 [] [65; 66; 67] in
  Forall tar_ent_plain [e1; e2]
  /\ length (tar_archive [e1; e2]) = 2560%nat
  /\ tar_ref_list (tar_archive [e1; e2])
     = [RItem [100; 47] 53 0 (Some 5) 512 []; RItem [100; 47; 120; 46; 108; 111; 103] 48 3 (Some 1700000000) 1024 [65; 66; 67]].
Proof.
  cbv zeta. split; [|split; vm_compute; reflexivity].
  repeat constructor; cbn; try lia; try discriminate;
    try (intro H; repeat (destruct H as [H|H]; [discriminate|]); contradiction).
Qed.

(* ------------------------------------------------------------------ bytes -> entry list -> s4's reader *)
From S4.Proofs Require Import AssembleProofs AssembleTheorems ContainersGlue.

Definition item_of_ent (e : tar_ent) : tar_item :=
  TItem (mk_toe (Some (tar_path e)) (te_type e) (te_size e) (Some (te_size e)) (Some (te_mtime e)) (te_data e)).
Lemma items_of_ritems es : forall p, map ritem_to_item (ritems_from p es) = map item_of_ent es.
Proof. induction es as [|e es IH]; intro p; [reflexivity|]. cbn [ritems_from map]. rewrite IH. reflexivity. Qed.

Section TarBytes.
  Variable dstate : Type.
  Variable read : dstate -> N -> dstate * list N.
  Variable remaining : dstate -> list N.
  Variable mkdec : bytes -> dstate.
  Hypothesis HC : contract dstate read remaining.
  Hypothesis Hdec : forall data, remaining (mkdec data) = data.

  (* from the archive BYTES to the blocks s4 reads: for every list of ustar entries (directories,
     links, devices ... between the members), the member addressed as archive|path — the first entry
     with that path — is read as exactly chunk bs (its data), with its header size and mtime *)
  Theorem tar_archive_member_blocks_thm : forall archive es k e bs,
    Forall tar_ent_plain es -> nth_error es k = Some e ->
    ~ In SUBPATH_SEP (tar_path e) -> 0 < bs ->
    (forall j e', (j < k)%nat -> nth_error es j = Some e' -> tar_path e' <> tar_path e) ->
    let items := map ritem_to_item (tar_ref_list (tar_archive es)) in
    exists d, tar_new (archive ++ SUBPATH_SEP :: tar_path e) items = COk d
      /\ td_index d = N.of_nat k /\ td_filesz d = len (te_data e) /\ td_mtime d = te_mtime e
      /\ forall i, tar_read_block dstate read mkdec bs items d i
                   = if (N.to_nat i <? length (chunk bs (te_data e)))%nat
                     then BFound (nth (N.to_nat i) (chunk bs (te_data e)) []) else BDone.
  Proof.
    intros archive es k e bs Hall Hk Hsep Hbs Hfirst items.
    unfold items. rewrite tar_ref_encode_thm by exact Hall. rewrite items_of_ritems.
    assert (Hok : tar_ent_ok e).
    { rewrite Forall_forall in Hall. apply nth_error_In in Hk. destruct (Hall _ Hk). assumption. }
    assert (Hsz : te_size e = len (te_data e)).
    { destruct Hok as (_ & _ & _ & _ & _ & _ & _ & _ & _ & _ & _ & _ & _ & _ & _ & Hd & _). symmetry. exact Hd. }
    assert (Hn : nth_error (map item_of_ent es) k = Some (TItem (mk_toe (Some (tar_path e)) (te_type e) (te_size e) (Some (te_size e)) (Some (te_mtime e)) (te_data e)))).
    { rewrite nth_error_map, Hk. reflexivity. }
    assert (Hf : forall j it, (j < k)%nat -> nth_error (map item_of_ent es) j = Some it -> item_path it <> Some (tar_path e)).
    { intros j it Hj Hit. rewrite nth_error_map in Hit. destruct (nth_error es j) as [e'|] eqn:Ej; [|discriminate].
      inversion Hit; subst it. cbn [item_path item_of_ent toe_path]. intro E. inversion E as [E']. exact (Hfirst j e' Hj Ej E'). }
    destruct (tar_member_blocks_thm dstate read remaining mkdec HC Hdec archive (tar_path e) (map item_of_ent es) k _ bs
                Hsep Hbs Hn eq_refl ltac:(cbn [toe_hsize toe_data]; rewrite Hsz; reflexivity) Hf) as (d & Hd & Hp & Hfs & Hblocks).
    exists d. split; [exact Hd|].
    pose proof (tar_new_selects_first_thm archive (tar_path e) (map item_of_ent es) k _ (te_size e) Hsep Hn eq_refl eq_refl Hf) as Hsel.
    rewrite Hsel in Hd. inversion Hd; subst d. cbn [td_index td_filesz td_mtime toe_mtime toe_data] in *.
    repeat split; try reflexivity; [exact Hsz | exact Hblocks].
  Qed.

  (* under unique member paths this holds for EVERY member (the positive side of the known finding
     tar_duplicate_member_path) *)
  Theorem tar_archive_member_blocks_nodup_thm : forall archive es k e bs,
    Forall tar_ent_plain es -> NoDup (map tar_path es) -> nth_error es k = Some e ->
    ~ In SUBPATH_SEP (tar_path e) -> 0 < bs ->
    let items := map ritem_to_item (tar_ref_list (tar_archive es)) in
    exists d, tar_new (archive ++ SUBPATH_SEP :: tar_path e) items = COk d
      /\ td_index d = N.of_nat k /\ td_filesz d = len (te_data e) /\ td_mtime d = te_mtime e
      /\ forall i, tar_read_block dstate read mkdec bs items d i
                   = if (N.to_nat i <? length (chunk bs (te_data e)))%nat
                     then BFound (nth (N.to_nat i) (chunk bs (te_data e)) []) else BDone.
  Proof.
    intros archive es k e bs Hall Hnd Hk Hsep Hbs.
    apply tar_archive_member_blocks_thm; try assumption.
    intros j e' Hj Ej E.
    rewrite NoDup_nth_error in Hnd.
    assert (Hjl : (j < length (map tar_path es))%nat).
    { rewrite map_length. apply nth_error_Some. congruence. }
    specialize (Hnd j k Hjl). rewrite !nth_error_map, Ej, Hk in Hnd. cbn in Hnd.
    rewrite E in Hnd. specialize (Hnd eq_refl). lia.
  Qed.
End TarBytes.
