From Coq Require Import String ZArith Lia.
From S4.Base Require Import Bytes.
From S4.Model Require Import Calendar CliDt.
From S4.Gen Require Import CliDtTables.
From S4.Spec Require Import CalendarSpec CliDtRef CliDtSpec.
From S4.Proofs Require Import CalendarProofs CliDtAbsInfra.
Open Scope Z_scope.
Ltac Zify.zify_post_hook ::= Z.div_mod_to_equations.

(* numeric-zone forms of layout LSlash: universal in all field values *)
Lemma abs_num_LSlash y m d h mi s fr sp st neg hh mm tz :
  form_ok (FDateTime LSlash y m d h mi s fr (ZoneNum sp st neg hh mm)) = true ->
  m_resolve_abs (classify (render (FDateTime LSlash y m d h mi s fr (ZoneNum sp st neg hh mm)))) tz
  = denote (FDateTime LSlash y m d h mi s fr (ZoneNum sp st neg hh mm)) tz 0 None.
Proof.
  intros Hok.
  destruct sp; try (exfalso; prep Hok; fail);
    destruct fr, st, neg; prep Hok; skeleton; finish y m.
Qed.
