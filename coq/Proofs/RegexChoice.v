(* Proofs/RegexChoice.v — C04 with C12: the competition result tied to the CHOICE rule of block-zero analysis.
   WP-G's theorem (Props/C12.gate_accept_spec): outside the four decidable classes (first dated line incomplete in
   block zero, count minimum, mixed notation) the complete analysis Model/Gate.gate_rows accepts exactly what
   GateSpec.spec_accept accepts and parses the file with the row spec_accept names — the FIRST row, in table order,
   that dates the FIRST dated line.  Here the oracle `dated_by_row` is instantiated with the regex model
   ([rx_dated] = Model/RegexDt.dated_model per row), and:
     choice_first_line : if the first dated line is dated by row i and by no earlier row, the analysis keeps i;
     earlier_silent    : for a family line of row i, every earlier row outside competitors(i) is silent, so it is
                         enough that the listed competitors do not date THIS line (nothing to check when the list is
                         empty);
     choice_numeric    : hence for a file whose first dated line is a numeric family line of row i (numbers as in
                         C04_regex_numbers) whose competitors are silent on it, outside WP-G's classes, block-zero
                         analysis chooses row i — the F13-style mis-locking cannot happen.
   Rows with a non-empty competitor list are the candidates of the F13/F16 class (known findings of C04, not
   duplicated here). *)
From Coq Require Import Lia String FinFun.
From S4.Base Require Import Bytes Chunk.
From S4.Model Require Import Calendar Normalise Regex RegexPlan RegexDt RegexNum Lines Gate GateSpec.
From S4.Gen Require Import BlockConsts DatetimeTables RegexTables.
From S4.Spec Require Import CalendarSpec TzRef NormaliseSpec LinesSpec.
From S4.Proofs Require Import RegexProofs RegexSim RegexUniv RegexIso RegexNumProofs RegexComp GateProofs.
Close Scope string_scope.
Open Scope list_scope.
Open Scope N_scope.

Definition rx_rows : list N := map rx_index rx_table.
(* the per-row oracle of Model/Gate.v: bytes_to_regex_to_datetime of row i on the line *)
Definition rx_dated (yo : option Z) (off : Z) (i : N) (l : list N) : option Z := dated_by i l yo off.

(* ---- the row indexes are 0, 1, 2, ... *)
Lemma rx_rows_range : rx_rows = map N.of_nat (seq 0 (length rx_table)).
Proof. vm_compute. reflexivity. Qed.
Lemma rx_rows_nodup : NoDup rx_rows.
Proof.
  rewrite rx_rows_range. apply Injective_map_NoDup; [intros x y; apply Nat2N.inj|apply seq_NoDup].
Qed.
Lemma range_split a : forall n i, In i (map N.of_nat (seq a n)) ->
  exists l1 l2, map N.of_nat (seq a n) = l1 ++ i :: l2 /\ forall x, In x l1 -> x < i.
Proof.
  intros n. revert a. induction n as [|n IH]; intros a i H; simpl in H; [destruct H|].
  destruct H as [H|H].
  - exists [], (map N.of_nat (seq (S a) n)). subst. split; [reflexivity|intros x []].
  - destruct (IH (S a) i H) as (l1 & l2 & E & L).
    exists (N.of_nat a :: l1), l2. simpl. rewrite E. split; [reflexivity|].
    intros x [<-|Hx]; auto.
    apply in_map_iff in H as (k & <- & Hk). apply in_seq in Hk. lia.
Qed.

(* ---- what first_dated returns is what dated_any says of that line *)
Lemma next_dated_fuel_spec dbr rows f : forall fuel fo b e t x,
  next_dated_fuel dbr rows fuel f fo = Some (b, e, t, x) ->
  dated_any dbr rows (slice f b (e + 1)) = Some (t, x).
Proof.
  induction fuel as [|k IH]; intros fo b e t x H; simpl in H; [discriminate|].
  destruct (lenN f <=? fo); [discriminate|].
  destruct (dated_any dbr rows (slice f fo (line_end f fo + 1))) as [[dt r]|] eqn:E.
  - inversion H; subst. exact E.
  - eapply IH; eauto.
Qed.

Section Choice.
  Variables (yo : option Z) (off : Z).
  Let dbr := rx_dated yo off.

  (* if the first dated line is dated by row i and by no earlier row, spec_accept names i *)
  Lemma spec_first_line (f : file) b e t x i t' :
    first_dated dbr rx_rows f = Some (b, e, t, x) ->
    In i rx_rows ->
    dbr i (slice f b (e + 1)) = Some t' ->
    (forall j, j < i -> dbr j (slice f b (e + 1)) = None) ->
    x = i /\ spec_accept dbr rx_rows f =
             if (lenN f <? bytes_min) || all_zero (firstnN bytes_null_max f) then None else Some i.
  Proof.
    intros Hfd Hin Hi Hlt.
    pose proof (next_dated_fuel_spec dbr rx_rows f _ _ _ _ _ _ Hfd) as Hd.
    unfold dated_any in Hd. destruct (lenN (slice f b (e + 1)) <? datetime_str_min); [discriminate|].
    rewrite rx_rows_range in Hin. destruct (range_split 0 _ i Hin) as (l1 & l2 & E & L).
    rewrite rx_rows_range, E in Hd.
    rewrite (find_dt_first dbr (slice f b (e + 1)) i t' l1 l2) in Hd; auto.
    inversion Hd; subst x. split; [reflexivity|].
    unfold spec_accept. rewrite Hfd. reflexivity.
  Qed.

  (* THEOREM: composed with WP-G's gate_accept_spec — outside the classes the complete analysis keeps row i *)
  Theorem choice_first_line bs (f : file) b e t x i t' :
    sp_blocksz_min <= bs -> bs <= blocksz_max ->
    in_classes dbr rx_rows bs f = false ->
    first_dated dbr rx_rows f = Some (b, e, t, x) ->
    In i rx_rows ->
    dbr i (slice f b (e + 1)) = Some t' ->
    (forall j, j < i -> dbr j (slice f b (e + 1)) = None) ->
    accepted (gate_rows dbr rx_rows bs f) =
      if (lenN f <? bytes_min) || all_zero (firstnN bytes_null_max f) then None else Some i.
  Proof.
    intros B1 B2 CL Hfd Hin Hi Hlt.
    rewrite (gate_accept_spec dbr rx_rows rx_rows_nodup bs f B1 B2 CL).
    apply (spec_first_line f b e t x i t' Hfd Hin Hi Hlt).
  Qed.

  (* ---- family lines: the earlier rows outside the competitor list are silent *)
  Definition starts_zero_b : bool := forallb (fun r => rx_start r =? 0) rx_table.
  Lemma starts_zero_ok : starts_zero_b = true. Proof. vm_compute. reflexivity. Qed.

  (* the timestamp lies inside the slice every earlier row takes of the line *)
  Definition ts_fits (i : N) (ts : bytes) : bool :=
    forallb (fun r' => if rx_index r' <? i then N.of_nat (length ts) <=? rx_end r' else true) rx_table.

  Lemma earlier_silent row texts rest tail :
    In row rx_table ->
    in_family (row_fam row) texts = true -> concat texts <> [] ->
    ts_fits (rx_index row) (concat texts) = true ->
    let line := (concat texts ++ rest) ++ tail in
    (forall j, In j (competitors rx_table row) -> dbr j line = None) ->
    forall j, j < rx_index row -> dbr j line = None.
  Proof.
    intros Hin Hf Hne Hfit line Hc j Hj.
    unfold dbr, rx_dated, dated_by.
    destruct (nth_rx' j) as [r'|] eqn:Er; [|reflexivity].
    destruct (nth_dt' j) as [dr'|] eqn:Ed; [|reflexivity].
    pose proof (find_some _ _ Er) as [Hr' Hidx]. apply N.eqb_eq in Hidx.
    destruct (in_dec N.eq_dec j (competitors rx_table row)) as [Hcomp|Hcomp].
    - specialize (Hc j Hcomp). unfold dbr, rx_dated, dated_by in Hc. rewrite Er, Ed in Hc. exact Hc.
    - assert (H0 : rx_start r' = 0).
      { pose proof starts_zero_ok as S. unfold starts_zero_b in S. rewrite forallb_forall in S.
        apply N.eqb_eq. apply S; auto. }
      assert (Hle : N.of_nat (length (concat texts)) <= rx_end r').
      { unfold ts_fits in Hfit. rewrite forallb_forall in Hfit. specialize (Hfit _ Hr').
        rewrite Hidx in Hfit. apply N.ltb_lt in Hj. rewrite Hj in Hfit. apply N.leb_le. exact Hfit. }
      destruct (slice_keeps_timestamp r' (concat texts) rest tail H0 Hne Hle) as (rest' & Hs).
      rewrite (not_competitor_never_dates month_table tz_table row r' (r_dtfs dr') texts rest' line yo off); auto.
      + rewrite Hidx. exact Hj.
      + rewrite Hidx. exact Hcomp.
  Qed.

  (* THEOREM: the first dated line is a NUMERIC family line of row i (numbers as in C04_regex_numbers, timestamp
     at the start of the line) on which the listed competitors of i are silent: block-zero analysis keeps i *)
  Theorem choice_numeric bs (f : file) b e t x row dr r texts rest tail :
    sp_blocksz_min <= bs -> bs <= blocksz_max ->
    in_classes dbr rx_rows bs f = false ->
    first_dated dbr rx_rows f = Some (b, e, t, x) ->
    nth_rx' (rx_index row) = Some row -> nth_dt' (rx_index row) = Some dr ->
    slice f b (e + 1) = (concat texts ++ rest) ++ tail ->
    row_numeric row (r_dtfs dr) = true ->
    fread_admitted row (r_dtfs dr) (row_plan row) (row_fam row) r = true ->
    fread_valid r yo = true -> fallback_ok off = true ->
    plan_caps row (row_plan row) texts = fread_caps r ->
    seps_in_family row texts = true -> rest_ok (row_rf row) true rest = true ->
    slice_of row ((concat texts ++ rest) ++ tail) = Some (concat texts ++ rest) ->
    concat texts <> [] -> ts_fits (rx_index row) (concat texts) = true ->
    (forall j, In j (competitors rx_table row) -> dbr j ((concat texts ++ rest) ++ tail) = None) ->
    accepted (gate_rows dbr rx_rows bs f) =
      if (lenN f <? bytes_min) || all_zero (firstnN bytes_null_max f) then None else Some (rx_index row).
  Proof.
    intros B1 B2 CL Hfd Er Ed Hline Hn Ha Hv Hfb Hcaps Hsep Hrest Hslice Hne Hfit Hcomp.
    pose proof (find_some _ _ Er) as [Hin _]. pose proof (find_some _ _ Ed) as [Hdr _].
    assert (Hfam : in_family (row_fam row) texts = true).
    { apply (in_family_sel_full _ _ _ _ Hsep). intros k Hk _. simpl in Hk.
      apply (fields_in_family row (r_dtfs dr) (row_plan row) (row_fam row) r texts Ha Hcaps k Hk). }
    apply (choice_first_line bs f b e t x (rx_index row) (fread_instant r yo off)); auto.
    - unfold rx_rows. apply in_map. exact Hin.
    - rewrite Hline. unfold dbr, rx_dated, dated_by. rewrite Er, Ed.
      apply (row_numbers_fields row dr r texts rest tail yo off); auto.
    - rewrite Hline. apply (earlier_silent row texts rest tail Hin Hfam Hne Hfit Hcomp).
  Qed.
End Choice.

(* the hypotheses of choice_first_line are satisfiable: three lines of row 0's notation (a row without
   competitors), block size 256 *)
From Coq Require Import String.
Open Scope string_scope.
Definition choice_file : list N :=
  (s2b "[2000/01/01 00:00:01.123] ../source3/smbd/oplock.c:1340(init_oplocks)" ++ [10] ++
   s2b "[2000/01/01 00:00:02.456] ../source3/smbd/oplock.c:1341(init_oplocks)" ++ [10] ++
   s2b "[2000/01/01 00:00:03.789] ../source3/smbd/oplock.c:1342(init_oplocks)" ++ [10])%list.
Example choice_example :
  in_classes (rx_dated None 0) rx_rows 256 choice_file = false /\
  first_dated (rx_dated None 0) rx_rows choice_file = Some (0, 69, 946684801123000000%Z, 0) /\
  In 0 rx_rows /\
  rx_dated None 0 0 (slice choice_file 0 (69 + 1)) = Some 946684801123000000%Z /\
  accepted (gate_rows (rx_dated None 0) rx_rows 256 choice_file) = Some 0.
Proof.
  split; [vm_compute; reflexivity|]. split; [vm_compute; reflexivity|].
  split; [rewrite rx_rows_range; vm_compute; auto|]. split; vm_compute; reflexivity.
Qed.
