(* Proofs/GateTablesOk.v — table obligations of the EZCHECK soundness theorem and of the gate theorems,
   re-checked on the REGENERATED tables at every run (Gen/DatetimeTables.v, Gen/BlockConsts.v), and the
   theorems instantiated with the regenerated row table. *)
From Coq Require Import String FinFun.
From S4.Base Require Import Bytes Chunk.
From S4.Gen Require Import BlockConsts DatetimeTables.
From S4.Model Require Import Normalise Lines Gate GateSpec.
From S4.Proofs Require Import GateLemmas GateProofs EzcheckProofs GateRefuted GateTheorems.
From S4.Corr Require Import C12.
Open Scope N_scope.

(* every row's slice starts at byte 0 of the line *)
Lemma table_starts_zero_b : forallb (fun row => r_start row =? 0) dt_table = true.
Proof. vm_compute. reflexivity. Qed.

Lemma info_tab_start r : ri_start (info_tab r) = 0.
Proof.
  unfold info_tab. destruct (nth_error dt_table (N.to_nat r)) as [row|] eqn:E; [|reflexivity].
  apply nth_error_In in E. pose proof table_starts_zero_b as T. rewrite forallb_forall in T.
  cbn [ri_start]. apply N.eqb_eq. apply T. exact E.
Qed.

(* the table has DATETIME_PARSE_DATAS_LEN rows, indexed 0.. in order; every row needs two digits;
   a four-digit year implies has_d2 (so EZCHECK12 alone is never selected) *)
Lemma table_shape :
  lenN dt_table = dt_rows /\ map r_index dt_table = rows_tab /\
  forallb (fun row => has_d2 (r_dtfs row)) dt_table = true /\
  forallb (fun row => implb (has_year4 (r_dtfs row)) (has_d2 (r_dtfs row))) dt_table = true.
Proof. vm_compute. repeat split. Qed.

Lemma rows_tab_nodup : NoDup rows_tab.
Proof.
  unfold rows_tab. apply Injective_map_NoDup; [|apply seq_NoDup].
  intros a b H. apply Nnat.Nat2N.inj. exact H.
Qed.

(* the acceptance analysis AS CODED, with the regenerated row table: outside the four classes it decides
   the bs-free predicate spec_accept — for every per-slice match oracle whose matches contain what the
   EZCHECKs look for *)
Theorem gate_as_coded_accept_spec match_slice bs (f : file) :
  (forall r s dt, ri_year4 (info_tab r) = true -> match_slice r s = Some dt -> contains_12 s = true) ->
  (forall r s dt, ri_d2 (info_tab r) = true -> match_slice r s = Some dt -> contains_d2 s = true) ->
  sp_blocksz_min <= bs -> bs <= blocksz_max ->
  in_classes (dated_by_row_of match_slice info_tab) rows_tab bs f = false ->
  accepted (gate_ez match_slice info_tab rows_tab bs f) = spec_accept (dated_by_row_of match_slice info_tab) rows_tab f.
Proof.
  intros H12 Hd2 B1 B2 C.
  apply gate_ez_accept_spec; try assumption; [apply rows_tab_nodup|apply info_tab_start].
Qed.

Theorem gate_as_coded_independent match_slice bs (f : file) :
  (forall r s dt, ri_year4 (info_tab r) = true -> match_slice r s = Some dt -> contains_12 s = true) ->
  (forall r s dt, ri_d2 (info_tab r) = true -> match_slice r s = Some dt -> contains_d2 s = true) ->
  sp_blocksz_min <= bs -> bs <= blocksz_max ->
  in_classes (dated_by_row_of match_slice info_tab) rows_tab bs f = false ->
  in_classes (dated_by_row_of match_slice info_tab) rows_tab blocksz_def f = false ->
  accepted (gate_ez match_slice info_tab rows_tab bs f) = accepted (gate_ez match_slice info_tab rows_tab blocksz_def f).
Proof.
  intros H12 Hd2 B1 B2 C1 C2. destruct def_in_range.
  rewrite !gate_as_coded_accept_spec by assumption. reflexivity.
Qed.

(* the hypotheses are satisfiable: an oracle for ISO lines on the real row 79 (slice end 50) *)
Definition match_iso (r : N) (s : list N) : option Z := if r =? 79 then dated_w s else None.
Example gate_as_coded_example :
  (forall r s dt, ri_year4 (info_tab r) = true -> match_iso r s = Some dt -> contains_12 s = true) /\
  (forall r s dt, ri_d2 (info_tab r) = true -> match_iso r s = Some dt -> contains_d2 s = true) /\
  in_classes (dated_by_row_of match_iso info_tab) rows_tab 64 file_uniform = false /\
  in_classes (dated_by_row_of match_iso info_tab) rows_tab blocksz_def file_uniform = false /\
  accepted (gate_ez match_iso info_tab rows_tab 64 file_uniform) = Some 79.
Proof.
  assert (D : forall s dt, dated_w s = Some dt -> contains_12 s = true /\ contains_d2 s = true).
  { intros s dt H. unfold dated_w in H.
    destruct s as [|a s]; [discriminate|].
    destruct a as [|p]; [discriminate|]. repeat (destruct p as [p|p|]; try (simpl in H; discriminate)).
    destruct s as [|b s]; [discriminate|].
    destruct b as [|p]; [discriminate|]. repeat (destruct p as [p|p|]; try (simpl in H; discriminate)).
    split; reflexivity. }
  split; [|split].
  - intros r s dt _ H. unfold match_iso in H. destruct (r =? 79); [|discriminate]. apply (D s dt H).
  - intros r s dt _ H. unfold match_iso in H. destruct (r =? 79); [|discriminate]. apply (D s dt H).
  - vm_compute. repeat split.
Qed.
