(* Proofs/ClassifyTablesOk.v — finite obligations on the regenerated classifier tables. *)
From S4.Base Require Import Bytes.
From S4.Model Require Import Classify.
From S4.Gen Require Import ClassifyTables.
From S4.Spec Require Import ClassifyRef ClassifySpec.
Open Scope N_scope.

Lemma tables_wf_ok : tables_wf sfx_table junk junk_lead = true.
Proof. vm_compute. reflexivity. Qed.

Definition sfx_action_eqb (a b : sfx_action) : bool :=
  match a, b with
  | SCompress x, SCompress y => fta_code x =? fta_code y
  | STar, STar | SEvtx, SEvtx | SJournal, SJournal | SText, SText | SUnparsable, SUnparsable => true
  | SFixed x, SFixed y => fixedt_code x =? fixedt_code y
  | _, _ => false
  end.
Definition name_action_eqb (a b : name_action) : bool :=
  match a, b with
  | NText, NText | NJournal, NJournal => true
  | NFixed x, NFixed y => fixedt_code x =? fixedt_code y
  | _, _ => false
  end.

Lemma fta_code_inj x y : fta_code x = fta_code y -> x = y.
Proof. destruct x, y; simpl; intro H; try reflexivity; discriminate. Qed.
Lemma fixedt_code_inj x y : fixedt_code x = fixedt_code y -> x = y.
Proof. destruct x, y; simpl; intro H; try reflexivity; discriminate. Qed.

Lemma sfx_action_eqb_eq a b : sfx_action_eqb a b = true -> a = b.
Proof.
  destruct a, b; simpl; intro H; try reflexivity; try discriminate;
    apply N.eqb_eq in H; f_equal; auto using fta_code_inj, fixedt_code_inj.
Qed.
Lemma name_action_eqb_eq a b : name_action_eqb a b = true -> a = b.
Proof.
  destruct a, b; simpl; intro H; try reflexivity; try discriminate;
    apply N.eqb_eq in H; f_equal; auto using fixedt_code_inj.
Qed.

Definition agree_sfx : bool :=
  forallb (fun wa => match assoc (fst wa) sfx_table with
                     | Some a => sfx_action_eqb a (snd wa) | None => false end) ref_sfx_table.
Definition agree_name : bool :=
  forallb (fun wa => match assoc (fst wa) name_table with
                     | Some a => name_action_eqb a (snd wa) | None => false end) ref_name_table.

Lemma agree_sfx_ok : agree_sfx = true. Proof. vm_compute. reflexivity. Qed.
Lemma agree_name_ok : agree_name = true. Proof. vm_compute. reflexivity. Qed.

Lemma tables_agree_ref_ok :
  (forall w act, In (w, act) ref_sfx_table -> assoc w sfx_table = Some act) /\
  (forall w act, In (w, act) ref_name_table -> assoc w name_table = Some act) /\
  junk = ref_junk /\ junk_lead = ref_junk_lead.
Proof.
  split; [|split; [|split; [reflexivity|reflexivity]]].
  - intros w act Hin. pose proof agree_sfx_ok as H. unfold agree_sfx in H.
    rewrite forallb_forall in H. specialize (H _ Hin). cbn [fst snd] in H.
    destruct (assoc w sfx_table) as [a|]; [|discriminate].
    apply sfx_action_eqb_eq in H. congruence.
  - intros w act Hin. pose proof agree_name_ok as H. unfold agree_name in H.
    rewrite forallb_forall in H. specialize (H _ Hin). cbn [fst snd] in H.
    destruct (assoc w name_table) as [a|]; [|discriminate].
    apply name_action_eqb_eq in H. congruence.
Qed.
