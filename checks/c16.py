"""C16 — the reader for a file is chosen from its name alone, for every name.

A. Coq: Props/C16.v (classifier total, structured-name theorem, table agreement, refuted F6)
B. path_to_filetype (in-process, built from /repo) vs the Coq model `classify_top` with the
   regenerated tables, on structured and arbitrary byte names.
C. path_to_filetype vs the Coq *spec* (`spec_classify`, frozen reference tables) on structured
   names pre ++ c0.c1...ck ++ post: the failing-input search.
"""
import json, os, re, sys
import vlib
from vlib import COQ, CACHE

PROP_FILE = "Props/C16.v"


def hx(b):
    return bytes(b).hex()


def ref_tables():
    src = open(os.path.join(COQ, "Spec", "ClassifyRef.v")).read()
    sfx = re.findall(r'\(s2b "([^"]+)", ([^;\n]+?)\);?\n', src.split("Definition ref_name_table")[0])
    nam = re.findall(r'\(s2b "([^"]+)", ([^;\n]+?)\);?\n', src.split("Definition ref_name_table")[1])
    junk = [int(x) for x in re.search(r"ref_junk : list N := \[([^\]]*)\]", src).group(1).split(";")]
    lead = [int(x) for x in re.search(r"ref_junk_lead : list N := \[([^\]]*)\]", src).group(1).split(";")]
    return sfx, nam, junk, lead


ALNUM = b"abcdefghijklmnopqrstuvwxyzABCDEFGHIJKLMNOPQRSTUVWXYZ0123456789_"


def case_variant(rng, w):
    m = rng.randrange(4)
    if m == 0:
        return w
    if m == 1:
        return w.upper()
    if m == 2:
        return w[:1].upper() + w[1:]
    return "".join(c.upper() if rng.random() < 0.5 else c for c in w)


def gen_structured(rng, n, tables):
    sfx, nam, junk, lead = tables
    known = set(w for w, _ in sfx) | set(w for w, _ in nam)
    sfx_words = [w for w, _ in sfx]
    typ_words = [w for w, a in sfx if not a.startswith("SCompress") and a != "SUnparsable" and a != "STar"]
    cmp_words = [w for w, a in sfx if a.startswith("SCompress")]
    unp_words = [w for w, a in sfx if a == "SUnparsable"]
    nam_words = [w for w, _ in nam]
    rot = ["1", "2", "10", "007", "20230101", "old", "bak", "orig", "prev", "0", "2147483647", "2147483648", "99999999999", "+5", "1a"]

    def unknown():
        while True:
            k = rng.randrange(1, 9)
            w = bytes(rng.choice(ALNUM) for _ in range(k)).decode()
            if rng.random() < 0.2 and len(w) > 2:
                w = w[0] + rng.choice("-~,;?") + w[1:]
            if w.lower() not in known and w[0] not in "~-,?;." and w[-1] not in "~-,?;":
                return w

    def comp():
        r = rng.random()
        if r < 0.25:
            return rng.choice(rot)
        if r < 0.45:
            return unknown()
        if r < 0.65:
            return case_variant(rng, rng.choice(cmp_words))
        if r < 0.88:
            return case_variant(rng, rng.choice(typ_words))
        if r < 0.94:
            return case_variant(rng, rng.choice(unp_words))
        if r < 0.97:
            return case_variant(rng, "tar")
        return case_variant(rng, rng.choice(nam_words))

    UTF8 = ["日本", "café", "naïve", "журнал", "ü", "𝔘"]

    def first():
        r = rng.random()
        if r < 0.08:
            return rng.choice(UTF8) + (unknown() if rng.random() < 0.5 else "")
        if r < 0.4:
            return case_variant(rng, rng.choice(nam_words))
        if r < 0.5:
            return case_variant(rng, rng.choice(sfx_words))
        if r < 0.6:
            return rng.choice(["log_media", "media_log", "LOG_x", "x_LOG", "kern", "auth", "daemon"])
        return unknown()

    def junkstr(chars, p):
        if rng.random() >= p:
            return ""
        return "".join(chr(rng.choice(chars)) for _ in range(rng.randrange(1, 4)))

    out = []
    for _ in range(n):
        pre = junkstr(lead if rng.random() < 0.5 else junk, 0.35)
        post = junkstr(junk, 0.3)
        c0 = first()
        comps = [comp() for _ in range(rng.choice([0, 0, 1, 1, 2, 2, 3, 4]))]
        if rng.random() < 0.08:
            # a long tail of rotation / unknown components after the deciding words: the recursion
            # strips one component per level, for every name however many components it has
            comps += [rng.choice(rot) if rng.random() < 0.7 else unknown() for _ in range(rng.choice([5, 9, 15, 16, 17, 18, 25, 40, 64, 120]))]
        if rng.random() < 0.06 and comps:
            j = rng.randrange(len(comps))
            if comps[j].lower() not in known and not comps[j].lstrip("+-").isdigit():
                comps[j] = rng.choice(UTF8) + comps[j]
        uat = rng.random() < 0.5
        out.append((pre, c0, comps, post, uat))
    # raw first components (not valid UTF-8), no junk, decided by a type word further right
    RAW = [b"\xff", b"caf\xe9", b"\x93\xfa\x8e\x8f", b"\xc3", b"\xe6\x97", b"a\xffb", b"\x80log", b"\xf5\xf6", b"\xed\xa0\x80"]
    for _ in range(max(20, n // 12)):
        comps = [comp() for _ in range(rng.choice([1, 1, 2, 3]))]
        comps.insert(rng.randrange(len(comps) + 1), case_variant(rng, rng.choice(typ_words + ["tar"] + unp_words[:3])))
        out.append(("", rng.choice(RAW), comps, "", rng.random() < 0.5))
    return out


def tob(x):
    return x if isinstance(x, bytes) else x.encode()


def render(pre, c0, comps, post):
    return tob(pre) + tob(c0) + b"".join(b"." + tob(c) for c in comps) + tob(post)


def gen_arbitrary(rng, n):
    alpha = b"....~-,?;;aAzZlogGZ01239_ +" + bytes([0, 1, 127, 128, 191, 194, 195, 224, 237, 240, 244, 255, 0xE6, 0x97, 0xA5])
    frags = [b"log", b"gz", b"GZ", b"tar", b"utmp", b"journal", b"evtx", b".", b"..", b"~", b"-", b"\xe6\x97\xa5\xe6\x9c\xac", b"\xc3\xa9", b"\xff", b"1", b"syslog", b"xz", b"lz4", b"bz2", b"a", b"c"]
    out = []
    for i in range(n):
        r = rng.random()
        if r < 0.45:
            k = rng.choice([0, 1, 1, 2, 2, 3, 3, 4, 5, 6, 8, 12, 20, 40])
            b = bytes(rng.choice(alpha) for _ in range(k))
        elif r < 0.95:
            b = b"".join((rng.choice(frags) + (b"." if rng.random() < 0.6 else b"")) for _ in range(rng.randrange(1, 7)))
        else:
            b = bytes(rng.choice(alpha) for _ in range(rng.choice([300, 1000, 4096]))) + rng.choice([b".log", b".gz", b"", b".1"])
        out.append((b.replace(b"/", b"_"), rng.random() < 0.5))
    # dots only, empty stem, empty
    for b in [b"", b".", b"..", b"...", b".....", b".log", b".gz", b"..gz", b"~", b"~~", b".~", b"..~", b"-.foo.messages", b",.syslog", b"-.gz", b"a.", b"a..", b"a.~.gz", b"utmp.~.gz"]:
        out.append((b, False))
        out.append((b, True))
    return out


def f6_class(pre):
    return len(pre) >= 2 and pre.endswith(".")


def corpus_cases():
    p = os.path.join(vlib.ROOT, "corpus", "C16", "names.txt")
    out = []
    if os.path.exists(p):
        for line in open(p):
            line = line.rstrip("\n")
            if not line or line.startswith("#"):
                continue
            h, u = line.split("\t")
            out.append((bytes.fromhex(h), u == "1"))
    return out


def run(ctx):
    quick = ctx.quick()
    n_struct = 3000 if quick else 60000
    n_arb = 2000 if quick else 40000
    # ---- A
    vlib.proof_stage(ctx, PROP_FILE, ["classify"], extra_targets=["Corr/C16.vo"])
    # ---- builds
    ok, log = vlib.build_harness("c16")
    if not ok:
        ctx.obligation_broken("build", "harness", log)
        return ctx.finish()
    tables = ref_tables()
    rng = ctx.rng
    structured = gen_structured(rng, n_struct, tables)
    arbitrary = corpus_cases() + gen_arbitrary(rng, n_arb)
    names = [(render(*s[:4]), s[4]) for s in structured] + arbitrary
    lines = ["%s\t%d" % (hx(b), 1 if u else 0) for b, u in names]
    outl, err = vlib.harness("c16", lines)
    if outl is None or len(outl) != len(lines):
        ctx.obligation_broken("correspondence", "harness c16 run", err)
        return ctx.finish()
    panics = [i for i, o in enumerate(outl) if not o.isdigit()]
    for i in panics[:5]:
        ctx.failure(dict(name_hex=hx(names[i][0]), unparseable_are_text=names[i][1]), "a classification (no panic)", outl[i])
    impl = [int(o) if o.isdigit() else 998 for o in outl]

    hdr = vlib.COQ_PRINT_HDR + "From Coq Require Import String List NArith.\nImport ListNotations.\nFrom S4.Corr Require Import C16.\nOpen Scope string_scope.\n"

    def b2coq(v):
        return "true" if v else "false"

    # ---- B: impl vs model
    corr_dir = os.path.join(CACHE, "cases", "C16")
    idx = list(range(len(names)))
    shards = vlib.shard(idx, vlib.NCPU)
    texts = []
    for sh_ in shards:
        body = ";\n".join('("%s", %s, %d%%N)' % (hx(names[i][0]), b2coq(names[i][1]), impl[i]) for i in sh_)
        texts.append(hdr + "Definition cases : list (string * bool * N) := [\n%s\n].\nEval vm_compute in (model_bad cases).\n" % body)
    res = vlib.coq_eval_shards(os.path.join(corr_dir, "model"), texts)
    model_dis = []
    b_ok = True
    for sh_, (rc, out) in zip(shards, res):
        pairs = vlib.parse_eval_pairs(out) if rc == 0 else None
        if pairs is None:
            b_ok = False
            ctx.obligation_broken("correspondence", "model evaluation (coqc on cases)", out)
            break
        for k, m in pairs:
            model_dis.append((sh_[k], m))
    for i, m in model_dis[:1]:
        ctx.obligation_broken("correspondence", "path_to_filetype vs Model.Classify.classify_top",
                              json.dumps(dict(name_hex=hx(names[i][0]), name=names[i][0].decode("utf-8", "replace"),
                                              unparseable_are_text=names[i][1], impl=impl[i], model=m, disagreements=len(model_dis))))

    # ---- C: impl vs spec on structured names
    sidx = list(range(len(structured)))
    shards = vlib.shard(sidx, vlib.NCPU)
    texts = []
    for sh_ in shards:
        rows = []
        for i in sh_:
            pre, c0, comps, post, uat = structured[i]
            rows.append('("%s", "%s", [%s], "%s", %s, %d%%N)' % (hx(tob(pre)), hx(tob(c0)),
                        "; ".join('"%s"' % hx(tob(c)) for c in comps), hx(tob(post)), b2coq(uat), impl[i]))
        texts.append(hdr + "Definition cases : list (string * string * list string * string * bool * N) := [\n%s\n].\nEval vm_compute in (spec_bad cases).\n" % ";\n".join(rows))
    res = vlib.coq_eval_shards(os.path.join(corr_dir, "spec"), texts)
    spec_fail = 0
    illformed = 0
    for sh_, (rc, out) in zip(shards, res):
        pairs = vlib.parse_eval_pairs(out) if rc == 0 else None
        if pairs is None:
            ctx.obligation_broken("spec-evaluation", "coqc on spec cases", out)
            break
        for k, s in pairs:
            i = sh_[k]
            pre, c0, comps, post, uat = structured[i]
            if s == 0:
                illformed += 1
                continue
            spec_fail += 1
            cls = ["first_component_all_junk"] if f6_class(pre) else []
            nm = render(pre, c0, comps, post)
            ctx.failure(dict(name=nm.decode("utf-8", "replace"), name_hex=hx(nm), pre=pre, c0=c0 if isinstance(c0, str) else "hex:" + hx(c0),
                             comps=comps, post=post, unparseable_are_text=uat), s, impl[i], cls)
    if illformed:
        ctx.obligation_broken("generator", "structured generator produced %d ill-formed names" % illformed, "")

    # ---- evidence
    distinct = len(set(names))
    boundary = sum(1 for (b, u) in names if b and (b[0] in b"~-,?;." or b[-1] in b"~-,?;." or b.count(b".") >= 2 or any(x > 127 for x in b)))
    hist = {}
    for s in structured:
        hist[len(s[2])] = hist.get(len(s[2]), 0) + 1
    ctx.coverage.update(
        evaluations=len(names), distinct_nontrivial=min(distinct, boundary),
        rule="names = structured (pre junk, first component, 0-4 components drawn from type/compression/unparsable/tar words in 4 case variants, numeric and unknown rotation suffixes, in 8 % of the names a tail of 5-120 further rotation components, post junk) + arbitrary byte strings (dots, junk, UTF-8 and invalid bytes, up to 4 KiB) + corner list + corpus; both unparseable_are_text modes; non-trivial = leading/trailing junk or dot, >=2 dots, or a non-ASCII byte; distinct by (bytes, mode)",
        samples=[dict(name=names[i][0].decode("utf-8", "replace"), unparseable_are_text=names[i][1], impl_code=impl[i]) for i in (0, 1, len(structured), len(names) - 1)],
        structured_cases=len(structured), arbitrary_cases=len(arbitrary),
        components_histogram=hist, model_disagreements=len(model_dis), spec_failures=spec_fail,
        impl_code_histogram={str(k): impl.count(k) for k in sorted(set(impl))},
        panics=len(panics))
    ctx.assumptions += ["names are single path components (no '/' byte), Unix OsStr semantics",
                        "std::path file_name/extension/with_extension/with_file_name and str::from_utf8, parse::<i32> are transcribed by hand (Model/Classify.v) and tied only by run B",
                        "reference word tables Spec/ClassifyRef.v are the ground truth for which word selects which reader"]
    return ctx.finish()


def replay(ctx, path):
    r = json.load(open(path))
    ok, log = vlib.build_harness("c16")
    for f in r.get("failures", []):
        c = f["case"]
        name = bytes.fromhex(c["name_hex"]) if "name_hex" in c else c["name"].encode()
        outl, err = vlib.harness("c16", ["%s\t%d" % (hx(name), 1 if c["unparseable_are_text"] else 0)])
        print("replay name=%r uat=%s expected(spec)=%s got(impl)=%s" % (name, c["unparseable_are_text"], f["expected"], outl))
        if outl and str(outl[0]) != str(f["expected"]):
            print("VIOLATION property=C16 replay=%s" % path)
            return 1
    return 0
