"""C11 — year-less timestamps receive the right year.

A. Coq: Props/C11.v (last message = mtime year, no backstep > 25 h, minimal steps, fuel 2 suffices,
   true years under the gap hypothesis 365 d - 25 h with the margin witness, early stop, mtime year).
B. the s4 binary's printed years vs the Coq model `assign_years` (vm_compute) on the same message
   lists + mtime + zone (no window), including the margin witness.
C. failing-input search: the binary on generated RFC 3164 style logs (`Jan  2 03:04:05 host msg`)
   whose TRUE timestamps are chronological with gaps < 365 d - 25 h over 0..3 year boundaries, mtime
   anywhere in the last message's year (os.utime; gzip header MTIME; tar member mtime, with the
   container file's own mtime set elsewhere), several --tz-offset, windows cutting inside the file,
   several --blocksz.  Expected output = the in-window lines, in file order, each prefixed with its
   TRUE instant (UTC) — the spec is the true years the generator started from.
"""
import calendar, gzip, io, json, os, tarfile, time
import vlib
from vlib import CACHE

PROP_FILE = "Props/C11.v"
GAP_S = 365 * 86400 - 25 * 3600          # the constant of C11_assign_true_years, in seconds
MON = ["Jan", "Feb", "Mar", "Apr", "May", "Jun", "Jul", "Aug", "Sep", "Oct", "Nov", "Dec"]
ZONES = [("+00:00", 0), ("-03:30", -12600), ("+05:45", 20700), ("+14:00", 50400), ("-12:00", -43200), ("+09:00", 32400)]
WORDS = ["alpha", "bravo", "charlie", "delta", "echo", "foxtrot", "golf", "hotel", "india", "juliett", "kilo", "lima"]


def civil(ts, off):
    return time.gmtime(ts + off)


def local_year_bounds(y, off):
    """[first, last] second (UTC epoch) of local year y in zone off"""
    return calendar.timegm((y, 1, 1, 0, 0, 0)) - off, calendar.timegm((y + 1, 1, 1, 0, 0, 0)) - off - 1


def word(i):
    s = []
    i += 1
    while i:
        s.append(WORDS[i % len(WORDS)])
        i //= len(WORDS)
    return "-".join(s)


def line_of(ts, off, i):
    g = civil(ts, off)
    return "%s %2d %02d:%02d:%02d host prog: message %s" % (MON[g.tm_mon - 1], g.tm_mday, g.tm_hour, g.tm_min, g.tm_sec, word(i))


def utc_prefix(ts):
    g = time.gmtime(ts)
    return "%04d-%02d-%02dT%02d:%02d:%02d" % (g.tm_year, g.tm_mon, g.tm_mday, g.tm_hour, g.tm_min, g.tm_sec)


def gen_times(rng, off, tier_big):
    """true timestamps, chronological; returns list of epoch seconds or None (regenerate)"""
    n = rng.choice([5, 6, 7, 8, 10, 12, 16, 24, 40] + ([80, 150] if tier_big else []))
    last_year = rng.randrange(1975, 2099)
    lo, hi = local_year_bounds(last_year, off)
    r = rng.random()
    t = lo if r < 0.06 else hi if r < 0.12 else rng.randrange(lo, hi + 1)
    ts = [t]
    style = rng.choice(["dense", "mixed", "mixed", "sparse", "edge"])
    for _ in range(n - 1):
        r = rng.random()
        if style == "dense":
            gap = rng.choice([0, 0, 1, 2, 59, 60, 3600, rng.randrange(0, 3 * 86400)])
        elif style == "sparse":
            gap = rng.randrange(20 * 86400, GAP_S)
        elif style == "edge":
            gap = rng.choice([GAP_S - 1, GAP_S - 1, GAP_S - 2, 86400 * 363, 25 * 3600, 25 * 3600 + 1, 25 * 3600 - 1,
                              86400, 0, 1, rng.randrange(0, GAP_S)])
        else:
            gap = rng.randrange(0, 400) if r < 0.5 else rng.randrange(0, 40 * 86400) if r < 0.85 else rng.randrange(0, GAP_S)
        assert 0 <= gap < GAP_S
        t -= gap
        # snap some messages onto year boundaries (local time)
        if rng.random() < 0.08:
            y = civil(t, off).tm_year
            blo, bhi = local_year_bounds(y, off)
            cand = rng.choice([blo, bhi, blo + 1, bhi - 1])
            if cand <= ts[-1] and ts[-1] - cand < GAP_S:
                t = cand
        if t < 86400 * 366:
            return None
        ts.append(t)
    ts.reverse()
    # Issue #245 (excluded): a 29 February message followed by a message of a later year
    for a, b in zip(ts, ts[1:]):
        ga, gb = civil(a, off), civil(b, off)
        if ga.tm_mon == 2 and ga.tm_mday == 29 and gb.tm_year != ga.tm_year:
            return None
    return ts


def gen_case(rng, k, tier_big):
    zs, off = rng.choice(ZONES)
    while True:
        ts = gen_times(rng, off, tier_big)
        if ts:
            break
    y_last = civil(ts[-1], off).tm_year
    lo, hi = local_year_bounds(y_last, off)
    r = rng.random()
    mtime = lo if r < 0.1 else hi if r < 0.2 else ts[-1] if r < 0.3 else rng.randrange(lo, hi + 1)
    if mtime <= 0:
        mtime = ts[-1]
    container = rng.choice(["plain", "plain", "gz", "tar"])
    if container == "gz" and not (0 < mtime < 2 ** 32):
        container = "plain"
    bs = rng.choice([None, None, 64, 128, 256, 512, 4096])
    window = None
    r = rng.random()
    if r < 0.45:
        i = rng.randrange(len(ts))
        j = rng.randrange(i, len(ts))
        a = ts[i] + rng.choice([0, 0, 1, -1])
        b = ts[j] + rng.choice([0, 0, 1, -1])
        m = rng.random()
        window = (a, None) if m < 0.4 else (None, b) if m < 0.6 else (a, max(a, b))
    return dict(id=k, zone=zs, off=off, ts=ts, mtime=mtime, container=container, blocksz=bs, window=window)


def write_case(d, c):
    lines = [line_of(t, c["off"], i) for i, t in enumerate(c["ts"])]
    data = ("\n".join(lines) + "\n").encode()
    base = os.path.join(d, "c%05d" % c["id"])
    other = c["mtime"] + 3 * 366 * 86400 + 12345          # the container file's own mtime: another year
    if c["container"] == "plain":
        p = base + ".log"
        open(p, "wb").write(data)
        os.utime(p, (c["mtime"], c["mtime"]))
    elif c["container"] == "gz":
        p = base + ".log.gz"
        with open(p, "wb") as f:
            with gzip.GzipFile(filename="", mode="wb", fileobj=f, mtime=c["mtime"]) as g:
                g.write(data)
        os.utime(p, (other, other))
    else:
        p = base + ".tar"
        with tarfile.open(p, "w", format=tarfile.GNU_FORMAT) as tf:
            ti = tarfile.TarInfo("c%05d.log" % c["id"])
            ti.size = len(data)
            ti.mtime = c["mtime"]
            tf.addfile(ti, io.BytesIO(data))
        os.utime(p, (other, other))
    return p, lines


def fmt_bound(t):
    g = time.gmtime(t)
    return "%04d-%02d-%02dT%02d:%02d:%02d+00:00" % (g.tm_year, g.tm_mon, g.tm_mday, g.tm_hour, g.tm_min, g.tm_sec)


def run_case(d, c):
    p, lines = write_case(d, c)
    args = ["--color", "never", "-u", "-d", "%Y-%m-%dT%H:%M:%S", "--tz-offset=" + c["zone"]]
    if c["blocksz"]:
        args += ["--blocksz", str(c["blocksz"])]
    if c["window"]:
        a, b = c["window"]
        if a is not None:
            args += ["-a", fmt_bound(a)]
        if b is not None:
            args += ["-b", fmt_bound(b)]
    rc, out, err = vlib.run_s4(args + [p], timeout=60, env={"TZ": "UTC"})
    exp = []
    for t, l in zip(c["ts"], lines):
        if c["window"]:
            a, b = c["window"]
            if (a is not None and t < a) or (b is not None and t > b):
                continue
        exp.append(utc_prefix(t) + ":" + l)
    got = out.decode("utf-8", "replace").split("\n")
    if got and got[-1] == "":
        got.pop()
    return rc, exp, got, err.decode("utf-8", "replace")[-300:], args, p


def case_summary(c):
    return dict(zone=c["zone"], mtime=c["mtime"], container=c["container"], blocksz=c["blocksz"], window=c["window"],
                n=len(c["ts"]), ts=c["ts"] if len(c["ts"]) <= 40 else c["ts"][:40])


def feb29_after_earlier_year(c):
    """a 29 February message directly preceded by a message of an earlier year"""
    for a, b in zip(c["ts"], c["ts"][1:]):
        ga, gb = civil(a, c["off"]), civil(b, c["off"])
        if gb.tm_mon == 2 and gb.tm_mday == 29 and ga.tm_year < gb.tm_year:
            return True
    return False


def unwalked_message_in_window_under_dummy_year(c):
    """--dt-after given; a message ABOVE the last message before the bound (those are never re-dated by the
    walk, which stops there) whose stamp, read in the hard-coded fill year 1972, falls inside the window"""
    if not c["window"] or c["window"][0] is None:
        return False
    a, b = c["window"]
    below = [i for i, t in enumerate(c["ts"]) if t < a]
    if not below:
        return False
    for i in range(below[-1]):
        g = civil(c["ts"][i], c["off"])
        t72 = calendar.timegm((1972, g.tm_mon, g.tm_mday, g.tm_hour, g.tm_min, g.tm_sec)) - c["off"]
        if a <= t72 and (b is None or t72 <= b):
            return True
    return False


def boundaries(c):
    ys = [civil(t, c["off"]).tm_year for t in c["ts"]]
    return len(set(ys)) - 1


def streamed_prefix_keeps_filler_year(c, exp, got):
    """class of the recorded defect W5 (found and characterised by C02): in a STREAMED year-less log (.gz here)
    whose block zero was dropped by the look-behind before drops were disabled, the reverse pass stops early
    and a non-empty PREFIX of the messages keeps the filler year (1972, give or take the zone), all other lines
    being as expected"""
    if c["container"] != "gz" or len(exp) != len(got) or not exp:
        return False
    k = 0
    while k < len(exp) and got[k] != exp[k]:
        if got[k][19:] != exp[k][19:] or got[k][:4] not in ("1971", "1972", "1973") or exp[k][:4] in ("1971", "1972", "1973"):
            return False
        k += 1
    return k >= 1 and got[k:] == exp[k:]


def run(ctx):
    quick = ctx.quick()
    n_cases = 1500 if quick else 40000
    vlib.proof_stage(ctx, PROP_FILE, ["nogen"], extra_targets=["Corr/C11.vo"])
    ok, log = vlib.build_s4()
    if not ok:
        ctx.obligation_broken("build", "s4 binary", log)
        return ctx.finish()
    rng = ctx.rng
    d = vlib.scratch_dir("C11")
    cases = [gen_case(rng, k, not quick) for k in range(n_cases)]
    # the Coq margin witness, replayed (model-vs-binary only: outside the domain of C)
    margin = dict(id=n_cases, zone="+00:00", off=0, ts=[calendar.timegm((2021, 3, 1, 0, 0, 0)), calendar.timegm((2022, 2, 27, 23, 0, 0))] ,
                  mtime=calendar.timegm((2022, 6, 1, 0, 0, 0)), container="plain", blocksz=None, window=None)
    # pad the margin file to pass block-zero acceptance: later messages in 2022
    margin["ts"] += [margin["ts"][-1] + 60 * k for k in range(1, 6)]
    results = []
    from concurrent.futures import ThreadPoolExecutor
    with ThreadPoolExecutor(max_workers=vlib.NCPU) as ex:
        results = list(ex.map(lambda c: run_case(d, c), cases + [margin]))
    # ---- C: binary vs the true timestamps
    fails = 0
    hist_b, hist_c, hist_z, hist_w, hist_bs = {}, {}, {}, {}, {}
    printed_total = 0
    for c, (rc, exp, got, err, args, p) in zip(cases, results):
        nb = boundaries(c)
        hist_b[nb] = hist_b.get(nb, 0) + 1
        hist_c[c["container"]] = hist_c.get(c["container"], 0) + 1
        hist_z[c["zone"]] = hist_z.get(c["zone"], 0) + 1
        wk = "none" if not c["window"] else ("a" if c["window"][1] is None else "b" if c["window"][0] is None else "ab")
        hist_w[wk] = hist_w.get(wk, 0) + 1
        hist_bs[str(c["blocksz"])] = hist_bs.get(str(c["blocksz"]), 0) + 1
        printed_total += len(got)
        if rc == 124 or got != exp:
            fails += 1
            k = next((i for i, (a, b) in enumerate(zip(exp, got)) if a != b), min(len(exp), len(got)))
            cls = ["feb29_message_preceded_by_message_of_earlier_year"] if feb29_after_earlier_year(c) else []
            if unwalked_message_in_window_under_dummy_year(c):
                cls.append("unwalked_message_in_window_under_dummy_year")
            if rc != 124 and streamed_prefix_keeps_filler_year(c, exp, got):
                cls.append("yearless_first_messages_keep_filler_year")
            ctx.failure(dict(case_summary(c), args=args, first_difference_at_output_line=k),
                        exp[k] if k < len(exp) else "<end of output> (%d lines)" % len(exp),
                        ("hang" if rc == 124 else got[k] if k < len(got) else "<end of output> (%d lines) %s" % (len(got), err)), cls)
    # ---- B: binary years vs the Coq model (no-window cases + margin witness)
    bcases = [(c, r) for c, r in zip(cases + [margin], results) if not c["window"] and not feb29_after_earlier_year(c)
              and not streamed_prefix_keeps_filler_year(c, r[1], r[2])]
    if quick:
        bcases = bcases[:600] + bcases[-1:]
    hdr = vlib.COQ_PRINT_HDR + "From Coq Require Import ZArith List NArith.\nImport ListNotations.\nFrom S4.Corr Require Import C11.\nOpen Scope Z_scope.\n"
    shards = vlib.shard(list(range(len(bcases))), vlib.NCPU)
    texts = []
    unparsable = 0
    for sh_ in shards:
        rows = []
        for i in sh_:
            c, (rc, exp, got, err, args, p) = bcases[i]
            msgs = []
            for t in c["ts"]:
                g = civil(t, c["off"])
                msgs.append("(%d, %d, %d)" % (g.tm_mon, g.tm_mday, (g.tm_hour * 3600 + g.tm_min * 60 + g.tm_sec) * 10 ** 9))
            years = []
            for l in got:
                try:
                    # the printed instant is UTC; the model's year is the zone-local year of that instant
                    tt = calendar.timegm(time.strptime(l[:19], "%Y-%m-%dT%H:%M:%S"))
                    years.append(civil(tt, c["off"]).tm_year)
                except ValueError:
                    unparsable += 1
            rows.append("((%d), %d, [%s], [%s])" % (c["off"], c["mtime"], "; ".join(msgs), "; ".join(str(y) for y in years)))
        texts.append(hdr + "Definition cases : list (Z * Z * list (Z * Z * Z) * list Z) := [\n%s\n].\nEval vm_compute in (model_bad cases).\n" % ";\n".join(rows))
    res = vlib.coq_eval_shards(os.path.join(CACHE, "cases", "C11"), texts)
    model_dis = []
    for sh_, (rc, out) in zip(shards, res):
        import re
        m = re.search(r"=\s*(\[.*\])\s*:\s*list", out, flags=re.S) if rc == 0 else None
        if not m:
            ctx.obligation_broken("correspondence", "model evaluation (coqc on cases)", out)
            break
        body = m.group(1)
        for mm in re.finditer(r"\((\d+),\s*\[([^\]]*)\]\)", body):
            model_dis.append((sh_[int(mm.group(1))], [int(x) for x in re.findall(r"\d+", mm.group(2))]))
    for i, my in model_dis[:1]:
        c, (rc, exp, got, err, args, p) = bcases[i]
        ctx.obligation_broken("correspondence", "s4 (process_missing_year) vs Model.Year.assign_years",
                              json.dumps(dict(case=case_summary(c), model_years=my, impl_lines=got[:50], disagreements=len(model_dis))))
    margin_got = results[-1][2]
    margin_note = [l[:19] for l in margin_got[:2]]
    ctx.coverage.update(
        evaluations=len(cases), distinct_nontrivial=sum(1 for c in cases if boundaries(c) >= 1 or c["window"] or c["container"] != "plain"),
        rule="one generated year-less log per case (5..%d messages, RFC 3164 stamps rendered in the case's zone from chronological true instants, gaps 0 s .. 365 d - 25 h - 1 s incl. the boundary values, year-boundary seconds snapped in), mtime anywhere in the last message's local year (first/last second included); non-trivial = spans >= 1 year boundary, or has a window, or is a gz/tar container (stored mtime, container mtime set 3 years off)" % max(len(c["ts"]) for c in cases),
        samples=[case_summary(c) for c in cases[:3]],
        year_boundaries_histogram={str(k): v for k, v in sorted(hist_b.items())}, container_histogram=hist_c, zone_histogram=hist_z,
        window_histogram=hist_w, blocksz_histogram=hist_bs, printed_lines_compared=printed_total,
        spec_failures=fails, model_cases=len(bcases), model_disagreements=len(model_dis), unparsable_prefixes=unparsable,
        margin_witness_on_binary=margin_note)
    ctx.assumptions += [
        "the text generator renders the true instants with python's time.gmtime (civil calendar oracle independent of the Coq model)",
        "property domain as stated in C11_assign_true_years: chronological, consecutive gaps < 365 d - 25 h (the property's 'under one year' minus the 25 h tolerance; the margin case is C11_assign_margin_witness and is replayed on the binary), no 29 Feb followed by a later year (Issue #245), mtime within the last message's year read in the --tz-offset zone",
        "regex matching and chrono parsing of the RFC 3164 stamp are outside the model (oracle `dated`); C04 covers the normalisation",
    ]
    return ctx.finish()


def replay(ctx, path):
    r = json.load(open(path))
    ok, log = vlib.build_s4()
    d = vlib.scratch_dir("C11-replay")
    bad = 0
    for k, f in enumerate(r.get("failures", [])):
        c = f["case"]
        zone = c["zone"]
        off = dict(ZONES)[zone]
        cc = dict(id=k, zone=zone, off=off, ts=c["ts"], mtime=c["mtime"], container=c["container"], blocksz=c["blocksz"],
                  window=tuple(c["window"]) if c["window"] else None)
        rc, exp, got, err, args, p = run_case(d, cc)
        print("replay %s: expected %d lines, got %d; equal=%s" % (p, len(exp), len(got), exp == got))
        if exp != got:
            for a, b in list(zip(exp, got))[:200]:
                if a != b:
                    print("  expected: %s\n  got     : %s" % (a, b))
                    break
            bad += 1
    if bad:
        print("VIOLATION property=C11 replay=%s" % path)
        return 1
    return 0
