"""C09 — journal files: every entry once, in journal order, fields intact (partial: libsystemd is an oracle).

A. Coq: Props/C09.v (window theorem for the repaired stop test, export round trip for arbitrary
   value bytes, cat = MESSAGE, end-to-end statement; refuted lemmas for the old stop test (F2),
   the old text-only export printer (F10) and pre-1970 bounds).
B. s4 binary vs the Coq MODEL (vm_compute): for each journal x window the model's entry sequence
   (seek + enumeration loop, u64 cast of the bounds) must equal what the binary printed
   (decoded from the export rendering by cursor); model `render_export`/`render_cat` vs the bytes
   the binary printed for sampled entries; `export_data_is_text` (in-process) vs model `text_safe`;
   the python twin of `parse_export` vs the Coq `parse_export` on the same bytes.
C. s4 binary vs the ORACLE journalctl --file (export, cat exact after parsing; the other eight
   renderings for entry count, order and MESSAGE text) and vs the SPEC (inclusive window on
   __REALTIME_TIMESTAMP) for every window, container and --tz-offset.  Always run.
"""
import bz2, ctypes, datetime, gzip, json, lzma, os, random, re, shutil, struct, subprocess, threading, time
from concurrent.futures import ThreadPoolExecutor
import vlib
from vlib import CACHE, REPO
import c09_render

PROP_FILE = "Props/C09.v"
OTHER_RENDERINGS = ["short", "short-precise", "short-iso", "short-iso-precise", "short-full",
                    "short-monotonic", "short-unix", "verbose"]
U64 = 1 << 64


def hx(b):
    return bytes(b).hex()


# ----------------------------------------------------------------------------- python twins

def parse_export_spans(b):
    """Hand-extracted twin of Coq Model.Journal.parse_export.
    Returns list of (fields, start, end) with fields = [(key, value, form 't'|'b')], or None (malformed)."""
    out = []
    p, n = 0, len(b)
    while p < n:
        start = p
        fields = []
        while True:
            if p >= n:
                return None
            if b[p] == 10:
                p += 1
                break
            q = b.find(b"\n", p)
            if q < 0:
                return None
            line = b[p:q]
            e = line.find(b"=")
            if e >= 0:
                fields.append((line[:e], line[e + 1:], "t"))
                p = q + 1
            else:
                rest = q + 1
                if n - rest < 8:
                    return None
                ln = struct.unpack("<Q", b[rest:rest + 8])[0]
                if n - (rest + 8) < ln + 1:
                    return None
                if b[rest + 8 + ln] != 10:
                    return None
                fields.append((line, b[rest + 8:rest + 8 + ln], "b"))
                p = rest + 8 + ln + 1
        out.append((fields, start, p))
    return out


def parse_export(b):
    r = parse_export_spans(b)
    return None if r is None else [[(k, v) for k, v, _ in f] for f, _, _ in r]


def text_safe_twin(data):
    """systemd utf8_is_printable_newline(data, len, allow_newline=false): what journalctl -o export tests."""
    try:
        s = data.decode("utf-8")        # strict: no overlong forms, no surrogates, <= U+10FFFF
    except UnicodeDecodeError:
        return False
    for ch in s:
        c = ord(ch)
        if (c < 0x20 and c != 9) or 0x7F <= c <= 0x9F:
            return False
        if 0xFDD0 <= c <= 0xFDEF or (c & 0xFFFE) == 0xFFFE:
            return False
    return True


def short_tail(fields):
    """` HOST IDENT[PID]: MESSAGE\\n` exactly as next_short assembles it (enumeration order, early break)."""
    d = {}
    want = {b"_HOSTNAME", b"SYSLOG_IDENTIFIER", b"SYSLOG_PID", b"_COMM", b"_PID", b"MESSAGE"}
    for data in fields[:200]:
        k, eq, v = data.partition(b"=")
        if not eq:
            continue
        if k in want:
            d[k] = v
        if all(x in d for x in (b"_HOSTNAME", b"SYSLOG_IDENTIFIER", b"SYSLOG_PID", b"_PID", b"MESSAGE")):
            break
    t = b""
    if b"_HOSTNAME" in d:
        t += b" " + d[b"_HOSTNAME"]
    if b"SYSLOG_IDENTIFIER" in d:
        t += b" " + d[b"SYSLOG_IDENTIFIER"]
    elif b"_COMM" in d:
        t += b" " + d[b"_COMM"]
    if b"_PID" in d:
        t += b"[" + d[b"_PID"] + b"]"
    elif b"SYSLOG_PID" in d:
        t += b"[" + d[b"SYSLOG_PID"] + b"]"
    if b"MESSAGE" in d:
        t += b": " + d[b"MESSAGE"]
    return t + b"\n"


TS_RE = {
    "short": rb"[A-Z][a-z]{2} \d\d \d\d:\d\d:\d\d",
    "short-precise": rb"[A-Z][a-z]{2} \d\d \d\d:\d\d:\d\d\.\d{6}",
    "short-iso": rb"\d{4}-\d\d-\d\d \d\d:\d\d:\d\d",
    "short-iso-precise": rb"\d{4}-\d\d-\d\dT\d\d:\d\d:\d\d\.\d{6}[+-]\d{4}",
    "short-full": rb"[A-Z][a-z]{2} \d{4}-\d\d-\d\d \d\d:\d\d:\d\d [^ \n]+",
    "short-monotonic": rb"\[[ 0-9]*\.?\d*\]",
    "short-unix": rb"\d+\.\d{6}",
}
TS_RE = {k: re.compile(v) for k, v in TS_RE.items()}
VERBOSE_HDR = re.compile(rb"[A-Z][a-z]{2} \d{4}-\d\d-\d\d \d\d:\d\d:\d\d\.\d{6} [^ \n]+ \[([^\]\n]*)\]\n")


def match_short(rendering, out, entries, idxs):
    """sequential match of the printed text against the expected entries; returns None or a reason"""
    p = 0
    rx = TS_RE[rendering]
    for n, i in enumerate(idxs):
        m = rx.match(out, p)
        if not m:
            return "entry #%d (journal index %d): no timestamp at offset %d: %r" % (n, i, p, out[p:p + 60])
        p = m.end()
        tail = entries[i]["short_tail"]
        if out[p:p + len(tail)] != tail:
            return "entry #%d (journal index %d): text after the timestamp differs: got %r expected %r" % (
                n, i, out[p:p + min(len(tail), 120)], tail[:120])
        p += len(tail)
    if p != len(out):
        return "%d extra bytes after the last expected entry: %r" % (len(out) - p, out[p:p + 80])
    return None


def match_verbose(out, entries, idxs):
    hdrs = [(m.start(), m.end(), m.group(1)) for m in VERBOSE_HDR.finditer(out) if m.start() == 0 or out[m.start() - 1:m.start()] == b"\n"]
    # multi-line values could in principle imitate a header; only headers with a known cursor count
    known = {entries[i]["cursor"] for i in range(len(entries))}
    hdrs = [h for h in hdrs if h[2] in known]
    got = [h[2] for h in hdrs]
    exp = [entries[i]["cursor"] for i in idxs]
    if got != exp:
        return "cursor sequence differs: got %d entries, expected %d; first difference at %s" % (
            len(got), len(exp), next((k for k in range(min(len(got), len(exp))) if got[k] != exp[k]), min(len(got), len(exp))))
    if idxs and hdrs[0][0] != 0:
        return "output does not start with an entry header"
    for n, i in enumerate(idxs):
        blk = out[hdrs[n][1]:(hdrs[n + 1][0] if n + 1 < len(hdrs) else len(out))]
        msg = entries[i]["message"]
        if msg is not None and (b"    MESSAGE=" + msg + b"\n") not in blk:
            return "entry #%d (journal index %d): MESSAGE text not in the verbose block" % (n, i)
    return None


# ----------------------------------------------------------------------------- libsystemd (oracle, via ctypes)

_SD = None
_SD_LOCK = threading.Lock()


def _sd():
    global _SD
    if _SD is None:
        _SD = ctypes.CDLL("libsystemd.so.0")
    return _SD


def sd_read(path, seek=None, fields=True):
    """enumerate a journal file with libsystemd directly: [(realtime, cursor, monotonic|None, [data objects])]"""
    L = _sd()
    with _SD_LOCK:
        j = ctypes.c_void_p()
        arr = (ctypes.c_char_p * 2)(path.encode(), None)
        r = L.sd_journal_open_files(ctypes.byref(j), arr, 0)
        if r < 0:
            raise OSError("sd_journal_open_files(%s) = %d" % (path, r))
        try:
            r = L.sd_journal_seek_head(j) if seek is None else L.sd_journal_seek_realtime_usec(j, ctypes.c_uint64(seek))
            if r < 0:
                raise OSError("seek = %d" % r)
            out = []
            while True:
                r = L.sd_journal_next(j)
                if r < 0:
                    raise OSError("sd_journal_next = %d" % r)
                if r == 0:
                    break
                t = ctypes.c_uint64()
                if L.sd_journal_get_realtime_usec(j, ctypes.byref(t)) < 0:
                    raise OSError("get_realtime_usec")
                cur = ctypes.c_char_p()
                if L.sd_journal_get_cursor(j, ctypes.byref(cur)) < 0:
                    raise OSError("get_cursor")
                cursor = ctypes.string_at(cur)
                mono = ctypes.c_uint64()
                boot = (ctypes.c_uint8 * 16)()
                rm = L.sd_journal_get_monotonic_usec(j, ctypes.byref(mono), ctypes.byref(boot))
                fl = []
                if fields:
                    L.sd_journal_restart_data(j)
                    while True:
                        d = ctypes.c_void_p()
                        n = ctypes.c_size_t()
                        r = L.sd_journal_enumerate_available_data(j, ctypes.byref(d), ctypes.byref(n))
                        if r < 0:
                            raise OSError("enumerate_available_data = %d" % r)
                        if r == 0:
                            break
                        fl.append(ctypes.string_at(d, n.value))
                out.append((t.value, cursor, mono.value if rm >= 0 else None, fl))
            return out
        finally:
            L.sd_journal_close(j)


# ----------------------------------------------------------------------------- fixtures

def fixtures(scratch, quick):
    """base journals (plain path for the oracle) and the container variants s4 is run on"""
    jd = os.path.join(REPO, "logs", "programs", "journal")
    fx = []

    def plain_from_gz(name, out):
        p = os.path.join(scratch, out)
        with open(p, "wb") as f:
            f.write(gzip.open(os.path.join(jd, name)).read())
        return p

    rhe = plain_from_gz("RHE_91_system.journal.gz", "RHE_91_system.journal")
    u22 = plain_from_gz("Ubuntu22-user-1000x3.journal.gz", "Ubuntu22-user-1000x3.journal")
    fx.append(dict(name="RHE_91", plain=rhe, containers=[(e, os.path.join(jd, "RHE_91_system.journal." + e)) for e in ("gz", "bz2", "xz", "lz4")]))
    fx.append(dict(name="Ubuntu22x3", plain=u22, containers=[(e, os.path.join(jd, "Ubuntu22-user-1000x3.journal." + e)) for e in ("gz", "bz2", "xz", "lz4")]))
    u16 = [os.path.join(dp, f) for dp, _, fs in os.walk(os.path.join(REPO, "logs", "Ubuntu16")) for f in fs if f.endswith(".journal")]
    for p in sorted(u16):
        if os.path.getsize(p) == 0:
            continue
        data = open(p, "rb").read()
        cont = []
        for ext, comp in (("gz", lambda d: gzip.compress(d, 6)), ("bz2", bz2.compress), ("xz", lambda d: lzma.compress(d, format=lzma.FORMAT_XZ))):
            q = os.path.join(scratch, "u16_system.journal." + ext)
            with open(q, "wb") as f:
                f.write(comp(data))
            cont.append((ext + "(py)", q))
        fx.append(dict(name="Ubuntu16", plain=p, containers=cont))
        break
    osd = os.path.join(REPO, "logs", "OpenSUSE15", "journal")
    for dp, _, fs in os.walk(osd):
        for f in sorted(fs):
            p = os.path.join(dp, f)
            if f.endswith(".journal") and os.path.getsize(p) > 0:
                try:
                    if sd_read(p, fields=False):
                        fx.append(dict(name="OpenSUSE15", plain=p, containers=[]))
                except OSError:
                    pass
    return fx


def message_objects(buf):
    """payload positions of the uncompressed DATA objects whose payload starts with `MESSAGE=`: {payload: [pos]}"""
    incompat = struct.unpack_from("<I", buf, 12)[0]
    hdr = 72 if incompat & 16 else 64          # HEADER_INCOMPATIBLE_COMPACT: two extra 32-bit words
    out = {}
    p = buf.find(b"MESSAGE=")
    while p >= 0:
        o = p - hdr
        if o >= 0 and o % 8 == 0 and buf[o] == 1 and buf[o + 1] & 7 == 0:     # OBJECT_DATA, not compressed
            size = struct.unpack_from("<Q", buf, o + 8)[0]
            if hdr + 8 <= size <= len(buf) - o:
                out.setdefault(bytes(buf[p:o + size]), []).append(p)
        p = buf.find(b"MESSAGE=", p + 1)
    return out


CRAFT_VARIANTS = ("nomsg10", "nomsg50", "run40", "all")


def craft_fixtures(scratch, bases, seed, quick, only=None):
    """journals in which many entries have no MESSAGE field: the bytes `MESSAGE=` of stored DATA objects
    are overwritten with `MESSAGX=` (same length; libsystemd does not verify data hashes on read).
    The oracle for a crafted file is journalctl/libsystemd on that same file."""
    out = []
    for base in bases:
        buf0 = open(base["plain"], "rb").read()
        objs = message_objects(buf0)
        msgs = [next((d for d in e["data"] if d.startswith(b"MESSAGE=")), None) for e in base["entries"]]
        n = len(msgs)
        for var in CRAFT_VARIANTS:
            name = "%s~%s" % (base["name"], var)
            if only is not None and name not in only:
                continue
            r = random.Random("%d:%s" % (seed, name))
            if var == "nomsg10":
                chosen = r.sample(range(n), max(1, n // 10))
            elif var == "nomsg50":
                chosen = r.sample(range(n), max(1, n // 2))
            elif var == "run40":
                i0 = r.randrange(max(1, n - 110))
                chosen = list(range(i0, min(n, i0 + 40))) + list(range(min(n, i0 + 41), min(n, i0 + 101), 2))
            else:
                chosen = list(range(n))
            buf = bytearray(buf0)
            for i in chosen:
                for p in objs.get(msgs[i], []):
                    buf[p:p + 8] = b"MESSAGX="
            path = os.path.join(scratch, "%s_%s.journal" % (base["name"], var))
            with open(path, "wb") as f:
                f.write(buf)
            cont = []
            gz = path + ".gz"
            with open(gz, "wb") as f:
                f.write(gzip.compress(bytes(buf), 1))
            cont.append(("gz(py)", gz))
            if var == "all":
                xz = path + ".xz"
                with open(xz, "wb") as f:
                    f.write(lzma.compress(bytes(buf), format=lzma.FORMAT_XZ, preset=0))
                cont.append(("xz(py)", xz))
            out.append(dict(name=name, plain=path, containers=cont, crafted=var, base=base["name"]))
    return out


def journalctl(path, fmt):
    rc, out, err = vlib.sh2(["journalctl", "--file", path, "-o", fmt, "--all", "--utc", "--no-pager"], timeout=120,
                            env={"TZ": "UTC", "PAGER": "", "SYSTEMD_PAGER": ""})
    if rc != 0:
        raise OSError("journalctl -o %s %s: rc %d %s" % (fmt, path, rc, err[-300:]))
    return out


def load_oracle(fx):
    """fills fx['entries'] (one dict per entry) from libsystemd + journalctl; returns list of oracle inconsistencies"""
    problems = []
    sd = sd_read(fx["plain"])
    jc = parse_export_spans(journalctl(fx["plain"], "export"))
    if jc is None:
        return ["journalctl -o export does not parse"]
    if len(jc) != len(sd):
        return ["journalctl export has %d entries, libsystemd enumerates %d" % (len(jc), len(sd))]
    js = [json.loads(l) for l in journalctl(fx["plain"], "json").splitlines() if l.strip()]
    if len(js) != len(sd):
        problems.append("journalctl json has %d entries, libsystemd %d" % (len(js), len(sd)))
    entries = []
    for i, ((t, cursor, mono, fl), (jf, _, _)) in enumerate(zip(sd, jc)):
        jd = [(k, v) for k, v, _ in jf]
        forms = {(k, v): f for k, v, f in jf}
        pairs = []
        for d in fl:
            k, eq, v = d.partition(b"=")
            if not eq:
                problems.append("entry %d: data object without '='" % i)
            pairs.append((k, v))
        hdr = [k for k, _ in jd[:3]]
        if hdr != [b"__CURSOR", b"__REALTIME_TIMESTAMP", b"__MONOTONIC_TIMESTAMP"]:
            problems.append("entry %d: journalctl export header %r" % (i, hdr))
        elif jd[0][1] != cursor or jd[1][1] != str(t).encode() or (mono is not None and jd[2][1] != str(mono).encode()):
            problems.append("entry %d: cursor/realtime/monotonic differ between journalctl and libsystemd" % i)
        # journalctl prints _BOOT_ID right after the header; otherwise the enumeration order
        a = [x for x in jd[3:] if x[0] != b"_BOOT_ID"]
        b = [x for x in pairs if x[0] != b"_BOOT_ID"]
        if a != b or sorted(jd[3:]) != sorted(pairs):
            problems.append("entry %d: journalctl export fields differ from libsystemd enumeration" % i)
        for (k, v) in pairs:
            f = forms.get((k, v))
            if f is not None and (f == "t") != text_safe_twin(k + b"=" + v):
                problems.append("entry %d field %r: journalctl form %s, twin of utf8_is_printable_newline says %s" % (i, k, f, text_safe_twin(k + b"=" + v)))
        if i < len(js) and int(js[i].get("__REALTIME_TIMESTAMP", -1)) != t:
            problems.append("entry %d: json realtime differs" % i)
        msg = next((v for k, v in pairs if k == b"MESSAGE"), None)
        entries.append(dict(t=t, cursor=cursor, mono=mono, data=fl, pairs=pairs, jc_fields=jf, message=msg,
                            cat=(msg + b"\n") if msg is not None else b"", short_tail=short_tail(fl)))
    fx["entries"] = entries
    fx["times"] = [e["t"] for e in entries]
    fx["cursor_idx"] = {e["cursor"]: i for i, e in enumerate(entries)}
    if len(fx["cursor_idx"]) != len(entries):
        problems.append("cursors are not unique")
    cat = journalctl(fx["plain"], "cat")
    if cat != b"".join(e["cat"] for e in entries):
        problems.append("journalctl -o cat is not the concatenation of MESSAGE + newline")
    # the theorem's hypotheses on the journal: non-decreasing, valid (positive) receive times
    fx["sorted"] = all(a <= b for a, b in zip(fx["times"], fx["times"][1:])) and all(t > 0 for t in fx["times"])
    return problems[:10]


# ----------------------------------------------------------------------------- windows

def fmt_bound(us, off_min=0, with_zone=True):
    d = datetime.datetime(1970, 1, 1) + datetime.timedelta(microseconds=us) + datetime.timedelta(minutes=off_min)
    s = d.strftime("%Y-%m-%dT%H:%M:%S") + ".%06d" % d.microsecond
    if with_zone:
        sign = "-" if off_min < 0 else "+"
        s += "%s%02d:%02d" % (sign, abs(off_min) // 60, abs(off_min) % 60)
    return s


def spec_idx(times, A, B):
    return [i for i, t in enumerate(times) if (A is None or A <= t) and (B is None or t <= B)]


def corpus_windows(name):
    p = os.path.join(vlib.ROOT, "corpus", "C09", "windows.txt")
    out = []
    if os.path.exists(p):
        for line in open(p):
            w = line.split()
            if len(w) == 3 and not line.startswith("#") and w[0] == name:
                out.append(tuple(None if x == "-" else int(x) for x in w[1:]))
    return out


def gen_windows(rng, times, quick):
    D = sorted(set(times))
    t0, tN = times[0], times[-1]
    mult = {}
    for t in times:
        mult[t] = mult.get(t, 0) + 1
    picks = {D[0], D[-1], D[len(D) // 2]}
    dups = sorted((t for t in D if mult[t] > 1), key=lambda t: -mult[t])
    picks.update(dups[:2 if quick else 8])
    k = 3 if quick else 40
    picks.update(rng.sample(D, min(k, len(D))))
    picks = sorted(picks)
    W = [(None, None)]
    for X in picks:
        W += [(X - 1, None), (X, None), (X + 1, None), (None, X - 1), (None, X), (None, X + 1),
              (X, X), (X - 1, X - 1), (X + 1, X + 1), (X - 1, X + 1), (X, X + 1), (X - 1, X)]
    pairs = [(a, b) for a in picks for b in picks if a < b]
    rng.shuffle(pairs)
    for a, b in pairs[:4 if quick else 60]:
        W += [(a, b), (a + 1, b - 1), (a - 1, b + 1), (a, b - 1), (a + 1, b)]
    W += [(t0 - 10 ** 7, t0 - 1), (None, t0 - 1), (t0 - 5, None), (tN + 1, None), (tN + 1, tN + 10 ** 6), (None, tN + 10 ** 9),
          (0, None), (None, 0), (0, tN)]
    # bounds before 1970 (clamped to 0 since the repair of bound_before_unix_epoch)
    W += [(-1, None), (None, -1), (-315619200 * 10 ** 6, None), (-5, -1)]
    out, seen = [], set()
    for w in W:
        if w in seen or (w[0] is not None and w[1] is not None and w[0] > w[1]):
            continue
        seen.add(w)
        out.append(w)
    return out, picks


def is_sharp(times_set, A, B):
    """non-trivial window: a bound within 1 us of an entry time, or A = B"""
    near = lambda x: x is not None and (x in times_set or x - 1 in times_set or x + 1 in times_set)
    return near(A) or near(B) or (A is not None and A == B)


def bound_before_unix_epoch(A, B):
    return (A is not None and A < 0) or (B is not None and B < 0)


# ----------------------------------------------------------------------------- running the binary

class Runner:
    def __init__(self, scratch):
        self.scratch = scratch
        self.n = 0
        self.lock = threading.Lock()
        self.leftovers = []
        self.hangs = 0

    def run(self, job):
        with self.lock:
            self.n += 1
            k = self.n
        tmp = os.path.join(self.scratch, "tmp", "%05d" % k)
        os.makedirs(tmp)
        args = ["--color", "never", "--journal-output", job["rendering"]]
        tz = job.get("tz")
        if tz is not None:
            args.append("--tz-offset=" + tz[0])
        A, B = job["A"], job["B"]
        off = tz[1] if (tz is not None and job.get("naive")) else 0
        wz = not job.get("naive")
        if A is not None:
            args += ["-a", fmt_bound(A, off, wz)]
        if B is not None:
            args += ["-b", fmt_bound(B, off, wz)]
        args.append(job["path"])
        rc, out, err = vlib.run_s4(args, timeout=60, env={"TZ": "UTC", "TMPDIR": tmp})
        left = os.listdir(tmp)
        if left:
            with self.lock:
                self.leftovers.append((args, left))
        shutil.rmtree(tmp, ignore_errors=True)
        if rc == 124:
            with self.lock:
                self.hangs += 1
        job["args"] = args
        job["rc"], job["out"], job["err"] = rc, out, err[-300:].decode("utf-8", "replace")
        return job


def decode_export(out, fx, slices):
    """index sequence printed by an export run (None, reason when the bytes are not a concatenation of entry blobs)"""
    idx = []
    p = 0
    n = len(out)
    while p < n:
        if not out.startswith(b"__CURSOR=", p):
            return None, "offset %d: expected __CURSOR=, got %r" % (p, out[p:p + 40])
        q = out.find(b"\n", p)
        i = fx["cursor_idx"].get(out[p + 9:q])
        if i is None:
            return None, "offset %d: unknown cursor %r" % (p, out[p + 9:q][:80])
        s = slices[i]
        if out[p:p + len(s)] != s:
            return None, "entry with journal index %d differs from the same entry in the full export run" % i
        idx.append(i)
        p += len(s)
    return idx, None


# ----------------------------------------------------------------------------- Coq case files

HDR = (vlib.COQ_PRINT_HDR + "From Coq Require Import String List NArith ZArith.\nImport ListNotations.\n"
       "From S4.Model Require Import Journal.\nFrom S4.Corr Require Import C09.\nOpen Scope string_scope.\n")


def zopt(x):
    return "None" if x is None else ("(Some (%d)%%Z)" % x)


def nlist(l):
    return "[" + "; ".join("%d%%N" % i for i in l) + "]"


def coq_fields(pairs):
    return "[" + "; ".join('("%s", "%s")' % (hx(k), hx(v)) for k, v in pairs) + "]"


def runs_of(ix):
    out = []
    for i in ix:
        if out and out[-1][0] + out[-1][1] == i:
            out[-1][1] += 1
        else:
            out.append([i, 1])
    return "[" + "; ".join("(%d%%N, %d%%N)" % (a, n) for a, n in out) + "]"


def coq_window_text(times, cases):
    return (HDR + "Definition ts : list Z := [%s]%%Z.\n" % "; ".join(str(t) for t in times)
            + "Definition cases : list (option Z * option Z * list (N * N)) := [\n%s\n].\n" % ";\n".join(
                "(%s, %s, %s)" % (zopt(a), zopt(b), runs_of(ix)) for a, b, ix in cases)
            + "Eval vm_compute in (window_bad ts cases).\n")


def run_coq_all(ctx, groups):
    """groups: {name: (what, [(text, keylist)])}; one parallel coqc run over every case file.
    Returns {name: list of (key, code) | None when the evaluation failed}"""
    flat = [(name, t, keys) for name, (what, texts) in groups.items() for t, keys in texts]
    res = vlib.coq_eval_shards(os.path.join(CACHE, "cases", "C09"), [t for _, t, _ in flat])
    out = {name: [] for name in groups}
    for (name, text, keys), (rc, o) in zip(flat, res):
        pairs = vlib.parse_eval_pairs(o) if rc == 0 else None
        if pairs is None:
            if out[name] is not None:
                ctx.obligation_broken("correspondence", "model evaluation (coqc on %s cases)" % groups[name][0], o)
            out[name] = None
            continue
        if out[name] is not None:
            out[name] += [(keys[k], code) for k, code in pairs]
    return out


# ----------------------------------------------------------------------------- generators for the in-process / parser ties

def gen_data_objects(rng, n):
    """byte strings `KEY=VALUE` around every boundary of the text/binary rule"""
    cps = [0, 1, 8, 9, 10, 11, 13, 27, 31, 32, 61, 126, 127, 128, 133, 159, 160, 255, 0x7FF, 0x800, 0xD7FF, 0xE000,
           0xFDCF, 0xFDD0, 0xFDEF, 0xFDF0, 0xFFFD, 0xFFFE, 0xFFFF, 0x10000, 0x1FFFD, 0x1FFFE, 0x1FFFF, 0x2FFFE, 0xFFFFE, 0x10FFFD, 0x10FFFE, 0x10FFFF]
    raw = [b"\xc0\x80", b"\xc1\xbf", b"\xc2", b"\xc2\x7f", b"\xc2\xc0", b"\xdf\xbf", b"\xe0\x80\x80", b"\xe0\x9f\xbf", b"\xe0\xa0\x80",
           b"\xed\x9f\xbf", b"\xed\xa0\x80", b"\xed\xbf\xbf", b"\xee\x80\x80", b"\xef\xbf", b"\xf0\x80\x80\x80", b"\xf0\x8f\xbf\xbf",
           b"\xf0\x90\x80\x80", b"\xf4\x8f\xbf\xbf", b"\xf4\x90\x80\x80", b"\xf5\x80\x80\x80", b"\xf8\x88\x80\x80\x80", b"\xff", b"\xfe", b"\x80", b"\xbf",
           b"\xe2\x82", b"\xf0\x9f\x98", b"\xf0\x9f"]
    keys = [b"MESSAGE", b"SYSLOG_RAW", b"_SELINUX_CONTEXT", b"K", b"_A1"]
    out = []
    for c in cps:
        ch = chr(c).encode("utf-8", "surrogatepass")
        for pre, post in ((b"", b""), (b"ab", b"cd"), (b"\xc3\xa9", b"\t")):
            out.append(b"K=" + pre + ch + post)
    for r in raw:
        for pre, post in ((b"", b""), (b"x", b"y"), (b"", b"\xc3\xa9")):
            out.append(b"M=" + pre + r + post)
    out += [b"", b"=", b"K=", b"K=plain text", b"K=tab\there", b"K=line\n", b"K=a\nb", b"K=\r\n", b"K=\x00", b"K=\x1b[0m", b"K=caf\xc3\xa9 \xe6\x97\xa5\xe6\x9c\xac \xf0\x9f\x98\x80"]
    alphabet = [bytes([x]) for x in (9, 10, 13, 0, 31, 32, 65, 97, 61, 127, 128, 159, 160, 191, 192, 193, 194, 223, 224, 237, 239, 240, 244, 245, 255)] + \
               [chr(c).encode("utf-8", "surrogatepass") for c in cps if c > 127] + [b"abc", b" ", b"\xc3\xa9"]
    while len(out) < n:
        k = rng.choice(keys)
        m = rng.choice([0, 1, 2, 3, 5, 8, 20])
        v = b"".join(rng.choice(alphabet) for _ in range(m))
        if rng.random() < 0.3:
            v = bytes(rng.randrange(256) for _ in range(rng.randrange(1, 6)))
        out.append(k + b"=" + v)
    return out


def gen_streams(rng, blobs, n):
    """export streams for the parser cross-check: valid entries, concatenations, truncations, mutations, random"""
    out = []
    small = [b for b in blobs if len(b) < 1500] or blobs
    for _ in range(n):
        r = rng.random()
        b = rng.choice(small)
        if r < 0.15:
            s = b
        elif r < 0.3:
            s = b + rng.choice(small)
        elif r < 0.5:
            s = b[:rng.randrange(len(b) + 1)]
        elif r < 0.75:
            ba = bytearray(b)
            for _ in range(rng.randrange(1, 4)):
                p = rng.randrange(len(ba))
                m = rng.random()
                if m < 0.4:
                    ba[p] = rng.choice([10, 61, 0, 255, ba[p] ^ 1])
                elif m < 0.7:
                    del ba[p]
                else:
                    ba.insert(p, rng.choice([10, 61, 65]))
            s = bytes(ba)
        elif r < 0.9:
            # hand-made binary fields with right and wrong lengths
            v = bytes(rng.choice([10, 61, 65, 0, 200]) for _ in range(rng.randrange(0, 12)))
            ln = len(v) + rng.choice([0, 0, 0, 1, -1, 5]) if v else rng.choice([0, 0, 1])
            s = b"A=1\nB\n" + struct.pack("<Q", max(ln, 0)) + v + b"\n" + rng.choice([b"\n", b"", b"C=2\n\n", b"\n\n"])
        else:
            s = bytes(rng.choice([10, 10, 61, 65, 66, 0]) for _ in range(rng.randrange(0, 30)))
        out.append(s[:3000])
    out += [b"", b"\n", b"\n\n", b"A=1\n", b"A=1\n\n", b"A\n", b"=\n\n", b"A=\n\n", b"A\n" + struct.pack("<Q", 0) + b"\n\n",
            b"A\n" + struct.pack("<Q", 1 << 63) + b"\n\n", b"A\n" + struct.pack("<Q", 2) + b"\n\n\n\n"]
    return out


# ----------------------------------------------------------------------------- the check

def run(ctx):
    quick = ctx.quick()
    rng = ctx.rng
    phase = {}
    t_phase = time.time()
    # ---- A
    vlib.proof_stage(ctx, PROP_FILE, ["journal"], extra_targets=["Corr/C09.vo", "Corr/C09r.vo"])
    phase["proof"] = round(time.time() - t_phase, 1); t_phase = time.time()
    # ---- builds
    ok, log = vlib.build_s4()
    if not ok:
        ctx.obligation_broken("build", "s4 binary", log)
        return ctx.finish()
    okh, logh = vlib.build_harness("c09")
    if not okh:
        ctx.obligation_broken("build", "harness c09", logh)
    phase["build"] = round(time.time() - t_phase, 1); t_phase = time.time()
    scratch = vlib.scratch_dir("C09")
    os.makedirs(os.path.join(scratch, "tmp"))
    fxs = fixtures(scratch, quick)
    if len(fxs) < 3:
        ctx.obligation_broken("fixtures", "fewer than 3 populated journal fixtures found", str([f["name"] for f in fxs]))
        return ctx.finish()
    # ---- oracle
    j1_samples = 0
    for fx in fxs:
        try:
            problems = load_oracle(fx)
        except Exception as ex:   # journalctl / libsystemd not usable
            ctx.obligation_broken("oracle", "journalctl/libsystemd on %s" % fx["name"], repr(ex))
            return ctx.finish()
        for p in problems[:3]:
            ctx.obligation_broken("oracle", "journalctl vs libsystemd on %s" % fx["name"], p)
        if not fx["sorted"]:
            ctx.note("fixture %s: receive times are not non-decreasing and positive (outside the theorem's hypotheses)" % fx["name"])
        # oracle contract J1 sampled on the real libsystemd
        D = sorted(set(fx["times"]))
        for a in [D[0] - 1, D[0], D[0] + 1, D[len(D) // 2] - 1, D[len(D) // 2], D[len(D) // 2] + 1, D[-1], D[-1] + 1] + rng.sample(D, min(4 if quick else 40, len(D))):
            got = [c for _, c, _, _ in sd_read(fx["plain"], seek=max(a, 0), fields=False)]
            exp = [e["cursor"] for e in fx["entries"] if e["t"] >= a]
            j1_samples += 1
            if fx["sorted"] and got != exp:
                ctx.obligation_broken("oracle-contract", "J1: sd_journal_seek_realtime_usec + next on %s" % fx["name"],
                                      json.dumps(dict(a=a, got=len(got), expected=len(exp))))
                break
    fxs = [f for f in fxs if f["sorted"]]
    # crafted journals: many entries without a MESSAGE field (cat prints nothing for them and must continue)
    craft_bases = [f for f in fxs if f["name"] in (("RHE_91", "Ubuntu16") if quick else ("RHE_91", "Ubuntu16", "OpenSUSE15"))]
    crafted = craft_fixtures(scratch, craft_bases, ctx.seed, quick)
    for fx in crafted:
        try:
            problems = load_oracle(fx)
        except Exception as ex:
            ctx.obligation_broken("oracle", "journalctl/libsystemd on crafted %s" % fx["name"], repr(ex))
            continue
        for p in problems[:3]:
            ctx.obligation_broken("oracle", "journalctl vs libsystemd on crafted %s" % fx["name"], p)
        fx["nomsg"] = sum(1 for e in fx["entries"] if e["message"] is None)
        if fx["sorted"] and fx["nomsg"] > 0:
            fxs.append(fx)
    if sum(1 for f in fxs if f.get("crafted") and f["nomsg"] >= 40) < 4:
        ctx.obligation_broken("generator", "fewer than 4 crafted journals with >= 40 MESSAGE-less entries", str([(f["name"], f.get("nomsg")) for f in crafted]))

    # more containers of the base journals: tar archives (ustar / GNU / pax, member paths around and beyond the 100-byte
    # header name) and copies whose modification times are older than every entry (the window looks at receive times only)
    extra_labels = {}
    for fx in fxs:
        if not fx.get("crafted"):
            ex = c09_render.extra_containers(scratch, fx, quick)
            fx["containers"] = list(fx["containers"]) + ex
            extra_labels[fx["name"]] = [l for l, _ in ex]
    # ---- plan the runs
    runner = Runner(scratch)
    jobs = []
    corpus_n = 0
    phase["oracle"] = round(time.time() - t_phase, 1); t_phase = time.time()
    tzs = [("+00:00", 0), ("-03:30", -210), ("+05:45", 345), ("+14:00", 840), ("-12:00", -720)]
    for fx in fxs:
        W, picks = gen_windows(rng, fx["times"], quick)
        if fx.get("crafted"):
            W = [W[0]] + W[1::(6 if quick else 2)]
        cw = [w for w in corpus_windows(fx["name"]) if w not in W]
        W = cw + W
        corpus_n += len(cw)
        fx["windows"], fx["picks"] = W, picks
        for (A, B) in W:
            jobs.append(dict(fx=fx, path=fx["plain"], container="plain", rendering="export", A=A, B=B))
            jobs.append(dict(fx=fx, path=fx["plain"], container="plain", rendering="cat", A=A, B=B))
        X = picks[len(picks) // 2]
        few = [(None, None), (X, X), (X, None), (None, X), (picks[0] + 1, X - 1) if picks[0] + 1 <= X - 1 else (X, X + 1), (fx["times"][-1] + 1, None)]
        if not quick:
            few = W[::3]
        for r in OTHER_RENDERINGS:
            for (A, B) in few:
                jobs.append(dict(fx=fx, path=fx["plain"], container="plain", rendering=r, A=A, B=B))
        for label, path in fx["containers"]:
            for (A, B) in few:
                jobs.append(dict(fx=fx, path=path, container=label, rendering="export", A=A, B=B))
                jobs.append(dict(fx=fx, path=path, container=label, rendering="cat", A=A, B=B))
            jobs.append(dict(fx=fx, path=path, container=label, rendering="short-iso-precise", A=None, B=X))
        for tz in (tzs[1:2] if fx.get("crafted") else tzs):
            for (A, B) in few:
                jobs.append(dict(fx=fx, path=fx["plain"], container="plain", rendering="export", A=A, B=B, tz=tz))
            jobs.append(dict(fx=fx, path=fx["plain"], container="plain", rendering="export", A=X, B=X, tz=tz, naive=True))
            jobs.append(dict(fx=fx, path=fx["plain"], container="plain", rendering="cat", A=X - 1, B=X, tz=tz, naive=True))
            jobs.append(dict(fx=fx, path=fx["plain"], container="plain", rendering="short", A=X, B=X + 1, tz=tz))
            jobs.append(dict(fx=fx, path=fx["plain"], container="plain", rendering="verbose", A=None, B=X, tz=tz))
    n_std_jobs = len(jobs)
    jobs += c09_render.plan(fxs, quick, rng)
    with ThreadPoolExecutor(max_workers=vlib.NCPU) as ex:
        jobs = list(ex.map(runner.run, jobs))
    phase["binary_runs"] = round(time.time() - t_phase, 1); t_phase = time.time()

    # ---- per fixture: full export run -> per-entry blobs, compared with journalctl exactly
    def case_of(job):
        return dict(fixture=job["fx"]["name"], file=job["path"], container=job["container"], rendering=job["rendering"],
                    A=job["A"], B=job["B"], tz_offset=(job["tz"][0] if job.get("tz") else None), naive_bounds=bool(job.get("naive")),
                    args=job["args"])

    export_exact = 0
    for fx in fxs:
        full = next(j for j in jobs if j["fx"] is fx and j["rendering"] == "export" and j["A"] is None and j["B"] is None
                    and j["container"] == "plain" and not j.get("tz"))
        spans = parse_export_spans(full["out"])
        fx["slices"] = None
        if full["rc"] != 0 or spans is None:
            ctx.failure(case_of(full), "export stream that parses into %d entries" % len(fx["entries"]),
                        "rc=%d, stream malformed (python twin of parse_export)" % full["rc"], classes_export(fx, None))
            continue
        if len(spans) != len(fx["entries"]):
            ctx.failure(case_of(full), "%d entries" % len(fx["entries"]), "%d entries" % len(spans), [])
            continue
        fx["slices"] = [full["out"][a:b] for _, a, b in spans]
        for i, ((sf, _, _), e) in enumerate(zip(spans, fx["entries"])):
            exp_seq = [(b"__CURSOR", e["cursor"]), (b"__REALTIME_TIMESTAMP", str(e["t"]).encode())] + \
                      ([(b"__MONOTONIC_TIMESTAMP", str(e["mono"]).encode())] if e["mono"] is not None else []) + e["pairs"][:200]
            got_seq = [(k, v) for k, v, _ in sf]
            jc = e["jc_fields"]
            jforms = {(k, v): f for k, v, f in jc}
            why = None
            if got_seq != exp_seq:
                why = "fields differ from the stored entry (libsystemd enumeration order)"
            elif sorted(got_seq) != sorted((k, v) for k, v, _ in jc) or \
                    [x for x in got_seq if x[0] != b"_BOOT_ID"] != [(k, v) for k, v, _ in jc if k != b"_BOOT_ID"]:
                why = "fields differ from journalctl -o export"
            elif any(jforms.get((k, v), f) != f for k, v, f in sf[3:]):
                why = "text/binary form of a field differs from journalctl -o export"
            if why:
                c = case_of(full)
                c["entry_index"] = i
                c["cursor"] = e["cursor"].decode()
                ctx.failure(c, why, [(k.decode("utf-8", "replace"), v[:60].decode("utf-8", "replace"), f) for k, v, f in sf][:60], classes_export(fx, i))
                break
            export_exact += 1

    # ---- every run against the spec selection
    window_cases = {fx["name"]: [] for fx in fxs}     # for B (Coq): (A, B, impl idx) + job
    stats = dict(runs=0, export=0, cat=0, other=0, containers=0, tz=0, empty_selection=0, sharp=0, rc_nonzero=0)
    distinct = set()
    for job in jobs:
        fx = job["fx"]
        if fx.get("slices") is None and job["rendering"] == "export":
            continue            # the full export run of this journal already failed (reported above)
        A, B = job["A"], job["B"]
        exp = spec_idx(fx["times"], A, B)
        stats["runs"] += 1
        tset = fx.setdefault("tset", set(fx["times"]))
        sharp = is_sharp(tset, A, B)
        key = (fx["name"], job["container"], job["rendering"], A, B, job.get("tz", (None,))[0], bool(job.get("naive")))
        if sharp:
            distinct.add(key)
            stats["sharp"] += 1
        if not exp:
            stats["empty_selection"] += 1
        if job["container"] != "plain":
            stats["containers"] += 1
        if job.get("tz"):
            stats["tz"] += 1
        cls = ["bound_before_unix_epoch"] if bound_before_unix_epoch(A, B) else []
        if job["rc"] not in (0, 1):
            stats["rc_nonzero"] += 1
            ctx.failure(case_of(job), "exit status 0", "rc=%d %s" % (job["rc"], job["err"]), cls)
            continue
        r = job["rendering"]
        if r == "export":
            stats["export"] += 1
            idx, why = decode_export(job["out"], fx, fx["slices"])
            if idx is None:
                ctx.failure(case_of(job), "concatenation of the export blobs of entries %s" % brief(exp), why, cls)
                continue
            if job["container"] == "plain" and not job.get("tz"):
                window_cases[fx["name"]].append((A, B, idx, job))
            if idx != exp:
                ctx.failure(case_of(job), "entries %s" % brief(exp), "entries %s" % brief(idx), cls)
        elif r == "cat":
            stats["cat"] += 1
            want = b"".join(fx["entries"][i]["cat"] for i in exp)
            if job["out"] != want:
                ctx.failure(case_of(job), "cat text of entries %s (%d bytes)" % (brief(exp), len(want)),
                            "%d bytes, first difference at %d" % (len(job["out"]), first_diff(job["out"], want)), cls)
        else:
            stats["other"] += 1
            why = match_verbose(job["out"], fx["entries"], exp) if r == "verbose" else match_short(r, job["out"], fx["entries"], exp)
            if why:
                ctx.failure(case_of(job), "entries %s with their MESSAGE text" % brief(exp), why, cls)

    if runner.leftovers:
        a, left = runner.leftovers[0]
        ctx.failure(dict(args=a), "empty private TMPDIR after the run", "left behind: %s" % left[:5], [])
    if runner.hangs:
        ctx.note("%d runs timed out" % runner.hangs)

    phase["compare"] = round(time.time() - t_phase, 1); t_phase = time.time()
    # ---- B: model (Coq) vs binary.  All case files are evaluated in one parallel coqc run.
    groups = {}
    texts = []
    window_eval_n = 0
    for fx in fxs:
        cs = window_cases[fx["name"]]
        if fx.get("crafted") and len(fx["times"]) > 400 and quick:
            cs = cs[:6]      # same receive times as the base journal, whose windows are all evaluated
        window_eval_n += len(cs)
        for part in vlib.shard(cs, 4 if (len(fx["times"]) > 1000 and len(cs) > 24) else 1) if cs else []:
            texts.append((coq_window_text(fx["times"], [(a, b, ix) for a, b, ix, _ in part]), [(fx, c) for c in part]))
    groups["window"] = ("window", texts)
    # export / cat bytes of sampled entries vs the model
    sample = []
    for fx in fxs:
        if fx.get("slices") is None:
            continue
        n = len(fx["entries"])
        special = [i for i, e in enumerate(fx["entries"]) if any(not text_safe_twin(k + b"=" + v) for k, v in e["pairs"])]
        nomsg = [i for i, e in enumerate(fx["entries"]) if e["message"] is None]
        if fx.get("crafted"):
            pick = set(nomsg[:4 if quick else 40] + rng.sample(range(n), min(n, 3 if quick else 40)))
        else:
            pick = set(special[:8 if quick else 200] + nomsg[:3] + [0, n - 1] + rng.sample(range(n), min(n, 12 if quick else 300)))
        sample += [(fx, i) for i in sorted(pick)]
    etexts = []
    for sh_ in vlib.shard(sample, 8) if sample else []:
        rows = []
        for fx, i in sh_:
            e = fx["entries"][i]
            rows.append("(%s, %s)" % (c09_render.coq_entry(e), c09_render.pack(fx["slices"][i])))
        etexts.append((c09_render.HDR + "".join("Definition x%d : (pentry * list int) := %s.\n" % (k, r_) for k, r_ in enumerate(rows))
                       + "Definition cases := [%s].\nEval vm_compute in (export_bad_p cases).\n" % "; ".join("x%d" % k for k in range(len(rows))), sh_))
    groups["export"] = ("export", etexts)
    ctexts = []
    pfields = lambda pairs: "[" + "; ".join("(%s, %s)" % (c09_render.pack(k), c09_render.pack(v)) for k, v in pairs) + "]"
    rows = ["(%s, %s)" % (pfields(fx["entries"][i]["pairs"]), c09_render.pack(fx["entries"][i]["cat"])) for fx, i in sample]
    for sh_ in vlib.shard(list(range(len(rows))), 4) if rows else []:
        ctexts.append((c09_render.HDR + "".join("Definition x%d : (list (list int * list int) * list int) := %s.\n" % (k, rows[k]) for k in sh_)
                       + "Definition cases := [%s].\nEval vm_compute in (cat_bad_p cases).\n" % "; ".join("x%d" % k for k in sh_), [sample[k] for k in sh_]))
    groups["cat"] = ("cat", ctexts)
    # whole cat runs on the crafted journals (small ones): entries without MESSAGE print nothing, the loop continues
    crtexts = []
    cat_run_cases = 0
    for fx in fxs:
        if not fx.get("crafted") or len(fx["entries"]) > (400 if quick else 3000):
            continue
        cj = [j for j in jobs if j["fx"] is fx and j["rendering"] == "cat" and j["container"] == "plain" and not j.get("tz") and j["rc"] == 0]
        cj = cj[:4 if quick else 40]
        if not cj:
            continue
        edefs = "".join("Definition m%d : (Z * option (list int)) := ((%d)%%Z, %s).\n" % (k, e["t"], "None" if e["message"] is None else "(Some %s)" % c09_render.pack(e["message"]))
                        for k, e in enumerate(fx["entries"]))
        # the list of entry names in pieces (a literal of thousands of elements overflows coqc's stack)
        names = ["m%d" % k for k in range(len(fx["entries"]))]
        es = " ++ ".join("[" + "; ".join(names[k:k + 500]) + "]" for k in range(0, len(names), 500)) or "[]"
        cdefs = "".join("Definition c%d : (option Z * option Z * list int) := (%s, %s, %s).\n" % (k, zopt(j["A"]), zopt(j["B"]), c09_render.pack(j["out"])) for k, j in enumerate(cj))
        cat_run_cases += len(cj)
        crtexts.append((c09_render.HDR + edefs + "Definition es := %s.\n" % es + cdefs
                        + "Definition cases := [%s].\nEval vm_compute in (cat_run_bad_p es cases).\n" % "; ".join("c%d" % k for k in range(len(cj))), cj))
    groups["cat_run"] = ("whole cat run", crtexts)
    # python parser twin vs Coq parser
    blobs = [fx["slices"][i] for fx, i in sample]
    streams = gen_streams(rng, blobs, 250 if quick else 3000) if blobs else []
    ptexts = []
    for sh_ in vlib.shard(list(range(len(streams))), vlib.NCPU) if streams else []:
        rows = []
        for k in sh_:
            r = parse_export(streams[k])
            rows.append("(%s, %s)" % (c09_render.pack(streams[k]), "None" if r is None else "(Some [%s])" % "; ".join(pfields(e) for e in r)))
        ptexts.append((c09_render.HDR + "".join("Definition x%d : (list int * option (list (list (list int * list int)))) := %s.\n" % (k, r_) for k, r_ in zip(sh_, rows))
                       + "Definition cases := [%s].\nEval vm_compute in (parse_bad_p cases).\n" % "; ".join("x%d" % k for k in sh_), sh_))
    groups["parse"] = ("parser twin", ptexts)
    parse_malformed = sum(1 for s in streams if parse_export(s) is None)
    # text/binary rule: in-process export_data_is_text vs the twin of systemd's test (C) and vs model text_safe (B)
    ts_cases = 0
    objs, outl = [], []
    if okh:
        objs = gen_data_objects(rng, 1200 if quick else 20000)
        for fx in fxs:
            for e in fx["entries"][:: (7 if quick else 1)]:
                objs += [d for d in e["data"] if len(d) < 400][:6]
        outl, err = vlib.harness("c09", [hx(o) for o in objs])
        if outl is None or len(outl) != len(objs):
            ctx.obligation_broken("correspondence", "harness c09 run", err)
            outl = []
        else:
            ts_cases = len(objs)
            for o, r in zip(objs, outl):
                if r not in ("0", "1"):
                    ctx.failure(dict(data_hex=hx(o)), "a boolean", r, [])
                elif (r == "1") != text_safe_twin(o):
                    ctx.failure(dict(data_hex=hx(o), what="export_data_is_text"), "text form allowed = %s (journalctl's utf8_is_printable_newline)" % text_safe_twin(o), r, [])
            good = [k for k, r in enumerate(outl) if r in ("0", "1")]
            groups["textsafe"] = ("text_safe", [(HDR + "Definition cases : list (string * bool) := [\n%s\n].\nEval vm_compute in (textsafe_bad cases).\n" % ";\n".join(
                '("%s", %s)' % (hx(objs[k]), "true" if outl[k] == "1" else "false") for k in sh_), sh_) for sh_ in vlib.shard(good, 8)])

    # the ten renderings: byte-exact model tie (B), python spec and journalctl entry by entry (C)
    rgroups, rstats = c09_render.evaluate(ctx, fxs, jobs, quick, rng, fmt_bound, okh)
    groups.update(rgroups)
    jc_fail = []
    jc_lock = threading.Lock()

    def jc_run(fx):
        st = dict(jc_entries=0, jc_identical=0, jc_diff={}, jc_not_comparable=0, jc_verbose_entries=0, jc_verbose_not_comparable=0)
        try:
            c09_render.compare_with_journalctl(ctx, fx, st, quick, lambda c, e, g, k: jc_fail.append((c, e, g, k)))
        except Exception as ex:      # journalctl itself
            with jc_lock:
                jc_fail.append((None, "journalctl comparison on %s" % fx["name"], repr(ex), None))
        return st
    jc_fxs = [f for f in fxs if not f.get("crafted") or f["crafted"] in ("nomsg50", "all")]
    with ThreadPoolExecutor(max_workers=max(2, vlib.NCPU // 2)) as ex:
        for st in ex.map(jc_run, jc_fxs):
            for k, v in st.items():
                if isinstance(v, dict):
                    for kk, vv in v.items():
                        rstats["jc_diff"][kk] = rstats["jc_diff"].get(kk, 0) + vv
                else:
                    rstats[k] += v
    for c, e, g, k in jc_fail:
        if c is None:
            ctx.obligation_broken("oracle", e, g)
        else:
            ctx.failure(c, e, g, k)
    phase["renderings_spec_and_journalctl"] = round(time.time() - t_phase, 1)

    res = run_coq_all(ctx, groups)
    rstats = c09_render.collect(ctx, res, rgroups, rstats)

    model_dis = spec_dis_coq = old_differs = 0
    for (fx, (A, B, idx, job)), code in (res["window"] or []):
        if code & 1:
            model_dis += 1
            if model_dis == 1:
                ctx.obligation_broken("correspondence", "s4 --journal-output export (entry sequence) vs Model.Journal.journal_run",
                                      json.dumps(dict(case=case_of(job), impl=brief(idx))))
        if code & 2:
            spec_dis_coq += 1
            if idx == spec_idx(fx["times"], A, B):
                ctx.obligation_broken("spec-evaluation", "python spec filter and Coq Spec.JournalSpec.window_idx disagree",
                                      json.dumps(dict(A=A, B=B, fixture=fx["name"])))
        elif idx != spec_idx(fx["times"], A, B):
            ctx.obligation_broken("spec-evaluation", "python spec filter and Coq Spec.JournalSpec.window_idx disagree",
                                  json.dumps(dict(A=A, B=B, fixture=fx["name"])))
        if code & 4:
            old_differs += 1
    if res["window"] is not None and texts and old_differs == 0:
        # regression: the windows must distinguish the old (exclusive) stop test from the repaired one
        ctx.obligation_broken("generator", "no generated window separates the old (exclusive) stop test from the repaired one", "")
    export_dis = export_old_differs = 0
    for (fx, i), code in (res["export"] or []):
        if code & 3:
            export_dis += 1
            if export_dis == 1:
                ctx.obligation_broken("correspondence", "s4 --journal-output export (entry bytes) vs Model.Journal.render_export / parse_export",
                                      json.dumps(dict(fixture=fx["name"], entry_index=i, code=code, cursor=fx["entries"][i]["cursor"].decode())))
        if code & 4:
            export_old_differs += 1
    if res["export"] is not None and sample and export_old_differs == 0:
        ctx.obligation_broken("generator", "no sampled entry separates the old text-only export printer from the repaired one", "")
    for (fx, i), code in (res["cat"] or [])[:1]:
        ctx.obligation_broken("correspondence", "MESSAGE + newline (oracle) vs Model.Journal.render_cat", json.dumps(dict(fixture=fx["name"], entry_index=i)))
    cat_run_dis = 0
    for job, code in (res["cat_run"] or []):
        cat_run_dis += 1
        if cat_run_dis == 1:
            ctx.obligation_broken("correspondence", "s4 --journal-output cat (stdout of a run) vs Model.Journal.journal_stdout RCat (render_cat, cat_without_message)",
                                  json.dumps(dict(case=case_of(job))))
    pbad = res["parse"]
    for k, code in (pbad or [])[:1]:
        ctx.obligation_broken("correspondence", "python twin of parse_export vs Model.Journal.parse_export", json.dumps(dict(stream_hex=hx(streams[k]))))
    ts_dis = 0
    for k, code in (res.get("textsafe") or []):
        ts_dis += 1
        if ts_dis == 1:
            ctx.obligation_broken("correspondence", "export_data_is_text vs Model.Journal.text_safe", json.dumps(dict(data_hex=hx(objs[k]), impl=outl[k])))

    phase["model_evaluation"] = round(time.time() - t_phase, 1)
    # ---- evidence
    allw = sum(len(fx["windows"]) for fx in fxs)
    ctx.coverage.update(
        evaluations=stats["runs"] + ts_cases + len(streams) + len(sample),
        distinct_nontrivial=len(distinct),
        rule="a case = (journal, container, rendering, window A B, --tz-offset, bound notation) run on the real s4 binary; non-trivial = a bound within 1 microsecond of an entry's receive time or A = B; distinct by that tuple. Journals: the shipped fixtures and, crafted from them every run, journals in which 10 %, 50 %, a run of 40 consecutive + 30 interleaved, and all entries have no MESSAGE field (plain and gz/xz copies). Windows per journal: unbounded; for picked entry times X (first, last, median, most duplicated, random): every combination of X-1, X, X+1 as lower, upper and both bounds; pairs of picked times; before all; after all; 0; bounds before 1970",
        samples=[dict(fixture=j["fx"]["name"], args=j["args"][:-1], printed_bytes=len(j["out"])) for j in (jobs[1], jobs[len(jobs) // 2], jobs[-1])],
        crafted_journals={fx["name"]: dict(entries=len(fx["entries"]), entries_without_MESSAGE=fx["nomsg"],
                                          longest_run_without_MESSAGE=longest_run([e["message"] is None for e in fx["entries"]]))
                          for fx in fxs if fx.get("crafted")},
        model_cat_run_cases=cat_run_cases, model_cat_run_disagreements=cat_run_dis,
        fixtures={fx["name"]: dict(entries=len(fx["entries"]), distinct_times=len(set(fx["times"])), windows=len(fx["windows"]),
                                   containers=[c for c, _ in fx["containers"]],
                                   entries_with_non_text_value=sum(1 for e in fx["entries"] if any(not text_safe_twin(k + b"=" + v) for k, v in e["pairs"])))
                  for fx in fxs},
        binary_runs=stats["runs"], runs_by_kind=dict(export=stats["export"], cat=stats["cat"], other_renderings=stats["other"],
                                                     container_runs=stats["containers"], tz_offset_runs=stats["tz"]),
        windows_total=allw, corpus_windows=corpus_n, phase_seconds=phase, sharp_window_runs=stats["sharp"], empty_selection_runs=stats["empty_selection"],
        export_entries_compared_exactly_with_journalctl=export_exact,
        model_window_cases=window_eval_n, model_window_disagreements=model_dis,
        coq_spec_vs_binary_disagreements=spec_dis_coq,
        windows_on_which_the_old_stop_test_differs=old_differs,
        model_export_entries=len(sample), model_export_disagreements=export_dis,
        entries_on_which_the_old_text_only_printer_differs=export_old_differs,
        parser_twin_streams=len(streams), parser_twin_malformed_streams=parse_malformed, parser_twin_disagreements=len(pbad or []),
        text_rule_cases=ts_cases, text_rule_model_disagreements=ts_dis,
        oracle_J1_samples=j1_samples, temp_files_left=len(runner.leftovers), hangs=runner.hangs,
        extra_containers=extra_labels,
        renderings=dict(
            what="the ten --journal-output renderings: binary stdout vs Model.JournalRender (src_cfg regenerated from the source) byte for byte on chunks of consecutive entries (window = the chunk) under several --tz-offset values, windows inside a chunk through journal_stdout10; the same runs vs the python spec; the python spec vs journalctl entry by entry with every difference classified",
            binary_runs_compared_byte_for_byte=rstats["rr_runs"], of_which_windows_inside_a_chunk=rstats["rr_window_runs"],
            entries_in_the_chunks=rstats["rr_entries"], entry_renderings_compared_byte_for_byte=rstats["rr_entry_renderings"],
            entry_renderings_by_rendering=rstats["by_rendering"], tz_offsets=rstats["tz_used"],
            model_disagreements=rstats["model_disagreements"],
            spec_entry_renderings=rstats["c_entry_renderings"], entries_with_a_multivalued_field_seen_in_verbose=rstats["multivalued_entries_seen"],
            host_without_boot_id=dict(available=rstats["host_masked_available"], runs=rstats["host_masked_runs"], model_disagreements=rstats["model_host_disagreements"]),
            monotonic_field_cases=rstats["mono_cases"], monotonic_field_model_disagreements=rstats["model_mono_disagreements"],
            journalctl=dict(version=systemd_version(), short_entry_renderings_compared=rstats["jc_entries"], identical_to_journalctl=rstats["jc_identical"],
                            documented_differences=rstats["jc_diff"], not_comparable_unprintable_text=rstats["jc_not_comparable"],
                            verbose_entries_compared=rstats["jc_verbose_entries"], verbose_not_comparable=rstats["jc_verbose_not_comparable"])))
    ctx.assumptions += [
        "libsystemd is an oracle: contract J1 (seek_realtime_usec + next enumerate exactly the entries with t >= A in file order when receive times are non-decreasing; seek_head all) is a hypothesis of the theorems, sampled on the real library each run; enumeration of data objects, cursors and monotonic times are taken from it",
        "journalctl --file (systemd %s) -o export/cat/json is the ground truth for entry content; its export differs from the enumeration order only in the position of _BOOT_ID" % systemd_version(),
        "containers: the shipped gz/bz2/xz/lz4 files, python-made gz/bz2/xz, tar archives written by python tarfile in ustar, GNU and pax format with member paths of 20..300 bytes, and copies whose file-system / gzip-header / tar-member modification time is 2001-01-01 (older than every entry and every -a bound); each must print what the plain file prints",
        "journal fixtures with non-decreasing, positive receive times (all shipped ones; libsystemd VALID_REALTIME); bounds below 2^64 microseconds (bounds before 1970 included); entries have fewer than 200 fields",
        "the ten renderings are compared byte for byte with Model.JournalRender on sampled chunks of every journal (all chunks in the thorough tier); the constants and tables of the model (formats, dispatch, FIELD_ORDER_VERBOSE, keys, emergency bounds, DT_USES_SOURCE_OVERRIDE) are regenerated from the source by tools/gen/journal.py, the control flow of next_short / next_verbose is a hand transcription tied only by that comparison",
        "python spec of the renderings (timestamps by python datetime, field assembly of journalctl short, verbose = header + one line per stored data object) is hand-written and is itself compared with journalctl --file entry by entry; the differences between s4 and journalctl are the enumerated classes D1..D9 of checks/c09_render.py, counted in coverage.renderings.journalctl",
        "--tz-offset values are whole minutes (the command line accepts nothing else); monotonic times below 2^52 us in the fixtures; Rust's f64 arithmetic and float formatting are compared with the model in-process on random u64 values",
        "python twins (parse_export, utf8_is_printable_newline, next_short field assembly) are hand-written; parse_export is cross-checked against the Coq parser each run",
    ]
    shutil.rmtree(scratch, ignore_errors=True)
    return ctx.finish()


def systemd_version():
    rc, out, _ = vlib.sh2(["journalctl", "--version"], timeout=20)
    m = re.search(rb"systemd (\d+)", out)
    return m.group(1).decode() if m else "?"


def classes_export(fx, i):
    return []


def longest_run(flags):
    best = cur = 0
    for f in flags:
        cur = cur + 1 if f else 0
        best = max(best, cur)
    return best


def brief(ix):
    if len(ix) <= 8:
        return str(ix)
    return "[%d, %d, ... %d entries ... %d]" % (ix[0], ix[1], len(ix), ix[-1])


def first_diff(a, b):
    n = min(len(a), len(b))
    return next((k for k in range(n) if a[k] != b[k]), n)


def replay(ctx, path):
    r = json.load(open(path))
    ok, log = vlib.build_s4()
    scratch = vlib.scratch_dir("C09-replay")
    os.makedirs(os.path.join(scratch, "tmp"))
    runner = Runner(scratch)
    fxs = {fx["name"]: fx for fx in fixtures(scratch, True)}
    need = {f["case"]["fixture"] for f in r.get("failures", []) if "~" in f["case"].get("fixture", "")}
    if need:
        bases = [fxs[b] for b in {n.split("~")[0] for n in need} if b in fxs]
        for b in bases:
            load_oracle(b)
        for fx in craft_fixtures(scratch, bases, r.get("seed", ctx.seed), True, only=need):
            fxs[fx["name"]] = fx
    bad = 0
    for f in r.get("failures", []):
        c = f["case"]
        if "fixture" not in c:
            handled, good, text = c09_render.replay_case(c, None, None, fmt_bound)
            print("replay: %s%s" % (json.dumps(c)[:300], (" -> %s %s" % (text, "ok" if good else "STILL FAILS")) if handled else ""))
            if handled and not good:
                bad += 1
            continue
        fx = fxs.get(c["fixture"])
        if fx is None:
            print("replay: fixture %s not found" % c["fixture"])
            bad += 1
            continue
        if "entries" not in fx:
            load_oracle(fx)
        handled, good, text = c09_render.replay_case(c, fx, runner.run, fmt_bound)
        if handled:
            print("replay %s\n  %s -> %s" % (json.dumps({k: v for k, v in c.items() if k != "args"})[:400], text, "ok" if good else "STILL FAILS"))
            if not good:
                bad += 1
            continue
        if c["container"] != "plain" and c["container"] not in dict(fx["containers"]):
            fx["containers"] = list(fx["containers"]) + c09_render.extra_containers(scratch, fx, False, only=c["container"])
        path_ = dict(fx["containers"]).get(c["container"], fx["plain"])
        tz = None
        if c.get("tz_offset"):
            sgn = -1 if c["tz_offset"].startswith("-") else 1
            tz = (c["tz_offset"], sgn * (int(c["tz_offset"][1:3]) * 60 + int(c["tz_offset"][4:6])))
        job = runner.run(dict(fx=fx, path=path_, container=c["container"], rendering=c["rendering"], A=c["A"], B=c["B"], tz=tz, naive=c.get("naive_bounds")))
        exp = spec_idx(fx["times"], c["A"], c["B"])
        if c["rendering"] == "cat":
            good = job["out"] == b"".join(fx["entries"][i]["cat"] for i in exp)
            got = "%d bytes" % len(job["out"])
        elif c["rendering"] == "export":
            sp = parse_export_spans(job["out"])
            gotc = None if sp is None else [fx["cursor_idx"].get(dict((k, v) for k, v, _ in f).get(b"__CURSOR")) for f, _, _ in sp]
            good = gotc == exp
            got = "malformed stream" if gotc is None else brief(gotc)
            if good:
                for (f, _, _), i in zip(sp, exp):
                    e = fx["entries"][i]
                    want = [(b"__CURSOR", e["cursor"]), (b"__REALTIME_TIMESTAMP", str(e["t"]).encode())] + \
                           ([(b"__MONOTONIC_TIMESTAMP", str(e["mono"]).encode())] if e["mono"] is not None else []) + e["pairs"][:200]
                    if [(k, v) for k, v, _ in f] != want:
                        good, got = False, "fields of entry %d differ from the stored entry" % i
                        break
        elif c["rendering"] == "verbose":
            why = match_verbose(job["out"], fx["entries"], exp)
            good, got = why is None, why
        else:
            why = match_short(c["rendering"], job["out"], fx["entries"], exp)
            good, got = why is None, why
        print("replay %s\n  expected entries %s\n  got %s -> %s" % (" ".join(job["args"]), brief(exp), got, "ok" if good else "STILL FAILS"))
        if not good:
            bad += 1
    shutil.rmtree(scratch, ignore_errors=True)
    if bad:
        print("VIOLATION property=C09 replay=%s" % path)
        return 1
    return 0
