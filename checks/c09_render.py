"""C09, the ten --journal-output renderings: byte-exact tie of Model/JournalRender.v and failing-input search.

B. s4 binary vs the Coq MODEL (Corr/C09r.v, vm_compute): for chunks of consecutive entries of every journal
   (all chunks in the thorough tier, a sample in quick) the binary is run with the window [first, last receive
   time of the chunk] for each of the ten renderings under several --tz-offset values; its stdout must equal,
   BYTE FOR BYTE, emit (map (next_entry src_cfg env o) entries) with the entries read through libsystemd (ctypes).
   Windows strictly inside a chunk are evaluated with the whole run inside the model (journal_stdout10).
   Runs on a host whose boot id is unreadable (mount namespace) exercise env_boot_ok = false.
   Rust's f64 arithmetic / float formatting vs the model's integer transcription (fmt_mono) in-process.
C. s4 binary vs an independent python SPEC of each rendering (timestamps by python datetime, field assembly
   as journalctl documents it) on the same runs, and that spec vs `journalctl --file` entry by entry, where
   every difference must fall in one of the enumerated documented classes (counted as evidence):
     D1 issue101_source_time   journalctl shows _SOURCE_REALTIME_TIMESTAMP when the entry has one, s4 the receive time
     D2 short_iso_shape        systemd >= 250 prints short-iso as 2023-12-15T23:44:03+0000, s4 as 2023-12-15 23:44:03
     D3 zone_name              journalctl prints the zone abbreviation (UTC), s4 the numeric offset (+00:00)
     D6 multiline_indent       journalctl indents the continuation lines of a multi-line MESSAGE, s4 prints it raw
     D7 no_message_skipped     journalctl short* prints nothing for an entry without MESSAGE, s4 prints the line without it
     D8 verbose_monotonic_line s4 verbose adds a __MONOTONIC_TIMESTAMP line
     D9 verbose_order          the order of the field lines differs (FIELD_ORDER_VERBOSE)
     D10 unknown_identifier    journalctl prints "unknown" for an entry with neither SYSLOG_IDENTIFIER nor _COMM, s4 nothing
     D11 source_monotonic_time journalctl short-monotonic shows _SOURCE_MONOTONIC_TIMESTAMP when the entry has one
   Two classes are genuine defects of the renderings found with this module, since repaired in /repo
   (known_findings.d/C09.json, kind fixed): host_boot_id_unreadable, verbose_multivalued_field.
"""
import datetime, json, os, re, shutil, subprocess, threading
import vlib

REND10 = ["short", "short-precise", "short-iso", "short-iso-precise", "short-full", "short-monotonic", "short-unix",
          "verbose", "export", "cat"]
TZS = [("+00:00", 0), ("-03:30", -12600), ("+05:45", 20700), ("+14:00", 50400), ("-12:00", -43200)]
EPOCH = datetime.datetime(1970, 1, 1)
HDR = (vlib.COQ_PRINT_HDR + "From Coq Require Import String List NArith ZArith Uint63.\nImport ListNotations.\n"
       "From S4.Model Require Import Journal JournalRender.\nFrom S4.Corr Require Import C09 C09r.\nOpen Scope uint63_scope.\n")


# ----------------------------------------------------------------------------- Coq literals

def pack(b):
    """bytes -> Coq term of type list int (Corr/C09r.unpack): 7 bytes per word below a marker bit"""
    n = len(b)
    ws = [str(int.from_bytes(b[k:k + 7], "little") | (1 << 56)) for k in range(0, n - n % 7, 7)]
    ws.append(str(int.from_bytes(b[n - n % 7:] + b"\x01", "little")))
    parts = ["[" + "; ".join(ws[k:k + 1500]) + "]" for k in range(0, len(ws), 1500)]
    return parts[0] if len(parts) == 1 else "(" + " ++ ".join(parts) + ")"


def coq_entry(e):
    return "((%d)%%Z, %s, %s, [%s])" % (e["t"], pack(e["cursor"]), "None" if e["mono"] is None else "(Some %d%%N)" % e["mono"],
                                       "; ".join("(%s, %s)" % (pack(k), pack(v)) for k, v in e["pairs"]))


def zopt(x):
    return "None" if x is None else "(Some (%d)%%Z)" % x


# ----------------------------------------------------------------------------- python spec of the renderings (C)

def zone_text(off, colon):
    a = abs(off)
    return "%s%02d%s%02d" % ("-" if off < 0 else "+", a // 3600, ":" if colon else "", a % 3600 // 60)


def spec_ts(r, us, off, mono=None, style="s4", zone_name=None):
    """timestamp text of rendering r for the instant us (microseconds) at offset off seconds.
    style 'journalctl': the shapes of systemd 252 (D2, D3)."""
    d = EPOCH + datetime.timedelta(microseconds=us) + datetime.timedelta(seconds=off)
    mic = ".%06d" % d.microsecond
    if r == "short":
        return d.strftime("%b %d %H:%M:%S")
    if r == "short-precise":
        return d.strftime("%b %d %H:%M:%S") + mic
    if r == "short-iso":
        if style == "journalctl":
            return d.strftime("%Y-%m-%dT%H:%M:%S") + zone_text(off, False)
        return d.strftime("%Y-%m-%d %H:%M:%S")
    if r == "short-iso-precise":
        return d.strftime("%Y-%m-%dT%H:%M:%S") + mic + zone_text(off, False)
    if r == "short-full":
        return d.strftime("%a %Y-%m-%d %H:%M:%S ") + (zone_name if style == "journalctl" else zone_text(off, True))
    if r == "short-unix":
        return "%d.%06d" % divmod(us, 10 ** 6)
    if r == "short-monotonic":
        if mono is None:
            return "[            ]"
        return "[" + ("%d.%06d" % divmod(mono, 10 ** 6)).rjust(12) + "]"
    if r == "verbose":
        return d.strftime("%a %Y-%m-%d %H:%M:%S") + mic + " " + (zone_name if style == "journalctl" else zone_text(off, True))
    raise ValueError(r)


TRIM = b"\0\r\n "


def verbose_blocks(e, mono):
    """the `    KEY=VALUE\\n` blocks a verbose rendering owes to the entry: one per stored data object (every value of a
    multi-valued field), _SELINUX_CONTEXT without its trailing cruft, plus the monotonic line (D8)"""
    out = []
    for k, v in e["pairs"][:200]:
        if k == b"_SELINUX_CONTEXT":
            v = v.rstrip(TRIM)
        out.append(b"    " + k + b"=" + v + b"\n")
    if mono is not None and not any(k == b"__MONOTONIC_TIMESTAMP" for k, _ in e["pairs"][:200]):
        out.append(b"    __MONOTONIC_TIMESTAMP=" + str(mono).encode() + b"\n")
    return out


def spec_entry(r, e, off, boot_ok=True):
    """expected bytes of one entry (None for verbose: checked by spec_verbose_why)"""
    mono = e["mono"] if boot_ok else None
    if r == "cat":
        return e["cat"]
    if r == "export":
        return None
    if r == "verbose":
        return None
    return spec_ts(r, e["t"], off, mono).encode() + e["short_tail"]


def spec_verbose_why(text, e, off, boot_ok=True):
    """None when `text` is a verbose rendering of e: exact header, then every owed block exactly once and nothing else"""
    mono = e["mono"] if boot_ok else None
    hdr = spec_ts("verbose", e["t"], off).encode() + b" [" + e["cursor"] + b"]\n"
    if not text.startswith(hdr):
        return "header differs: got %r expected %r" % (text[:len(hdr) + 10], hdr)
    body = text[len(hdr):]
    blocks = verbose_blocks(e, mono)
    rest = body
    missing = []
    for b in sorted(blocks, key=len, reverse=True):
        p = rest.find(b)
        ok = p >= 0 and (p == 0 or rest[p - 1:p] == b"\n")
        if not ok:
            missing.append(b)
        else:
            rest = rest[:p] + rest[p + len(b):]
    if missing:
        return "field line(s) missing from the verbose text: %r" % [m[:80] for m in missing[:3]]
    if rest:
        return "verbose text has bytes that belong to no field of the entry: %r" % rest[:80]
    return None


def has_multivalued_field(e):
    ks = [k for k, _ in e["pairs"][:200]]
    return len(set(ks)) != len(ks)


def split_verbose(out, entries, idxs):
    """cut a verbose run at the header lines of the expected entries (found by their cursor); None, why on failure"""
    pos = []
    p = 0
    for i in idxs:
        mark = b" [" + entries[i]["cursor"] + b"]\n"
        q = out.find(mark, p)
        if q < 0:
            return None, "header of the entry with journal index %d not found after offset %d" % (i, p)
        ls = out.rfind(b"\n", 0, q) + 1
        pos.append(ls)
        p = q + len(mark)
    if idxs and pos[0] != 0:
        return None, "%d bytes before the first header" % pos[0]
    pos.append(len(out))
    return [out[pos[k]:pos[k + 1]] for k in range(len(idxs))], None


# ----------------------------------------------------------------------------- journalctl, entry by entry

def journalctl_tz(path, fmt, tzenv=None):
    args = ["journalctl", "--file", path, "-o", fmt, "--all", "--no-pager"] + ([] if tzenv else ["--utc"])
    rc, out, err = vlib.sh2(args, timeout=180, env={"TZ": tzenv or "UTC", "PAGER": "", "SYSTEMD_PAGER": ""})
    if rc != 0:
        raise OSError("journalctl -o %s %s: rc %d %s" % (fmt, path, rc, err[-300:]))
    return out


def journalctl_time(e):
    """the instant journalctl shows (Issue #101): _SOURCE_REALTIME_TIMESTAMP when present and a valid realtime"""
    for k, v in e["pairs"]:
        if k == b"_SOURCE_REALTIME_TIMESTAMP":
            try:
                s = int(v)
            except ValueError:
                return e["t"]
            if 0 < s < (1 << 55):
                return s
            return e["t"]
    return e["t"]


def journalctl_expected(r, e, off, zone_name):
    """what journalctl 252 prints for entry e in short* rendering r, built from the python spec and the
    documented differences; also returns the set of difference classes that apply"""
    cls = set()
    t = journalctl_time(e)
    if t != e["t"] and r != "short-monotonic":
        cls.add("D1_issue101_source_time")
    if r == "short-iso":
        cls.add("D2_short_iso_shape")
    if r == "short-full":
        cls.add("D3_zone_name")
    if e["message"] is None:
        cls.add("D7_no_message_skipped")
        return b"", cls
    mono = e["mono"]
    if r == "short-monotonic":
        for k, v in e["pairs"]:
            if k == b"_SOURCE_MONOTONIC_TIMESTAMP" and v.isdigit():
                if int(v) != mono:
                    cls.add("D11_source_monotonic_time")
                mono = int(v)
                break
    ts = spec_ts(r, t, off, mono, style="journalctl", zone_name=zone_name).encode()
    tail = e["short_tail"]
    ks = {k for k, _ in e["pairs"]}
    if b"SYSLOG_IDENTIFIER" not in ks and b"_COMM" not in ks:
        cls.add("D10_unknown_identifier")
        host = next((v for k, v in e["pairs"] if k == b"_HOSTNAME"), None)
        cut = 0 if host is None else 1 + len(host)
        tail = tail[:cut] + b" unknown" + tail[cut:]
    if b"\n" in e["message"]:
        cls.add("D6_multiline_indent")
        head_len = len(ts) + len(tail) - len(e["message"]) - 1
        lines = e["message"].split(b"\n")
        text = ts + tail[:len(tail) - len(e["message"]) - 1] + lines[0] + b"\n" + b"".join(b" " * head_len + l + b"\n" for l in lines[1:])
        return text, cls
    return ts + tail, cls


def compare_with_journalctl(ctx, fx, stats, quick, fail):
    """journalctl --file entry by entry against the python spec + documented differences (UTC, all short*; one more
    zone for short and short-iso-precise; verbose header and field lines)"""
    zones = [(None, 0, "UTC")] + ([] if fx.get("crafted") else [("<+0545>-05:45", 20700, "+0545")])
    for tzenv, off, zname in zones:
        rends = [r for r in REND10[:7]] if tzenv is None else ["short", "short-iso-precise", "short-full"]
        if fx.get("crafted"):
            rends = ["short", "short-monotonic"]
        for r in rends:
            try:
                out = journalctl_tz(fx["plain"], r, tzenv)
            except OSError as ex:
                ctx.obligation_broken("oracle", "journalctl -o %s on %s" % (r, fx["name"]), repr(ex))
                return
            p = 0
            for i, e in enumerate(fx["entries"]):
                exp, cls = journalctl_expected(r, e, off, zname)
                got = out[p:p + len(exp)]
                if got != exp:
                    if e["message"] is not None and not c09_text_safe(e["message"].replace(b"\n", b"")):
                        stats["jc_not_comparable"] += 1     # journalctl escapes / blobs unprintable text
                        nl = out.find(b"\n", p)
                        p = nl + 1 if nl >= 0 else len(out)
                        continue
                    fail(dict(fixture=fx["name"], file=fx["plain"], rendering=r, journalctl_TZ=tzenv or "UTC (--utc)", entry_index=i,
                              cursor=e["cursor"].decode()),
                         "journalctl -o %s prints %r (python spec of the rendering + documented differences %s)" % (r, exp[:200], sorted(cls)),
                         "journalctl prints %r" % out[p:p + max(len(exp), 80) + 40][:240], [])
                    return
                p += len(exp)
                stats["jc_entries"] += 1
                for c in cls:
                    stats["jc_diff"][c] = stats["jc_diff"].get(c, 0) + 1
                if not cls:
                    stats["jc_identical"] += 1
            if p != len(out):
                fail(dict(fixture=fx["name"], file=fx["plain"], rendering=r, journalctl_TZ=tzenv or "UTC (--utc)"),
                     "journalctl output ends after the last entry", "%d more bytes: %r" % (len(out) - p, out[p:p + 120]), [])
                return
    if fx.get("crafted"):
        return
    # verbose: header (D1, D3) and the multiset of field lines (D8, D9)
    try:
        out = journalctl_tz(fx["plain"], "verbose", None)
    except OSError as ex:
        ctx.obligation_broken("oracle", "journalctl -o verbose on %s" % fx["name"], repr(ex))
        return
    hdrs = []
    p = 0
    for i, e in enumerate(fx["entries"]):
        h = spec_ts("verbose", journalctl_time(e), 0, style="journalctl", zone_name="UTC").encode() + b" [" + e["cursor"] + b"]\n"
        q = out.find(h, p)
        if q < 0 or (q > 0 and out[q - 1:q] != b"\n"):
            fail(dict(fixture=fx["name"], file=fx["plain"], rendering="verbose", entry_index=i, cursor=e["cursor"].decode()),
                 "journalctl -o verbose has the header %r" % h, "not found after offset %d: %r" % (p, out[p:p + 160]), [])
            return
        hdrs.append((q, q + len(h)))
        p = q + len(h)
    hdrs.append((len(out), len(out)))
    for i, e in enumerate(fx["entries"]):
        body = out[hdrs[i][1]:hdrs[i + 1][0]]
        simple = all(c09_text_safe(v) and len(v) < 2000 for _, v in e["pairs"])
        if not simple:
            stats["jc_verbose_not_comparable"] += 1
            continue
        mine = sorted(b for b in verbose_blocks(e, None))
        theirs = sorted(l + b"\n" for l in body.split(b"\n") if l)
        if mine != theirs:
            fail(dict(fixture=fx["name"], file=fx["plain"], rendering="verbose", entry_index=i, cursor=e["cursor"].decode()),
                 "journalctl -o verbose lists the stored data objects (python spec: one line per object)",
                 "lines only in journalctl: %r; only in the spec: %r" % ([x for x in theirs if x not in mine][:3], [x for x in mine if x not in theirs][:3]), [])
            return
        stats["jc_verbose_entries"] += 1
        for c in (["D1_issue101_source_time"] if journalctl_time(e) != e["t"] else []) + ["D3_zone_name", "D8_verbose_monotonic_line", "D9_verbose_order"]:
            stats["jc_diff"][c] = stats["jc_diff"].get(c, 0) + 1


def c09_text_safe(b):
    import c09
    return c09.text_safe_twin(b)


# ----------------------------------------------------------------------------- planning the runs

def chunks_of(times, size):
    """consecutive index ranges [a, b) whose boundaries fall between different receive times"""
    out = []
    i, n = 0, len(times)
    while i < n:
        j = min(n, i + size)
        while j < n and times[j] == times[j - 1]:
            j += 1
        out.append((i, j))
        i = j
    return out


def interesting(e):
    """an entry that exercises a special path of a rendering"""
    ks = [k for k, _ in e["pairs"]]
    s = set(ks)
    return (e["message"] is None or b"\n" in (e["message"] or b"") or len(s) != len(ks) or b"SYSLOG_IDENTIFIER" not in s
            or b"_PID" not in s or b"_HOSTNAME" not in s or b"_SELINUX_CONTEXT" in s
            or any(not c09_text_safe(v) for _, v in e["pairs"]))


def plan(fxs, quick, rng):
    """jobs for the Runner of c09.py; each carries job['rr'] = dict(chunk=(a, b), kind='chunk'|'window')"""
    jobs = []
    for fx in fxs:
        times = fx["times"]
        size = 10 if quick else 40
        allch = chunks_of(times, size)
        # a run of entries with one and the same receive time cannot be cut by a window (RHE 9.1: the first 432
        # entries); such an oversized chunk is compared in the thorough tier only, under one zone offset
        chs = [c for c in allch if c[1] - c[0] <= 4 * size] if quick else allch
        fx["rr_oversized_chunks_skipped"] = len(allch) - len(chs)
        if not chs:
            continue
        if quick:
            special = [c for c in chs if any(interesting(fx["entries"][i]) for i in range(*c))]
            k = 1 if fx.get("crafted") else 4
            pick = []
            if special:
                pick += rng.sample(special, min(len(special), 1 if fx.get("crafted") else 2))
            rest = [c for c in chs if c not in pick]
            pick += rng.sample(rest, min(len(rest), max(0, k - len(pick))))
            chs = sorted(pick)
        fx["rr_chunks"] = chs
        for n, (a, b) in enumerate(chs):
            A, B = times[a], times[b - 1]
            if fx.get("crafted") or b - a > 4 * size:
                tzs = [TZS[(n + 1) % len(TZS)]]
            elif quick:
                tzs = [TZS[n % len(TZS)], TZS[(n + 2) % len(TZS)]]
            else:
                tzs = TZS
            for r in REND10:
                for tz in tzs:
                    jobs.append(dict(fx=fx, path=fx["plain"], container="plain", rendering=r, A=A, B=B, tz=tz,
                                     rr=dict(kind="chunk", chunk=(a, b))))
            # windows strictly inside the chunk (whole run inside the model)
            D = sorted(set(times[a:b]))
            if len(D) >= 3:
                inner = [(D[1], D[-2]), (D[1], None), (None, D[-2]), (D[len(D) // 2], D[len(D) // 2])]
                for w, (A2, B2) in enumerate(inner[:2 if quick else 4]):
                    r = REND10[(n * 3 + w * 5) % 8]
                    jobs.append(dict(fx=fx, path=fx["plain"], container="plain", rendering=r,
                                     A=A2 if A2 is not None else A, B=B2 if B2 is not None else B, tz=tzs[0],
                                     rr=dict(kind="window", chunk=(a, b))))
    return jobs


# ----------------------------------------------------------------------------- host whose boot id is unreadable

_HOST_PROBE = None


def host_mask_available():
    """can this process run a command in a mount namespace in which /proc/sys/kernel/random/boot_id is unreadable?"""
    global _HOST_PROBE
    if _HOST_PROBE is None:
        rc, out, err = vlib.sh2(["unshare", "-m", "sh", "-c",
                                 "mount --bind /dev/null /proc/sys/kernel/random/boot_id && test -z \"$(cat /proc/sys/kernel/random/boot_id)\" && echo masked"],
                                timeout=30)
        _HOST_PROBE = (rc == 0 and b"masked" in out)
    return _HOST_PROBE


def run_s4_masked(args, timeout=60):
    cmd = "mount --bind /dev/null /proc/sys/kernel/random/boot_id && exec \"$0\" \"$@\""
    return vlib.sh2(["unshare", "-m", "sh", "-c", cmd, vlib.S4_BIN] + list(args), timeout=timeout, env={"TZ": "UTC"})


# ----------------------------------------------------------------------------- evaluation

def evaluate(ctx, fxs, jobs, quick, rng, fmt_bound, okh):
    """C on the rr jobs; builds the Coq case files for B.  Returns (groups, stats, keep)"""
    stats = dict(rr_runs=0, rr_entries=0, rr_entry_renderings=0, rr_window_runs=0, c_entry_renderings=0,
                 jc_entries=0, jc_identical=0, jc_diff={}, jc_not_comparable=0, jc_verbose_entries=0, jc_verbose_not_comparable=0,
                 host_masked_runs=0, host_masked_available=None, mono_cases=0, by_rendering={}, tz_used=set(),
                 multivalued_entries_seen=0)

    def fail(case, expected, got, classes):
        ctx.failure(case, expected, got, classes)

    by_chunk = {}
    for job in jobs:
        rr = job.get("rr")
        if not rr:
            continue
        by_chunk.setdefault((job["fx"]["name"], rr["chunk"]), []).append(job)

    texts = []
    import c09
    for (fxname, (a, b)), cj in by_chunk.items():
        fx = cj[0]["fx"]
        ents = fx["entries"]
        chunk_cases, run_cases, keys_c, keys_w = [], [], [], []
        for job in cj:
            if job["rc"] not in (0, 1):
                continue            # reported by the general loop of c09.py
            r = job["rendering"]
            off = job["tz"][1]
            sel = c09.spec_idx(fx["times"], job["A"], job["B"])
            if not sel or sel[0] < a or sel[-1] >= b:
                ctx.obligation_broken("generator", "a render run selects entries outside its chunk", json.dumps(dict(fixture=fxname, chunk=[a, b], sel=c09.brief(sel))))
                continue
            stats["rr_runs"] += 1
            stats["tz_used"].add(job["tz"][0])
            stats["by_rendering"][r] = stats["by_rendering"].get(r, 0) + len(sel)
            case = dict(fixture=fxname, file=job["path"], container="plain", rendering=r, A=job["A"], B=job["B"],
                        tz_offset=job["tz"][0], naive_bounds=False, args=job["args"])
            # ---- C: the python spec
            out = job["out"]
            if r == "verbose":
                parts, why = split_verbose(out, ents, sel)
                if parts is None:
                    fail(case, "verbose text of entries %s" % c09.brief(sel), why, [])
                else:
                    for i, part in zip(sel, parts):
                        why = spec_verbose_why(part, ents[i], off)
                        stats["c_entry_renderings"] += 1
                        if has_multivalued_field(ents[i]):
                            stats["multivalued_entries_seen"] += 1
                        if why:
                            c = dict(case)
                            c["entry_index"] = i
                            c["cursor"] = ents[i]["cursor"].decode()
                            fail(c, "timestamp, cursor and one `    KEY=VALUE` line for every stored data object of the entry", why,
                                 ["verbose_multivalued_field"] if has_multivalued_field(ents[i]) else [])
                            break
            elif r != "export":
                p = 0
                for i in sel:
                    exp = spec_entry(r, ents[i], off)
                    stats["c_entry_renderings"] += 1
                    if out[p:p + len(exp)] != exp:
                        c = dict(case)
                        c["entry_index"] = i
                        c["cursor"] = ents[i]["cursor"].decode()
                        fail(c, "%r (receive time %d us at offset %d s; field assembly of journalctl short)" % (exp[:200], ents[i]["t"], off),
                             "%r" % out[p:p + len(exp) + 20][:220], [])
                        break
                    p += len(exp)
                else:
                    if p != len(out):
                        fail(case, "%d bytes for entries %s" % (p, c09.brief(sel)), "%d more bytes: %r" % (len(out) - p, out[p:p + 100]), [])
            # ---- B: case for Coq
            if job["rr"]["kind"] == "chunk":
                runs = "[(%d%%N, %d%%N)]" % (sel[0] - a, len(sel))
                chunk_cases.append("(%d%%N, (%d)%%Z, true, %s, %s)" % (REND10.index(r), off, runs, pack(out)))
                keys_c.append(job)
                stats["rr_entry_renderings"] += len(sel)
            else:
                run_cases.append("(%d%%N, (%d)%%Z, true, %s, %s, %s)" % (REND10.index(r), off, zopt(job["A"]), zopt(job["B"]), pack(out)))
                keys_w.append(job)
                stats["rr_window_runs"] += 1
        stats["rr_entries"] += b - a
        if not chunk_cases and not run_cases:
            continue
        t = HDR + "".join("Definition e%d : pentry := %s.\n" % (k, coq_entry(ents[a + k])) for k in range(b - a))
        t += "Definition es : list pentry := [%s].\n" % "; ".join("e%d" % k for k in range(b - a))
        t += "".join("Definition c%d : rcase := %s.\n" % (k, x) for k, x in enumerate(chunk_cases))
        t += "Definition cases : list rcase := [%s].\n" % "; ".join("c%d" % k for k in range(len(chunk_cases)))
        t += "".join("Definition w%d : wcase := %s.\n" % (k, x) for k, x in enumerate(run_cases))
        t += "Definition wcases : list wcase := [%s].\n" % "; ".join("w%d" % k for k in range(len(run_cases)))
        # one result list: window cases are numbered after the chunk cases
        t += "Eval vm_compute in (render_bad es cases ++ map (fun p => (fst p + %d, snd p)%%N) (render_run_bad es wcases)).\n" % len(chunk_cases)
        texts.append((t, keys_c + keys_w))
    groups = {"render": ("the ten renderings", texts)}

    # ---- host whose boot id is unreadable: env_boot_ok = false (short-monotonic, export, verbose)
    host_texts = []
    stats["host_masked_available"] = host_mask_available()
    if stats["host_masked_available"]:
        for fx in [f for f in fxs if not f.get("crafted")][:2 if quick else 4]:
            chs = fx.get("rr_chunks") or []
            if not chs:
                continue
            a, b = chs[0]
            ents = fx["entries"]
            cases, keys = [], []
            for r in ("short-monotonic", "export", "verbose", "short"):
                args = ["--color", "never", "--journal-output", r, "--tz-offset=+00:00", "-a", fmt_bound(fx["times"][a]), "-b", fmt_bound(fx["times"][b - 1]), fx["plain"]]
                rc, out, err = run_s4_masked(args)
                stats["host_masked_runs"] += 1
                case = dict(fixture=fx["name"], file=fx["plain"], rendering=r, A=fx["times"][a], B=fx["times"][b - 1], tz_offset="+00:00",
                            host="mount namespace with /proc/sys/kernel/random/boot_id unreadable", args=args)
                cases.append("(%d%%N, 0%%Z, false, [(0%%N, %d%%N)], %s)" % (REND10.index(r), b - a, pack(out)))
                keys.append(case)
                # C: the rendering must not depend on the host: same bytes as the spec with the stored monotonic time
                if r in ("short-monotonic", "short"):
                    exp = b"".join(spec_entry(r, ents[i], 0, boot_ok=True) for i in range(a, b))
                    if out != exp:
                        got = next((out[p:p + 60] for p in range(min(len(out), len(exp))) if out[p] != exp[p]), out[-60:])
                        fail(case, "the same text as on any other host: %r ..." % exp[:80], "%r ..." % out[:80], ["host_boot_id_unreadable"])
                elif r == "export":
                    if b"__MONOTONIC_TIMESTAMP=" not in out:
                        fail(case, "__MONOTONIC_TIMESTAMP of every entry (fields intact, as journalctl -o export prints them)",
                             "no __MONOTONIC_TIMESTAMP line in %d bytes of export" % len(out), ["host_boot_id_unreadable"])
                elif r == "verbose":
                    parts, why = split_verbose(out, ents, list(range(a, b)))
                    w = why or next((x for x in (spec_verbose_why(p_, ents[i], 0, boot_ok=True) for i, p_ in zip(range(a, b), parts)) if x), None)
                    if w and not all(has_multivalued_field(ents[i]) for i in range(a, b)):
                        fail(case, "the same text as on any other host", w, ["host_boot_id_unreadable"])
            t = HDR + "".join("Definition e%d : pentry := %s.\n" % (k, coq_entry(ents[a + k])) for k in range(b - a))
            t += "Definition es : list pentry := [%s].\n" % "; ".join("e%d" % k for k in range(b - a))
            t += "".join("Definition c%d : rcase := %s.\n" % (k, x) for k, x in enumerate(cases))
            t += "Definition cases : list rcase := [%s].\nEval vm_compute in (render_bad es cases).\n" % "; ".join("c%d" % k for k in range(len(cases)))
            host_texts.append((t, keys))
    groups["render_host"] = ("the renderings on a host without a readable boot id (env_boot_ok = false)", host_texts)

    # ---- f64 arithmetic of the monotonic field: Rust (harness) vs model, and vs the exact decimal below 2^52
    mono_texts = []
    if okh:
        mus = [0, 1, 9, 10, 999999, 1000000, 1000001, 74212842, 13446824908, 10 ** 12 - 1, 10 ** 15, 2 ** 52 - 1, 2 ** 52, 2 ** 53 - 1, 2 ** 53,
               2 ** 53 + 1, 2 ** 63, 2 ** 64 - 1, 7812500, 7812, 123456789012345678]
        mus += [rng.randrange(2 ** rng.randrange(1, 64)) for _ in range(300 if quick else 5000)]
        mus += [e["mono"] for fx in fxs[:4] for e in fx["entries"][::37] if e["mono"] is not None]
        outl, err = vlib.harness("c09", ["M %d" % m for m in mus])
        if outl is None or len(outl) != len(mus):
            ctx.obligation_broken("correspondence", "harness c09 (monotonic field)", err)
        else:
            stats["mono_cases"] = len(mus)
            rows = []
            for m, h in zip(mus, outl):
                got = bytes.fromhex(h)
                if m < 2 ** 52:
                    exact = ("%d.%06d" % divmod(m, 10 ** 6)).rjust(12).encode()
                    if got != exact:
                        fail(dict(what="format!(\"{:>12.6}\", mu as f64 / 1000000.0)", mu=m), "%r (the exact decimal expansion)" % exact, "%r" % got, [])
                rows.append("(%d%%N, %s)" % (m, pack(got)))
            for sh_ in vlib.shard(rows, 4):
                mono_texts.append((HDR + "Definition cases : list (N * list int) := [\n%s\n].\nEval vm_compute in (mono_bad cases).\n" % ";\n".join(sh_), sh_))
    groups["render_mono"] = ("the monotonic field (f64 arithmetic)", mono_texts)
    return groups, stats


def collect(ctx, res, groups, stats):
    """B verdicts of the render groups"""
    dis = 0
    for key, d in (res.get("render") or []):
        dis += 1
        if dis == 1:
            job = key
            ctx.obligation_broken("correspondence", "s4 --journal-output %s (stdout bytes) vs Model.JournalRender.next_entry / journal_stdout10" % job["rendering"],
                                  json.dumps(dict(fixture=job["fx"]["name"], args=job["args"], kind=job["rr"]["kind"], first_differing_byte=d - 1,
                                                  binary_bytes_there=job["out"][max(0, d - 41):d + 40].decode("utf-8", "replace"))))
    hdis = 0
    for key, d in (res.get("render_host") or []):
        hdis += 1
        if hdis == 1:
            ctx.obligation_broken("correspondence", "s4 on a host without a readable boot id vs Model.JournalRender with env_boot_ok = false",
                                  json.dumps(dict(case=key, first_differing_byte=d - 1)))
    mdis = len(res.get("render_mono") or [])
    if mdis:
        ctx.obligation_broken("correspondence", "Rust f64 division + {:>12.6} formatting vs Model.JournalRender.fmt_mono",
                              json.dumps(dict(case=str((res.get("render_mono") or [None])[0])[:200])))
    stats["model_disagreements"] = dis
    stats["model_host_disagreements"] = hdis
    stats["model_mono_disagreements"] = mdis
    stats["tz_used"] = sorted(stats["tz_used"])
    return stats


# ----------------------------------------------------------------------------- replay of recorded failures

def replay_case(c, fx, run_job, fmt_bound):
    """re-run one recorded failing case of this module; returns (handled, good, text)"""
    import c09
    if "mu" in c:
        outl, err = vlib.harness("c09", ["M %d" % c["mu"]])
        if not outl:
            return True, False, "harness: " + err
        got = bytes.fromhex(outl[0])
        exact = ("%d.%06d" % divmod(c["mu"], 10 ** 6)).rjust(12).encode()
        return True, (got == exact or c["mu"] >= 2 ** 52), "%r" % got
    if fx is None:
        return False, False, ""
    ents = fx["entries"]
    if "journalctl_TZ" in c:
        fails = []
        st = dict(jc_entries=0, jc_identical=0, jc_diff={}, jc_not_comparable=0, jc_verbose_entries=0, jc_verbose_not_comparable=0)

        class _Ctx:
            def obligation_broken(self, *a):
                fails.append(a)
        compare_with_journalctl(_Ctx(), fx, st, True, lambda cc, e, g, k: fails.append((cc, e, g)))
        return True, not fails, ("%d entry renderings agree with journalctl" % st["jc_entries"]) if not fails else str(fails[0])[:400]
    if "host" in c:
        if not host_mask_available():
            return True, True, "cannot make the boot id unreadable here (skipped)"
        rc, out, err = run_s4_masked(c["args"])
        sel = c09.spec_idx(fx["times"], c["A"], c["B"])
        r = c["rendering"]
        if r == "export":
            good = b"__MONOTONIC_TIMESTAMP=" in out or not sel
        elif r == "verbose":
            parts, why = split_verbose(out, ents, sel)
            good = parts is not None and all(spec_verbose_why(p_, ents[i], 0) is None or has_multivalued_field(ents[i]) for i, p_ in zip(sel, parts))
        else:
            good = out == b"".join(spec_entry(r, ents[i], 0) for i in sel)
        return True, good, "%r ..." % out[:100]
    r = c.get("rendering")
    if r in REND10[:8] and c.get("container") == "plain" and c.get("tz_offset") and not c.get("naive_bounds"):
        sgn = -1 if c["tz_offset"].startswith("-") else 1
        off = sgn * (int(c["tz_offset"][1:3]) * 3600 + int(c["tz_offset"][4:6]) * 60)
        job = run_job(dict(fx=fx, path=fx["plain"], container="plain", rendering=r, A=c["A"], B=c["B"], tz=(c["tz_offset"], off // 60)))
        out = job["out"]
        sel = c09.spec_idx(fx["times"], c["A"], c["B"])
        if r == "verbose":
            parts, why = split_verbose(out, ents, sel)
            if parts is None:
                return True, False, why
            for i, part in zip(sel, parts):
                why = spec_verbose_why(part, ents[i], off)
                if why:
                    return True, False, "entry %d: %s" % (i, why)
            return True, True, "%d entries as the spec" % len(sel)
        exp = b"".join(spec_entry(r, ents[i], off) for i in sel)
        return True, out == exp, "%d bytes, first difference at %d" % (len(out), c09.first_diff(out, exp))
    return False, False, ""


# ----------------------------------------------------------------------------- more containers: tar formats / long member paths, old modification times

OLD_MTIME = 978307200          # 2001-01-01T00:00:00Z: older than every entry of every fixture and than every -a bound used
TAR_PATH_LENGTHS = (20, 99, 100, 101, 122, 255, 300)


def member_path(length):
    """a member path of exactly `length` bytes that ends in system.journal, made of directory components of at most 40 bytes
    (the usual layout journal/<machine id>/system@<id>-<seq>-<time>.journal is 122 bytes)"""
    base = "system.journal"
    need = length - len(base)
    comps = []
    while need > 0:
        c = min(need - 1, 40)
        if need - 1 - c == 1:          # never leave a lone '/' for the next round
            c -= 1
        comps.append(("journal6c6ab73d82464b9493892c81fc732b3a" * 2)[:c] + "/")
        need -= c + 1
    p = "".join(comps) + base
    assert len(p) == length and "//" not in p and not p.startswith("/"), (length, p)
    return p


def extra_containers(scratch, fx, quick, only=None):
    """[(label, path)]: the journal of fixture fx
       * as the only member of tar archives in ustar / GNU / pax format under member paths of several lengths around the
         100-byte header name field (member and archive modification times OLD_MTIME);
       * as a plain copy and gz / bz2 / xz (python) / lz4 (the shipped one) copies whose file-system modification time —
         and gzip header MTIME — is OLD_MTIME, i.e. older than every entry.
    Deterministic (the replay regenerates a container from its label)."""
    import bz2, gzip, io, lzma, tarfile
    out = []
    name = fx["name"].replace("~", "_")
    data = None

    def want(label):
        return only is None or label == only

    def load():
        nonlocal data
        if data is None:
            data = open(fx["plain"], "rb").read()
        return data

    tars = fx["name"] == "Ubuntu16" or (not quick and not fx.get("crafted"))
    if tars:
        for fname, fmt in (("ustar", tarfile.USTAR_FORMAT), ("gnu", tarfile.GNU_FORMAT), ("pax", tarfile.PAX_FORMAT)):
            for ln in TAR_PATH_LENGTHS:
                label = "tar(%s,path%d)" % (fname, ln)
                if not want(label):
                    continue
                path = os.path.join(scratch, "%s_%s_%d.tar" % (name, fname, ln))
                try:
                    with tarfile.open(path, "w", format=fmt) as t:
                        ti = tarfile.TarInfo(member_path(ln))
                        ti.size = len(load())
                        ti.mtime = OLD_MTIME
                        ti.mode = 0o644
                        t.addfile(ti, io.BytesIO(load()))
                except ValueError:          # the format cannot hold a path of that length (ustar above 256 bytes)
                    if os.path.exists(path):
                        os.remove(path)
                    continue
                os.utime(path, (OLD_MTIME, OLD_MTIME))
                out.append((label, path))
    if fx["name"] in ("Ubuntu16", "Ubuntu22x3") or not quick:
        makers = [("plain(old-mtime)", ".journal", lambda d: d),
                  ("gz(old-mtime)", ".journal.gz", lambda d: gzip.compress(d, 1, mtime=OLD_MTIME)),
                  ("bz2(old-mtime)", ".journal.bz2", lambda d: bz2.compress(d, 1)),
                  ("xz(old-mtime)", ".journal.xz", lambda d: lzma.compress(d, format=lzma.FORMAT_XZ, preset=0))]
        for label, ext, mk in makers:
            if not want(label):
                continue
            path = os.path.join(scratch, "%s_oldmtime%s" % (name, ext))
            with open(path, "wb") as f:
                f.write(mk(load()))
            os.utime(path, (OLD_MTIME, OLD_MTIME))
            out.append((label, path))
        lz4 = next((p for l, p in fx.get("containers", []) if l == "lz4"), None)
        if lz4 and want("lz4(old-mtime)"):
            path = os.path.join(scratch, "%s_oldmtime.journal.lz4" % name)
            shutil.copyfile(lz4, path)
            os.utime(path, (OLD_MTIME, OLD_MTIME))
            out.append(("lz4(old-mtime)", path))
    return out
