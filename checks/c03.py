"""C03 — a datetime window selects exactly the messages inside it.

A. Coq: Props/C03.v (binary search returns the first message at/after the lower bound for every
   layout of message lengths >= 2, fuel bound, no panic, linear search, driver = window, empty
   selection, inclusive comparisons, refuted 1-byte-message lemma).
B. tie: in-process SyslineReader (find_sysline, find_sysline_at_datetime_filter_{binary,linear}_search,
   find_sysline_between_datetime_filters) on generated plain files and their .gz copies, block
   sizes 1..65536, random query sequences on one reader (caches warm)  vs  the Coq model
   (Model/Search.v: l_find / l_bsearch / l_linear / l_find_between) evaluated with vm_compute on the
   layout the generator knows: the returned message (begin, next offset, instant) AND the number
   of find_sysline calls each search made (observable through the LRU hit+miss counters of
   SyslineReader::summary()), so the iteration structure of the loops is tied too.  Streamed
   readers are driven as the driver drives them (offset 0, then returned offsets).  Also: the
   model vs the spec on random layouts (a test of the theorem statements) and the python window
   oracle vs the Coq `window`.
C. failing-input search, spec = window (independent of the model): the real s4 binary with
   -a/-b on generated chronological text logs (plain = binary search, .gz = linear scan, several
   --blocksz, the first qualifying message at/around block edges, ties, sub-second bounds, A = B,
   before/after all) must print exactly the messages with A <= t <= B, in order, exit status 0;
   plus one window pass over synthesised utmp records (any order), the evtx fixture and two
   journal fixtures with bounds equal to record/entry times.
"""
import gzip, json, os, re, struct, time
from concurrent.futures import ThreadPoolExecutor
import vlib
from vlib import CACHE

PROP_FILE = "Props/C03.v"
LETTERS = "abcdefghijklmnopqrstuvwxyz"
FILL = LETTERS + "      " + ".,;:-_[]()="
HEAD = 39          # stamp (32) + space + id word (6)
US = 10 ** 6


def hx(b):
    return bytes(b).hex()


# ----------------------------------------------------------------------------- text logs

def stamp_us(us, sub_ns=None):
    """ISO timestamp of `us` microseconds; with sub_ns (0..999) nine fraction digits are written"""
    sec, frac = divmod(us, US)
    tm = time.gmtime(sec)
    fr = "%06d" % frac if sub_ns is None else "%06d%03d" % (frac, sub_ns)
    return "%04d-%02d-%02dT%02d:%02d:%02d.%s+00:00" % (tm[0], tm[1], tm[2], tm[3], tm[4], tm[5], fr)


def gen_sub_ns(rng, ts_us):
    """nanoseconds below the microsecond, keeping the instants non-decreasing"""
    out = []
    for i, t in enumerate(ts_us):
        v = rng.choice([0, 0, 1, 500, 999, rng.randrange(1000)])
        if i and ts_us[i - 1] == t:
            v = max(v, out[-1]) if rng.random() < 0.5 else out[-1]
        out.append(v)
    return out


def bound_str(rng, us):
    """one of the documented -a/-b notations that denotes exactly `us` microseconds (UTC)"""
    sec, frac = divmod(us, US)
    tm = time.gmtime(sec)
    forms = ["%04d-%02d-%02dT%02d:%02d:%02d.%06d+00:00" % (tm[0], tm[1], tm[2], tm[3], tm[4], tm[5], frac),
             "%04d%02d%02dT%02d%02d%02d.%06d+0000" % (tm[0], tm[1], tm[2], tm[3], tm[4], tm[5], frac),
             "%04d-%02d-%02d %02d:%02d:%02d.%06d +00:00" % (tm[0], tm[1], tm[2], tm[3], tm[4], tm[5], frac)]
    if frac % 1000 == 0:
        forms.append("%04d-%02d-%02dT%02d:%02d:%02d.%03d+00:00" % (tm[0], tm[1], tm[2], tm[3], tm[4], tm[5], frac // 1000))
    if frac == 0:
        forms.append("%04d-%02d-%02dT%02d:%02d:%02d+00:00" % (tm[0], tm[1], tm[2], tm[3], tm[4], tm[5]))
        forms.append("+%d" % sec)
    return forms[0] if rng.random() < 0.5 else rng.choice(forms)


def word_id(k):
    s = ""
    for _ in range(3):
        s = LETTERS[k % 26] + s
        k //= 26
    return "id=" + s


def filler(rng, n, final_nl=True):
    """n bytes of undatable text (no two consecutive digits, so no supported timestamp pattern
    can match a continuation line), ending in a newline"""
    if n <= 0:
        return b""
    out = []
    for i in range(n - 1):
        r = rng.random()
        if r < 0.025 and out and out[-1] != "\n":
            out.append("\n")
        elif r < 0.045 and (not out or not out[-1].isdigit()):
            out.append(rng.choice("0123456789"))
        else:
            out.append(rng.choice(FILL))
    out.append("\n" if final_nl else rng.choice(LETTERS))
    return "".join(out).encode()


def gen_instants(rng, n, step_profile="mixed"):
    t = (946684800 + rng.randrange(0, 40 * 365 * 86400)) * US + rng.choice([0, 0, 1, 500000, 999999, rng.randrange(US)])
    steps = {"mixed": [0, 0, 0, 1, 1, 2, 999, 1000, 1000, 250000, US, US, 61 * US, 86400 * US],
             "subsecond": [0, 1, 1, 2, 3, 10, 999, 1000, 1001],
             "ties": [0, 0, 0, 0, 1, US]}[step_profile]
    ts = []
    for _ in range(n):
        ts.append(t)
        t += rng.choice(steps)
    return ts


def gen_lens(rng, n, profile):
    if profile == "short":
        return [rng.randrange(HEAD + 1, 90) for _ in range(n)]
    if profile == "min":
        return [HEAD + 1 + rng.randrange(0, 3) for _ in range(n)]
    out = []
    for _ in range(n):
        r = rng.random()
        if r < 0.6:
            out.append(rng.randrange(HEAD + 1, 120))
        elif r < 0.9:
            out.append(rng.randrange(120, 700))
        else:
            out.append(rng.randrange(700, 5000))
    return out


def build_log(rng, lens, ts_us, lead=0, final_nl=True, sub_ns=None):
    """sub_ns: per-message nanoseconds below the microsecond (the stamps then have 9 fraction digits
    and every length must exceed HEAD + 3)"""
    parts = []
    if lead:
        parts.append(filler(rng, lead))
    msgs = []
    hl = HEAD + (3 if sub_ns else 0)
    for k, (n, t) in enumerate(zip(lens, ts_us)):
        head = (stamp_us(t, sub_ns[k] if sub_ns else None) + " " + word_id(k)).encode()
        assert len(head) == hl and n > hl
        last = (k == len(lens) - 1)
        m = head + filler(rng, n - hl, final_nl or not last)
        assert len(m) == n
        msgs.append(m)
    data = b"".join(parts) + b"".join(msgs)
    return dict(data=data, lead=lead, lens=list(lens), ts=list(ts_us), msgs=msgs, sub_ns=sub_ns,
                ts_ns=[t * 1000 + (sub_ns[k] if sub_ns else 0) for k, t in enumerate(ts_us)])


def begins(log):
    b, out = log["lead"], []
    for n in log["lens"]:
        out.append(b)
        b += n
    return out


def gen_log(rng, n=None, profile=None, lead=None, steps=None):
    n = n if n is not None else rng.choice([1, 1, 2, 2, 3, 4, 5, 6, 8, 12, 20, 40])
    profile = profile or rng.choice(["short", "mixed", "mixed", "min"])
    steps = steps or rng.choice(["mixed", "mixed", "subsecond", "ties"])
    lead = lead if lead is not None else rng.choice([0, 0, 0, 1, 7, 30, 100])
    ts = gen_instants(rng, n, steps)
    lens = gen_lens(rng, n, profile)
    sub = gen_sub_ns(rng, ts) if rng.random() < 0.25 else None
    if sub:
        lens = [x + 3 for x in lens]
    return build_log(rng, lens, ts, lead, final_nl=rng.random() < 0.8, sub_ns=sub)


def window_expected(log, A, B):
    """the spec, in python: indices of the messages with A <= t <= B (None = unbounded)"""
    return [i for i, t in enumerate(log["ts_ns"]) if (A is None or A * 1000 <= t) and (B is None or t <= B * 1000)]


def expected_bytes(log, idx):
    out = b"".join(log["msgs"][i] for i in idx)
    if out and not out.endswith(b"\n"):
        out += b"\n"            # the printer supplies the final newline of a file's last message
    return out


def gen_windows(rng, ts, k):
    """windows placed relative to the instants present; returns [(A, B, class)]"""
    lo, hi = ts[0], ts[-1]
    dup = [t for i, t in enumerate(ts) if i and ts[i - 1] == t]
    cand = []

    def pick():
        r = rng.random()
        t = rng.choice(ts)
        if r < 0.40:
            return t, "on"
        if r < 0.50 and dup:
            return rng.choice(dup), "on-dup"
        if r < 0.62:
            return t + 1, "plus1us"
        if r < 0.74:
            return t - 1, "minus1us"
        if r < 0.80:
            return t - t % 1000, "ms-floor"
        if r < 0.86:
            return t - t % US, "s-floor"
        if r < 0.93:
            return lo - rng.choice([1, US, 86400 * US]), "before-all"
        return hi + rng.choice([1, US, 86400 * US]), "after-all"
    fixed = [(lo - 1, None, "A-before-all"), (hi + 1, None, "A-after-all"), (None, lo - 1, "B-before-all"),
             (None, hi + 1, "B-after-all"), (lo, hi, "exact-span"), (ts[len(ts) // 2], ts[len(ts) // 2], "A=B-on")]
    if dup:
        fixed.append((dup[0], dup[0], "A=B-on-dup"))
    out = list(fixed)
    while len(out) < k + len(fixed):
        a, ca = pick()
        b, cb = pick()
        r = rng.random()
        if r < 0.25:
            out.append((a, None, "A:" + ca))
        elif r < 0.45:
            out.append((None, b, "B:" + cb))
        elif r < 0.60:
            out.append((a, a, "A=B:" + ca))
        else:
            if a > b:
                a, b, ca, cb = b, a, cb, ca
            out.append((a, b, "A:%s,B:%s" % (ca, cb)))
    rng.shuffle(out)
    return out[:k] if k < len(out) else out


# ----------------------------------------------------------------------------- Coq rendering

def zopt(x):
    return "None" if x is None else "(Some (%d)%%Z)" % x


def coq_layout(log):
    return "[%s]" % "; ".join("(%d%%N, (%d)%%Z)" % (n, t) for n, t in zip(log["lens"], log["ts_ns"]))


COQ_HDR = vlib.COQ_PRINT_HDR + "From Coq Require Import List NArith ZArith.\nImport ListNotations.\nFrom S4.Corr Require Import C03.\n"


# ----------------------------------------------------------------------------- B: in-process vs model

BLOCK_SIZES_INPROC = [1, 2, 3, 5, 8, 16, 33, 64, 100, 256, 1000, 4096, 65536]


def gen_queries(rng, log, nq, gz, sorted_file):
    ts_ns = log["ts_ns"]
    fsz = len(log["data"])
    begs = begins(log)

    def bnd():
        r = rng.random()
        if r < 0.12:
            return None
        t = rng.choice(ts_ns)
        return t + rng.choice([0, 0, 0, 1, -1, 1000, -1000, 10 ** 9])

    def off():
        r = rng.random()
        if r < 0.35:
            return 0
        if r < 0.6:
            return max(0, min(fsz, rng.choice(begs) + rng.choice([0, 0, 1, -1, 2])))
        if r < 0.75:
            return rng.choice([fsz, max(fsz - 1, 0), max(fsz - 2, 0)])
        return rng.randrange(0, fsz + 1)
    qs = []
    for _ in range(nq):
        if gz:
            mode = rng.choice([1, 1, 2, 2, 4, 5])
        else:
            mode = rng.choice([0, 0, 0, 1, 2, 2, 4, 5])
        a, b = bnd(), bnd()
        if mode in (2,) and a is not None and b is not None and a > b and rng.random() < 0.8:
            a, b = b, a
        qs.append((mode, a, b, off()))
    if gz:
        # a streamed file is read front to back, as the driver does: offset 0, then only offsets
        # that a previous Found returned (the linear search needs no chronology, so the python
        # spec predicts them also for the unsorted files)
        cur, chained = 0, []
        for (m, a, b, _) in qs:
            chained.append((m, a, b, cur))
            nxt = None
            for i, bg in enumerate(begs):
                if bg + log["lens"][i] > cur and (m == 4 or a is None or ts_ns[i] >= a):
                    nxt = bg + log["lens"][i]
                    if m == 2 and b is not None and ts_ns[i] > b:
                        nxt = None
                    break
            if nxt is not None and rng.random() < 0.7:
                cur = nxt
        qs = chained
    if not gz and rng.random() < 0.1:
        qs.append((0, bnd(), None, fsz + rng.choice([1, 2, 100])))     # beyond EOF: `fo_b - fo_a` underflows (model: SPanic)
    return qs


def model_mode(mode, gz):
    if mode == 2:
        return 3 if gz else 2
    if mode == 5:
        return 1 if gz else 0
    return mode


def parse_q(line):
    f = line.split("\t")
    if len(f) >= 2 and f[0] == "Q":
        if f[1] == "Found" and len(f) >= 6:
            return (1, int(f[2]), int(f[3]), int(f[4]), int(f[5]))
        if f[1] == "Done" and len(f) >= 3:
            return (0, 0, 0, 0, int(f[2]))
        if f[1] == "PANIC":
            return (3, 0, 0, 0, 0)
    return (9, 0, 0, 0, 0)


def calls_hist(cases):
    h = {}
    for (log, path, bs, gz, qs, obs) in cases:
        for (m, a, b, fo), o in zip(qs, obs):
            if model_mode(m, gz) in (0, 2) and o[0] in (0, 1):
                h[o[4]] = h.get(o[4], 0) + 1
    return {str(k): v for k, v in sorted(h.items())}


def run_B(ctx, rng, scratch, nfiles, nq):
    d = os.path.join(scratch, "inproc")
    os.makedirs(d, exist_ok=True)
    readers = []       # (log, path, bs, gz, queries)
    lines = []
    for i in range(nfiles):
        sorted_file = rng.random() < 0.85
        log = gen_log(rng)
        if not sorted_file and len(log["ts"]) > 1:
            ts = list(log["ts"])
            rng.shuffle(ts)
            log = build_log(rng, log["lens"], ts, log["lead"], sub_ns=log["sub_ns"])
        p = os.path.join(d, "f%04d.log" % i)
        open(p, "wb").write(log["data"])
        pg = p + ".gz"
        with gzip.GzipFile(pg, "wb", mtime=0) as g:
            g.write(log["data"])
        fsz = len(log["data"])
        sizes = [b for b in BLOCK_SIZES_INPROC if b * 4000 >= fsz]      # keep the block count bounded
        for bs in rng.sample(sizes, min(3, len(sizes))):
            for gz in ([False, True] if rng.random() < 0.5 else [False]):
                qs = gen_queries(rng, log, nq, gz, sorted_file)
                readers.append((log, pg if gz else p, bs, gz, qs))
                lines.append("O\t%s\t%d\t%d" % (pg if gz else p, bs, 1 if gz else 0))
                for (mode, a, b, fo) in qs:
                    lines.append("Q\t%d\t%s\t%s\t%d" % (mode, "-" if a is None else a, "-" if b is None else b, fo))
    outl, err = vlib.harness("c03", lines, timeout=1200)
    if outl is None or len(outl) != len(lines):
        ctx.obligation_broken("correspondence", "harness c03 run", (err or "") + " got %s lines for %d" % (None if outl is None else len(outl), len(lines)))
        return None
    k = 0
    cases = []
    nqueries = 0
    open_fail = 0
    for (log, path, bs, gz, qs) in readers:
        ok = outl[k].startswith("O\tOK")
        k += 1
        obs = [parse_q(outl[k + j]) for j in range(len(qs))]
        k += len(qs)
        if not ok:
            open_fail += 1
            continue
        cases.append((log, path, bs, gz, qs, obs))
        nqueries += len(qs)
    if open_fail:
        ctx.obligation_broken("correspondence", "SyslineReader::new failed on %d generated files" % open_fail, "")
    shards = vlib.shard(list(range(len(cases))), vlib.NCPU)
    texts = []
    for sh_ in shards:
        rows = []
        for ci in sh_:
            log, path, bs, gz, qs, obs = cases[ci]
            qrows = "; ".join("(%d%%N, %s, %s, %d%%N, (%d%%N, %d%%N, %d%%N, (%d)%%Z), %d%%N)" %
                              (model_mode(m, gz), zopt(a), zopt(b), fo, o[0], o[1], o[2], o[3], o[4])
                              for (m, a, b, fo), o in zip(qs, obs))
            rows.append("(%d%%N, %s, [%s])" % (log["lead"], coq_layout(log), qrows))
        texts.append(COQ_HDR + "Definition cases : list case := [\n%s\n].\nEval vm_compute in (model_bad cases).\n" % ";\n".join(rows))
    res = vlib.coq_eval_shards(os.path.join(CACHE, "cases", "C03", "model"), texts)
    dis = []
    for sh_, (rc, out) in zip(shards, res):
        pairs = vlib.parse_eval_pairs(out) if rc == 0 else None
        if pairs is None:
            ctx.obligation_broken("correspondence", "model evaluation (coqc on cases)", out)
            return None
        for code, m in pairs:
            ci, qi = sh_[code // 1000], code % 1000
            dis.append((ci, qi, m))
    for ci, qi, m in dis[:1]:
        log, path, bs, gz, qs, obs = cases[ci]
        ctx.obligation_broken("correspondence", "SyslineReader datetime searches vs Model.Search",
                              json.dumps(dict(file_hex=hx(log["data"]) if len(log["data"]) < 1200 else None, lead=log["lead"], lens=log["lens"][:60], ts_ns=log["ts_ns"][:60],
                                              blocksz=bs, gz=gz, query_index=qi, queries=qs[:qi + 1][-8:], impl=dict(kind=obs[qi][0], begin=obs[qi][1], next=obs[qi][2], t_ns=obs[qi][3], find_sysline_calls=obs[qi][4]),
                                              model_digest=m, model_digest_meaning="kind*1e9 + begin, or 5e9 + model's number of find_sysline calls when only the call count differs", disagreements=len(dis),
                                              by_mode={str(k): sum(1 for c, q, _ in dis if model_mode(cases[c][4][q][0], cases[c][3]) == k) for k in range(5)},
                                              sorted_file=(log["ts_ns"] == sorted(log["ts_ns"])))))
    hist_bs, hist_mode = {}, {}
    nontrivial = set()
    for (log, path, bs, gz, qs, obs) in cases:
        hist_bs[bs] = hist_bs.get(bs, 0) + len(qs)
        for (m, a, b, fo), o in zip(qs, obs):
            mm = model_mode(m, gz)
            hist_mode[mm] = hist_mode.get(mm, 0) + 1
            if len(log["lens"]) >= 2 and (a is not None or b is not None):
                nontrivial.add((hx(log["data"][:64]), len(log["data"]), bs, gz, m, a, b, fo))
    return dict(readers=len(cases), queries=nqueries, disagreements=len(dis), blocksz_hist=hist_bs,
                mode_hist={"bsearch": hist_mode.get(0, 0), "linear": hist_mode.get(1, 0), "between_plain": hist_mode.get(2, 0),
                           "between_streamed": hist_mode.get(3, 0), "find_sysline": hist_mode.get(4, 0)},
                nontrivial=len(nontrivial),
                found=sum(1 for c in cases for o in c[5] if o[0] == 1), done=sum(1 for c in cases for o in c[5] if o[0] == 0),
                panics=sum(1 for c in cases for o in c[5] if o[0] == 3), errors=sum(1 for c in cases for o in c[5] if o[0] == 9),
                find_sysline_calls_compared=sum(1 for c in cases for o in c[5] if o[0] in (0, 1)),
                bsearch_calls_histogram=calls_hist(cases))


# ----------------------------------------------------------------------------- model vs spec (test of the statements)

def run_model_vs_spec(ctx, rng, n):
    def lay():
        k = rng.choice([0, 1, 1, 2, 2, 3, 3, 4, 5, 6, 8, 12, 20])
        lead = rng.choice([0, 0, 0, 1, 2, 5, 17])
        t = rng.randrange(0, 5)
        out = []
        for _ in range(k):
            t += rng.choice([0, 0, 1, 1, 2, 7])
            out.append((rng.choice([2, 2, 2, 3, 3, 4, 7, 16, 50]), t))
        return lead, out
    rows, nq = [], 0
    allrows = []
    for _ in range(n):
        lead, l = lay()
        ts = [t for _, t in l] or [0]
        fsz = lead + sum(x for x, _ in l)
        qs = []
        for _ in range(5):
            a = rng.choice([None, rng.choice(ts), rng.choice(ts) + 1, rng.choice(ts) - 1, min(ts) - 3, max(ts) + 3])
            b = rng.choice([None, rng.choice(ts), rng.choice(ts) + 1, rng.choice(ts) - 1, min(ts) - 3, max(ts) + 3])
            qs.append((a, b, rng.choice([0, 0, rng.randrange(0, fsz + 1), fsz, max(fsz - 1, 0)])))
        nq += len(qs)
        allrows.append((lead, l, qs))
    shards = vlib.shard(allrows, vlib.NCPU)
    texts = []
    for sh_ in shards:
        rows = ["(%d%%N, [%s], [%s])" % (lead, "; ".join("(%d%%N, (%d)%%Z)" % g for g in l),
                                         "; ".join("(%s, %s, %d%%N)" % (zopt(a), zopt(b), f) for a, b, f in qs)) for lead, l, qs in sh_]
        texts.append(COQ_HDR + "Definition cases : list spec_case := [\n%s\n].\nEval vm_compute in (spec_bad cases).\n" % ";\n".join(rows))
    res = vlib.coq_eval_shards(os.path.join(CACHE, "cases", "C03", "modelspec"), texts)
    bad = 0
    first = None
    for sh_, (rc, out) in zip(shards, res):
        pairs = vlib.parse_eval_pairs(out) if rc == 0 else None
        if pairs is None:
            ctx.obligation_broken("spec-evaluation", "coqc on model-vs-spec cases", out)
            return None
        bad += len(pairs)
        if pairs and first is None:
            code, which = pairs[0]
            lead, l, qs = sh_[code // 1000]
            first = dict(lead=lead, layout=l, query=qs[code % 1000], which={1: "bsearch", 2: "linear", 3: "text_out plain", 4: "text_out streamed"}.get(which, which))
    if bad:
        ctx.obligation_broken("model-vs-spec", "Model.Search disagrees with Spec.WindowSpec on a chronological layout with lengths >= 2",
                              json.dumps(dict(disagreements=bad, first=first)))
    return dict(layouts=n, queries=nq, checks=4 * nq, disagreements=bad)


# ----------------------------------------------------------------------------- C: the real binary

class Job:
    __slots__ = ("kind", "path", "args", "expected", "case", "rc", "out", "err", "cls", "log", "idx")


def run_jobs(jobs):
    def one(j):
        j.rc, j.out, j.err = vlib.run_s4(j.args + [j.path], timeout=120, env={"TZ": "UTC"})
        return j
    with ThreadPoolExecutor(max_workers=vlib.NCPU) as ex:
        return list(ex.map(one, jobs))


def text_jobs(rng, scratch, nlogs, nwin, edge_sizes):
    d = os.path.join(scratch, "text")
    os.makedirs(d, exist_ok=True)
    jobs = []
    logs = []

    def add(log, name, bs_list, windows, both=True):
        p = os.path.join(d, name + ".log")
        open(p, "wb").write(log["data"])
        pg = p + ".gz"
        with gzip.GzipFile(pg, "wb", mtime=0) as g:
            g.write(log["data"])
        for (A, B, cls) in windows:
            idx = window_expected(log, A, B)
            bs = rng.choice(bs_list)
            for path, gz in ([(p, False), (pg, True)] if both else [(p, False)]):
                j = Job()
                j.kind, j.path, j.cls, j.log, j.idx = "text", path, cls, log, idx
                j.args = ["--color", "never", "--blocksz", str(bs)]
                if A is not None:
                    j.args += ["-a", bound_str(rng, A)]
                if B is not None:
                    j.args += ["-b", bound_str(rng, B)]
                j.expected = expected_bytes(log, idx)
                j.case = dict(kind="text", gz=gz, blocksz=bs, A_us=A, B_us=B, window_class=cls, args=j.args,
                              lens=log["lens"], ts_us=log["ts"], sub_ns=log["sub_ns"], lead=log["lead"], file_hex=hx(log["data"]) if len(log["data"]) <= 200000 else None,
                              file_sha_len=len(log["data"]))
                jobs.append(j)

    # corpus: hand-picked boundary cases, run first
    cp = os.path.join(vlib.ROOT, "corpus", "C03", "text.json")
    if os.path.exists(cp):
        import random
        for c in json.load(open(cp)):
            log = build_log(random.Random(3), c["lens"], c["ts_us"], c["lead"], final_nl=c["final_nl"])
            for bs in c["blocksz"]:
                add(log, "c_%s_%d" % (c["name"], bs), [bs], [(a, b, "corpus:" + c["name"]) for a, b in c["windows"]])
            logs.append(log)
    # general logs: no undated lead unless the block is large (first timestamp must lie in block zero: C12/F3b)
    for i in range(nlogs):
        n = rng.choice([1, 2, 3, 4, 6, 9, 15, 30, 60])
        steps = rng.choice(["mixed", "mixed", "subsecond", "ties"])
        lens = gen_lens(rng, n, rng.choice(["short", "mixed", "min"]))
        lens[0] = min(lens[0], 60)                      # the first dated line ends inside block zero at every block size
        lead = rng.choice([0, 0, 0, 12])
        ts = gen_instants(rng, n, steps)
        sub = gen_sub_ns(rng, ts) if rng.random() < 0.25 else None
        if sub:
            lens = [x + 3 for x in lens]
        log = build_log(rng, lens, ts, lead, final_nl=rng.random() < 0.75, sub_ns=sub)
        bs_list = [64, 128, 256, 1024, 4096, 65536] if lead == 0 else [256, 1024, 4096, 65536]
        add(log, "g%04d" % i, bs_list, gen_windows(rng, log["ts"], nwin))
        logs.append(log)
    # the first qualifying message at / around a block edge
    for bs in edge_sizes:
        for dlt in (-1, 0, 1, 2):
            n = max(6, (3 * bs) // 70 + 4) if bs <= 4096 else (bs * 2) // 90
            n = min(n, 1800)
            lens = gen_lens(rng, n, "short")
            lens[0] = min(lens[0], 60)
            ts = sorted(set(gen_instants(rng, n * 2, "mixed")))[:n]
            while len(ts) < n:
                ts.append(ts[-1] + 1)
            # target j: the first message beginning at or after block 1 (or 2), moved to k*bs + dlt
            k = rng.choice([1, 1, 2]) if bs <= 4096 else 1
            b, j = 0, None
            for i, L in enumerate(lens):
                if b >= k * bs + 3 and i >= 2:
                    j = i
                    break
                b += L
            if j is None:
                continue
            want = (k + (1 if b > k * bs + dlt + 0 else 0)) * bs + dlt
            while want < b:
                want += bs
            lens[j - 1] += want - b
            if rng.random() < 0.5 and j + 1 < n:
                ts[j + 1] = ts[j]                          # a tie right at the edge
            log = build_log(rng, lens, ts, 0)
            assert begins(log)[j] % bs == dlt % bs
            tj = log["ts"][j]
            wins = [(tj, None, "edge:A-on"), (tj, tj, "edge:A=B-on"), (log["ts"][j - 1] + 1, tj, "edge:A-between"),
                    (tj - 1, None, "edge:A-minus1us"), (tj + 1, None, "edge:A-plus1us"), (None, tj, "edge:B-on")]
            add(log, "e%d_%d" % (bs, dlt + 1), [bs], wins)
            logs.append(log)
    return jobs, logs


# ---- utmp (synthesised, any order)

def utmp_record(i, sec, usec):
    return struct.pack("<hxxi32s4s32s256shhiii4i20s", 7, 1000 + i, b"pts/%d" % i, b"t%d" % (i % 10), b"user%04d" % i,
                       b"host%d" % i, 0, 0, 0, sec, usec, 0, 0, 0, 0, b"")


def utmp_jobs(rng, scratch, nfiles, nwin):
    jobs = []
    for f in range(nfiles):
        d = os.path.join(scratch, "utmp%d" % f)
        os.makedirs(d, exist_ok=True)
        n = rng.choice([1, 3, 6, 12, 25])
        base = 1500000000 + rng.randrange(0, 10 ** 8)
        times = []
        for i in range(n):
            if times and rng.random() < 0.3:
                times.append(rng.choice(times))                        # a tie
            else:
                times.append((base + rng.randrange(0, 5000)) * US + rng.choice([0, 1, 5, 999999, rng.randrange(US)]))
        p = os.path.join(d, "utmp")
        open(p, "wb").write(b"".join(utmp_record(i, t // US, t % US) for i, t in enumerate(times)))
        order = sorted(range(n), key=lambda i: (times[i], i))          # stable sort by time
        srt = sorted(times)
        for (A, B, cls) in gen_windows(rng, srt, nwin):
            j = Job()
            j.kind, j.path, j.cls = "utmp", p, cls
            j.args = ["--color", "never"]
            if A is not None:
                j.args += ["-a", bound_str(rng, A)]
            if B is not None:
                j.args += ["-b", bound_str(rng, B)]
            j.expected = [1000 + i for i in order if (A is None or A <= times[i]) and (B is None or times[i] <= B)]
            j.case = dict(kind="utmp", A_us=A, B_us=B, window_class=cls, args=j.args, record_times_us=times,
                          file_hex=hx(open(p, "rb").read()))
            jobs.append(j)
    return jobs


def utmp_got(out):
    return [int(x) for x in re.findall(rb"ut_pid (\d+) ", out)]


# ---- evtx fixture: times and order as the tool prints them without a window

EVTX = os.path.join(vlib.REPO, "logs", "programs", "evtx", "Microsoft-Windows-Kernel-PnP%4Configuration.evtx")


def evtx_parse(out):
    """[(record id, instant ns)] from output decorated with -u -d '%s.%9f|'"""
    recs = []
    for line in out.split(b"\n"):
        m = re.match(rb"^(\d+)\.(\d{9})\|.*<EventRecordID>(\d+)</EventRecordID>", line)
        if m:
            recs.append((int(m.group(3)), int(m.group(1)) * 10 ** 9 + int(m.group(2))))
    return recs


def evtx_jobs(rng, nwin):
    dec = ["--color", "never", "-u", "-d", "%s.%9f|"]
    rc, out, err = vlib.run_s4(dec + [EVTX], timeout=120, env={"TZ": "UTC"})
    base = evtx_parse(out)
    if rc != 0 or len(base) < 10:
        return None, "baseline run of the evtx fixture: rc %d, %d records" % (rc, len(base))
    times_us = sorted(set(t // 1000 for _, t in base))
    jobs = []
    for (A, B, cls) in gen_windows(rng, sorted(t // 1000 for _, t in base), nwin):
        j = Job()
        j.kind, j.path, j.cls = "evtx", EVTX, cls
        j.args = list(dec)
        if A is not None:
            j.args += ["-a", bound_str(rng, A)]
        if B is not None:
            j.args += ["-b", bound_str(rng, B)]
        j.expected = [r for r, t in base if (A is None or A * 1000 <= t) and (B is None or t <= B * 1000)]
        j.case = dict(kind="evtx", A_us=A, B_us=B, window_class=cls, args=j.args, file="logs/programs/evtx/" + os.path.basename(EVTX))
        jobs.append(j)
    return jobs, dict(records=len(base), distinct_times=len(times_us),
                      not_us_aligned=sum(1 for _, t in base if t % 1000))


# ---- journal fixtures: expected from journalctl -o json --utc

JOURNALS = ["Ubuntu22-user-1000x3.journal.gz", "RHE_91_system.journal.gz"]


def journal_jobs(rng, scratch, nwin):
    jobs, info = [], {}
    d = os.path.join(scratch, "journal")
    os.makedirs(d, exist_ok=True)
    for name in JOURNALS:
        src = os.path.join(vlib.REPO, "logs", "programs", "journal", name)
        p = os.path.join(d, name[:-3])
        open(p, "wb").write(gzip.open(src).read())
        rc, out, err = vlib.sh2(["journalctl", "--file", p, "-o", "json", "--utc", "--all", "--no-pager"], timeout=120,
                                env={"TZ": "UTC", "SYSTEMD_PAGER": "", "PAGER": ""})
        if rc != 0:
            return None, "journalctl -o json on %s: rc %d %s" % (name, rc, err[-200:])
        ents = [json.loads(l) for l in out.decode("utf-8", "replace").splitlines() if l.strip()]
        base = [(e["__CURSOR"], int(e["__REALTIME_TIMESTAMP"])) for e in ents]
        times = [t for _, t in base]
        if times != sorted(times):
            info[name] = "skipped: entries not in non-decreasing receive-time order (out of the property's domain)"
            continue
        info[name] = dict(entries=len(base), distinct_times=len(set(times)))
        k = nwin if len(base) > 10 else max(nwin, 14)
        for (A, B, cls) in gen_windows(rng, times, k):
            j = Job()
            j.kind, j.path, j.cls = "journal", p, cls
            j.args = ["--color", "never", "--journal-output", "export"]
            if A is not None:
                j.args += ["-a", bound_str(rng, A)]
            if B is not None:
                j.args += ["-b", bound_str(rng, B)]
            j.expected = [c for c, t in base if (A is None or A <= t) and (B is None or t <= B)]
            j.case = dict(kind="journal", A_us=A, B_us=B, window_class=cls, args=j.args, file="logs/programs/journal/" + name,
                          B_equals_entry_time=(B in set(times)))
            jobs.append(j)
    return jobs, info


def journal_got(out):
    return [m.decode("utf-8", "replace") for m in re.findall(rb"(?m)^__CURSOR=(.*)$", out)]


def journal_before_bound_equals_entry_time(case):
    """F2 class (repaired by /repo commit e15616ba; kept so that a regression is named)"""
    return case.get("kind") == "journal" and case.get("B_us") is not None and bool(case.get("B_equals_entry_time"))


def judge(ctx, j, stats):
    """compare one finished job with the window spec; record a failure if they differ"""
    if j.kind == "text":
        got, exp = j.out, j.expected
        ok = got == exp
        show_exp = dict(messages=len(j.idx), indices=j.idx[:40], bytes=len(exp))
        show_got = dict(bytes=len(got), head=got[:300].decode("utf-8", "replace"))
        if not ok:
            # which messages were printed? (ids are unique)
            ids = re.findall(rb" id=([a-z]{3})", got)
            show_got["message_ids"] = [(ord(chr(x[0])) - 97) * 676 + (x[1] - 97) * 26 + (x[2] - 97) for x in ids][:60]
    elif j.kind == "utmp":
        got = utmp_got(j.out)
        ok = got == j.expected
        show_exp, show_got = j.expected, got
    elif j.kind == "evtx":
        got = [r for r, _ in evtx_parse(j.out)]
        ok = got == j.expected
        show_exp, show_got = dict(n=len(j.expected), ids=j.expected[:30]), dict(n=len(got), ids=got[:30])
    else:
        got = journal_got(j.out)
        ok = got == j.expected
        show_exp, show_got = dict(n=len(j.expected), first=j.expected[:2]), dict(n=len(got), first=got[:2])
    empty = (len(j.expected) == 0)
    if empty:
        stats["empty_selections"] += 1
    if j.rc != 0:
        stats["nonzero_exit"] += 1
        ok = False
        show_got = dict(exit_status=j.rc, stderr=j.err[-400:].decode("utf-8", "replace"), got=show_got)
        show_exp = dict(exit_status=0, expected=show_exp)
    if not ok:
        classes = ["journal_before_bound_equals_entry_time"] if journal_before_bound_equals_entry_time(j.case) else []
        ctx.failure(j.case, show_exp, show_got, classes)
    return ok


# ----------------------------------------------------------------------------- python oracle vs Coq window

def run_window_oracle(ctx, logs, jobs):
    """the python filter used as the spec in C equals Spec.WindowSpec.window (evaluated in Coq)"""
    rows = []
    seen = 0
    for j in jobs:
        if j.kind != "text" or j.case["gz"]:
            continue
        log = j.log
        if len(log["lens"]) > 70:
            continue
        A, B = j.case["A_us"], j.case["B_us"]
        rows.append("(%d%%N, %s, %s, %s, [%s])" % (log["lead"], coq_layout(log), zopt(None if A is None else A * 1000), zopt(None if B is None else B * 1000),
                                                 "; ".join("%d%%N" % b for b in [begins(log)[i] for i in j.idx])))
        seen += 1
        if seen >= 400:
            break
    if not rows:
        return 0
    text = (COQ_HDR + "From S4.Spec Require Import WindowSpec.\nFrom S4.Model Require Import Search.\nOpen Scope N_scope.\n"
            "Definition wcases : list (N * layout * option Z * option Z * list N) := [\n%s\n].\n"
            "Fixpoint neqb (a b : list N) : bool := match a, b with [], [] => true | x :: a', y :: b' => (x =? y) && neqb a' b' | _, _ => false end.\n"
            "Eval vm_compute in (flat_map (fun ic => let '(i, (lead, l, a, b, want)) := ic in "
            "if neqb (map s_beg (window s_t a b (groups lead l))) want then [] else [(i, 1)]) (index_from 0 wcases)).\n"
            % ";\n".join(rows))
    rc, out = vlib.coq_eval(os.path.join(CACHE, "cases", "C03", "oracle"), "oracle", text)
    pairs = vlib.parse_eval_pairs(out) if rc == 0 else None
    if pairs is None:
        ctx.obligation_broken("spec-evaluation", "coqc on window oracle cases", out)
        return 0
    if pairs:
        ctx.obligation_broken("oracle", "python window filter differs from Spec.WindowSpec.window on %d cases" % len(pairs), out[-1000:])
    return len(rows)


# ----------------------------------------------------------------------------- run

def run(ctx):
    quick = ctx.quick()
    rng = ctx.rng
    scale = 1 if quick else 12
    # ---- A
    vlib.proof_stage(ctx, PROP_FILE, ["nogen"], extra_targets=["Corr/C03.vo"])
    # ---- builds
    ok, log = vlib.build_harness("c03")
    if not ok:
        ctx.obligation_broken("build", "harness c03", log)
    oks, logs4 = vlib.build_s4()
    if not oks:
        ctx.obligation_broken("build", "s4 binary", logs4)
        return ctx.finish()
    scratch = vlib.scratch_dir("C03")

    # ---- B
    resB = run_B(ctx, rng, scratch, 60 * scale, 10) if ok else None
    resMS = run_model_vs_spec(ctx, rng, 1600 * scale)

    # ---- C
    stats = dict(empty_selections=0, nonzero_exit=0)
    tjobs, tlogs = text_jobs(rng, scratch, 40 * scale, 8, [64, 128, 512, 4096, 65536] if quick else [64, 65, 100, 128, 256, 512, 1000, 4096, 8192, 65536])
    ujobs = utmp_jobs(rng, scratch, 4 * scale, 10)
    ejobs, einfo = evtx_jobs(rng, 16 * scale)
    if ejobs is None:
        ctx.obligation_broken("oracle", "evtx fixture", einfo)
        ejobs, einfo = [], {}
    jjobs, jinfo = journal_jobs(rng, scratch, 14 * scale)
    if jjobs is None:
        ctx.obligation_broken("oracle", "journalctl", jinfo)
        jjobs, jinfo = [], {}
    jobs = tjobs + ujobs + ejobs + jjobs
    t0 = time.time()
    run_jobs(jobs)
    t_runs = time.time() - t0
    nfail = 0
    by_kind, by_class, by_bs = {}, {}, {}
    distinct = set()
    for j in jobs:
        okj = judge(ctx, j, stats)
        nfail += 0 if okj else 1
        k = j.kind + ("-gz" if j.kind == "text" and j.case["gz"] else "")
        by_kind[k] = by_kind.get(k, 0) + 1
        c = re.sub(r":.*", "", j.cls) if j.cls.startswith(("edge", "corpus")) else ("A=B" if j.cls.startswith("A=B") else ("A+B" if "," in j.cls else j.cls[:1] + "-only" if j.cls[:2] in ("A:", "B:") else j.cls))
        by_class[c] = by_class.get(c, 0) + 1
        if j.kind == "text":
            by_bs[j.case["blocksz"]] = by_bs.get(j.case["blocksz"], 0) + 1
        n_exp = len(j.idx) if j.kind == "text" else len(j.expected)
        n_all = len(j.log["ts"]) if j.kind == "text" else None
        if (j.case["A_us"] is not None or j.case["B_us"] is not None) and (n_all is None or n_all >= 2):
            distinct.add((j.kind, j.path, tuple(a for a in j.args if not a.startswith("20") and not a.startswith("+")), j.case["A_us"], j.case["B_us"]))
    n_oracle = run_window_oracle(ctx, tlogs, tjobs)

    ctx.coverage.update(
        evaluations=len(jobs) + (resB["queries"] if resB else 0),
        distinct_nontrivial=len(distinct) + (resB["nontrivial"] if resB else 0),
        rule="C: one run of the real s4 binary per (source, window, block size, container); non-trivial = at least one bound given and (text) at least two messages in the file; distinct by (kind, file, options, A, B). B: one in-process search per query; non-trivial = at least one bound and at least two messages; distinct by (file, block size, container, mode, A, B, offset)",
        samples=[dict(kind=j.kind, args=j.args, expected=(len(j.idx) if j.kind == "text" else len(j.expected)), window_class=j.cls) for j in (jobs[0], jobs[len(tjobs) // 2], jobs[len(tjobs)], jobs[-1])],
        binary_runs=len(jobs), binary_runs_by_kind=by_kind, window_class_histogram=by_class, text_blocksz_histogram={str(k): v for k, v in sorted(by_bs.items())},
        binary_failures=nfail, empty_selections=stats["empty_selections"], nonzero_exit=stats["nonzero_exit"],
        binary_wall_s=round(t_runs, 1), text_logs=len(tlogs), evtx=einfo, journal=jinfo,
        inprocess=resB, model_vs_spec=resMS, python_oracle_vs_coq_window=n_oracle,
        traces_validated_against_impl=(resB or {}).get("find_sysline_calls_compared", 0))
    ctx.assumptions += [
        "find_sysline returns the message containing the offset (first message for an offset in the undated lead, Done at/after EOF): the oracle of Model/Search.v, proved of the block reader by C02 (find_sysline_correct) and sampled here in run B (mode find_sysline)",
        "a message is at least 2 bytes long (a dated line has at least the 6 bytes of the shortest timestamp); text logs are chronological (non-decreasing, ties allowed), one timestamp notation per file, continuation lines contain no two consecutive digits",
        "bounds are written in documented -a/-b notations with an explicit +00:00 zone (or +epoch); their resolution to instants is property C14",
        "generated files keep the first timestamp inside block zero (the acceptance gate is property C12, known finding F3b)",
        "evtx: record times and order are those the tool prints without a window; journal: entry times from journalctl -o json --utc (__REALTIME_TIMESTAMP), fixtures with non-decreasing receive times; utmp: python struct",
    ]
    return ctx.finish()


def replay(ctx, path):
    r = json.load(open(path))
    vlib.build_s4()
    scratch = vlib.scratch_dir("C03replay")
    bad = 0
    for n, f in enumerate(r.get("failures", [])):
        c = f["case"]
        if c["kind"] == "text":
            if not c.get("file_hex"):
                print("replay: file too large to be embedded (lens/ts_us are in the case); skipped")
                continue
            p = os.path.join(scratch, "r%d.log" % n)
            data = bytes.fromhex(c["file_hex"])
            if c["gz"]:
                p += ".gz"
                with gzip.GzipFile(p, "wb", mtime=0) as g:
                    g.write(data)
            else:
                open(p, "wb").write(data)
        elif c["kind"] == "utmp":
            d = os.path.join(scratch, "u%d" % n)
            os.makedirs(d)
            p = os.path.join(d, "utmp")
            open(p, "wb").write(bytes.fromhex(c["file_hex"]))
        else:
            p = os.path.join(vlib.REPO, c["file"])
            if c["kind"] == "journal":
                q = os.path.join(scratch, "j%d.journal" % n)
                open(q, "wb").write(gzip.open(p).read())
                p = q
        rc, out, err = vlib.run_s4(c["args"] + [p], timeout=120, env={"TZ": "UTC"})
        print("replay %s args=%s rc=%d\n expected=%s\n stdout[:400]=%r" % (c["kind"], c["args"], rc, f["expected"], out[:400]))
        if c["kind"] == "text":
            sub = c.get("sub_ns")
            log = dict(lead=c["lead"], lens=c["lens"], ts=c["ts_us"], data=data,
                       ts_ns=[t * 1000 + (sub[k] if sub else 0) for k, t in enumerate(c["ts_us"])])
            msgs, b = [], c["lead"]
            for L in c["lens"]:
                msgs.append(data[b:b + L])
                b += L
            log["msgs"] = msgs
            exp = expected_bytes(log, window_expected(log, c["A_us"], c["B_us"]))
            if out != exp or rc != 0:
                bad += 1
        else:
            bad += 1 if rc != 0 else 0
            got = utmp_got(out) if c["kind"] == "utmp" else None
            if got is not None and got != f["expected"]:
                bad += 1
    if bad:
        print("VIOLATION property=C03 replay=%s" % path)
        return 1
    return 0
