"""C19 — the summary agrees with what was printed.

A. Coq: Props/C19.v (total bytes = |stdout| with colour off, = |strip_sgr stdout| always, colour-on
   identity refuted (F8); per-file sums + separators + supplied newlines = total; counters by kind;
   lines of text messages only; first/last = min/max; --summary leaves stdout unchanged).
B. the numbers of the parsed `--summary` text and the stdout of the same run vs the Coq MODEL
   (Corr/C13.v model_bad: stdout, bytes, lines, syslines, fixedstruct, evtx, journal).
C. the summary vs measurements that need no model: length / line count of the same run's stdout,
   stdout of the run WITHOUT --summary (must be identical), per-file sums + separators + supplied
   newlines, counters vs the number of messages of each kind in the run, first/last vs the min/max
   instant, filter bounds vs the bounds passed.  `--color always` with a total that differs from the
   stdout length exactly by the SGR bytes -> known finding colour_enabled; anything else -> failure.
"""
import json, time, os
from collections import Counter
from concurrent.futures import ThreadPoolExecutor
import vlib
import print_util as pu
import s4summary

PROP_FILE = "Props/C19.v"


def check_scenario(ctx, sc, r, stats):
    rc, out, err = r["sum"]
    rc2, out2, err2 = r["dec"]
    rcp, outp, errp = r["plain"]
    case = pu.sc_public(sc)
    if rc not in (0, 1) or rc2 not in (0, 1):
        ctx.failure(case, "exit status 0/1", "rc=%s/%s" % (rc, rc2))
        return None
    if outp != pu.plain_expected(sc):
        stats["generator_mismatch"] += 1
        return None
    # summary writes only to stderr: stdout identical without --summary, and nothing summary-like on stdout
    if out != out2:
        ctx.failure(case, "stdout identical with and without --summary", "stdout differs (%d vs %d bytes)" % (len(out), len(out2)))
        return None
    if b"Program Summary" in err2:
        ctx.failure(case, "no summary without --summary", "summary text on stderr")
    s = s4summary.parse(err)
    p = s["program"]
    need = ["printed_bytes", "printed_lines", "printed_syslines", "printed_fixedstruct", "printed_evtx", "printed_journal"]
    if any(k not in p for k in need):
        ctx.obligation_broken("correspondence", "summary text not parseable", err[-1500:].decode("utf-8", "replace"))
        return None
    msgs = [sc["srcs"][e["src"]]["msgs"][e["mi"]] for e in sc["events"]]
    sepb = pu.unescape(sc["sep"]).encode()
    nsup = sum(1 for e in sc["events"] if pu.supplied_nl(sc, e))

    def fail(what, exp, got, cls=()):
        ctx.failure(dict(case, what=what), exp, got, list(cls))

    # -- total bytes
    stripped = pu.strip_sgr(out) if sc["colour"] else out
    if p["printed_bytes"] == len(out):
        stats["bytes_eq_stdout"] += 1
    elif sc["colour"] and p["printed_bytes"] == len(stripped):
        stats["bytes_eq_stripped"] += 1
        fail("Printed bytes", len(out), p["printed_bytes"], ["colour_enabled"])
    else:
        fail("Printed bytes", len(out), p["printed_bytes"])
    # -- counters
    kinds = Counter(m["kind"] for m in msgs)
    for key, k in (("printed_syslines", 0), ("printed_fixedstruct", 1), ("printed_evtx", 2), ("printed_journal", 3)):
        if p[key] != kinds.get(k, 0):
            fail(key, kinds.get(k, 0), p[key])
    text_lines = sum(len(m["lines"]) for m in msgs if m["kind"] == 0)
    if p["printed_lines"] != text_lines:
        fail("Printed lines (lines of text messages)", text_lines, p["printed_lines"])
    # wc -l of the undecorated stdout, text-only runs (what the number means to a user)
    if all(m["kind"] == 0 for m in msgs):
        stats["wc_l_checked"] += 1
        if outp.count(b"\n") != p["printed_lines"]:
            fail("Printed lines vs wc -l of the undecorated stdout", outp.count(b"\n"), p["printed_lines"])
    else:
        stats["runs_with_uncounted_record_lines"] += 1
    # -- per file
    printed = sorted(set(e["src"] for e in sc["events"]))
    per = {}
    for i in printed:
        path = sc["srcs"][i]["path"]
        cand = [f for f in s["files"] if f["raw"].startswith(path) or f.get("real_path") == path]
        if len(cand) != 1 or not isinstance(cand[0]["printed"].get("bytes"), int):
            ctx.obligation_broken("correspondence", "per-file summary of %s not found" % path, "")
            return None
        per[i] = cand[0]
    tot = sum(per[i]["printed"]["bytes"] for i in printed) + len(msgs) * len(sepb) + nsup
    if tot != p["printed_bytes"]:
        fail("sum per-file bytes + n_msgs*|sep| + n_supplied_nl", p["printed_bytes"], tot)
    # per-file numbers vs the independent rendering (colour stripped / known deviations applied to lengths only)
    cls = pu.classes_of(sc)
    _, per_exp, _ = pu.render(sc, quirks=cls)
    for i in printed:
        pf = per[i]["printed"]
        if pf["bytes"] != per_exp.get(i, 0):
            fail("per-file bytes of %s" % sc["srcs"][i]["base"], per_exp.get(i, 0), pf["bytes"])
        ms = [sc["srcs"][i]["msgs"][e["mi"]] for e in sc["events"] if e["src"] == i]
        k = ms[0]["kind"]
        if k == 0:
            if pf.get("syslines") != len(ms) or pf.get("lines") != sum(len(m["lines"]) for m in ms):
                fail("per-file syslines/lines of %s" % sc["srcs"][i]["base"], (len(ms), sum(len(m["lines"]) for m in ms)),
                     (pf.get("syslines"), pf.get("lines")))
        else:
            lab = {1: "entries", 2: "events", 3: "journal_events"}[k]
            if pf.get(lab) != len(ms):
                fail("per-file %s of %s" % (lab, sc["srcs"][i]["base"]), len(ms), pf.get(lab))
    # -- first / last
    if msgs:
        lo, hi = min(m["t"] for m in msgs) // 10 ** 9, max(m["t"] for m in msgs) // 10 ** 9
        for key, v in (("printed_first", lo), ("printed_last", hi)):
            d = p.get(key)
            if d is None or d.epoch != v:
                fail("Datetime " + key, v, d and d.epoch)
    else:
        if p.get("printed_first") is not None or p.get("printed_last") is not None:
            fail("Datetime printed first/last of an empty run", None, str(p.get("printed_first")))
    # -- filter bounds
    if sc["window"]:
        stats["windows"] += 1
        a, b = p.get("filter_a"), p.get("filter_b")
        if a is None or b is None or (a.epoch, b.epoch) != tuple(sc["window"]):
            fail("Datetime filter -a/-b", list(sc["window"]), [a and a.epoch, b and b.epoch])
    else:
        if p.get("filter_a") is not None or p.get("filter_b") is not None:
            fail("Datetime filter without -a/-b", None, str(p.get("filter_a")))
    absd = pu.abstract_sgr(out) if sc["colour"] else out
    if absd is None:
        return None
    nums = [p[k] for k in need]
    return absd, nums


def unprocessable_stage(ctx, scratch, rng, stats):
    """Source sets in which NOTHING can be processed (empty files, files of a few bytes, missing
    paths), alone and next to one good log, with no / one-sided / two-sided windows: the summary
    must still report the run — resolved bounds under the right names, zero totals when nothing
    was printed — and leave stdout untouched.  (The coordinator takes a separate return path when
    no worker thread was created.)"""
    import s4summary
    d = os.path.join(scratch, "unproc")
    os.makedirs(d, exist_ok=True)
    empty, tiny, missing, good = [os.path.join(d, n) for n in ("empty.log", "tiny.log", "missing.log", "good.log")]
    open(empty, "wb").close()
    open(tiny, "wb").write(b"abc")
    t0 = 1600000000 + rng.randrange(0, 10 ** 7)
    lines = []
    for k in range(5):
        lines.append(time.strftime("%Y-%m-%dT%H:%M:%S", time.gmtime(t0 + 60 * k)) + "+00:00 good message %d" % k)
    open(good, "wb").write(("\n".join(lines) + "\n").encode())
    fmt = lambda t: time.strftime("%Y-%m-%dT%H:%M:%S", time.gmtime(t)) + "+00:00"
    sets = [[empty], [tiny], [missing], [empty, tiny, missing], [tiny, empty], [empty, good], [good]]
    for files in sets:
        for wa, wb in ((None, None), (t0 - 100, None), (None, t0 + 1000), (t0 + 60, t0 + 120), (t0 - 5000, t0 - 4000)):
            args = ["--color", "never", "--summary"]
            if wa is not None:
                args += ["-a", fmt(wa)]
            if wb is not None:
                args += ["-b", fmt(wb)]
            rc, out, err = vlib.run_s4(args + files, env={"TZ": "UTC"}, timeout=60)
            rc2, out2, err2 = vlib.run_s4([a for a in args if a != "--summary"] + files, env={"TZ": "UTC"}, timeout=60)
            stats["unprocessable_runs"] += 1
            case = dict(kind="unprocessable", files=[os.path.basename(f) for f in files], dt_after=wa, dt_before=wb,
                        argv=args + [os.path.basename(f) for f in files])
            if rc == 124 or rc < 0 or rc not in (0, 1):
                ctx.failure(case, "exit status 0 or 1", rc)
                continue
            if out != out2:
                ctx.failure(case, "stdout with --summary = stdout without", dict(with_summary=len(out), without=len(out2)))
            p = s4summary.parse(err)["program"]
            for key, want in (("filter_a", wa), ("filter_b", wb)):
                got = p.get(key)
                if (got.epoch if got is not None else None) != want:
                    ctx.failure(case, "Datetime filter %s = %r" % ("-a" if key == "filter_a" else "-b", want),
                                got.epoch if got is not None else None)
            exp_msgs = 0
            if good in files:
                exp_msgs = sum(1 for k in range(5) if (wa is None or t0 + 60 * k >= wa) and (wb is None or t0 + 60 * k <= wb))
            if p.get("printed_bytes") is not None and p["printed_bytes"] != len(out):
                ctx.failure(case, "Printed bytes = |stdout| = %d" % len(out), p["printed_bytes"])
            if p.get("printed_syslines") is not None and p["printed_syslines"] != exp_msgs:
                ctx.failure(case, "Printed syslines = %d" % exp_msgs, p["printed_syslines"])


def run(ctx):
    quick = ctx.quick()
    n = 160 if quick else 2500
    vlib.proof_stage(ctx, PROP_FILE, [], extra_targets=["Corr/C13.vo"])
    ok, log = vlib.build_s4()
    if not ok:
        ctx.obligation_broken("build", "s4", log)
        return ctx.finish()
    scratch = vlib.scratch_dir("C19")
    rng = ctx.rng
    rng.random()     # a different stream from C13 for the same seed
    scs = []
    for i in range(n):
        sc = pu.gen_scenario(rng, i, scratch, tier_fixture_rate=0.4)
        try:
            pu.resolve(sc, rng)
        except Exception as ex:
            ctx.obligation_broken("correspondence", "fixture probing", repr(ex))
            return ctx.finish()
        scs.append(sc)
    with ThreadPoolExecutor(max_workers=vlib.NCPU) as ex:
        results = list(ex.map(pu.run_scenario, scs))
    stats = Counter()
    cases, case_sc = [], []
    for sc, r in zip(scs, results):
        res = check_scenario(ctx, sc, r, stats)
        if res is not None:
            ct = pu.coq_case(sc, res[0], res[1])
            if len(ct) > 150000:
                stats["too_large_for_model_run"] += 1
                continue
            cases.append(ct)
            case_sc.append(sc)
    unprocessable_stage(ctx, scratch, rng, stats)
    workdir = os.path.join(vlib.CACHE, "cases", "C19")
    okb, bad, logb = pu.eval_cases(workdir, cases)
    if not okb:
        ctx.obligation_broken("correspondence", "model evaluation (coqc on cases)", logb)
    names = {1: "stdout", 2: "Printed bytes", 3: "Printed lines", 4: "Printed syslines", 5: "Printed fixedstruct", 6: "Printed evtx events", 7: "Printed journal events"}
    for i, c in bad[:1]:
        ctx.obligation_broken("correspondence", "summary / stdout vs Model.Summary.run: %s" % names.get(c, c),
                              json.dumps(dict(case=pu.sc_public(case_sc[i]), disagreements=len(bad)), default=str))
    if stats["generator_mismatch"] > max(2, len(scs) // 20):
        ctx.obligation_broken("generator", "scenario message lists differ from what the tool reads in %d scenarios" % stats["generator_mismatch"], "")

    def key(sc):
        return (sc["colour"], sc["fmode"], sc["align"], sc["zone"] and sc["zone"][2], sc["fmt"], sc["psep"], sc["sep"], sc["bs"],
                tuple(sorted(set(s["fixture"] or "text" for s in sc["srcs"]))), len(sc["srcs"]), sc["window"] is not None)
    nontrivial = set(key(sc) for sc in case_sc if len(sc["events"]) >= 2)
    hist_kind = Counter()
    for sc in case_sc:
        for e in sc["events"]:
            hist_kind[pu.KIND_NAMES[sc["srcs"][e["src"]]["msgs"][e["mi"]]["kind"]]] += 1
    ctx.coverage.update(
        evaluations=len(scs), distinct_nontrivial=len(nontrivial),
        rule="scenario as in C13 (1-4 generated text logs + optionally a utmp / evtx / journal fixture, decoration options that change the byte counts, separators with multi-byte UTF-8 characters in every 4th scenario (counted in BYTES), lines longer than the print buffer in every 4th, sub-millisecond instants in every 4th, --blocksz, -a/-b windows with absolute bounds); every scenario is run with --summary, without it, and undecorated; non-trivial = at least two printed messages; distinct by option tuple + source kinds + window",
        samples=[pu.sc_public(sc) for sc in case_sc[:3]],
        scenarios_compared_with_model=len(cases), model_disagreements=len(bad),
        bytes_eq_stdout=stats["bytes_eq_stdout"], bytes_eq_stdout_minus_sgr=stats["bytes_eq_stripped"],
        wc_l_checked=stats["wc_l_checked"], runs_with_uncounted_record_lines=stats["runs_with_uncounted_record_lines"],
        windows=stats["windows"], unprocessable_source_set_runs=stats["unprocessable_runs"], generator_mismatch=stats["generator_mismatch"],
        too_large_for_model_run=stats["too_large_for_model_run"],
        printed_messages_by_kind=dict(hist_kind),
        multibyte_separator_class=dict(scenarios=sum(1 for s in scs if s.get("mbsep")),
                                       with_printed_messages=sum(1 for s in case_sc if s.get("mbsep") and s["events"]),
                                       separators=sorted(set(s["sep"] for s in scs if s.get("mbsep")))),
        long_line_class=sum(1 for s in scs if s.get("longcls")),
        histogram=dict(colour=sum(1 for s in case_sc if s["colour"]), separator=sum(1 for s in case_sc if s["sep"]),
                       supplied_newline=sum(1 for s in case_sc if any(pu.supplied_nl(s, e) for e in s["events"])),
                       fixture=sum(1 for s in case_sc if s["fixture"]), empty_runs=sum(1 for s in case_sc if not s["events"])))
    ctx.assumptions += [
        "the --summary text is parsed by checks/s4summary.py (line-wise, tolerant)",
        "which message is printed next is an input (C01/C06); scenarios avoid cross-source ties",
        "first/last and filter bounds are compared to whole seconds (the summary prints seconds)",
        "per-file expected byte counts come from the independent python rendering of C13, with the three recorded C13 deviations applied to the lengths",
        "`Printed flushes` is not modelled or checked",
    ]
    return ctx.finish()


def replay(ctx, path):
    r = json.load(open(path))
    vlib.build_s4()
    bad = 0
    for f in r.get("failures", []):
        c = f["case"]
        rc, out, err = vlib.run_s4(c["args"], env=c.get("env"), timeout=120)
        s = s4summary.parse(err)
        print("replay %s: args=%r expected=%r got(recorded)=%r now: Printed bytes=%s stdout=%d stripped=%d" % (
            c.get("what"), c["args"], f["expected"], f["got"], s["program"].get("printed_bytes"), len(out), len(pu.strip_sgr(out))))
        bad = 1
    if bad:
        print("VIOLATION property=C19 replay=%s" % path)
    return bad
