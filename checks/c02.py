"""C02 — every message of a text log is printed exactly once, byte for byte.

A. Coq: Props/C02.v (find_line_correct, find_line_done, find_sysline_correct, stream_complete,
   stream_bytes_suffix, printed_bytes ... for every bs > 0, every file, every `dated`).
B. tie: the real LineReader / SyslineReader / stage driver (in-process, operation SEQUENCES on
   one reader instance: random, repeated and backward offsets, then the driver) vs the Coq model
   find_line_m / find_sysline_m / stream_m evaluated by vm_compute (Corr/C02.v model_bad).
C. failing-input search: (1) the same in-process answers vs the SPEC functions
   spec_find_line / spec_find_sysline / syslines (Coq); (2) stdout of the s4 binary at several
   --blocksz vs the spec `printed` (python transliteration, cross-checked against Coq's
   `printed` on the same cases up to 6 KB).
B2/C3 (cache mode, WP-A). B2: per file ONE LineReader and ONE SyslineReader driven by a random operation
   sequence (find_line, find_line_in_block, find_sysline, find_sysline_in_block, LRU caches off/on,
   drop_data, drop_sysline, the stage driver with a drop plan); after EVERY operation the harness reports
   the answer and the counters of summary() (LineReader: 9, SyslineReader: 17, inner LineReader: 9 via
   hook verif_linereader_summary); Corr/C02c.v replays the sequence on Model/Caches.v (vm_compute) and
   any difference in an answer, a counter or a panic is a B break.  C3: the same answers vs the spec
   (python transliteration of spec_find_line / spec_find_sysline / syslines, cross-checked with Coq);
   a failing sequence is shrunk before it is reported.
   Containers: the same bytes as a plain file, .gz / .bz2 / .lz4 (sequential decoder, look-behind drop), .xz (sliced at
   open) and a tar member (writers of checks/c05.py), the BlockReader's counters included.  On streamed files the
   judged patterns are those of the theorems: block-zero pattern + stage driver (CRD) / window driver with the linear
   search (CRW a,b,plan; also files that are not chronological: win_scan) with a drop plan
   (streamed_driver_complete, streamed_window_driver), drops disabled + any history
   (streamed_drop_disabled_refines), any history on a tar member (tar_member_refines); other histories on streamed
   readers are tied to the model only.  C2 also runs dated logs stored as .gz/.bz2/.lz4 through the binary.
"""
import json, os
import vlib
import lines_util as U

PROP_FILE = "Props/C02.v"
BIN_BS = [64, 65, 127, 128, 4096, 0x10000, 0xFFFFFF]


def inproc_cases(rng, n_files, small_bs_max=70):
    """[(bs, f, table, [ops])], ops = ("L", fo) | ("S", fo) | ("R",)"""
    out = []
    for k in range(n_files):
        bs = rng.choice([1, 2, 3, 4, 5, 7, 8, 16, 31, 32, 33, 64]) if rng.random() < 0.8 else rng.randrange(1, small_bs_max)
        f, tab, lines = U.gen_file(rng, min(bs, 24), nmsg=rng.choice([0, 1, 1, 2, 3]), wild=rng.random() < 0.6,
                                   maxlen=60)
        if rng.random() < 0.05:
            f, tab = rng.choice([(b"", {}), (b"\n", {}), (b"a", {}), (b"\n\n\n", {}), (b"ab\n", {})])
        n = len(f)
        ops = []
        starts, off = [], 0
        for l in U.py_lines(f):
            starts.append(off); off += len(l)
        for _ in range(rng.choice([4, 8, 12])):
            r = rng.random()
            if r < 0.35 and starts:
                fo = rng.choice(starts) + rng.choice([0, 0, 1, -1])
            elif r < 0.5:
                fo = rng.choice([0, n - 1, n, n + 1, n + 7, bs - 1, bs, bs + 1, 2 * bs])
            elif r < 0.6 and ops and len(ops[-1]) > 1:
                fo = ops[-1][1]                                    # repeated call
            else:
                fo = rng.randrange(0, n + 2)
            fo = max(0, fo)
            ops.append((rng.choice("LLS"), fo))
        ops.append(("R",))
        if rng.random() < 0.5:
            ops.append((rng.choice("LS"), rng.randrange(0, n + 1)))
        out.append((bs, f, tab, ops))
    return out


def run_inproc(ctx, cases, scratch):
    """returns per case the list of parsed answers (same order as ops), or None"""
    s = U.Session()
    pos = []
    for bs, f, tab, ops in cases:
        s.add("F\t" + f.hex())
        s.add("B\t%d" % bs)
        p = []
        for o in ops:
            p.append(s.add("%s\t%s" % (o[0], o[1] if len(o) > 1 else "")))
        pos.append(p)
    out, err = s.run(scratch, timeout=120)
    if out is None:
        ctx.obligation_broken("correspondence", "harness c02 run", err)
        return None
    res = []
    for (bs, f, tab, ops), p in zip(cases, pos):
        r = []
        for o, i in zip(ops, p):
            r.append(U.parse_L(out[i]) if o[0] == "L" else U.parse_S(out[i]) if o[0] == "S" else U.parse_R(out[i]))
        res.append(r)
    return res


def op_texts(ops, answers):
    t = []
    for o, a in zip(ops, answers):
        if isinstance(a, tuple) and a and a[0] == "ERR":
            t.append(None)
        elif o[0] == "L":
            t.append(U.coq_opL(o[1], a))
        elif o[0] == "S":
            t.append(U.coq_opS(o[1], a))
        else:
            t.append(U.coq_opR(a))
    return t


def edge_long_files(rng, bs):
    """deterministic boundary class: the FIRST message has a line ending exactly on the last byte of block
    zero (for block size bs), followed by (V1) a continuation line longer than a block, (V2) a dated line
    longer than a block, (V3) short continuation lines, (V4) as V1 at the end of the file without a final
    newline; then ordinary messages.  Inside the accepted domain at bs and at the default size."""
    i0 = rng.randrange(0, 2000)
    tab = {}

    def dated(i, body):
        l = U.ts(i) + b" " + body + b"\n"
        tab[l] = U.instant(i)
        return l

    def head(i, n):
        return dated(i, b"h" * (n - U.TSLEN - 2))
    tail = b"".join(dated(i0 + 10 + k, b"tail message") + (b" tail continuation\n" if k % 2 else b"") for k in range(4))
    long_n = bs + rng.randrange(1, bs + 1)
    out = []
    out.append((head(i0, bs) + b" " + b"c" * (long_n - 2) + b"\n" + tail, dict(tab), "edge-long V1 bs=%d" % bs))
    h = head(i0 + 1, 30)
    pad = b" " + b"p" * (bs - len(h) - 2) + b"\n"
    out.append((h + pad + dated(i0 + 2, b"d" * long_n) + tail, dict(tab), "edge-long V2 bs=%d" % bs))
    out.append((head(i0 + 3, bs) + b" short continuation one\n two\n" + tail, dict(tab), "edge-long V3 bs=%d" % bs))
    out.append((head(i0 + 4, bs) + b" " + b"e" * (long_n - 2), dict(tab), "edge-long V4 bs=%d" % bs))
    return out


def binary_files(rng, n):
    """(f, table, note) for end-to-end runs: sizes around multiples of the block sizes used"""
    out = []
    for k in range(n):
        bs = rng.choice([64, 64, 64, 65, 127, 128, 128, 4096])
        nmsg = rng.choice([1, 2, 3, 5, 8, 13]) if bs < 4096 else rng.choice([2, 3, 4])
        f, tab, lines = U.gen_file(rng, bs, nmsg=nmsg, wild=rng.random() < 0.7)
        # size classes relative to bs: trim / pad the last continuation so that |f| hits k*bs + d
        out.append((f, tab, "bs_hint=%d" % bs))
    return out


CACHE_WITNESS = None


def cache_witness_cases():
    """W1..W3 of Proofs/CachesExamples.v with real timestamps: find_sysline after drop_sysline panics;
    find_sysline_in_block inside a continuation line poisons the LRU cache shared with find_sysline;
    find_sysline_in_block stores a message without its last (one byte, first byte of a block) line"""
    t = b"2020-01-01T00:00:0"
    tab = lambda *ls: {l: 1577836800 + int(l[18:19]) for l in ls}
    a, b = t + b"1 a\n", t + b"2 b\n"
    return [
        ("W1", 16, a + b, tab(a, b), [("CS", 0), ("CDS", 0), ("CS", 0)]),
        ("W2", 256, a + b"x\n" + b, tab(a, b), [("CSB", 23), ("CS", 23)]),
        ("W3", 24, b"u\n" + a + b"c", tab(a), [("CSB", 2), ("CS", 2)]),
    ]


def shuffled_messages(rng, f, tab):
    """the same messages in another order (a log that is NOT chronological); only for files that end with a newline"""
    if not f.endswith(b"\n"):
        return f
    lead, gs = U.py_groups(f, tab)
    if len(gs) < 2:
        return f
    gs = list(gs)
    for _ in range(rng.choice([1, 1, 2])):
        i, j = rng.randrange(len(gs)), rng.randrange(len(gs))
        gs[i], gs[j] = gs[j], gs[i]
    return b"".join(lead) + b"".join(b"".join(ls) for _, ls in gs)


TOTAL_KINDS = ("plain", "tar")


def one_dropping_op(ops):
    """On a reader that can read a dropped block AGAIN (plain file, tar member) only the first operation that can drop
    blocks keeps its drops (drop_data / drop_sysline, or the driver with a drop plan); later ones are made
    non-dropping.  Reason (thorough run, seed 20260930): BlockReader::drop_block counts a drop as ok / err by the Arc
    reference count of the block OBJECT; a block that was dropped while lines still held it and is then read again is a
    NEW object, which the old lines do not hold - the model (Model/Caches.v lr_refd) counts holders by block OFFSET and
    reports err where the implementation reports ok.  The split of the two block-drop counters after a second dropping
    operation is therefore outside the tied domain (answers and every other counter are unaffected; no theorem speaks
    about these two counters)."""
    out, seen = [], False
    for o in ops:
        dropping = o[0] in ("CDD", "CDS") or (o[0] in ("CRD", "CRW") and "1" in str(o[1]).split(",")[-1])
        if dropping and seen:
            if o[0] in ("CDD", "CDS"):
                continue
            parts = str(o[1]).split(",")
            parts[-1] = parts[-1].replace("1", "0")
            o = (o[0], ",".join(parts))
        seen = seen or dropping
        out.append(o)
    return out


def cache_cases(rng, n_files):
    """[(bs, f, table, ops, profile)]"""
    out = []
    for k in range(n_files):
        r = rng.random()
        if r < 0.55:
            bs = rng.choice([1, 2, 3, 4, 5, 7, 8, 16, 31, 32, 33, 64])
        elif r < 0.8:
            bs = rng.choice([48, 64, 96, 128, 256])            # whole messages inside one block
        else:
            bs = rng.randrange(1, 70)
        f, tab, lines = U.gen_file(rng, min(bs, 24), nmsg=rng.choice([0, 1, 2, 3, 4, 6, 9]), wild=rng.random() < 0.6,
                                   maxlen=rng.choice([24, 30, 60]))
        if rng.random() < 0.04:
            f, tab = rng.choice([(b"", {}), (b"\n", {}), (b"a", {}), (b"\n\n\n", {}), (b"ab\n", {})])
        kind = "plain" if rng.random() < 0.4 else rng.choice(["gz", "bz2", "lz4", "gz", "bz2", "lz4", "xz", "xz", "tar"])
        if kind == "xz" and f and rng.random() < 0.45:
            # the slicing loop of BlockReader::new stores one more, empty, block when the block size divides the size
            divs = [d_ for d_ in range(1, min(len(f), 70) + 1) if len(f) % d_ == 0]
            bs = rng.choice(divs)
        if kind in TOTAL_KINDS and rng.random() < (1.0 if kind == "plain" else 0.5):
            # every block can be read at any time (a plain file; a tar member: every miss reads all blocks again)
            profile = "wild" if rng.random() < 0.25 else "safe"
            ops = one_dropping_op(U.cache_ops(rng, f, tab, bs, rng.choice([5, 9, 14, 22, 30]), profile))
        elif rng.random() < 0.22:
            # drops disabled first (what SyslogProcessor does before the reverse pass of process_missing_year):
            # then ANY call history must be answered as the spec says (theorem streamed_drop_disabled_refines)
            profile = "stream_nodrop"
            ops = [("CXD", 0)] + [o for o in U.cache_ops(rng, f, tab, bs, rng.choice([5, 9, 14, 22]), "safe")
                                  if o[0] not in ("CDD", "CDS") and not (o[0] == "CRD" and "1" in o[1])]
        elif rng.random() < 0.75 and f:
            # the call pattern of the stage driver on a streamed reader: block-zero analysis, then the driver
            # (theorems streamed_driver_complete / streamed_window_driver), half of them with a datetime window
            # (linear search), a third of those on a file whose messages are not in time order
            gate = ([("CLBn",)] * rng.choice([0, 1, 2, 4]) if rng.random() < 0.5 else []) + \
                   ([("CSBn",)] * rng.choice([0, 1, 2, 3]) if rng.random() < 0.5 else [])
            plan = rng.choice(["-", "1", "1", "10", "011"])
            if rng.random() < 0.5 and tab:
                profile = "stream_window"
                if rng.random() < 0.35:
                    f = shuffled_messages(rng, f, tab)
                ts_ = sorted(set(tab.values()))
                pick = lambda: rng.choice(ts_) + rng.choice([-1, 0, 0, 0, 1])
                a_, b_ = rng.choice([None, pick(), pick()]), rng.choice([None, pick(), pick()])
                if a_ is not None and b_ is not None and b_ < a_ and rng.random() < 0.7:
                    a_, b_ = b_, a_
                ops = gate + [("CRW", "%s,%s,%s" % ("-" if a_ is None else a_, "-" if b_ is None else b_, plan))]
            else:
                profile = "stream_driver"
                ops = gate + [("CRD", plan)]
        else:
            # any call history on a streamed reader: tied to the model (a block that is gone gives Done), not judged
            profile = "stream_wild"
            ops = U.cache_ops(rng, f, tab, bs, rng.choice([5, 9, 14, 22]), "safe")
        out.append((bs, f, tab, ops, profile, kind))
    return out


def run_cache_mode(ctx, rng, quick, scratch, cdir):
    cases = cache_cases(rng, 120 if quick else 3000)
    wit = cache_witness_cases()
    allc = [(bs, f, tab, ops, "plain") for _, bs, f, tab, ops in wit] + [c[:4] + (c[5],) for c in cases]
    prof = ["wild"] * len(wit) + [c[4] for c in cases]
    ans, tabs, cops = U.run_cache_cases(allc, scratch)
    if ans is None:
        ctx.obligation_broken("correspondence", "harness c02 cache mode", tabs)
        return {}
    ccases = [(c_[0], c_[1], t, [(o_, a_) for o_, a_ in zip(o, a) if a_["kind"] != "ERR"], c_[4]) for c_, a, t, o in zip(allc, ans, tabs, cops)]
    bad = U.eval_shards(ctx, os.path.join(cdir, "cache"), U.coq_cache_cases, ccases, "model evaluation (cache model)")
    paths, dis = {}, []
    for sh, k, c in (bad or []):
        if c >= 10 ** 9 or k >= 10 ** 9:
            nm = U.CACHE_PATHS.get(k - 10 ** 9, str(k))
            paths[nm] = paths.get(nm, 0) + 1
        else:
            dis.append((sh[k // 1000], k % 1000, c))
    if dis:
        ci, j, code = dis[0]
        bs, f, t, oa, kind_ = ccases[ci]
        ctx.obligation_broken(
            "correspondence", "LineReader/SyslineReader caches + summary() counters vs Model/Caches.v (c_step)",
            json.dumps(dict(file_hex=f.hex(), blocksz=bs, container=kind_, ops=[list(o) for o, _ in oa], op_index=j,
                            code={1: "different answer", 2: "model failure", 3: "different counters", 4: "panic mismatch"}.get(code, code),
                            impl=repr(oa[j][1])[:600] if j < len(oa) else None, disagreements=len(dis))))
    # C3: answers vs the spec
    n_ops = n_judged = panics_doc = fails = n_stream_wild = 0
    coq_l, coq_s, coq_g = [], [], []
    wit_ok = {}
    for ci, ((bs, f, _, _, kind), a, t, o) in enumerate(zip(allc, ans, tabs, cops)):
        n_ops += len(o)
        if ci < len(prof) and prof[ci] == "stream_wild":
            n_stream_wild += 1
            continue
        wild_from = U.first_wild_sysline_in_block(o, a)
        mm = U.cache_spec_mismatches(f, t, o, a, wild_from, kind in TOTAL_KINDS)
        panics_doc += sum(1 for x in a if x["kind"] == "PANIC") - sum(1 for _, w in mm if w == "panic")
        if ci < len(wit):
            # the recorded witnesses: the model must predict them (B) and they must still deviate
            name = wit[ci][0]
            dev = any(x["kind"] == "PANIC" for x in a) or bool(U.cache_spec_mismatches(f, t, o, a, None))
            wit_ok[name] = dev
            continue
        for (op, x) in zip(o, a):
            if x["kind"] in ("PANIC", "ERR"):
                continue
            if kind in TOTAL_KINDS and (op[0] in ("CL", "CLB") and x["res"] is not None or op[0] == "CL"):
                r = x["res"]
                coq_l.append((f, op[1], None if r is None else (r[0], r[1], r[2], r[6])))
            elif op[0] == "CS" and (wild_from is None or o.index(op) < wild_from):
                r = x["res"]
                coq_s.append((f, t, op[1], None if r is None else (r[0], r[1], r[4], r[5])))
        n_judged += len(o) if wild_from is None else wild_from
        if mm:
            fails += 1
            if fails > 12:
                continue
            sops, sans = U.shrink_cache_case(bs, f, t, o, scratch, wild_from, kind=kind) if fails <= 4 else (o, a)
            if sans is None:
                sops, sans = o, a
            mm2 = U.cache_spec_mismatches(f, t, sops, sans, U.first_wild_sysline_in_block(sops, sans), kind in TOTAL_KINDS) or mm
            j, what = mm2[0]
            exp = U.py_spec_find_line(f, sops[j][1]) if what == "find_line" else \
                U.py_spec_find_sysline(f, t, sops[j][1]) if what == "find_sysline" else what
            ctx.failure(dict(file_hex=f.hex(), blocksz=bs, container=kind, cache_ops=[list(x) for x in sops], op_index=j,
                             original_ops=len(o), dated={k_.hex(): v for k_, v in t.items()}),
                        "Spec/LinesSpec.v %s: %r" % (what, exp), repr(sans[j])[:500], [])
    # the python transliteration of the spec functions is cross-checked against Coq on the same answers
    for name, builder, cs in (("spec_find_line", U.coq_spec_line_cases, coq_l[:4000]),
                              ("spec_find_sysline", U.coq_spec_sysline_cases, coq_s[:4000])):
        b2 = U.eval_shards(ctx, os.path.join(cdir, "cache_" + name), builder, cs, "spec evaluation " + name + " (cache mode)")
        if b2 and not ctx.failures:
            sh, k, c = b2[0]
            ctx.obligation_broken("spec-evaluation", "python transliteration of %s disagrees with Spec/LinesSpec.v" % name,
                                  repr(cs[sh[k]])[:1500])
    for name, dev in wit_ok.items():
        if not dev:
            ctx.obligation_broken("correspondence", "recorded cache witness %s no longer deviates from the spec "
                                  "(Proofs/CachesExamples.v states a refuted property of the current code)" % name, "")
    return dict(cache_files=len(cases), cache_operations=n_ops, cache_operations_judged_against_spec=n_judged,
                cache_counters_compared=sum(len(x.get("cnt", [])) for a in ans for x in a),
                cache_model_disagreements=len(dis), cache_spec_failures=fails,
                cache_documented_panics_after_drop=panics_doc, cache_paths=dict(sorted(paths.items())),
                cache_witnesses_reproduced={k_: bool(v) for k_, v in wit_ok.items()},
                cache_sequences_with_drops=sum(1 for o in cops if any(x[0] in ("CDD", "CDS") or (x[0] in ("CRD", "CRW") and "1" in x[1].split(",")[-1]) for x in o)),
                cache_sequences_wild=sum(1 for p_ in prof if p_ == "wild"),
                cache_containers={k_: sum(1 for c_ in allc if c_[4] == k_) for k_ in ("plain", "gz", "bz2", "lz4", "xz", "tar")},
                cache_streamed_driver_sequences=sum(1 for p_ in prof if p_ == "stream_driver"),
                cache_streamed_window_driver_sequences=sum(1 for p_ in prof if p_ == "stream_window"),
                cache_streamed_drops_disabled_sequences=sum(1 for p_ in prof if p_ == "stream_nodrop"),
                cache_streamed_any_history_sequences_not_judged=n_stream_wild)


MONTHS = [b"Jan", b"Feb", b"Mar", b"Apr", b"May", b"Jun", b"Jul", b"Aug", b"Sep", b"Oct", b"Nov", b"Dec"]


def yearless_cases(rng, n):
    """logs whose timestamps lack a year, possibly across one or two year boundaries, with a modification time in
    the year of the last message (or the year after): [(bs, bytes, {head line: (mon, day, h, m, s)}, mtime, kind,
    window a|None)]"""
    import calendar, time
    out = []
    for k in range(n):
        y0 = rng.choice([2019, 2020, 2021, 2022])
        t = calendar.timegm((y0, rng.choice([1, 6, 11, 12, 12]), rng.randrange(1, 28), rng.randrange(24), rng.randrange(60), 0, 0, 0, 0))
        lines, tab, true_t = [], {}, []
        for m in range(rng.choice([3, 5, 8, 12])):
            while True:
                t2 = t + rng.choice([1, 1, 61, 3600, 86400, 3 * 86400, 20 * 86400, 40 * 86400, 200 * 86400])
                g = time.gmtime(t2)
                if not (g.tm_mon == 2 and g.tm_mday == 29):
                    break
            t = t2
            g = time.gmtime(t)
            head = b"%s %2d %02d:%02d:%02d host app: %s\n" % (MONTHS[g.tm_mon - 1], g.tm_mday, g.tm_hour, g.tm_min, g.tm_sec,
                                                          U.body(rng, rng.choice([3, 9, 20, 45]), False))
            if head in tab:
                continue
            lines.append(head); tab[head] = (g.tm_mon, g.tm_mday, g.tm_hour, g.tm_min, g.tm_sec); true_t.append(t)
            for _ in range(rng.choice([0, 0, 1, 2])):
                lines.append(b" " + U.body(rng, rng.choice([2, 7, 30, 70]), False) + b"\n")
        if rng.random() < 0.35:
            # undated lines lead the file: stage 3's find_sysline(0) searches and builds the first message again (its
            # year survives through the parse_datetime / find_sysline LRU caches: yearless_driver_caches_off_refuted)
            lines.insert(0, rng.choice([b"\n", b" x\n", b" " + U.body(rng, 6, False) + b"\n"]))
        mtime = t + rng.choice([5, 3600, 86400, 400 * 86400])
        kind = rng.choice(["plain", "plain", "gz", "bz2", "lz4"])
        a = None
        if kind != "plain" and rng.random() < 0.4:
            a = rng.choice(true_t) + rng.choice([-1, 0, 0, 1])
        out.append((rng.choice([64, 64, 128]), b"".join(lines), tab, mtime, kind, a))
    return out


def run_yearless_mode(ctx, rng, quick, scratch, cdir):
    """B + C for the year-less driver: SyslogProcessor (block-zero analysis, process_missing_year with the file's
    modification time, stage 3) vs Model/Caches.v c_stream_year (vm_compute) and vs the spec with the years
    coq/Model/Year.v assign_years infers (python transliteration)"""
    import time
    cases = yearless_cases(rng, 14 if quick else 300) + yearless_w5_cases()
    # the table handed to the harness runner names the head lines: it asks the real parser for the FILLER-year instant of
    # each (stage 3 dates with it every message the reverse pass did not reach: known finding W5)
    allc = [(bs, f, {l: 0 for l in tab}, [("DY", "%d,%s,-" % (mt, "-" if a is None else a))], kind)
            for bs, f, tab, mt, kind, a in cases]
    ans, tabs, cops = U.run_cache_cases(allc, scratch)
    if ans is None:
        ctx.obligation_broken("correspondence", "harness c02 year-less mode", tabs)
        return {}
    ccases, n_ok, n_rej, fails, boundaries, n_lead, n_w5 = [], 0, 0, 0, 0, 0, 0
    for (bs, f, tab, mt, kind, a), an in zip(cases, ans):
        x = an[0] if an else dict(kind="ERR", what="no answer")
        if x.get("kind") != "DY" or x.get("result") != "FileOk":
            n_rej += 1
            continue
        n_ok += 1
        year = time.gmtime(x["mtime"]).tm_year
        heads = [l for l in U.py_lines(f) if l in tab]
        n_lead += 1 if U.py_lines(f)[0] not in tab else 0
        asg = U.py_assign_years([tab[l] for l in heads], year)
        boundaries += len(set(y for y, _ in asg)) - 1
        fill = x.get("filler", {})
        # the reverse pass stops at the first message (going up) that lies before --dt-after: the messages above it
        # keep the filler year
        stop = 0
        if a is not None:
            for i in range(len(heads) - 1, -1, -1):
                if asg[i][1] < a:
                    stop = i
                    break
        inst = {}
        for i, l in enumerate(heads):
            inst[l] = asg[i][1] if i >= stop else fill.get(l, 0)
        _, gs = U.py_groups(f, inst)
        exp = [(t, b"".join(ls)) for t, ls in U.py_win_scan(gs, a, None)]
        got = [(it[3], bytes.fromhex(it[4])) for it in x["items"]]
        if got != exp:
            cls = []
            if yearless_first_messages_keep_filler_year(kind, a, heads, fill, got, exp):
                cls = ["yearless_first_messages_keep_filler_year"]
                n_w5 += 1
            else:
                fails += 1
            if cls or fails <= 5:
                ctx.failure(dict(file_hex=f.hex(), blocksz=bs, container=kind, mtime=mt, mtime_used=x["mtime"], dt_after=a,
                                 yearless=True),
                            "messages with the years of Model/Year.v assign_years: %r" % [t for t, _ in exp][:12],
                            repr([t for t, _ in got][:12]), cls)
        years = sorted(set([year - j for j in range(0, 4)]))
        op = ("DY", "%d,%s,-" % (mt, "-" if a is None else a), U.yearless_tables(tab, years), year)
        ccases.append((bs, f, fill, [(op, x)], kind))
    bad = U.eval_shards(ctx, os.path.join(cdir, "yearless"), U.coq_cache_cases, ccases, "model evaluation (year-less driver)")
    dis = [(sh, k, c) for sh, k, c in (bad or []) if c < 10 ** 9 and k < 10 ** 9]
    if dis:
        sh, k, c = dis[0]
        bs, f, fill, oa, kind = ccases[sh[k // 1000]]
        ctx.obligation_broken("correspondence", "SyslogProcessor on a log without years vs Model/Caches.v c_stream_year",
                              json.dumps(dict(file_hex=f.hex(), blocksz=bs, container=kind, op=oa[0][0][1], year=oa[0][0][3], code=c,
                                              impl=repr(oa[0][1]["items"])[:600], disagreements=len(dis))))
    return dict(yearless_files=len(cases), yearless_accepted=n_ok, yearless_rejected_by_gate=n_rej,
                yearless_leading_undated_accepted=n_lead, yearless_known_w5=n_w5,
                yearless_year_boundaries=boundaries, yearless_model_disagreements=len(dis), yearless_spec_failures=fails,
                yearless_containers={k_: sum(1 for c_ in cases if c_[4] == k_) for k_ in ("plain", "gz", "bz2", "lz4")})


W5_WITNESS = os.path.join(vlib.ROOT, "corpus", "C02", "yearless_leading_undated_w4.log")


def yearless_table(f):
    """{head line: (mon, day, h, m, s)} of a `Mon dd hh:mm:ss ...` log"""
    import re
    tab = {}
    for l in U.py_lines(f):
        m = re.match(rb"^([A-Z][a-z]{2}) ([ \d]\d) (\d\d):(\d\d):(\d\d) ", l)
        if m and m.group(1) in MONTHS:
            tab[l] = (MONTHS.index(m.group(1)) + 1, int(m.group(2)), int(m.group(3)), int(m.group(4)), int(m.group(5)))
    return tab


def yearless_w5_cases():
    """the committed witness of the known finding W5 at the block size that shows it (streamed, 64) and at sizes and
    in a container that do not: every run of the check exercises and classifies it"""
    if not os.path.exists(W5_WITNESS):
        return []
    f = open(W5_WITNESS, "rb").read()
    tab = yearless_table(f)
    return [(64, f, tab, 1679698746, "gz", None), (64, f, tab, 1679698746, "lz4", None),
            (128, f, tab, 1679698746, "gz", None), (64, f, tab, 1679698746, "plain", None)]


def yearless_first_messages_keep_filler_year(kind, a, heads, fill, got, exp):
    """decidable class of the known finding W5: a year-less log in a streamed container (gz / bz2 / lz4), no --dt-after;
    the emitted messages are the expected ones byte for byte, and the instants differ only on a non-empty PREFIX of the
    file, where each message carries the instant of its head line read with the FILLER year (same month, day, time)"""
    if kind == "plain" or a is not None or len(got) != len(exp) or len(got) != len(heads):
        return False
    if [b for _, b in got] != [b for _, b in exp]:
        return False
    k = 0
    while k < len(got) and got[k][0] != exp[k][0]:
        if fill.get(heads[k]) != got[k][0]:
            return False
        k += 1
    return k >= 1 and all(got[i][0] == exp[i][0] for i in range(k, len(got)))


def yearless_streamed(rng, n):
    """logs whose timestamps lack a year (`Jan  2 03:04:05 host app: ...`) stored as .gz / .bz2, several
    blocks long at the block sizes used: SyslogProcessor walks them BACKWARDS first (process_missing_year)
    after disabling the block drops of the streamed reader.  Returns [(bytes, table, note, ext)]."""
    out = []
    for k in range(n):
        lines, tab = [], {}
        t = rng.randrange(0, 3000)
        for m in range(rng.choice([6, 9, 14])):
            t += rng.choice([1, 2, 61, 3600])
            d, h, mi, se = 1 + (t // 86400) % 27, (t // 3600) % 24, (t // 60) % 60, t % 60
            head = b"Jan %2d %02d:%02d:%02d host app: %s\n" % (d, h, mi, se, U.body(rng, rng.choice([3, 9, 20]), False))
            lines.append(head); tab[head] = t
            for _ in range(rng.choice([0, 0, 1, 2])):
                lines.append(b" " + U.body(rng, rng.choice([2, 7, 30, 61]), False) + b"\n")
        ext = rng.choice([".gz", ".bz2"])
        out.append((b"".join(lines), tab, "yearless" + ext, ext))
    return out


def run(ctx):
    quick = ctx.quick()
    rng = ctx.rng
    consts = U.consts_from_repo()
    if consts.get("SYSLOG_SZ_MAX") != U.SYSLOG_SZ_MAX or consts.get("BLOCKSZ_DEF") != U.BLOCKSZ_DEF:
        ctx.obligation_broken("translator", "constants used by the class predicates changed", json.dumps(consts))
    # ---- A
    vlib.proof_stage(ctx, PROP_FILE, ["blocks"], extra_targets=["Corr/C02.vo", "Corr/C02c.vo"])
    okh, logh = vlib.build_harness("c02")
    oks, logs = vlib.build_s4()
    if not okh or not oks:
        ctx.obligation_broken("build", "harness c02" if not okh else "s4 binary", (logh if not okh else logs))
        return ctx.finish()
    scratch = vlib.scratch_dir("C02")
    cdir = os.path.join(vlib.CACHE, "cases", "C02")

    # ---- B2 + C3: the cache model (first: its failing sequences are shrunk and lead the replay file)
    cache_cov = run_cache_mode(ctx, rng, quick, scratch, cdir)
    cache_cov.update(run_yearless_mode(ctx, rng, quick, scratch, cdir))

    # ---- B + C1: in-process
    cases = inproc_cases(rng, 260 if quick else 6000)
    answers = run_inproc(ctx, cases, scratch)
    n_ops = 0
    model_dis = spec_dis = 0
    panics = 0
    nontrivial = set()
    if answers is not None:
        mcases, lcases, scases, gcases, back = [], [], [], [], []
        for ci, ((bs, f, tab, ops), ans) in enumerate(zip(cases, answers)):
            texts = op_texts(ops, ans)
            for o, a, t in zip(ops, ans, texts):
                n_ops += 1
                if t is None:
                    panics += 1
                    ctx.failure(dict(file_hex=f.hex(), blocksz=bs, op=list(o), ops=[list(x) for x in ops]),
                                "an answer (no panic / error)", a[1])
            mcases.append((bs, f, tab, [t for t in texts if t is not None]))
            # boundary rule: some line starts or ends within +-1 of a block edge, or spans >= 2 blocks
            off = 0
            for l in U.py_lines(f):
                e = off + len(l) - 1
                if bs > 0 and (off % bs in (0, 1, bs - 1) or e % bs in (0, 1, bs - 1) or off // bs != e // bs):
                    nontrivial.add((bs, f))
                off += len(l)
            for o, a in zip(ops, ans):
                if isinstance(a, tuple) and a and a[0] == "ERR":
                    continue
                if o[0] == "L":
                    lcases.append((f, o[1], None if a is None else (a[0], a[1], a[2], a[6])))
                    back.append(("L", ci, o))
                elif o[0] == "S":
                    scases.append((f, tab, o[1], None if a is None else (a[0], a[1], a[4], a[5])))
                    back.append(("S", ci, o))
                else:
                    gcases.append((f, tab, [(it[3], it[4]) for it in a]))
                    back.append(("R", ci, o))
        bad = U.eval_shards(ctx, os.path.join(cdir, "model"), U.coq_model_cases, mcases, "model evaluation")
        if bad:
            model_dis = len(bad)
            # index = 1000 * (case index inside the shard) + op index
            sh, k, c = bad[0]
            ci = sh[k // 1000]
            bs, f, tab, ops = cases[ci]
            ctx.obligation_broken("correspondence", "LineReader/SyslineReader/driver vs Model find_line_m/find_sysline_m/stream_m",
                                  json.dumps(dict(file_hex=f.hex(), blocksz=bs, ops=[list(x) for x in ops], op_index=k % 1000,
                                                  code=c, impl=repr(answers[ci]), disagreements=len(bad))))
        # C1: the same answers vs the SPEC
        for name, builder, cs, tag in (("spec_find_line", U.coq_spec_line_cases, lcases, "L"),
                                       ("spec_find_sysline", U.coq_spec_sysline_cases, scases, "S"),
                                       ("syslines", U.coq_spec_groups_cases, gcases, "R")):
            b2 = U.eval_shards(ctx, os.path.join(cdir, "spec_" + tag), builder, cs, "spec evaluation " + name)
            if b2:
                mine = [x for x in back if x[0] == tag]
                for sh, k, c in b2:
                    spec_dis += 1
                    _, ci, o = mine[sh[k]]
                    bs, f, tab, ops = cases[ci]
                    ctx.failure(dict(file_hex=f.hex(), blocksz=bs, op=list(o), ops=[list(x) for x in ops],
                                     dated={k_.hex(): v for k_, v in tab.items()}),
                                "Spec/LinesSpec.v %s" % name, repr(answers[ci][ops.index(o)]), [])

    # ---- C2: the binary vs the spec
    files = []
    for key in ("F3a", "F3b", "F3c"):
        f, tab, bs = U.witnesses()[key]
        files.append((f, tab, "witness " + key, [bs]))
    for f, tab, note in U.nul_heavy_files(rng, 6 if quick else 60):
        files.append((f, tab, note, [64, 128, None] if quick else [64, 65, 127, 128, 4096, 0xFFFFFF, None]))
    for b_ in ([64, 128] if quick else [64, 65, 127, 128, 4096]):
        for f, tab, note in edge_long_files(rng, b_):
            files.append((f, tab, note, [b_, None]))
    for f, tab, note in binary_files(rng, 26 if quick else 400):
        files.append((f, tab, note, rng.sample(BIN_BS, 2 if quick else 4) + [None]))
    for f, tab, note, ext in yearless_streamed(rng, 3 if quick else 30):
        files.append((f, tab, note, [64, 128] if quick else [64, 65, 128, 4096, None]))
    # dated (with year) logs in a streamed container, several blocks long: block-zero analysis, the driver and
    # drop_data_try on a reader whose look-behind drop is enabled (theorem streamed_driver_complete), end to end
    for f, tab, note in binary_files(rng, 4 if quick else 60):
        if len(f) > 2 * 64:
            files.append((f, tab, "streamed" + rng.choice([".gz", ".bz2", ".lz4"]), [64, 128] if quick else [64, 65, 127, 128, 4096]))
    if not quick:
        for k in range(6):        # around the default block size and the largest one
            f, tab, lines = U.gen_file(rng, 0x10000 if k < 4 else 4096, nmsg=rng.choice([3, 4, 6]), wild=True)
            files.append((f, tab, "large", [0x10000, 0xFFFFFF, 64]))
    bin_runs = bin_fail = bin_hangs = 0
    coq_cross = []
    sizes = {}
    for fi, (f, tab, note, bss) in enumerate(files):
        if len(f) <= U.consts_from_repo()["FILE_TOO_SMALL_SZ"]:
            continue
        ext = note[len("yearless"):] if note.startswith(("yearless.", "streamed.")) else ""
        path = os.path.join(scratch, "b%04d.log%s" % (fi, ext))
        with open(path, "wb") as fh:
            fh.write(U.stored_form(ext[1:], f) if ext else f)
        exp = U.py_printed(f, tab)
        if len(f) <= 6000:
            coq_cross.append((f, tab, exp))
        sizes[len(f) // 1024] = sizes.get(len(f) // 1024, 0) + 1
        for bs in bss:
            if bin_hangs >= 2:
                break                      # two hangs of the binary are evidence enough (each costs its timeout)
            rc, out, err = U.run_binary(path, bs, timeout=(60 if bin_hangs == 0 else 15))
            bin_runs += 1
            bin_hangs += 1 if rc == 124 else 0
            ebs = U.BLOCKSZ_DEF if bs is None else bs
            off = 0
            for l in U.py_lines(f):
                e = off + len(l) - 1
                if off % ebs in (0, 1, ebs - 1) or e % ebs in (0, 1, ebs - 1) or off // ebs != e // ebs:
                    nontrivial.add((ebs, f))
                off += len(l)
            if rc == 124 or out != exp:
                bin_fail += 1
                cls = U.gate_classes(f, tab, ebs) if out == b"" else []
                ctx.failure(dict(file_hex=f.hex() if len(f) <= 4096 else None, file_len=len(f), note=note,
                                 blocksz=ebs, dated={k_.hex(): v for k_, v in list(tab.items())[:8]},
                                 replay_file=path),
                            "stdout = spec `printed` (%d bytes)" % len(exp),
                            "rc=%s stdout %d bytes%s" % (rc, len(out), "" if out else " (nothing printed)"), cls)
        os.remove(path) if not ctx.failures else None
    b3 = U.eval_shards(ctx, os.path.join(cdir, "printed"), U.coq_printed_cases, coq_cross, "spec evaluation printed (python transliteration vs Coq)", per_shard=6)
    if b3:
        sh, k, c = b3[0]
        f, tab, exp = coq_cross[sh[k]]
        ctx.obligation_broken("spec-evaluation", "python transliteration of `printed` disagrees with Spec/LinesSpec.v",
                              json.dumps(dict(file_hex=f.hex()[:2000], python=exp.hex()[:2000])))

    ctx.coverage.update(
        evaluations=n_ops + bin_runs,
        distinct_nontrivial=len(nontrivial),
        rule="in-process: files of 0-6 messages (dated head lines in one ISO notation, 0-3 continuation lines each, 0-2 undated leading lines, "
             "arbitrary bytes incl. NUL/CR/high bytes, no digit pairs outside timestamps, with/without final newline, line lengths 1, bs-1, bs, bs+1, k*bs+-1) at block "
             "sizes 1..70; per file one reader instance driven by a sequence of 4-14 find_line/find_sysline calls (line starts +-1, 0, |f|-1, |f|, |f|+1, block edges, repeats, "
             "random, backward) then the stage driver; end-to-end: NUL-heavy logs (a short first dated line followed by continuation lines of NUL bytes so that 50-83 % of the "
             "first 128 bytes are NUL: run directly after the first line, spread over short lines, mixed, placed later in the file as control) at --blocksz 64, 128 and the default; edge-long logs (a line of the first message ends on the last byte of block zero, then a line longer than a block / a long dated line / short lines / no final newline) at that block size and the default;  the s4 binary at --blocksz drawn from 64,65,127,128,4096,0x10000,0xFFFFFF and the default. "
             "non-trivial = (block size, file) pairs in which a line starts or ends within +-1 of a block edge or spans >= 2 blocks; distinct by (bs, bytes)",
        samples=[dict(blocksz=cases[i][0], file_hex=cases[i][1].hex(), ops=[list(x) for x in cases[i][3]],
                      impl=repr(answers[i])[:600] if answers else None) for i in (0, 1)] if cases else [],
        inprocess_files=len(cases), inprocess_operations=n_ops, binary_runs=bin_runs, binary_files=len(files),
        binary_file_kib_histogram={str(k): v for k, v in sorted(sizes.items())},
        blocksz_histogram={str(b): sum(1 for c in cases if c[0] == b) for b in sorted(set(c[0] for c in cases))},
        model_disagreements=model_dis, spec_failures_inprocess=spec_dis, binary_failures=bin_fail, panics=panics,
        spec_python_vs_coq_cases=len(coq_cross), **cache_cov)
    ctx.assumptions += [
        "`dated` (which lines carry a supported timestamp, and the instant) is an oracle: theorems hold for every `dated`; the runs instantiate it with the generator's table "
        "(one ISO notation per file; continuation lines contain no two consecutive digits so no pattern can date them)",
        "the reader caches are modelled (Model/Caches.v) and proved to refine the pure searches; block storage (blocks, blocks_read, block LRU cache) is not: a plain file re-reads any block "
        "(streamed containers, whose dropped blocks are gone, are C05/C17's subject); SyslogProcessor::drop_data's drop_block_last shortcut is covered by quantifying over every drop plan",
        "find_sysline_in_block outside the block-zero-analysis pattern is tied to the model (B) but not judged against the spec: two refuted statements (Proofs/CachesExamples.v W2, W3), reproduced every run",
        "the printer writes the bytes of each message unchanged when no decoration is requested (--color never); decoration is C13's subject",
        "files rejected by the block-zero acceptance gate are outside the reader-core theorems: see the three known findings",
    ]
    return ctx.finish()


def replay(ctx, path):
    r = json.load(open(path))
    ok, log = vlib.build_harness("c02")
    oks, logs = vlib.build_s4()
    scratch = vlib.scratch_dir("C02r")
    rc_all = 0
    for fl in r.get("failures", []):
        c = fl["case"]
        if c.get("file_hex") is None:
            print("replay: file not embedded (len %s); see %s" % (c.get("file_len"), c.get("replay_file")))
            continue
        f = bytes.fromhex(c["file_hex"])
        tab = {bytes.fromhex(k): v for k, v in c.get("dated", {}).items()}
        if "cache_ops" in c:
            ans, tabs, cops = U.run_cache_cases([(c["blocksz"], f, tab, [tuple(o) for o in c["cache_ops"]], c.get("container", "plain"))], scratch)
            print("replay cache mode blocksz=%d ops=%s" % (c["blocksz"], c["cache_ops"]))
            for o, a in zip(cops[0], ans[0]):
                print("   %s -> %s" % (list(o), {k_: v for k_, v in a.items() if k_ != "cnt"}))
            print("  expected=%s" % fl["expected"])
            mm = U.cache_spec_mismatches(f, tabs[0], cops[0], ans[0], U.first_wild_sysline_in_block(cops[0], ans[0]), c.get("container", "plain") == "plain")
            if mm:
                rc_all = 1
        elif "op" in c:
            s = U.Session()
            s.add("F\t" + f.hex()); s.add("B\t%d" % c["blocksz"])
            for o in c["ops"]:
                s.add("%s\t%s" % (o[0], o[1] if len(o) > 1 else ""))
            out, err = s.run(scratch)
            print("replay in-process blocksz=%d ops=%s\n  impl=%s\n  expected=%s" % (c["blocksz"], c["ops"], out[2:] if out else err, fl["expected"]))
            rc_all = 1
        else:
            p = os.path.join(scratch, "replay.log")
            open(p, "wb").write(f)
            rc, out, err = U.run_binary(p, c["blocksz"])
            exp = U.py_printed(f, tab)
            same = out == exp
            print("replay binary blocksz=%d file_len=%d: stdout %d bytes, spec %d bytes -> %s" % (c["blocksz"], len(f), len(out), len(exp), "agree" if same else "DIFFER"))
            if not same:
                rc_all = 1
    if rc_all:
        print("VIOLATION property=C02 replay=%s" % path)
    return rc_all
