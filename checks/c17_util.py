"""Helpers of check C17: log generator from a layout, --summary parser, layout arithmetic,
class predicates of the two known findings, and a python transliteration of Model/Retain.v
(used only to pre-compute class predicates and to size cases; the tie B evaluates the Coq model).

A LAYOUT is a list of (length, dated) pairs, one per line, length counts the final newline;
the first line is dated.  A message = a dated line and the undated lines after it.
"""
import bz2, datetime, gzip, os, re, subprocess

DATED_MIN = 21      # "YYYY-mm-ddTHH:MM:SS" (19) + " " + "\n"
FILL = b"abcdefghijklmnopqrstuvwxyz ABCDEFGHIJKLMNOPQRSTUVWXYZ"


def render(layout, t0=0):
    """bytes of the log with that layout.  Dated lines carry strictly increasing seconds;
    undated lines contain no digit at all (no pattern can date them)."""
    out = []
    base = datetime.datetime(2001, 1, 1)
    t = t0
    for ln, dated in layout:
        if dated:
            assert ln >= DATED_MIN, ln
            ts = (base + datetime.timedelta(seconds=t)).strftime("%Y-%m-%dT%H:%M:%S").encode()
            t += 1
            body = ln - 1 - len(ts) - 1
            out.append(ts + b" " + (FILL * (body // len(FILL) + 1))[:body] + b"\n")
        else:
            assert ln >= 1
            body = ln - 1
            s = (b" " + FILL * (body // len(FILL) + 1))[:body]
            out.append(s + b"\n")
    return b"".join(out)


def write_log(path, layout, container="plain"):
    data = render(layout)
    if container == "plain":
        with open(path, "wb") as f:
            f.write(data)
    elif container == "gz":
        with gzip.GzipFile(path, "wb", compresslevel=1, mtime=0) as f:
            f.write(data)
    elif container == "bz2":
        with open(path, "wb") as f:
            f.write(bz2.compress(data, 1))
    elif container == "lz4":
        p = subprocess.run(["lz4", "-q", "-f", "-1", "-", path], input=data, stdout=subprocess.DEVNULL, stderr=subprocess.DEVNULL)
        if p.returncode != 0:
            raise RuntimeError("lz4 failed")
    else:
        raise ValueError(container)
    return len(data)


EXT = {"plain": ".log", "gz": ".log.gz", "bz2": ".log.bz2", "lz4": ".log.lz4"}


def have_lz4():
    try:
        return subprocess.run(["lz4", "--version"], stdout=subprocess.DEVNULL, stderr=subprocess.DEVNULL).returncode == 0
    except OSError:
        return False


_NUM = {
    "blocks_high": r"^\s+blocks high\s*:\s*(\d+)",
    "lines_high": r"^\s+lines high\s*:\s*(\d+)",
    "syslines_high": r"^\s+syslines high\s*:\s*(\d+)",
    "blocks": r"^\s+blocks\s*:\s*(\d+)",
    "lines": r"^\s+lines\s*:\s*(\d+)\s*$",
    "syslines": r"^\s+syslines\s*:\s*(\d+)\s*$",
    "block_size": r"^\s+block size\s*:\s*(\d+)",
}
_DROP = {
    "drop_block": r"BlockReader::drop_block\(\)\s*:\s*Ok\s*(\d+),\s*Err\s*(\d+)",
    "drop_line": r"LineReader::drop_line\(\)\s*:\s*Ok\s*(\d+),\s*Err\s*(\d+)",
    "drop_sysline": r"SyslineReader::drop_sysline\(\)\s*:\s*Ok\s*(\d+),\s*Err\s*(\d+)",
}


def parse_summary(err):
    """the figures C17 reads from the --summary text (single file).  None when a figure is missing.
    'lines'/'syslines' appear under Printed and under Processed; the LAST occurrence (Processed) is kept."""
    if isinstance(err, bytes):
        err = err.decode("utf-8", "replace")
    out = {}
    for k, rx in _NUM.items():
        m = re.findall(rx, err, flags=re.M)
        if not m:
            return None
        out[k] = int(m[-1])
    for k, rx in _DROP.items():
        m = re.search(rx, err)
        if not m:
            return None
        out[k + "_ok"] = int(m.group(1))
        out[k + "_err"] = int(m.group(2))
    m = re.search(r"read_block\(\) blocks\s*:.*\(rereads (\d+)\)", err)
    out["rereads"] = int(m.group(1)) if m else None
    return out


# ------------------------------------------------------------------ layout arithmetic

def messages(layout):
    """[(first line index, last line index)] per message"""
    out = []
    for i, (ln, dated) in enumerate(layout):
        if dated or not out:
            out.append([i, i])
        else:
            out[-1][1] = i
    return [tuple(x) for x in out]


def line_spans(layout, bs):
    """[(first block, last block)] per line"""
    out = []
    off = 0
    for ln, _ in layout:
        out.append((off // bs, (off + ln - 1) // bs))
        off += ln
    return out


def edge_lines(layout, bs):
    """indexes of lines whose last byte is the last byte of a block, the last line excepted"""
    out = []
    off = 0
    for i, (ln, _) in enumerate(layout):
        off += ln
        if off % bs == 0 and i != len(layout) - 1:
            out.append(i)
    return out
