"""Helpers of check C17: log generator from a layout, --summary parser, layout arithmetic,
class predicates of the two known findings, and python transliterations of Model/Retain.v
(sim_cur) and Model/RetainSearch.v (WindowSim) — used only to pre-compute class predicates and for
the large files of run C; the tie B evaluates the Coq model and cross-checks the transliterations.

A LAYOUT is a list of (length, dated) pairs, one per line, length counts the final newline;
the first line is dated.  A message = a dated line and the undated lines after it.
"""
import bz2, datetime, gzip, os, re, subprocess

DATED_MIN = 21      # "YYYY-mm-ddTHH:MM:SS" (19) + " " + "\n"
FILL = b"abcdefghijklmnopqrstuvwxyz ABCDEFGHIJKLMNOPQRSTUVWXYZ"


NOTATIONS = ("iso", "epoch_frac", "epoch", "yearless")


def stamp(notation, t):
    """the timestamp text of the t-th second"""
    if notation == "iso":
        return (datetime.datetime(2001, 1, 1) + datetime.timedelta(seconds=t)).strftime("%Y-%m-%dT%H:%M:%S").encode()
    if notation == "epoch_frac":
        return b"%d.%03d" % (1704067200 + t, t % 1000)
    if notation == "epoch":
        return b"%d" % (1704067200 + t)
    if notation == "yearless":          # syslog style, no year: "Jan  2 03:04:05"
        return (datetime.datetime(2024, 1, 2, 3, 4, 5) + datetime.timedelta(seconds=t)).strftime("%b %e %H:%M:%S").encode()
    raise ValueError(notation)


def render(layout, t0=0, notation="iso"):
    """bytes of the log with that layout.  Dated lines carry strictly increasing seconds in the given
    notation; undated lines contain no digit at all (no pattern can date them)."""
    out = []
    t = t0
    for ln, dated in layout:
        if dated:
            assert ln >= DATED_MIN, ln
            ts = stamp(notation, t)
            t += 1
            body = ln - 1 - len(ts) - 1
            out.append(ts + b" " + (FILL * (body // len(FILL) + 1))[:body] + b"\n")
        else:
            assert ln >= 1
            body = ln - 1
            s = (b" " + FILL * (body // len(FILL) + 1))[:body]
            out.append(s + b"\n")
    return b"".join(out)


def write_log(path, layout, container="plain", notation="iso"):
    data = render(layout, notation=notation)
    if container == "plain":
        with open(path, "wb") as f:
            f.write(data)
    elif container == "gz":
        with gzip.GzipFile(path, "wb", compresslevel=1, mtime=0) as f:
            f.write(data)
    elif container == "bz2":
        with open(path, "wb") as f:
            f.write(bz2.compress(data, 1))
    elif container == "lz4":
        with open(path, "wb") as f:
            f.write(lz4_frame_stored(data))
    else:
        raise ValueError(container)
    return len(data)


EXT = {"plain": ".log", "gz": ".log.gz", "bz2": ".log.bz2", "lz4": ".log.lz4"}


def _xxh32(data, seed=0):
    P1, P2, P3, P4, P5 = 2654435761, 2246822519, 3266489917, 668265263, 374761393
    M = 0xFFFFFFFF

    def rotl(x, r):
        return ((x << r) | (x >> (32 - r))) & M
    n = len(data)
    i = 0
    if n >= 16:
        v = [(seed + P1 + P2) & M, (seed + P2) & M, seed & M, (seed - P1) & M]
        while i + 16 <= n:
            for k in range(4):
                w = int.from_bytes(data[i:i + 4], "little")
                v[k] = (rotl((v[k] + w * P2) & M, 13) * P1) & M
                i += 4
        h = (rotl(v[0], 1) + rotl(v[1], 7) + rotl(v[2], 12) + rotl(v[3], 18)) & M
    else:
        h = (seed + P5) & M
    h = (h + n) & M
    while i + 4 <= n:
        h = (rotl((h + int.from_bytes(data[i:i + 4], "little") * P3) & M, 17) * P4) & M
        i += 4
    while i < n:
        h = (rotl((h + data[i] * P5) & M, 11) * P1) & M
        i += 1
    h ^= h >> 15
    h = (h * P2) & M
    h ^= h >> 13
    h = (h * P3) & M
    h ^= h >> 16
    return h


def lz4_frame_stored(data):
    """an LZ4 frame (format 1.6) whose blocks are stored uncompressed: no lz4 encoder is installed,
    and for C17 only the container kind matters (the reader streams it through lz4_flex's FrameDecoder)"""
    flg = (1 << 6) | (1 << 5) | (1 << 3)          # version 01, independent blocks, content size present
    bd = 4 << 4                                   # 64 KiB maximum block size
    desc = bytes([flg, bd]) + len(data).to_bytes(8, "little")
    out = [b"\x04\x22\x4d\x18", desc, bytes([(_xxh32(desc) >> 8) & 0xFF])]
    for i in range(0, len(data), 65536):
        blk = data[i:i + 65536]
        out.append((len(blk) | 0x80000000).to_bytes(4, "little"))
        out.append(blk)
    out.append(b"\x00\x00\x00\x00")
    return b"".join(out)


def have_lz4():
    return True


_NUM = {
    "blocks_high": r"^\s+blocks high\s*:\s*(\d+)",
    "lines_high": r"^\s+lines high\s*:\s*(\d+)",
    "syslines_high": r"^\s+syslines high\s*:\s*(\d+)",
    "blocks": r"^\s+blocks\s*:\s*(\d+)",
    "lines": r"^\s+lines\s*:\s*(\d+)\s*$",
    "syslines": r"^\s+syslines\s*:\s*(\d+)\s*$",
    "block_size": r"^\s+block size\s*:\s*(\d+)",
}
_DROP = {
    "drop_block": r"BlockReader::drop_block\(\)\s*:\s*Ok\s*(\d+),\s*Err\s*(\d+)",
    "drop_line": r"LineReader::drop_line\(\)\s*:\s*Ok\s*(\d+),\s*Err\s*(\d+)",
    "drop_sysline": r"SyslineReader::drop_sysline\(\)\s*:\s*Ok\s*(\d+),\s*Err\s*(\d+)",
}


def parse_summary(err):
    """the figures C17 reads from the --summary text (single file).  None when a figure is missing.
    'lines'/'syslines' appear under Printed and under Processed; the LAST occurrence (Processed) is kept."""
    if isinstance(err, bytes):
        err = err.decode("utf-8", "replace")
    out = {}
    for k, rx in _NUM.items():
        m = re.findall(rx, err, flags=re.M)
        if not m:
            return None
        out[k] = int(m[-1])
        if k == "syslines":
            out["printed_syslines"] = int(m[0])      # first occurrence: the Printed section
    for k, rx in _DROP.items():
        m = re.search(rx, err)
        if not m:
            return None
        out[k + "_ok"] = int(m.group(1))
        out[k + "_err"] = int(m.group(2))
    m = re.search(r"read_block\(\) blocks\s*:.*\(rereads (\d+)\)", err)
    out["rereads"] = int(m.group(1)) if m else None
    return out


# ------------------------------------------------------------------ layout arithmetic

def messages(layout):
    """[(first line index, last line index)] per message"""
    out = []
    for i, (ln, dated) in enumerate(layout):
        if dated or not out:
            out.append([i, i])
        else:
            out[-1][1] = i
    return [tuple(x) for x in out]


def line_spans(layout, bs):
    """[(first block, last block)] per line"""
    out = []
    off = 0
    for ln, _ in layout:
        out.append((off // bs, (off + ln - 1) // bs))
        off += ln
    return out


def edge_lines(layout, bs):
    """indexes of lines whose last byte is the last byte of a block, the last line excepted"""
    out = []
    off = 0
    for i, (ln, _) in enumerate(layout):
        off += ln
        if off % bs == 0 and i != len(layout) - 1:
            out.append(i)
    return out


def msg_spans(layout, bs):
    """[(first block, last block)] per message"""
    sp = line_spans(layout, bs)
    return [(sp[a][0], sp[b][1]) for a, b in messages(layout)]


def min_drop_distance(layout, bs):
    """the smallest k - m over all messages m and the worker iteration k at which drop_data_try
    first reaches m (last_block(m) <= first_block(k-1) - 2, first_block(k-1) >= 3, k >= 2, k not the
    last message).  None when no message is ever reached.  (transliteration of Model/Retain.v)"""
    ms = msg_spans(layout, bs)
    n = len(ms)
    best = None
    nxt = 0            # messages < nxt were reached already
    for k in range(2, n - 1):
        f = ms[k - 1][0]
        if f < 3:
            continue
        bo = f - 2
        while nxt <= k and ms[nxt][1] <= bo:
            d = k - nxt
            best = d if best is None else min(best, d)
            nxt += 1
    return best


def consumer_lag_exceeds_drop_distance(layout, bs, H):
    """KNOWN-FINDING class F9a: some message can still be referenced by the consumer side (which may
    be up to H = cap + 2 messages behind, the one just sent included) when drop_data_try reaches it:
    k - m < H for some reached message m.  Equivalent to `derr > 0` in the model run with lag H."""
    d = min_drop_distance(layout, bs)
    return d is not None and d < H


def line_ends_on_block_edge(layout, bs, container):
    """KNOWN-FINDING class F9b: plain file with a line (not the last) whose last byte is the last byte of a block"""
    return container == "plain" and len(edge_lines(layout, bs)) > 0


def avoid_edges(layout, bs):
    """lengthen lines by one byte where needed so that no line ends on a block edge"""
    out = []
    off = 0
    for ln, dated in layout:
        if (off + ln) % bs == 0:
            ln += 1
        out.append((ln, dated))
        off += ln
    return out


def sim_cur(layout, bs, streamed, lag, ta=None, tb=None):
    """python transliteration of Model/Retain.v for the CURRENT policy and the schedule sched_lag lag
    (lag = 1: the consumer keeps up), and of the linear-search driver of Model/RetainSearch.v (sw_run):
    ta = index of the first message of the window (-a), tb = index of the last one (-b); the messages
    before ta are found and stored but neither sent nor dropped (stage 2 is one linear search), the
    first message after tb is found, not sent, and the driver stops.
    Returns (blocks high, lines high, syslines high, drop errors).
    Used for large files where vm_compute would be slow; cross-checked against the Coq model on every
    B case of every run."""
    msgs = messages(layout)
    spans = line_spans(layout, bs)
    n = len(msgs)
    blocks = set()
    lines = set()
    stored = []            # message indexes, increasing
    hb = hl = hs = 0
    nread = 0
    derr = 0
    w = ta or 0

    def read_line(i):
        nonlocal hb, hl, nread
        for b in range(nread, spans[i][1] + 1):
            blocks.add(b)
            if len(blocks) > hb:
                hb = len(blocks)
            if streamed and b > 0:
                blocks.discard(b - 1)
            nread = b + 1
        lines.add(i)
        if len(lines) > hl:
            hl = len(lines)

    for k in range(n):
        a, z = msgs[k]
        for i in range(a if k == 0 else a + 1, z + 1):
            read_line(i)
        if k + 1 < n:
            read_line(msgs[k + 1][0])
        stored.append(k)
        if len(stored) > hs:
            hs = len(stored)
        if tb is not None and k > tb:
            break              # found, not sent: the driver stops
        if k <= w + 1 or k == n - 1:
            continue           # linear search / the first two messages of stage 3 / the last message: no drop
        f = spans[msgs[k - 1][0]][0]
        if f < 3:
            continue
        bo = f - 2
        low = max(w, k - lag + 1)            # held = {low .. k}
        j = 0
        while j < len(stored) and spans[msgs[stored[j]][1]][1] <= bo:
            m = stored[j]
            if m >= low:
                derr += 1
            else:
                for i in range(msgs[m][0], msgs[m][1] + 1):
                    lines.discard(i)
                    for b in range(spans[i][0], spans[i][1]):
                        blocks.discard(b)
            j += 1
        del stored[:j]
    return hb, hl, hs, derr


# ------------------------------------------------------------------ windowed runs (-a)

def window_of(layout, frac):
    """(index t of the first message of the window, its ISO stamp): the first dated line at or
    after frac of the file size (the last message if there is none)"""
    tot = sum(l for l, _ in layout)
    off = 0
    t = 0
    best = None
    for ln, dated in layout:
        if dated:
            if off >= frac * tot and best is None:
                best = t
            t += 1
        off += ln
    if best is None:
        best = t - 1
    return best, stamp("iso", best).decode()


class _LRU:
    """the lru crate as the readers use it: most recently used first"""

    def __init__(self, cap):
        self.cap = cap
        self.l = []

    def touch(self, k, v):
        """get-hit (promote) and put have the same effect"""
        for i, (kk, _) in enumerate(self.l):
            if kk == k:
                self.l.pop(i)
                break
        self.l.insert(0, (k, v))
        if len(self.l) > self.cap:
            self.l.pop()

    def get(self, k):
        for i, (kk, v) in enumerate(self.l):
            if kk == k:
                self.l.insert(0, self.l.pop(i))
                return v
        return None

    def pop(self, k):
        for i, (kk, _) in enumerate(self.l):
            if kk == k:
                self.l.pop(i)
                return

    def refs(self, v):
        return any(vv == v for _, vv in self.l)


class WindowSim:
    """python transliteration of Model/RetainSearch.v for the CURRENT policy: plain file, window
    start = message t (None: no window), the consumer `lag` messages behind.  Literal at the level
    of find_sysline / find_line calls (the Coq model's cursor in the stream phase is the same
    thing on every reachable state); cross-checked against Coq (rows_w) on every windowed B case."""

    def __init__(self, layout, bs, lag=1):
        import bisect
        self._bisect = bisect
        self.bs = bs
        self.beg = []; self.end = []; self.dated = []
        off = 0
        for ln, d in layout:
            self.beg.append(off); self.end.append(off + ln - 1); self.dated.append(d); off += ln
        self.filesz = off
        self.mfirst = []; self.mlastl = []
        for i, d in enumerate(self.dated):
            if d or not self.mfirst:
                self.mfirst.append(i); self.mlastl.append(i)
            else:
                self.mlastl[-1] = i
        self.msg_of_line = []
        for m, (a, z) in enumerate(zip(self.mfirst, self.mlastl)):
            self.msg_of_line += [m] * (z - a + 1)
        self.n = len(self.mfirst)
        self.blocks = set(); self.lines = set(); self.sys = set()
        self.hb = self.hl = self.hs = 0
        self.slru = _LRU(4); self.llru = _LRU(8)
        self.lag = lag
        self.dok = self.derr = self.dlerr = 0
        self.finds = 0
        self.sent = []

    def blk(self, fo):
        return fo // self.bs

    def read_block(self, b):
        if b not in self.blocks:
            self.blocks.add(b)
            if len(self.blocks) > self.hb:
                self.hb = len(self.blocks)

    def find_line(self, fo):
        v = self.llru.get(fo)
        if v is not None:
            return v
        if fo >= self.filesz:
            return "Done"
        i = self._bisect.bisect_right(self.beg, fo) - 1
        if i in self.lines:
            self.llru.touch(fo, i)
            return i
        for b in range(self.blk(fo), self.blk(self.end[i]) + 1):
            self.read_block(b)
        if not (fo == 0 or (fo == self.beg[i] and (i - 1) in self.lines)):
            lo = self.beg[i] - 1 if self.beg[i] > 0 else 0
            for b in range(self.blk(fo - 1), self.blk(lo) - 1, -1):
                self.read_block(b)
        self.lines.add(i)
        if len(self.lines) > self.hl:
            self.hl = len(self.lines)
        self.llru.touch(fo, i)
        return i

    def find_sysline(self, fo):
        self.finds += 1
        v = self.slru.get(fo)
        if v is not None:
            return v
        if fo < self.filesz:
            m = self.msg_of_line[self._bisect.bisect_right(self.beg, fo) - 1]
            if m in self.sys:
                self.slru.touch(fo, m)
                return m
        i = self.find_line(fo)
        if i == "Done":
            self.slru.touch(fo, "Done")
            return "Done"
        while not self.dated[i] and i > 0:
            i = self.find_line(self.beg[i] - 1)
        m = self.msg_of_line[i]
        fo1 = self.end[i] + 1
        while True:
            j = self.find_line(fo1)
            if j == "Done" or self.dated[j]:
                break
            fo1 = self.end[j] + 1
        self.sys.add(m)
        if len(self.sys) > self.hs:
            self.hs = len(self.sys)
        self.slru.touch(fo, m)
        return m

    def mbeg(self, m): return self.beg[self.mfirst[m]]
    def mend(self, m): return self.end[self.mlastl[m]]

    def blockzero(self):
        bs0 = min(self.bs, self.filesz)
        self.read_block(0)
        nl, ns = (1, 1) if bs0 < 8096 else (3, 2)
        fo = 0; found = 0
        while found < nl:
            i = self._bisect.bisect_right(self.beg, fo) - 1
            if self.blk(self.end[i]) != 0:
                break
            self.find_line(fo)
            found += 1
            fo = self.end[i] + 1
            if fo >= self.filesz or self.blk(fo) != 0:
                break
        fo = 0; found = 0
        while found < ns and fo < self.filesz and self.blk(fo) == 0:
            m = self.msg_of_line[self._bisect.bisect_right(self.beg, fo) - 1]
            nxt = self.mlastl[m] + 1
            if nxt >= len(self.beg) or self.blk(self.end[nxt]) != 0:
                break
            self.find_sysline(fo)
            found += 1
            fo = self.mend(m) + 1

    def bsearch(self, fileoffset, t):
        """find_sysline_at_datetime_filter_binary_search; the instant of message k is k"""
        try_fo = fileoffset; try_fo_last = try_fo; sp = None
        fo_a = fileoffset; fo_b = self.filesz
        while True:
            r = self.find_sysline(try_fo)
            done = r == "Done"
            if not done:
                m = r
                if t is None:
                    return m
                if m >= t:
                    if try_fo == fileoffset:
                        return m
                    try_fo_last = try_fo
                    fo_b = min(self.mbeg(m), try_fo_last)
                    try_fo = fo_a + (fo_b - fo_a) // 2
                else:
                    try_fo_last = try_fo
                    fo_a = min(self.mend(m), fo_b)
                    try_fo = fo_a + (fo_b - fo_a) // 2
                sp = m
            else:
                try_fo_last = try_fo
                try_fo = fo_a + (fo_b - fo_a) // 2
            if done and try_fo == try_fo_last:
                return None
            elif try_fo != try_fo_last:
                continue
            m = sp
            fo_beg = self.mbeg(m)
            if self.mend(m) == self.filesz - 1 and fo_beg < try_fo:
                return None
            if fo_beg < try_fo:
                mn = self.find_sysline(self.mend(m) + 1)
                if mn == "Done":
                    return None
                a, b = m < t, mn < t
                if a:
                    m = mn
                elif b:
                    return None
            return m

    def drop_try(self, p, heldset):
        f = self.blk(self.mbeg(p))
        if f < 3:
            return
        bo = f - 2
        for m in sorted(self.sys):
            if self.blk(self.mend(m)) <= bo:
                self.sys.discard(m)
                self.slru.pop(self.mbeg(m))
                if m in heldset or self.slru.refs(m):
                    self.derr += 1
                    continue
                self.dok += 1
                for i in range(self.mfirst[m], self.mlastl[m] + 1):
                    self.llru.pop(self.beg[i])
                    self.lines.discard(i)
                    if self.llru.refs(i):
                        self.dlerr += 1
                        continue
                    for b in range(self.blk(self.beg[i]), self.blk(self.end[i])):
                        self.blocks.discard(b)

    def run(self, t, tb=None):
        """t = index of the first message of the window (-a; None: no -a), tb = index of the last one (-b)"""
        self.blockzero()
        w = self.bsearch(0, t)
        self.search_marks = (self.hb, self.hl, self.hs)
        if w is None or (tb is not None and w > tb):
            return self
        self.sent = [w]
        if self.mend(w) == self.filesz - 1:
            return self
        fo1 = self.mend(w) + 1
        prev = None
        while True:
            q = self.bsearch(fo1, t)
            if q is None or (tb is not None and q > tb):
                break              # after B: found, not sent, the driver stops
            self.sent.append(q)
            fo1 = self.mend(q) + 1
            if self.mend(q) == self.filesz - 1:
                break
            if prev is not None:
                self.drop_try(prev, set(self.sent[-self.lag:]))
            prev = q
        return self

    def result(self):
        """(blocks high, lines high, syslines high, drop_sysline errors, drop_line errors)"""
        return (self.hb, self.hl, self.hs, self.derr, self.dlerr)


def sim_cur_w(layout, bs, lag, t, tb=None):
    return WindowSim(layout, bs, lag).run(t, tb).result()


def window_end_of(layout, frac):
    """(index of the last message of a window that ends at frac of the file size, its ISO stamp)"""
    t, _ = window_of(layout, frac)
    t = max(t - 1, 0)
    return t, stamp("iso", t).decode()
