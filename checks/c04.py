"""C04 — timestamps are interpreted as the instant they denote (PARTIAL: the regex crate is modelled and tied,
not verified; the universal statement covers 168 of 173 rows on the renderings their plan admits).

A. Coq: Props/C04.v (calendar arithmetic, fraction padding, zone/month/pattern table obligations on the
   tables REGENERATED from /repo, normalise_denotes, epoch_refuted; regex stage: totality, soundness,
   symbolic-engine soundness, documented examples, coverage, universal captures/instant theorems).
B. (1) the regex crate's captures (harness c04r) vs the Coq matcher Model/Regex.v on the regenerated
   pattern table (checks/c04r_util.regex_stage) + engine conformance patterns;
   (2) in-process `bytes_to_regex_to_datetime` (harness c04, all rows in table order, each on its own slice)
   vs Model/RegexDt.dated_model / Corr/C04r.first_dated (c04r_util.pipeline_stage);
   (3) the same call vs the Coq model `normalise` + `parse_buffer` (vm_compute) on the SAME captured groups.
C. failing-input search: the real binary on files of generated lines, one documented notation per file:
   `s4 --color never -u -d '%Y%m%dT%H%M%S%.9f%z' --tz-offset=...` must print, before every line, the
   instant the text denotes.  Spec = python civil arithmetic (calendar.timegm) cross-checked, case by
   case, against the Coq definitional spec (Spec/CalendarSpec.spec_instant + frozen Spec/TzRef.v).
   A second class runs WITHOUT --tz-offset under process zones given as POSIX TZ strings (the default zone
   is the local zone): zone-less timestamps and ambiguous abbreviations, -u and one -l view.
   Notation templates are DERIVED from the documented examples (`_test_cases` string literals of every
   DTPD! entry, scraped): the example line with the captured fields replaced.
"""
import calendar, json, os, re, time
from concurrent.futures import ThreadPoolExecutor
import vlib
from vlib import COQ, CACHE
import c04r_util

PROP_FILE = "Props/C04.v"
MONTHS = ["january", "february", "march", "april", "may", "june", "july", "august", "september", "october", "november", "december"]
WDAYS = ["monday", "tuesday", "wednesday", "thursday", "friday", "saturday", "sunday"]
FALLBACKS = [("+00:00", 0), ("-03:30", -12600), ("+05:45", 20700), ("+14:00", 50400), ("-12:00", -43200), ("+01:00", 3600)]
GROUPS = ["year", "month", "day", "hour", "minute", "second", "fractional", "tz", "epoch"]


def hx(b):
    return bytes(b).hex()


def tz_ref():
    src = open(os.path.join(COQ, "Spec", "TzRef.v")).read()
    out = {}
    for m in re.finditer(r'\("([A-Z]+)", (None|Some \((-?\d+)\))\)', src):
        out[m.group(1)] = None if m.group(2) == "None" else int(m.group(3))
    return out


# ------------------------------------------------------------------ templates from the documented examples
def case_style(t):
    a = "".join(ch for ch in t if ch.isalpha())
    return "lower" if a.islower() else "upper" if a.isupper() else "title"


def apply_case(w, style):
    return w if style == "lower" else w.upper() if style == "upper" else w[:1].upper() + w[1:]


def name_form(text, names, regex, first):
    """(form, dot) of a month / weekday spelling in an example; None if not understood"""
    t = text.lower()
    dot = t.endswith(".")
    if dot:
        t = t[:-1]
    has_full = names[0] in regex
    has_abbr = ("(" + names[0][:3] + "|") in regex or (names[0][:3] + "[") in regex or ("|" + names[0][:3] + "|") in regex
    if t in names and len(t) > 3:
        return ("full", dot) if has_full else None
    if t in [n[:3] for n in names]:
        if t == "may" and not has_abbr:
            return ("full", dot)
        return ("abbr", dot)
    return None


def build_templates(tables, ctx):
    rows = tables["rows"]
    reqs, keys = [], []
    for r in rows:
        for k, tc in enumerate(r["tests"]):
            reqs.append("%d\t%s" % (r["index"], hx(tc["text"].encode("utf-8"))))
            keys.append((r["index"], k))
    outl, err = vlib.harness("c04", reqs, args=["spans"])
    if outl is None or len(outl) != len(reqs):
        return None, err
    tpls, skipped = [], {}
    unmatched = []

    def skip(why):
        skipped[why] = skipped.get(why, 0) + 1

    for (ri, k), o in zip(keys, outl):
        r = rows[ri]
        tc = r["tests"][k]
        if o == "NOMATCH":
            skip("example_not_matched_by_its_own_regex")
            unmatched.append((ri, k))
            continue
        raw = tc["text"].encode("utf-8")
        groups = []
        for part in o.split(";"):
            n, a, b = part.rsplit(":", 2)
            groups.append((n, int(a), int(b)))
        groups.sort(key=lambda g: g[1])
        gd = {n: raw[a:b].decode("utf-8", "replace") for n, a, b in groups}
        y, mo, d, h, mi, s, ns = tc["fields"]
        t = dict(row=ri, ex=k, raw=raw, groups=groups, regex=r["regex"], line=r["line"], style={})
        ok = True
        try:
            if "epoch" in gd:
                t["kind"] = "epoch"
            else:
                t["kind"] = "civil"
                if "year" in gd:
                    if len(gd["year"]) == 4 and int(gd["year"]) == y:
                        t["style"]["year"] = 4
                    elif len(gd["year"]) == 2 and y is not None and int(gd["year"]) == y % 100:
                        t["style"]["year"] = 2
                    else:
                        ok = False
                else:
                    t["kind"] = "yearless"
                m = gd.get("month", "")
                if m.isdigit():
                    if int(m) != mo:
                        ok = False
                    t["style"]["month"] = ("num", len(m) if m[0] == "0" or len(m) == 1 else 0)
                else:
                    f = name_form(m, MONTHS, r["regex"], True)
                    if not f or MONTHS.index([n for n in MONTHS if n.startswith(m.lower().rstrip(".")[:3])][0]) + 1 != mo:
                        ok = False
                    else:
                        t["style"]["month"] = ("name", f[0], f[1], case_style(m))
                dd = gd.get("day", "")
                if int(dd.strip()) != d:
                    ok = False
                t["style"]["day"] = "space" if dd.startswith(" ") else "single" if len(dd) == 1 else "zero" if dd.startswith("0") else "two"
                hh = gd.get("hour", "")
                if int(hh) != h or int(gd.get("minute", "-1")) != mi:
                    ok = False
                t["style"]["hour"] = "single" if len(hh) == 1 else "zero" if hh.startswith("0") else "two"
                if "second" in gd and int(gd["second"]) != s:
                    ok = False
                if "second" not in gd and s != 0:
                    ok = False
            if "fractional" in gd:
                fr = gd["fractional"]
                if int((fr + "000000000")[:9]) != ns:
                    ok = False
                mm = re.search(r"\(\?P<fractional>\[\[:digit:\]\]\{(\d)(?:,(\d))?\}\)", r["regex"])
                if not mm:
                    ok = False
                else:
                    lo = int(mm.group(1))
                    t["style"]["frac"] = (lo, int(mm.group(2)) if mm.group(2) else lo)
            elif ns != 0:
                ok = False
            if "tz" in gd:
                z = gd["tz"]
                if z[0] in "+-" or z.startswith("−"):
                    body = z[1:]
                    form = "zc" if ":" in body else "zp" if len(body) == 2 else "z"
                    t["style"]["tz"] = ("num", form, z[0])
                else:
                    both = "|acdt|" in r["regex"] or "acdt|" in r["regex"]
                    t["style"]["tz"] = ("name", "lower" if z.islower() else "upper", both)
            if "dayIgnore" in gd:
                f = name_form(gd["dayIgnore"], WDAYS, r["regex"], False)
                if not f:
                    ok = False
                else:
                    t["style"]["wday"] = (f[0], f[1], case_style(gd["dayIgnore"]))
        except (ValueError, IndexError):
            ok = False
        if not ok:
            skip("example_fields_not_understood")
            continue
        tpls.append(t)
    # the documented reading of an example (its tuple; O_L = the fallback zone) must be what the whole
    # pipeline (all rows in table order) gives for the example line itself; otherwise the example only
    # documents its row in isolation (an earlier row claims the line and reads it differently)
    reqs = ["%s\t%s\t0" % (hx(t["raw"].split(b"\n")[0]), "-") for t in tpls]
    outl, err = vlib.harness("c04", reqs, args=["parse"])
    if outl is None or len(outl) != len(reqs):
        return None, err
    keep, shadowed = [], []
    for t, o in zip(tpls, outl):
        tc = rows[t["row"]]["tests"][t["ex"]]
        y, mo, d, h, mi, s, ns = tc["fields"]
        if t["kind"] == "yearless":
            keep.append(t)
            continue
        doc = (calendar.timegm((y, mo, d, h, mi, s)) - (tc["off"] or 0)) * 10 ** 9 + ns
        p = o.split("\t")
        if o == "NONE" or p[1] == "PANIC" or (int(p[1]) != doc and t["kind"] != "epoch"):
            # which fields does the claiming row read?  fewer than the documenting row (it drops the year
            # and/or the zone that the text carries) = the earlier row is LESS specific: a defect of the
            # table order (known finding); more = the example only documents its row in isolation
            if o != "NONE" and p[1] != "PANIC":
                claimed = set(n for n, g in zip(GROUPS, p[4].split(",")) if g != "-")
                mine = set(n for n, _, _ in t["groups"] if n in GROUPS)
                if claimed < mine and (mine - claimed) & {"year", "tz"}:
                    t["lossy_claim"] = int(p[0])
                    t["first_row"] = int(p[0])
                    keep.append(t)
                    shadowed.append(dict(table_row=t["row"], example=t["raw"].decode("utf-8", "replace")[:100], claimed_by_row=int(p[0]),
                                         fields_dropped=sorted(mine - claimed), kept_as="known finding class"))
                    continue
            skip("example_documented_reading_differs_from_pipeline")
            shadowed.append(dict(table_row=t["row"], example=t["raw"].decode("utf-8", "replace")[:100], claimed_by_row=None if o == "NONE" else int(p[0]),
                                 documented_ns=doc, pipeline_ns=None if o == "NONE" or p[1] == "PANIC" else int(p[1])))
            continue
        t["first_row"] = int(p[0])
        keep.append(t)
    skipped["_shadowed_list"] = shadowed
    skipped["_unmatched_examples"] = unmatched
    return (keep, skipped), ""


def render_name(names, idx, form, dot, cs):
    w = names[idx]
    if form == "abbr":
        w = w[:3]
    return apply_case(w, cs) + ("." if dot else "")


def render(t, F, var):
    """line bytes of template t for fields F; var: dict(case=, tzname=)"""
    raw = t["raw"]
    out, pos = [], 0
    for n, a, b in t["groups"]:
        out.append(raw[pos:a])
        st = t["style"]
        if n == "year":
            s = "%04d" % F["y"] if st["year"] == 4 else "%02d" % (F["y"] % 100)
        elif n == "month":
            m = st["month"]
            if m[0] == "num":
                s = "%02d" % F["mo"] if m[1] == 2 else "%d" % F["mo"]
            else:
                dot = m[2]
                if dot and F["mo"] == 5 and "DEC)[\\.]?)" not in t["regex"]:
                    # CGP_MONTHBb spells may|May|MAY without the optional dot (May is not an abbreviation):
                    # in such a notation the fifth month is written without the dot
                    dot = False
                s = render_name(MONTHS, F["mo"] - 1, m[1], dot, var.get("case", m[3]))
        elif n == "day":
            s = {"space": "%2d", "zero": "%02d", "single": "%d", "two": "%d"}[st["day"]] % F["d"]
        elif n == "hour":
            s = {"zero": "%02d", "single": "%d", "two": "%02d"}[st["hour"]] % F["h"]
        elif n == "minute":
            s = "%02d" % F["mi"]
        elif n == "second":
            s = "%02d" % F["s"]
        elif n == "fractional":
            s = F["frac_digits"]
        elif n == "tz":
            z = st["tz"]
            if z[0] == "num":
                o = F["off"]
                sign = "-" if o < 0 else "+"
                if z[2] == "−" and o < 0:
                    sign = "−"
                hh, mm = abs(o) // 3600, abs(o) % 3600 // 60
                s = sign + ("%02d:%02d" % (hh, mm) if z[1] == "zc" else "%02d" % hh if z[1] == "zp" else "%02d%02d" % (hh, mm))
            else:
                s = F["tzname"]
        elif n == "dayIgnore":
            w = st["wday"]
            s = render_name(WDAYS, calendar.weekday(F["y"], F["mo"], F["d"]), w[0], w[1], var.get("wcase", w[2]))
        elif n == "epoch":
            s = "%d" % F["epoch"]
        else:
            s = raw[a:b].decode("utf-8", "replace")
        out.append(s.encode("utf-8"))
        pos = b
    out.append(raw[pos:])
    return b"".join(out)


# ------------------------------------------------------------------ field generator
DATES_EDGE = [(1970, 1, 2), (1970, 12, 31), (1971, 1, 1), (1972, 2, 29), (1999, 12, 31), (2000, 1, 1), (2000, 2, 29), (2000, 3, 1),
              (2001, 9, 9), (2016, 2, 29), (2016, 12, 31), (2017, 1, 1), (2024, 2, 29), (2038, 1, 19), (2038, 1, 20), (2069, 12, 31),
              (2096, 2, 29), (2099, 2, 28), (2099, 12, 30), (2100 - 1, 1, 31), (1985, 10, 30), (2023, 11, 30), (2023, 5, 9)]
TIMES_EDGE = [(0, 0, 0), (23, 59, 59), (12, 0, 0), (0, 0, 1), (11, 59, 59), (9, 5, 7), (20, 30, 40)]


def gen_fields(rng, t, ref, k, thorough_day=None):
    st = t["style"]
    F = {}
    if t["kind"] == "epoch":
        F["epoch"] = rng.choice([900000000, 999999999, 1000000000, 1843250587, 2147483647, 2147483648, 2999999999,
                                 rng.randrange(900000000, 3000000000), rng.randrange(900000000, 3000000000)])
    else:
        if thorough_day is not None:
            y, mo, d = thorough_day
        elif rng.random() < 0.4:
            y, mo, d = rng.choice(DATES_EDGE)
        else:
            y = rng.randrange(1970, 2100)
            mo = rng.randrange(1, 13)
            d = rng.randrange(1, calendar.monthrange(y, mo)[1] + 1)
            if (y, mo, d) < (1970, 1, 2) or (y, mo, d) > (2099, 12, 30):
                y, mo, d = 1970, 1, 2
        if st.get("year") == 2:
            y = 1970 + (y - 1970) % 99          # 1970..2068: the two-digit pivot (>= 70 -> 19xx) round-trips
            d = min(d, calendar.monthrange(y, mo)[1])
        if st["day"] == "two" and d < 10:
            d += 10
        h, mi, s = rng.choice(TIMES_EDGE) if rng.random() < 0.5 else (rng.randrange(24), rng.randrange(60), rng.randrange(60))
        if st["hour"] == "two" and h < 10:
            h += 10
        if st["month"] == ("num", 0) and mo < 10:
            mo = 10 + mo % 3
            d = min(d, calendar.monthrange(y, mo)[1])
            if st["day"] == "two" and d < 10:
                d += 10
        if "second" not in [g[0] for g in t["groups"]]:
            s = 0
        if (y, mo, d) > (2099, 12, 30):
            d = 30
        F.update(y=y, mo=mo, d=d, h=h, mi=mi, s=s)
    if "frac" in st:
        lo, hi = st["frac"]
        n = rng.randrange(lo, hi + 1)
        # mostly arbitrary digit strings (value-dependent defects show on a small fraction of the values), plus the edges
        rnd = lambda: "".join(rng.choice("0123456789") for _ in range(n))
        F["frac_digits"] = rng.choice(["0" * n, "9" * n, rnd(), rnd(), rnd(), rnd(), rnd(), rnd(), ("1" + "0" * n)[:n], ("0" * n + "1")[-n:]])
    else:
        F["frac_digits"] = ""
    z = st.get("tz")
    F["zone"] = None
    if z:
        if z[0] == "num":
            if z[1] == "zp":
                F["off"] = rng.randrange(-12, 15) * 3600
            else:
                F["off"] = rng.randrange(-48, 57) * 900
            F["zone"] = ("num", F["off"])
        else:
            name = rng.choice(sorted(ref))
            cs = z[1] if not z[2] else rng.choice(["upper", "lower"])
            F["tzname"] = name if cs == "upper" else name.lower()
            F["zone"] = ("name", F["tzname"])
    var = {}
    if t["kind"] != "epoch" and st["month"][0] == "name":
        var["case"] = rng.choice(["lower", "title", "upper"])
    if "wday" in st:
        var["wcase"] = rng.choice(["lower", "title", "upper"])
    return F, var


def expected_ns(t, F, ref, fallback):
    """the instant the text denotes (python oracle); None = not in the property's domain"""
    frac = int((F["frac_digits"] + "000000000")[:9]) if F["frac_digits"] else 0
    if t["kind"] == "epoch":
        return F["epoch"] * 10 ** 9 + frac
    z = F["zone"]
    if z is None:
        off = fallback
    elif z[0] == "num":
        off = z[1]
    else:
        v = ref[z[1].upper()]
        off = fallback if v is None else v
    return (calendar.timegm((F["y"], F["mo"], F["d"], F["h"], F["mi"], F["s"])) - off) * 10 ** 9 + frac


def fmt_utc(ns):
    s, n = divmod(ns, 10 ** 9)
    g = time.gmtime(s)
    return "%04d%02d%02dT%02d%02d%02d.%09d+0000" % (g.tm_year, g.tm_mon, g.tm_mday, g.tm_hour, g.tm_min, g.tm_sec, n)


def ends_line(t):
    """the documented example ends (its first physical line) at most one character after the last captured
    group, and the row's regex offers `$` as the alternative to a following character"""
    first = t["raw"].split(b"\n")[0]
    last_end = max(b for _, _, b in t["groups"])
    return len(first) - last_end <= 1 and t["regex"].endswith("|$)")


def may_dot(line_text):
    return re.search(r"(?<![A-Za-z])(may|May|MAY)\.", line_text) is not None


# ------------------------------------------------------------------ the run
def run(ctx):
    quick = ctx.quick()
    lines_per_file = 8 if quick else 60
    files_per_tpl = 1 if quick else 6
    # thorough tier only: the competitor lists of ALL rows (16 generated shards coq/Gen/RegexCompShard_NN.v evaluated
    # in parallel, ~140 CPU-minutes, assembled by Proofs/RegexCompAll.v); the quick tier keeps the four-row obligation
    extra = ["Corr/C04.vo", "Corr/C04r.vo"] + ([] if quick else ["Proofs/RegexCompAll.vo"])
    if not quick:
        # the shards need more than proof_stage's make timeout when they are not cached: build them first
        with vlib.Lock("coq"):
            okp, _ = vlib.coq_prepare(["datetime", "regexes"])
            if okp:
                vlib.sh(["make", "-j%d" % vlib.NCPU, "Proofs/RegexCompAll.vo"], cwd=COQ, timeout=7200)
    vlib.proof_stage(ctx, PROP_FILE, ["datetime", "regexes"], extra_targets=extra)
    ok, log = vlib.build_harness("c04")
    if not ok:
        ctx.obligation_broken("build", "harness c04", log)
        return ctx.finish()
    ok, log = vlib.build_harness("c04r")
    if not ok:
        ctx.obligation_broken("build", "harness c04r", log)
        return ctx.finish()
    ok, log = vlib.build_s4()
    if not ok:
        ctx.obligation_broken("build", "s4 binary", log)
        return ctx.finish()
    try:
        tables = json.load(open(os.path.join(COQ, "Gen", "datetime_tables.json")))
    except Exception as e:
        ctx.obligation_broken("translator", "datetime_tables.json", str(e))
        return ctx.finish()
    ref = tz_ref()
    res, err = build_templates(tables, ctx)
    if res is None:
        ctx.obligation_broken("correspondence", "harness c04 spans", err)
        return ctx.finish()
    tpls, skipped = res
    rng = ctx.rng
    d = vlib.scratch_dir("C04")
    # every day of 1970-01-02 .. 2099-12-30 once in the thorough tier, spread over the civil templates
    all_days = []
    if not quick:
        t0 = calendar.timegm((1970, 1, 2, 0, 0, 0))
        t1 = calendar.timegm((2099, 12, 30, 0, 0, 0))
        all_days = [time.gmtime(x)[:3] for x in range(t0, t1 + 1, 86400)]
        rng.shuffle(all_days)
    # ---- corpus first: minimised past failures (corpus/C04/cases.tsv)
    corpus_n = 0
    cp = os.path.join(vlib.ROOT, "corpus", "C04", "cases.tsv")
    if os.path.exists(cp):
        for k, row in enumerate(l.rstrip("\n") for l in open(cp, encoding="utf-8")):
            if not row or row.startswith("#"):
                continue
            zs, pref, line = row.split("\t", 2)
            p = os.path.join(d, "corpus_%03d.log" % k)
            open(p, "wb").write(((line + "\n") * 6).encode("utf-8"))
            rc, out, err = vlib.run_s4(["--color", "never", "-u", "-d", "%Y%m%dT%H%M%S%.9f%z", "--tz-offset=" + zs, p], timeout=120, env={"TZ": "UTC"})
            corpus_n += 1
            want = ((pref + ":" + line + "\n") * 6).encode("utf-8")
            if out != want:
                ctx.failure(dict(line=line, tz_offset=zs, corpus="corpus/C04/cases.tsv:%d" % (k + 1), file_lines=[line] * 6), pref,
                            (out.decode("utf-8", "replace").split("\n")[0][:120] or "rc=%d %s" % (rc, err.decode("utf-8", "replace")[-200:])), [])
    # ---- documented examples that their OWN row's regex does not match (none on the unchanged tree): the
    #      documented notation is in the property's domain, so the example line itself is run through the binary
    unm = skipped.pop("_unmatched_examples", [])
    rng.shuffle(unm)
    for k, (ri, ek) in enumerate(unm[:(40 if quick else 400)]):
        tc = tables["rows"][ri]["tests"][ek]
        y, mo, dd_, h, mi, sec, ns = tc["fields"]
        line = tc["text"].split("\n")[0]
        if y is None or tc["end"] > len(line.encode("utf-8")):
            continue
        doc = (calendar.timegm((y, mo, dd_, h, mi, sec)) - (tc["off"] or 0)) * 10 ** 9 + ns
        p = os.path.join(d, "unmatched_%03d.log" % k)
        open(p, "wb").write(((line + "\n") * 6).encode("utf-8"))
        rc, out, err = vlib.run_s4(["--color", "never", "-u", "-d", "%Y%m%dT%H%M%S%.9f%z", "--tz-offset=+00:00", p], timeout=120, env={"TZ": "UTC"})
        want = ((fmt_utc(doc) + ":" + line + "\n") * 6).encode("utf-8")
        if out != want:
            ctx.failure(dict(line=line, tz_offset="+00:00", table_row=ri, source_line=tables["rows"][ri]["line"],
                             documented_example=tc["text"], file_lines=[line] * 6,
                             note="documented example no longer matched by the regex of its own row"),
                        fmt_utc(doc), (out.decode("utf-8", "replace").split("\n")[0][:120] or "<no output line> rc=%d" % rc), [])
    # ---- generate files: one notation (template) per file
    files = []
    day_i = 0
    for ti, t in enumerate(tpls):
        for fi in range(files_per_tpl):
            zs, fb = FALLBACKS[(ti + fi) % len(FALLBACKS)] if not (quick and t["kind"] == "epoch" and fi == 0 and ti % 2) else FALLBACKS[0]
            cases = []
            for k in range(lines_per_file):
                td = None
                if all_days and t["kind"] == "civil" and t["style"].get("year") == 4 and t["style"]["day"] != "two":
                    td = all_days[day_i % len(all_days)]
                    day_i += 1
                F, var = gen_fields(rng, t, ref, k, td)
                line = render(t, F, var)
                cases.append(dict(F=F, var=var, line=line, exp=expected_ns(t, F, ref, fb)))
            cases.sort(key=lambda c: c["exp"])
            md = [c for c in cases if may_dot(c["line"].decode("utf-8", "replace"))]
            rest = [c for c in cases if c not in md]
            for grp, tag in ((rest, ""), (md, "m")):
                if not grp:
                    continue
                while len(grp) < 6:             # block-zero acceptance needs enough dated lines
                    grp = grp + grp
                files.append(dict(tpl=ti, zone=zs, fb=fb, cases=grp, name="t%04d_%d%s.log" % (ti, fi, tag), maydot=bool(tag)))
    # ---- B: in-process, every line through all rows in table order (also tells which row claims a line)
    blines, bmeta = [], []
    for f in files:
        for c in f["cases"]:
            blines.append("%s\t%s\t%d" % (hx(c["line"].split(b"\n")[0]), "-", f["fb"]))
            bmeta.append((f, c))
    # year-less notations get a fill year as the year walk would pass it
    for i, (f, c) in enumerate(bmeta):
        if tpls[f["tpl"]]["kind"] == "yearless":
            blines[i] = "%s\t%d\t%d" % (hx(c["line"].split(b"\n")[0]), 1972 + (i * 7) % 120, f["fb"])
    tb = time.time()
    outl, err = vlib.harness("c04", blines, args=["parse"], timeout=1200)
    ctx.note("harness parse: %d lines in %.1fs" % (len(blines), time.time() - tb))
    if outl is not None and len(outl) == len(blines):
        for (f, c), o in zip(bmeta, outl):
            f.setdefault("first_rows", set()).add(o.split("\t")[0])
            c["first_row"] = o.split("\t")[0]
        if quick and len(blines) > 6000:
            idx = sorted(rng.sample(range(len(blines)), 6000))
            blines = [blines[i] for i in idx]
            bmeta = [bmeta[i] for i in idx]
            outl = [outl[i] for i in idx]
    # ---- B (regex stage): the regex crate's captures vs the Coq matcher on the regenerated pattern table
    rx_cov = c04r_util.regex_stage(ctx, tables, [(tpls[f["tpl"]]["row"], c["line"]) for f in files for c in f["cases"]], quick)
    if outl is not None and len(outl) == len(blines):
        rx_cov.update(c04r_util.pipeline_stage(ctx, blines, outl, quick))
    rx_cov.update(c04r_util.domain_stage(ctx, [(tpls[f["tpl"]]["row"], c["line"]) for f in files for c in f["cases"]], quick))
    # ---- C: the binary
    def run_file(f):
        p = os.path.join(d, f["name"])
        with open(p, "wb") as fh:
            fh.write(b"\n".join(c["line"] for c in f["cases"]) + b"\n")
        rc, out, err = vlib.run_s4(["--color", "never", "-u", "-d", "%Y%m%dT%H%M%S%.9f%z", "--tz-offset=" + f["zone"], p],
                                   timeout=120, env={"TZ": "UTC"})
        return rc, out, err
    tb = time.time()
    with ThreadPoolExecutor(max_workers=vlib.NCPU) as ex:
        outs = list(ex.map(run_file, files))
    ctx.note("binary runs: %d files in %.1fs" % (len(files), time.time() - tb))
    n_lines = 0
    fail_rows = {}
    fail_cls, fail_examples = {}, []
    more_failures = [0]
    fail_lines = 0
    hist_kind, hist_zone, hist_frac, hist_tz = {}, {}, {}, {}
    distinct = set()
    spec_rows = []        # for the Coq cross-check of the python oracle
    tpl_seen, tpl_bad = set(), set()
    for f, (rc, out, err) in zip(files, outs):
        t = tpls[f["tpl"]]
        got = out.split(b"\n")
        if got and got[-1] == b"":
            got.pop()
        # physical lines of the file and the case each belongs to (a documented example may span lines)
        phys = []
        for k, c in enumerate(f["cases"]):
            for pl in c["line"].split(b"\n"):
                phys.append((k, pl))
        data = b"\n".join(c["line"] for c in f["cases"]) + b"\n"
        assert data.split(b"\n")[:-1] == [pl for _, pl in phys]
        bad_case = {}
        tpl_seen.add(f["tpl"])
        for i, (k, pl) in enumerate(phys):
            want = fmt_utc(f["cases"][k]["exp"]).encode() + b":" + pl
            have = got[i] if i < len(got) else b"<no output line> rc=%d %s" % (rc, err[-200:].replace(b"\n", b" "))
            if have != want and k not in bad_case:
                bad_case[k] = (want, have)
        for k, c in enumerate(f["cases"]):
            n_lines += 1
            F = c["F"]
            hist_kind[t["kind"]] = hist_kind.get(t["kind"], 0) + 1
            hist_zone[f["zone"]] = hist_zone.get(f["zone"], 0) + 1
            hist_frac[len(F["frac_digits"])] = hist_frac.get(len(F["frac_digits"]), 0) + 1
            zk = "none" if F["zone"] is None else F["zone"][0]
            hist_tz[zk] = hist_tz.get(zk, 0) + 1
            distinct.add(c["line"])
            spec_rows.append((t, F, f["fb"], c["exp"]))
            if t["kind"] == "yearless":
                continue
            if k in bad_case:
                tpl_bad.add(f["tpl"])
                want, have = bad_case[k]
                fail_lines += 1
                fail_rows[t["row"]] = fail_rows.get(t["row"], 0) + 1
                cls = []
                if t["kind"] == "epoch" and f["fb"] != 0:
                    cls.append("epoch_timestamp_with_nonzero_tz_offset")
                if t.get("lossy_claim") is not None:
                    cls.append("documented_example_claimed_by_earlier_less_specific_row")
                if ends_line(t):
                    cls.append("timestamp_at_end_of_line")
                # F13 is about lines that SOME row claims while the file is locked to another row: a line no row
                # matches at all ("NONE") is not in that class (a regex that lost part of its notation must
                # be reported, not absorbed)
                if len(set(f.get("first_rows", ())) - {"NONE"}) > 1 and c.get("first_row", "NONE") != "NONE":
                    cls.append("notation_lines_split_between_table_rows")
                key = "%d:%s" % (t["row"], "+".join(cls) or "UNCLASSIFIED")
                fail_cls[key] = fail_cls.get(key, 0) + 1
                if fail_cls[key] <= 2:
                    fail_examples.append(dict(key=key, line=c["line"].decode("utf-8", "replace")[:120], tz_offset=f["zone"], expected=want.decode("utf-8", "replace")[:31], got=have.decode("utf-8", "replace")[:80]))
                if fail_rows[t["row"]] > 2 and not cls:
                    more_failures[0] += 1
                    continue
                ctx.failure(dict(line=c["line"].decode("utf-8", "replace"), tz_offset=f["zone"], table_row=t["row"], source_line=t["line"],
                                 documented_example=t["raw"].decode("utf-8", "replace"), file_lines=[x["line"].decode("utf-8", "replace") for x in f["cases"]][:12]),
                            want.decode("utf-8", "replace")[:60], have.decode("utf-8", "replace")[:120], cls)
    # ---- C, default zone: NO --tz-offset; the process zone is given as a POSIX TZ string (no tz database needed;
    #      POSIX sign convention: XYZ-5:45 is UTC+05:45).  Zone-less timestamps and ambiguous abbreviations are read
    #      in the local zone; -u prints the instant, -l prints the wall clock with the local offset.
    POSIX_TZ = [("XYZ-5:45", 20700), ("ABC9:30", -34200), ("DEF-1", 3600), ("GHI3", -10800), ("UTC0", 0)]
    good = [ti for ti in sorted(tpl_seen - tpl_bad) if tpls[ti]["kind"] == "civil" and tpls[ti]["style"].get("year") == 4
            and not ends_line(tpls[ti]) and tpls[ti].get("lossy_claim") is None and b"\n" not in tpls[ti]["raw"]]
    zoneless = [ti for ti in good if "tz" not in tpls[ti]["style"]]
    named = [ti for ti in good if tpls[ti]["style"].get("tz", ("",))[0] == "name"]
    ambiguous = sorted(n for n, v in ref.items() if v is None)
    dz_jobs = []
    for zi, (tzs, tzoff) in enumerate(POSIX_TZ):
        for pool_, amb in ((zoneless, False), (named, True)):
            if not pool_ or (amb and not ambiguous):
                continue
            ti = pool_[(zi * 7 + rng.randrange(len(pool_))) % len(pool_)]
            t = tpls[ti]
            cases = []
            for k in range(6):
                F, var = gen_fields(rng, t, ref, k)
                if amb:
                    nm = ambiguous[(zi + k) % len(ambiguous)]
                    z = t["style"]["tz"]
                    cs = z[1] if not z[2] else rng.choice(["upper", "lower"])
                    F["tzname"] = nm if cs == "upper" else nm.lower()
                    F["zone"] = ("name", F["tzname"])
                cases.append(dict(F=F, line=render(t, F, var), exp=expected_ns(t, F, ref, tzoff)))
            cases.sort(key=lambda c: c["exp"])
            dz_jobs.append(dict(tpl=ti, tz=tzs, off=tzoff, cases=cases, local=False, name="dz%d_%d.log" % (zi, int(amb))))
    if zoneless:
        ti = zoneless[rng.randrange(len(zoneless))]
        t = tpls[ti]
        cases = []
        for k in range(6):
            F, var = gen_fields(rng, t, ref, k)
            cases.append(dict(F=F, line=render(t, F, var), exp=expected_ns(t, F, ref, 20700)))
        cases.sort(key=lambda c: c["exp"])
        dz_jobs.append(dict(tpl=ti, tz="XYZ-5:45", off=20700, cases=cases, local=True, name="dz_local.log"))

    def fmt_local(ns, off):
        s_, n_ = divmod(ns + off * 10 ** 9, 10 ** 9)
        g = time.gmtime(s_)
        sign = "-" if off < 0 else "+"
        return "%04d%02d%02dT%02d%02d%02d.%09d%s%02d%02d" % (g.tm_year, g.tm_mon, g.tm_mday, g.tm_hour, g.tm_min, g.tm_sec, n_,
                                                             sign, abs(off) // 3600, abs(off) % 3600 // 60)
    # which table row claims each line first (same in-process probe as the main run): a file whose lines are
    # split between rows is in the recorded class F13 whatever the zone
    dzl = [(j, c) for j in dz_jobs for c in j["cases"]]
    dzo, _e = vlib.harness("c04", ["%s\t%s\t%d" % (hx(c["line"].split(b"\n")[0]), "-", 0) for _, c in dzl], args=["parse"], timeout=600) if dzl else ([], "")
    if dzo is not None and len(dzo) == len(dzl):
        for (j, c), o in zip(dzl, dzo):
            j.setdefault("first_rows", set()).add(o.split("\t")[0])
            c["first_row"] = o.split("\t")[0]
    dz_lines = 0
    for j in dz_jobs:
        pth = os.path.join(d, j["name"])
        with open(pth, "wb") as fh:
            fh.write(b"\n".join(c["line"] for c in j["cases"]) + b"\n")
        rc, out, err = vlib.run_s4(["--color", "never", "-l" if j["local"] else "-u", "-d", "%Y%m%dT%H%M%S%.9f%z", pth],
                                   timeout=120, env={"TZ": j["tz"]})
        got = out.split(b"\n")
        for i, c in enumerate(j["cases"]):
            dz_lines += 1
            pre = fmt_local(c["exp"], j["off"]) if j["local"] else fmt_utc(c["exp"])
            want = pre.encode() + b":" + c["line"]
            have = got[i] if i < len(got) else b"<no output line> rc=%d %s" % (rc, err[-200:].replace(b"\n", b" "))
            if have != want:
                ctx.failure(dict(line=c["line"].decode("utf-8", "replace"), env_tz=j["tz"], view="-l" if j["local"] else "-u",
                                 table_row=tpls[j["tpl"]]["row"], file_lines=[x["line"].decode("utf-8", "replace") for x in j["cases"]],
                                 note="no --tz-offset: the default is the process's local zone (POSIX TZ string)"),
                            want.decode("utf-8", "replace")[:60], have.decode("utf-8", "replace")[:120],
                            ["notation_lines_split_between_table_rows"] if (len(set(j.get("first_rows", ())) - {"NONE"}) > 1
                                                                             and c.get("first_row", "NONE") != "NONE") else [])
                break
    # ---- B (continued): the model on the captured groups
    model_dis, unmatched, panics = [], 0, 0
    if outl is None or len(outl) != len(blines):
        ctx.obligation_broken("correspondence", "harness c04 parse", err)
    else:
        rows = []
        for i, o in enumerate(outl):
            if o == "NONE":
                unmatched += 1
                continue
            p = o.split("\t")
            if p[1] == "PANIC":
                panics += 1
                continue
            gs = p[4].split(",")
            caps = "; ".join("None" if g == "-" else 'Some ""' if g == "e" else 'Some "%s"' % g for g in gs)
            yo = blines[i].split("\t")[1]
            rows.append((i, '(%s%%N, [%s], %s, (%s)%%Z, Some (%s)%%Z)' % (p[0], caps, "None" if yo == "-" else "Some (%s)%%Z" % yo, blines[i].split("\t")[2], p[1])))
        hdr = vlib.COQ_PRINT_HDR + "From Coq Require Import String List NArith ZArith.\nImport ListNotations.\nFrom S4.Corr Require Import C04.\nOpen Scope string_scope.\n"
        cap = 2500 if quick else 60000
        if len(rows) > cap:
            # the same lines also go through the whole pipeline model (regex + normalise + parse) above;
            # this run isolates normalise + parse on the captures the crate produced
            rows = rng.sample(rows, cap)
        shards = vlib.shard(rows, vlib.NCPU)
        texts = [hdr + "Definition cases : list (N * list (option string) * option Z * Z * option Z) := [\n%s\n].\nEval vm_compute in (model_bad cases).\n" % ";\n".join(r[1] for r in sh_) for sh_ in shards]
        tb = time.time()
        res = vlib.coq_eval_shards(os.path.join(CACHE, "cases", "C04", "model"), texts, timeout=1800)
        ctx.note("coq model evaluation: %d cases in %.1fs" % (len(rows), time.time() - tb))
        for sh_, (rc, out) in zip(shards, res):
            pairs = vlib.parse_eval_pairs(out) if rc == 0 else None
            if pairs is None:
                ctx.obligation_broken("correspondence", "model evaluation (coqc on cases)", out)
                break
            for tup in pairs:
                model_dis.append((sh_[tup[0]][0], tup[1:]))
        for i, mv in model_dis[:1]:
            f, c = bmeta[i]
            ctx.obligation_broken("correspondence", "bytes_to_regex_to_datetime vs Model.Normalise.model_instant",
                                  json.dumps(dict(line=c["line"].decode("utf-8", "replace"), tz_offset=f["zone"], harness=outl[i], model=mv, disagreements=len(model_dis))))
    # ---- the python oracle of C against the Coq definitional spec, case by case
    srows = []
    for (t, F, fb, exp) in spec_rows:
        if t["kind"] == "yearless":
            continue
        if t["kind"] == "epoch":
            frac = exp - F["epoch"] * 10 ** 9
            srows.append("(true, ((%d)%%Z, 0%%Z, 0%%Z, 0%%Z, 0%%Z, 0%%Z, (%d)%%Z), inl 0%%Z, (%d)%%Z, Some (%d)%%Z)" % (F["epoch"], frac, fb, exp))
        else:
            frac = int((F["frac_digits"] + "000000000")[:9]) if F["frac_digits"] else 0
            z = F["zone"]
            zc = "inr None" if z is None else "inl (%d)%%Z" % z[1] if z[0] == "num" else 'inr (Some "%s")' % hx(z[1].encode())
            srows.append("(false, ((%d)%%Z, (%d)%%Z, (%d)%%Z, (%d)%%Z, (%d)%%Z, (%d)%%Z, (%d)%%Z), %s, (%d)%%Z, Some (%d)%%Z)" % (
                F["y"], F["mo"], F["d"], F["h"], F["mi"], F["s"], frac, zc, fb, exp))
    if len(srows) > (4000 if quick else 60000):
        srows = rng.sample(srows, 4000 if quick else 60000)
    hdr = vlib.COQ_PRINT_HDR + "From Coq Require Import String List NArith ZArith.\nImport ListNotations.\nFrom S4.Corr Require Import C04.\nOpen Scope string_scope.\n"
    shards = vlib.shard(srows, vlib.NCPU)
    texts = [hdr + "Definition cases : list (bool * (Z * Z * Z * Z * Z * Z * Z) * (Z + option string) * Z * option Z) := [\n%s\n].\nEval vm_compute in (spec_bad cases).\n" % ";\n".join(sh_) for sh_ in shards]
    tb = time.time()
    res = vlib.coq_eval_shards(os.path.join(CACHE, "cases", "C04", "spec"), texts, timeout=1800)
    ctx.note("coq spec evaluation: %d cases in %.1fs" % (len(srows), time.time() - tb))
    oracle_dis = 0
    for sh_, (rc, out) in zip(shards, res):
        pairs = vlib.parse_eval_pairs(out) if rc == 0 else None
        if pairs is None:
            ctx.obligation_broken("spec-evaluation", "coqc on spec cases", out)
            break
        oracle_dis += len(pairs)
        for tup in pairs[:1]:
            ctx.obligation_broken("oracle", "python civil arithmetic vs Coq spec_instant / TzRef", sh_[tup[0]])
    rows_covered = len(set(t["row"] for t in tpls))
    ctx.coverage.update(
        evaluations=n_lines, distinct_nontrivial=len(distinct),
        rule="one generated line per case = a documented example line (`_test_cases` of a DTPD! entry) with its captured fields replaced: date (edge list incl. leap days, year/month boundaries, 1970-01-02, 2099-12-30; uniform 1970..2099; thorough: every day once), time (00:00:00, 23:59:59, noon, random), numeric offsets -12:00..+14:00 in 15-minute steps, every abbreviation of the frozen reference in the cases the regex lists, 1..9 fraction digits where the regex allows, lower/Title/UPPER month and weekday names, day/hour padding as in the example; files of one notation each, fallback zones rotated; distinct = distinct line texts",
        samples=[dict(line=c["line"].decode("utf-8", "replace"), tz_offset=f["zone"], expected=fmt_utc(c["exp"])) for f in files[:3] for c in f["cases"][:1]],
        corpus_cases=corpus_n, templates=len(tpls), table_rows_with_a_template=rows_covered, table_rows=len(tables["rows"]),
        documented_examples=sum(len(r["tests"]) for r in tables["rows"]), templates_skipped=skipped,
        files=len(files), kind_histogram=hist_kind, fallback_zone_histogram=hist_zone,
        fraction_digits_histogram={str(k): v for k, v in sorted(hist_frac.items())}, zone_spelling_histogram=hist_tz,
        spec_failures=fail_lines, spec_failures_by_row_and_class=fail_cls, spec_failure_examples=fail_examples[:60], spec_failures_by_table_row={str(k): v for k, v in sorted(fail_rows.items())}, model_cases=len(blines), model_disagreements=len(model_dis), harness_unmatched=unmatched,
        harness_panics=panics, oracle_cases=len(srows), oracle_disagreements=oracle_dis,
        default_zone_runs=len(dz_jobs), default_zone_lines=dz_lines, default_zone_tz=[z for z, _ in POSIX_TZ], **rx_cov)
    ctx.assumptions += [
        "PARTIAL: the regex crate is MODELLED (Model/Regex.v: capturing, leftmost-first priority, Unicode mode) and the model is tied to the crate by run B on the project's own patterns; the crate itself is not verified, and pattern competition in block-zero analysis is exercised by run C only (known findings F13/F14/F16)",
        "tools/gen/regexes.py parses the compiled pattern strings as regex-syntax does for the constructs the project uses (ScrapeError otherwise); the parser is tied by the same run B and by the conformance patterns",
        "chrono 0.4.40 parses the fixed-shape normalised buffer as Model/Normalise.parse_buffer says (hand transcription of format/parse.rs, scan.rs, parsed.rs), tied by run B",
        "notations = the documented example lines of the DTPD! entries; a field is rendered in the style of the example (padding, abbreviation/full name, dot, zone form)",
        "Spec/TzRef.v (frozen) is the ground truth of what each zone abbreviation denotes; year-less notations are C11's subject and only take part in run B",
        "two-digit years are read with the pivot 70 (70..99 -> 19xx, 00..69 -> 20xx); second 60 and hour 24 are outside the domain",
    ]
    return ctx.finish()


def replay(ctx, path):
    r = json.load(open(path))
    ok, log = vlib.build_s4()
    d = vlib.scratch_dir("C04-replay")
    bad = 0
    for k, f in enumerate(r.get("failures", [])):
        c = f["case"]
        p = os.path.join(d, "r%03d.log" % k)
        lines = c.get("file_lines") or [c["line"]] * 6
        if c["line"] not in lines:
            lines = [c["line"]] * 6
        open(p, "wb").write(("\n".join(lines) + "\n").encode("utf-8"))
        if "env_tz" in c:
            rc, out, err = vlib.run_s4(["--color", "never", c.get("view", "-u"), "-d", "%Y%m%dT%H%M%S%.9f%z", p],
                                       timeout=120, env={"TZ": c["env_tz"]})
        else:
            rc, out, err = vlib.run_s4(["--color", "never", "-u", "-d", "%Y%m%dT%H%M%S%.9f%z", "--tz-offset=" + c["tz_offset"], p],
                                       timeout=120, env={"TZ": "UTC"})
        got = [l for l in out.decode("utf-8", "replace").split("\n") if l.endswith(c["line"])]
        print("replay line=%r tz=%s expected=%s got=%s" % (c["line"], c.get("env_tz", c.get("tz_offset")), f["expected"], got[:1] or "rc=%d" % rc))
        if not got or not got[0].startswith(f["expected"][:31]):
            bad += 1
    if bad:
        print("VIOLATION property=C04 replay=%s" % path)
        return 1
    return 0
