"""C13: the strftime print / parse tie (what the prepended datetime field DENOTES).

In process (harness/src/bin/c13.rs): chrono `DateTime::format` exactly as the printers call it, and
`s4lib::data::datetime::datetime_parse_from_str` (chrono parse_from_str + the Issue-660 check).

B1  chrono format            vs  Model/Strftime.v  `strftime`        (Corr/C13rt.v strf_bad)
B2  datetime_parse_from_str  vs  Model/StrftimeParse.v `chrono_parse` (Corr/C13rt.v parse_bad) on printed
    texts and on single-character mutations of them
C   spec, no model: for every COMPLETE format (built complete by construction; Coq's decidable rt_ok
    is evaluated on each and must agree) print then parse gives the instant truncated to the printed
    precision.  A mismatch is a failing input (format, instant, offset).
"""
import os, re
import vlib

NS = 10 ** 9
LOCAL_LO = -62167219200          # 0000-01-01 00:00:00 local seconds
LOCAL_HI = 253402300800          # 10000-01-01
DEFAULT_FMT = "%Y%m%dT%H%M%S%.3f%z"

SPEC1 = "YmdHMSfzsTF%"            # single letter specifiers of Model/Strftime.v
PREC = {"%.3f": 3, "%.6f": 6, "%.9f": 9, "%3f": 3, "%6f": 6, "%9f": 9, "%f": 9}


def tokenize(fmt):
    """-> list of spec strings ('%Y', '%.3f', '%:z', ...) and single literal characters; None if unsupported"""
    out, i = [], 0
    while i < len(fmt):
        c = fmt[i]
        if c != "%":
            out.append(c); i += 1; continue
        nx = fmt[i + 1:i + 4]
        if nx[:1] and nx[0] in SPEC1:
            out.append("%" + nx[0]); i += 2
        elif nx[:1] == "." and nx[1:2] in ("3", "6", "9") and nx[2:3] == "f":
            out.append("%" + nx[:3]); i += 4
        elif nx[:1] in ("3", "6", "9") and nx[1:2] == "f":
            out.append("%" + nx[:2]); i += 3
        elif nx[:2] == ":z":
            out.append("%:z"); i += 3
        else:
            return None
    return out


def has_z(fmt):
    return any(t in ("%z", "%:z") for t in tokenize(fmt))


def has_s(fmt):
    return "%s" in tokenize(fmt)


def printed_unit(fmt):
    """ns per last printed digit when the format is complete: 10^(9-p) for the fraction precision, 1 s without fraction"""
    ps = set(PREC[t] for t in tokenize(fmt) if t in PREC)
    if not ps:
        return NS
    return 10 ** (9 - min(ps)) if len(ps) == 1 else None


SEPS = ["", "", "-", ":", "T", "/", " ", "_", ".", "  ", " | ", "%%", "t=", ";", "\t"]
NONDIGIT_SEPS = ["-", ":", "T", "/", " ", "_", " | ", "%%", ";", "\t"]
DIGIT_FIRST = {"%Y", "%m", "%d", "%H", "%M", "%S", "%f", "%3f", "%6f", "%9f", "%s", "%T", "%F"}
GREEDY = {"%s", "%.3f", "%.6f", "%.9f"}


def gen_complete(rng):
    """a format that is complete and unambiguous BY CONSTRUCTION (the Coq side re-decides rt_ok)"""
    epoch = rng.random() < 0.3
    if epoch:
        fields = ["%s"]
        if rng.random() < 0.4:
            fields.append(rng.choice(["%z", "%:z"]))
    else:
        date = rng.choice([["%Y", "%m", "%d"], ["%F"], ["%d", "%m", "%Y"], ["%m", "%d", "%Y"]])
        time_ = rng.choice([["%H", "%M", "%S"], ["%T"], ["%S", "%M", "%H"]])
        fields = (date + time_) if rng.random() < 0.8 else (time_ + date)
        z = rng.random() < 0.6
        if z:
            fields.insert(rng.randrange(0, len(fields) + 1), rng.choice(["%z", "%:z"]))
        if z and rng.random() < 0.25:
            fields.insert(rng.randrange(0, len(fields) + 1), "%s")
        if rng.random() < 0.15:
            fields.insert(rng.randrange(0, len(fields) + 1), rng.choice(["%H", "%Y", "%F", "%T", "%d"]))   # a field twice
    p = rng.choice([None, 3, 6, 9, 9])
    if p is not None:
        pool = {3: ["%.3f", "%3f"], 6: ["%.6f", "%6f"], 9: ["%.9f", "%9f", "%f"]}[p]
        for _ in range(rng.choice([1, 1, 1, 2])):
            fields.insert(rng.randrange(1, len(fields) + 1), rng.choice(pool))
    out = [rng.choice(["", "", "[", " ", "dt "])]
    for k, f in enumerate(fields):
        out.append(f)
        nxt = fields[k + 1] if k + 1 < len(fields) else None
        if nxt is None:
            out.append(rng.choice(["", "", "]", " ", " end"]))
        elif f in GREEDY and nxt in DIGIT_FIRST:
            out.append(rng.choice(NONDIGIT_SEPS))
        else:
            out.append(rng.choice(SEPS))
    fmt = "".join(out)
    # a literal digit must not follow a greedy item either: the literal pools contain none
    return fmt


ANY_ITEMS = ["%Y", "%m", "%d", "%H", "%M", "%S", "%.3f", "%.6f", "%.9f", "%3f", "%6f", "%9f", "%f", "%z", "%:z", "%s",
             "%T", "%F", "%%", "-", ":", " ", "T", ".", "/", "x", "7", "  ", "\t", "+", "Z"]


def gen_any(rng):
    return "".join(rng.choice(ANY_ITEMS) for _ in range(rng.randrange(1, 9)))


FIXED_FORMATS = [DEFAULT_FMT, "%Y%m%dT%H%M%S%.9f", "%s%.9f", "%Y-%m-%d %H:%M:%S%.6f %:z", "%F %T%.9f", "%s.%f",
                 "[%F_%T.%3f] %s|%:z", "%Y%m%d%H%M%S", "%s", "%s %z", "%d/%m/%Y %H:%M:%S %z", "%T %F%.3f",
                 "%H:%M:%S %% lit-text %d/%m/%Y", "%Y%m%dT%H%M%S%.6f%z", "%F %T%.9f %:z", "%s%f", "%.3f %.6f %.9f",
                 "%Y%m%d%.3f%H%M%S", "%F %T%.3f %6f", "%s %F %T", "%z|%:z|%s", "%H:%M:%S.%6f", "%s %3f %6f %9f"]
COMPLETE_FIXED = set(FIXED_FORMATS[:14])

T_POOL = [0, 1, 999999999, NS, 1704164645123456789, 951782400 * NS, 951868799 * NS + 999999999, 4102444799 * NS + 999999999,
          253370764799 * NS + 999999999, -62135596800 * NS, -1, -1500000001, -NS, 68169599 * NS + 500, 1582934400 * NS + 123000000,
          2147483647 * NS, 2147483648 * NS + 1]
OFF_MIN = [0, 0, 3600, -3600, 19800, -12600, 20700, 45900, -34200, 50400, -43200, 86340, -86340, 60, -60]
OFF_SEC = [19815, 19845, -29, -30, 30, 31, 1, -86399]


def zone_offset_with_seconds(off, fmt):
    """class predicate of the finding: a zone offset that is not a whole number of minutes, printed with %z / %:z"""
    return off % 60 != 0 and has_z(fmt)


def gen_t(rng):
    r = rng.random()
    if r < 0.35:
        return rng.choice(T_POOL)
    if r < 0.85:
        return rng.randrange(0, 4102444800) * NS + rng.choice([0, 1, 999999999, 123456789, rng.randrange(NS)])
    return rng.randrange(-62135596800, 253370764800) * NS + rng.randrange(NS)


MUT = "0123456789 -+:/.TZ%|x\t"


def mutate(rng, s):
    if not s:
        return rng.choice(MUT)
    i = rng.randrange(len(s) + 1)
    r = rng.random()
    if r < 0.35 and i < len(s):
        return s[:i] + s[i + 1:]
    if r < 0.7:
        return s[:i] + rng.choice(MUT) + s[i:]
    i = min(i, len(s) - 1)
    return s[:i] + rng.choice(MUT) + s[i + 1:]


HDR = (vlib.COQ_PRINT_HDR + "From Coq Require Import String List NArith ZArith.\nImport ListNotations.\n"
       "From S4.Corr Require Import C13rt.\nOpen Scope string_scope.\nOpen Scope Z_scope.\n")


def zc(v):
    return "(%d)" % v if v < 0 else "%d" % v


def coq_rows(ctx, name, rows, typ, fn, kind):
    idx = list(range(len(rows)))
    if not idx:
        return {}
    shards = vlib.shard(idx, vlib.NCPU)
    texts = [HDR + "Definition cases : list (%s) := [\n%s\n].\nEval vm_compute in (%s cases).\n" % (typ, ";\n".join(rows[i] for i in sh), fn)
             for sh in shards]
    res = vlib.coq_eval_shards(os.path.join(vlib.CACHE, "cases", "C13rt", name), texts)
    out = {}
    for sh, (rc, o) in zip(shards, res):
        m = re.search(r"=\s*\[(.*)\]\s*:\s*list", o, flags=re.S) if rc == 0 else None
        if m is None:
            ctx.obligation_broken(kind, "coqc on %s cases" % name, o)
            return None
        body = m.group(1).strip()
        if body:
            for part in body.split(";"):
                t = tuple(int(x) for x in re.findall(r"-?\d+", part))
                out[sh[t[0]]] = t[1:]
    return out


def run(ctx, quick):
    """returns a dict of evidence numbers"""
    rng = ctx.rng
    ok, log = vlib.build_harness("c13")
    if not ok:
        ctx.obligation_broken("build", "harness c13", log)
        return {}
    n_gen = 60 if quick else 600
    n_any = 40 if quick else 400
    reps = 6 if quick else 20
    fmts = [(f, f in COMPLETE_FIXED) for f in FIXED_FORMATS]
    fmts += [(gen_complete(rng), True) for _ in range(n_gen)]
    fmts += [(gen_any(rng), False) for _ in range(n_any)]
    fmts = [(f, c) for f, c in fmts if tokenize(f) is not None and f]
    # ---- generator validity: Coq decides rt_ok, has_z, has_s, unit
    prec_of = {}
    rows = []
    for f, c in fmts:
        u = printed_unit(f)
        ps = sorted(set(PREC[t] for t in tokenize(f) if t in PREC))
        p = ps[0] if ps else 3
        prec_of[f] = p
        rows.append('("%s", %d%%N)' % (f.encode().hex(), p))
    info = coq_rows(ctx, "rtinfo", rows, "string * N", "rt_info", "spec-evaluation")
    if info is None:
        return {}
    complete = {}
    gen_bad = 0
    for i, (f, c) in enumerate(fmts):
        ok_, hz, hs, unit = info[i]
        if ok_ == 9 or hz != int(has_z(f)) or hs != int(has_s(f)) or (c and ok_ != 1) or (ok_ == 1 and printed_unit(f) != unit):
            gen_bad += 1
            ctx.obligation_broken("generator", "format %r: python (complete=%s has_z=%s has_s=%s unit=%s) vs Coq rt_info %s"
                                  % (f, c, has_z(f), has_s(f), printed_unit(f), (ok_, hz, hs, unit)), "")
        complete[f] = (ok_ == 1)
    # ---- cases
    cases = []
    for f, _ in fmts:
        for _ in range(reps):
            t = gen_t(rng)
            off = rng.choice(OFF_MIN) if rng.random() < 0.8 else rng.choice(OFF_SEC)
            cases.append((f, t, off))
    for f in FIXED_FORMATS[:8]:
        for t in T_POOL:
            cases.append((f, t, rng.choice(OFF_MIN)))
        for off in OFF_SEC:
            cases.append((f, 1704164645123456789, off))
    lines = []
    for f, t, off in cases:
        lines.append("%s\t%d\t%d\t%d\t%d" % (f.encode().hex(), t, off, int(has_z(f)), 0 if has_s(f) else off))
    out, err = vlib.harness("c13", lines, args=["rt"], timeout=600)
    if out is None or len(out) != len(lines):
        ctx.obligation_broken("correspondence", "harness c13 rt", err)
        return {}
    printed = []
    for (f, t, off), o in zip(cases, out):
        a, b = o.split("\t")
        printed.append((None, None) if a in ("PANIC", "RANGE") else (bytes.fromhex(a).decode("utf-8", "replace"), None if b == "NONE" else (b if b == "PANIC" else int(b))))
    # ---- C: print then parse = truncated instant, on complete formats in the domain
    spec_checked = spec_fail = 0
    for (f, t, off), (txt, back) in zip(cases, printed):
        if not complete[f] or txt is None:
            continue
        if not (-86400 < off < 86400 and LOCAL_LO * NS <= t + off * NS < LOCAL_HI * NS):
            continue
        if has_s(f) and t < 0:
            continue
        unit = printed_unit(f)
        exp = t // unit * unit
        spec_checked += 1
        if back != exp:
            spec_fail += 1
            cls = ["zone_offset_with_seconds"] if zone_offset_with_seconds(off, f) else []
            ctx.failure(dict(kind="strftime print then parse", format=f, instant_ns=t, offset_seconds=off, printed=txt,
                             parse_has_tz=has_z(f), parse_zone_seconds=0 if has_s(f) else off),
                        "parses back to %d (the instant truncated to the printed precision)" % exp,
                        "parses back to %s" % (back,), cls)
    # ---- B1: print vs model
    rows, ridx = [], []
    for k, ((f, t, off), (txt, back)) in enumerate(zip(cases, printed)):
        if txt is None:
            continue
        rows.append('("%s", %s, %s, "%s")' % (f.encode().hex(), zc(t), zc(off), txt.encode().hex()))
        ridx.append(k)
    bad1 = coq_rows(ctx, "strf", rows, "string * Z * Z * string", "strf_bad", "correspondence")
    if bad1:
        k = ridx[sorted(bad1)[0]]
        ctx.obligation_broken("correspondence", "chrono DateTime::format vs Model.Strftime.strftime",
                              "%r printed=%r code=%s disagreements=%d" % (cases[k], printed[k][0], bad1[sorted(bad1)[0]], len(bad1)))
    # ---- B2: parse vs model, printed texts and mutations
    pcases = []
    for (f, t, off), (txt, back) in zip(cases, printed):
        if txt is None or back == "PANIC":
            continue
        pcases.append((f, txt, has_z(f), 0 if has_s(f) else off, back))
    extra = []
    for (f, txt, hz, z, back) in pcases[:: (2 if quick else 1)]:
        m = mutate(rng, txt)
        if "\x00" not in m:
            extra.append((f, m, hz if rng.random() < 0.9 else not hz, z if rng.random() < 0.8 else rng.choice(OFF_MIN)))
    if extra:
        lines = ["%s\t%s\t%d\t%d" % (f.encode().hex(), m.encode().hex(), int(hz), z) for f, m, hz, z in extra]
        out2, err = vlib.harness("c13", lines, args=["parse"], timeout=600)
        if out2 is None or len(out2) != len(lines):
            ctx.obligation_broken("correspondence", "harness c13 parse", err)
            return {}
        for (f, m, hz, z), o in zip(extra, out2):
            if o not in ("PANIC", "RANGE"):
                pcases.append((f, m, hz, z, None if o == "NONE" else int(o)))
    rows = ['("%s", "%s", %s, %s, %d, %s)' % (f.encode().hex(), x.encode().hex(), "true" if hz else "false", zc(z),
                                                 0 if v is None else 1, zc(v or 0)) for f, x, hz, z, v in pcases]
    typ = "string * string * bool * Z * Z * Z"
    bad2 = coq_rows(ctx, "parse", rows, typ, "parse_bad", "correspondence")
    unm = coq_rows(ctx, "unmod", rows, typ, "parse_unmodelled", "correspondence")
    if bad2:
        k = sorted(bad2)[0]
        ctx.obligation_broken("correspondence", "datetime_parse_from_str vs Model.StrftimeParse.chrono_parse",
                              "pattern=%r text=%r has_tz=%s zone=%s impl=%s model=%s disagreements=%d"
                              % (pcases[k][0], pcases[k][1], pcases[k][2], pcases[k][3], pcases[k][4], bad2[k], len(bad2)))
    return dict(formats=len(fmts), complete_formats=sum(1 for f, _ in fmts if complete[f]), generator_disagreements=gen_bad,
                print_cases=len(ridx), print_disagreements=len(bad1 or {}),
                parse_cases=len(pcases), parse_accepting=sum(1 for c in pcases if c[4] is not None),
                parse_disagreements=len(bad2 or {}), parse_unmodelled=len(unm or {}),
                roundtrip_spec_cases=spec_checked, roundtrip_spec_failures=spec_fail,
                offsets_with_seconds_cases=sum(1 for (f, t, off) in cases if off % 60),
                negative_instants=sum(1 for (f, t, off) in cases if t < 0),
                sample_formats=[f for f, _ in fmts[len(FIXED_FORMATS):len(FIXED_FORMATS) + 6]])
