"""C13 — prepended fields, separators and colour are pure decoration.

A. Coq: Props/C13.v (buffer transparency, variants_agree for 4 kinds x colour x file x date with arbitrary
   line parts, field order, strip_decorate, strip_run, pad_width, unescape table, default format,
   refuted: F11 fixedstruct field order, F12 '%' in the prepend separator).
B. real binary stdout (SGR groups abstracted to their class) vs the Coq MODEL (Corr/C13.v, vm_compute)
   on generated scenarios: option cross product x kinds x multi-line messages x names.
D. what the datetime field denotes (checks/strf_util.py, harness/src/bin/c13.rs in process):
   chrono format vs Model.Strftime (B1), datetime_parse_from_str vs Model.StrftimeParse.chrono_parse (B2, printed texts
   and mutations), and the spec "print then parse = the instant truncated to the printed precision" on formats that are
   complete by construction (C; Coq's rt_ok re-decided on each).
C. real binary vs the SPEC, no model involved:
   * stdout with colour sequences deleted must equal the independent python rendering
     file field ++ date field ++ line (python datetime for the date), separator after each message;
   * hence deleting the fields gives the undecorated run, which is also executed and compared;
   * a mismatch that is exactly one of the recorded deviations is a KNOWN-FINDING, anything else a failure.
"""
import json, os, sys
from concurrent.futures import ThreadPoolExecutor
import vlib
import print_util as pu
import strf_util

PROP_FILE = "Props/C13.v"


def check_scenario(ctx, sc, r, stats):
    """spec side for one scenario; returns abstracted stdout for B (or None)"""
    rc, out, err = r["dec"]
    rcp, outp, errp = r["plain"]
    case = pu.sc_public(sc)
    if rc != 0 or rcp != 0:
        # exit status 1 = "no file printed"; only complain when something else happened
        if rc not in (0, 1) or rcp not in (0, 1):
            ctx.failure(case, "exit status 0/1", "rc=%s/%s %s" % (rc, rcp, err[-200:].decode("utf-8", "replace")))
            return None
    exp_plain = pu.plain_expected(sc)
    if outp != exp_plain:
        stats["generator_mismatch"] += 1     # the scenario's message list is not what the tool reads: outside C13
        stats["generator_mismatch_samples"].append(case["args"])
        return None
    if sc["colour"]:
        if b"\x1b" in exp_plain:
            stats["payload_has_esc"] += 1
            return None
        stripped = pu.strip_sgr(out)
        absd = pu.abstract_sgr(out)
        if absd is None:
            ctx.failure(case, "only SGR groups reset[,underline],foreground", "other escape sequence in stdout")
            return None
    else:
        stripped, absd = out, out
    spec, _, _ = pu.render(sc)
    if stripped == spec:
        stats["spec_ok"] += 1
    else:
        cls = pu.classes_of(sc)
        quirk, _, _ = pu.render(sc, quirks=cls)
        if cls and stripped == quirk:
            i = next((k for k in range(min(len(spec), len(stripped))) if spec[k] != stripped[k]), min(len(spec), len(stripped)))
            ctx.failure(case, spec[max(0, i - 40):i + 60].decode("utf-8", "replace"),
                        stripped[max(0, i - 40):i + 60].decode("utf-8", "replace"), cls)
            for c in cls:
                stats["class_" + c] += 1
        else:
            i = next((k for k in range(min(len(spec), len(stripped))) if spec[k] != stripped[k]), min(len(spec), len(stripped)))
            ctx.failure(case, spec[max(0, i - 60):i + 80].decode("utf-8", "replace"),
                        stripped[max(0, i - 60):i + 80].decode("utf-8", "replace"), [])
    # independent instants of fixtures (date field oracle does not come from the tool alone)
    for e in sc["events"]:
        m = sc["srcs"][e["src"]]["msgs"][e["mi"]]
        if m["kind"] in (1, 2):
            ti = pu.independent_instant(m)
            if ti is not None:
                stats["instants_crosschecked"] += 1
                if ti // 1000 != m["t"] // 1000:
                    ctx.failure(case, "instant %d (from the record text)" % ti, "date field instant %d" % m["t"], [])
    return absd


def run(ctx):
    quick = ctx.quick()
    n = 160 if quick else 2500
    vlib.proof_stage(ctx, PROP_FILE, [], extra_targets=["Corr/C13.vo", "Corr/C13rt.vo"])
    ok, log = vlib.build_s4()
    if not ok:
        ctx.obligation_broken("build", "s4", log)
        return ctx.finish()
    scratch = vlib.scratch_dir("C13")
    rng = ctx.rng
    strf = strf_util.run(ctx, quick)
    scs = []
    for i in range(n):
        sc = pu.gen_scenario(rng, i, scratch)
        try:
            pu.resolve(sc, rng)
        except Exception as ex:
            ctx.obligation_broken("correspondence", "fixture probing", repr(ex))
            return ctx.finish()
        scs.append(sc)
    with ThreadPoolExecutor(max_workers=vlib.NCPU) as ex:
        results = list(ex.map(pu.run_scenario, scs))
    from collections import Counter
    stats = Counter()
    stats["generator_mismatch_samples"] = []
    cases, case_sc = [], []
    for sc, r in zip(scs, results):
        absd = check_scenario(ctx, sc, r, stats)
        if absd is not None:
            ct = pu.coq_case(sc, absd, [])
            if len(ct) > 150000:
                stats["too_large_for_model_run"] += 1
                continue
            cases.append(ct)
            case_sc.append(sc)
    # ---- B: binary vs model
    workdir = os.path.join(vlib.CACHE, "cases", "C13")
    okb, bad, logb = pu.eval_cases(workdir, cases)
    if not okb:
        ctx.obligation_broken("correspondence", "model evaluation (coqc on cases)", logb)
    bad_stdout = [(i, c) for i, c in bad if c == 1]
    for i, c in bad_stdout[:1]:
        sc = case_sc[i]
        ms = pu.model_stdout_of(os.path.join(workdir, "dbg"), cases[i])
        ctx.obligation_broken("correspondence", "s4 stdout vs Model.Summary.run / Print.print_msg",
                              json.dumps(dict(case=pu.sc_public(sc), disagreements=len(bad_stdout),
                                              model_stdout_hex=(ms.hex() if ms else None)), default=str))
    # ---- evidence
    gm = stats.pop("generator_mismatch_samples")
    if stats["generator_mismatch"] > max(2, len(scs) // 20):
        ctx.obligation_broken("generator", "scenario message lists differ from what the tool reads in %d scenarios" % stats["generator_mismatch"], json.dumps(gm[:3]))
    def key(sc):
        return (sc["colour"], sc["fmode"], sc["align"], sc["zone"] and sc["zone"][2], sc["fmt"], sc["psep"], sc["sep"], sc["bs"],
                tuple(sorted(set(s["fixture"] or "text" for s in sc["srcs"]))), len(sc["srcs"]))
    nontrivial = set(key(sc) for sc in case_sc if (sc["fmode"] or pu.date_on(sc)[0] or sc["colour"] or sc["sep"]))
    hist_kind = Counter()
    for sc in case_sc:
        for e in sc["events"]:
            hist_kind[pu.KIND_NAMES[sc["srcs"][e["src"]]["msgs"][e["mi"]]["kind"]]] += 1
    ctx.coverage.update(
        evaluations=len(scs) + strf.get("print_cases", 0) + strf.get("parse_cases", 0), distinct_nontrivial=len(nontrivial),
        rule="scenario = 1-4 generated text logs (ISO-8601 microsecond stamps with zone, multi-line messages, optional missing final newline, names of different / non-ASCII / wide widths) + optionally one fixture (utmp, evtx, journal.gz, windowed) x options (--color always/never, -n/-p, -w, -u/-l(TZ)/-z with hour, half-hour, 45-minute and negative offsets, -d from 9 formats over the modelled specifiers; every 4th scenario is of the class 'finer than a millisecond': a format with %.6f/%.9f/%6f/%9f/%f, zone -u / +05:30 / -09:30 / ..., colour alternating, text logs with 6-9 fractional digits whose consecutive messages differ only below the millisecond or have equal instants, 6 prepend separators, 7 separators with every escape, --blocksz 128/256 for multi-part lines, -a/-b windows); every 4th scenario has a separator with multi-byte UTF-8 characters (arrow, pilcrow+newline, em dashes, emoji, CJK, mixed with escapes); every 4th scenario has lines longer than the 2056-byte print buffer (2055..2058, 4000, 4112, 6168, 70000, 70001 bytes) as the first line and as a later line of a multi-line message, colour alternating and with prepended fields when colour is off (model comparison only below the case size cap, run C always); non-trivial = at least one decoration option on; distinct by the option tuple + source kinds; each scenario is run decorated and undecorated; evaluations also counts the in-process print and parse cases of the strftime tie (strftime_print_parse_tie), which are not counted as distinct_nontrivial",
        samples=[pu.sc_public(sc) for sc in case_sc[:3]],
        scenarios_compared_with_model=len(cases), model_disagreements=len(bad_stdout),
        spec_ok=stats["spec_ok"], too_large_for_model_run=stats["too_large_for_model_run"], generator_mismatch=stats["generator_mismatch"], payload_has_esc=stats["payload_has_esc"],
        instants_crosschecked=stats["instants_crosschecked"],
        printed_messages_by_kind=dict(hist_kind),
        histogram=dict(colour=sum(1 for s in case_sc if s["colour"]), file=sum(1 for s in case_sc if s["fmode"]),
                       align=sum(1 for s in case_sc if s["align"]), date=sum(1 for s in case_sc if pu.date_on(s)[0]),
                       separator=sum(1 for s in case_sc if s["sep"]), blocksz=sum(1 for s in case_sc if s["bs"]),
                       window=sum(1 for s in case_sc if s["window"]), fixture=sum(1 for s in case_sc if s["fixture"])),
        class_hits={k: v for k, v in stats.items() if k.startswith("class_")},
        multibyte_separator_class=dict(scenarios=sum(1 for s in scs if s.get("mbsep")),
                                       separators=sorted(set(s["sep"] for s in scs if s.get("mbsep")))),
        long_line_class=dict(scenarios=sum(1 for s in scs if s.get("longcls")),
                             compared_with_model=sum(1 for s in case_sc if s.get("longcls")),
                             coloured=sum(1 for s in scs if s.get("longcls") and s["colour"]),
                             line_sizes=sorted(set(len(l) for s in scs if s.get("longcls") for src in s["srcs"] if not src["fixture"]
                                                   for m in src["msgs"] for l in m["lines"] if len(l) > 2000))),
        strftime_print_parse_tie=strf,
        sub_millisecond_class=dict(
            scenarios=sum(1 for s in case_sc if s.get("subms")),
            coloured=sum(1 for s in case_sc if s.get("subms") and s["colour"]),
            consecutive_same_ms_different_instant=sum(pu.subms_pairs(s)[0] for s in case_sc if pu.date_on(s)[0]),
            consecutive_equal_instant=sum(pu.subms_pairs(s)[1] for s in case_sc if pu.date_on(s)[0]),
            formats=sorted(set(s["fmt"] for s in case_sc if s.get("subms")))))
    ctx.assumptions += [
        "termcolor emits only SGR groups of the shape reset [underline] foreground (checked on every coloured stdout); colour VALUES are abstracted to default/text/datetime",
        "message lists of fixtures (payload, instant, highlight range) are learned from the binary itself (marker separator / %s%f / --color always runs); utmp and evtx instants are cross-checked against the record text to the microsecond; journal instants are not",
        "display width of names: python east_asian_width/combining approximation of the unicode-width crate (validated by run B, not proved)",
        "the order in which messages are printed (merge by instant) is C01's subject; scenarios avoid cross-source ties",
        "strftime specifiers outside %Y %m %d %H %M %S %.3f %.6f %.9f %3f %6f %9f %f %z %:z %s %T %F %% are outside the model and the generator",
        "the print/parse tie calls chrono 0.4.40 DateTime::format and s4lib datetime_parse_from_str in process (harness c13) with the format, instant and FixedOffset of the case; the real binary reaches offsets with seconds only through -l in a zone with such an offset",
        "chrono parse with a timestamp and only SOME of year/month/day/hour/minute is outside the parser model (PUnmodelled, counted, not compared)",
    ]
    return ctx.finish()


def replay(ctx, path):
    r = json.load(open(path))
    vlib.build_s4()
    rcx = 0
    for f in r.get("failures", []):
        c = f["case"]
        if c.get("kind") == "strftime print then parse":
            vlib.build_harness("c13")
            fmt = c["format"]
            line = "%s\t%d\t%d\t%d\t%d" % (fmt.encode().hex(), c["instant_ns"], c["offset_seconds"], int(c["parse_has_tz"]), c["parse_zone_seconds"])
            out, err = vlib.harness("c13", [line], args=["rt"])
            got = out[0].split("\t")[1] if out else "?"
            want = f["expected"].split()[3]
            rep = got != want
            print("replay print-then-parse format=%r instant=%d offset=%d\n  expected %s\n  got %s\n  reproduced=%s" % (
                fmt, c["instant_ns"], c["offset_seconds"], want, got, rep))
            if rep:
                rcx = 1
            continue
        args = [a for a in c["args"] if a != "--summary"]
        rc, out, err = vlib.run_s4(args, env=c.get("env"), timeout=120)
        got = pu.strip_sgr(out)
        rep = f["got"].encode("utf-8", "replace") in got and f["expected"].encode("utf-8", "replace") not in got
        print("replay args=%r\n  expected(spec)=%r\n  got(recorded)=%r\n  reproduced=%s" % (args, f["expected"], f["got"], rep))
        if rep:
            rcx = 1
    if rcx:
        print("VIOLATION property=C13 replay=%s" % path)
    return rcx
