"""Random strings matched by a (Rust `regex` crate) pattern — enough of the syntax for the
datetime patterns of src/data/datetime.rs: POSIX classes, named groups, alternation, bounded
repetition, anchors.  Built on Python's own regex parser."""
import re
try:
    import re._parser as sre_parse
    import re._constants as sre_c
except ImportError:                      # Python < 3.11
    import sre_parse
    import sre_constants as sre_c

POSIX = {"[:digit:]": "0-9", "[:blank:]": " \\t", "[:alpha:]": "a-zA-Z", "[:alnum:]": "a-zA-Z0-9",
         "[:upper:]": "A-Z", "[:lower:]": "a-z", "[:space:]": " \\t\\n\\r\\f\\v", "[:punct:]": "!-/:-@\\[-`{-~",
         "[:xdigit:]": "0-9a-fA-F", "[:word:]": "a-zA-Z0-9_"}


import warnings
warnings.simplefilter("ignore", FutureWarning)


def to_python(pat):
    for k, v in POSIX.items():
        pat = pat.replace(k, v)
    # inline flag groups in the middle of the expression: sampling ignores case-insensitivity
    pat = re.sub(r"\(\?-?[imsxU]+\)", "", pat)
    return pat


def _cat(code, rng):
    if code == sre_c.CATEGORY_DIGIT:
        return rng.choice("0123456789")
    if code == sre_c.CATEGORY_SPACE:
        return rng.choice(" \t")
    if code == sre_c.CATEGORY_WORD:
        return rng.choice("abcXYZ019_")
    if code == sre_c.CATEGORY_NOT_DIGIT:
        return rng.choice("ab :-")
    if code == sre_c.CATEGORY_NOT_SPACE:
        return rng.choice("ab1:-")
    if code == sre_c.CATEGORY_NOT_WORD:
        return rng.choice(" :-.")
    return "x"


def _in(items, rng):
    neg = False
    pool = []
    for op, av in items:
        if op == sre_c.NEGATE:
            neg = True
        elif op == sre_c.LITERAL:
            pool.append(chr(av))
        elif op == sre_c.RANGE:
            lo, hi = av
            for c in range(lo, min(hi, lo + 60) + 1):
                pool.append(chr(c))
        elif op == sre_c.CATEGORY:
            pool.append(_cat(av, rng))
    if neg:
        cand = [c for c in "aZ09 .:-_/|" if c not in pool]
        return rng.choice(cand) if cand else "~"
    return rng.choice(pool) if pool else ""


def _gen(seq, rng, max_rep):
    out = []
    for op, av in seq:
        if op == sre_c.LITERAL:
            out.append(chr(av))
        elif op == sre_c.NOT_LITERAL:
            out.append("x" if av != ord("x") else "y")
        elif op == sre_c.ANY:
            out.append(rng.choice("aZ0 .:-"))
        elif op == sre_c.IN:
            out.append(_in(av, rng))
        elif op == sre_c.BRANCH:
            out.append(_gen(rng.choice(av[1]), rng, max_rep))
        elif op == sre_c.SUBPATTERN:
            out.append(_gen(av[3], rng, max_rep))
        elif op in (sre_c.MAX_REPEAT, sre_c.MIN_REPEAT):
            lo, hi, sub = av
            hi = min(hi, lo + max_rep) if hi != sre_c.MAXREPEAT else lo + max_rep
            for _ in range(rng.randint(lo, hi)):
                out.append(_gen(sub, rng, max_rep))
        elif op == sre_c.AT:
            pass
        elif op == sre_c.CATEGORY:
            out.append(_cat(av, rng))
        elif op == sre_c.ASSERT or op == sre_c.ASSERT_NOT:
            pass
        else:
            pass
    return "".join(out)


def sample(pattern, rng, max_rep=3):
    tree = sre_parse.parse(to_python(pattern))
    return _gen(tree, rng, max_rep)
