"""C05, WP-J part: the container handling s4 does itself (BlockReader::new, process_path_tar,
decompress_to_ntf) on generated files.

B  implementation (harness c05: open / tarls / pptar / ntf) vs Model/Containers.v evaluated in Coq on the
   SAME file bytes (Corr/C05c.v): new ok / error, filesz(), blockoffset_last(), count_blocks, mtime(),
   count_blocks_processed (xz), read_block results; process_path_tar's list; decompress_to_ntf's bytes,
   size and mtime; and the reference tar entry parser vs the tar crate's own listing.
C  implementation vs the FORMAT (python side, no model): for a well-formed stored form of `plain`
   filesz() = len(plain), blocks = slices of plain, mtime() = the header time (0: the file's own),
   every regular member of a tar is listed once and read as its bytes; stdout of the s4 binary equals
   the plain run.  Known-finding class: tar_duplicate_member_path.
   Multi-member gzip and multi-stream xz are outside the property's quantifier: exercised by B only.
"""
import bz2, io, json, lzma, os, struct, tarfile, zlib
from concurrent.futures import ThreadPoolExecutor
import vlib
from vlib import CACHE

import sys
sys.path.insert(0, os.path.join(vlib.ROOT, "corpus", "C05"))
from gen_witnesses import octal, tar_header, tar_raw, base256      # the same bytes as the corpus witnesses

M32 = 0xFFFFFFFF
CHRONO_MAX_SECS = 8210266876799          # DateTime<Utc>::MAX_UTC: +262142-12-31T23:59:59
TAR_MTIME_MAX = CHRONO_MAX_SECS - 86400  # largest header time seconds_to_systemtime_checked accepts
FS_MT = (1600000000, 123456789)          # mtime given to every generated container file
FTA = {"plain": 0, "bz2": 1, "gz": 2, "lz4": 3, "tar": 4, "xz": 5}


def hx(b):
    return bytes(b).hex()


def hexlist(h):
    return "[" + "; ".join('"%s"' % h[i:i + 4096] for i in range(0, len(h), 4096)) + "]"


def hb(b):
    return hexlist(hx(b))


def hbr(b):
    """run-length form [(hex chunk, repeat)] for Corr/C05c.hexcatr: runs of >= 256 equal bytes are folded"""
    import re
    out, pos = [], 0
    for m in re.finditer(rb"(.)\1{255,}", b, flags=re.S):
        if m.start() > pos:
            h = hx(b[pos:m.start()])
            out += ['("%s", 1%%N)' % h[i:i + 4096] for i in range(0, len(h), 4096)]
        out.append('("%s", %d%%N)' % (hx(m.group(1)), m.end() - m.start()))
        pos = m.end()
    h = hx(b[pos:])
    out += ['("%s", 1%%N)' % h[i:i + 4096] for i in range(0, len(h), 4096)]
    return "[" + "; ".join(out) + "]"


def put(path, blob):
    with open(path, "wb") as f:
        f.write(blob)
    ns = FS_MT[0] * 10 ** 9 + FS_MT[1]
    os.utime(path, ns=(ns, ns))
    return path


# ------------------------------------------------------------------------------ encoders (RFC 1952, ustar)
def gz_build(plain, text=False, hcrc=False, extra=None, name=None, comment=None, mtime=0, xfl=0, osb=3, level=6,
             isize=None):
    flg = (1 if text else 0) | (2 if hcrc else 0) | (4 if extra is not None else 0) | (8 if name is not None else 0) | (16 if comment is not None else 0)
    hdr = bytes([0x1F, 0x8B, 8, flg]) + struct.pack("<I", mtime & M32) + bytes([xfl, osb])
    if extra is not None:
        hdr += struct.pack("<H", len(extra)) + extra
    if name is not None:
        hdr += name + b"\0"
    if comment is not None:
        hdr += comment + b"\0"
    if hcrc:
        hdr += struct.pack("<H", zlib.crc32(hdr) & 0xFFFF)
    co = zlib.compressobj(level, zlib.DEFLATED, -15)
    body = co.compress(plain) + co.flush()
    return hdr + body + struct.pack("<II", zlib.crc32(plain) & M32, (len(plain) if isize is None else isize) & M32)


# ------------------------------------------------------------------------------ harness output
def parse_mt(s, fsm):
    if s == "MPANIC":
        return (2, 0)
    if s == fsm:
        return (0, 0)
    if s.startswith("-"):
        return (4, 0)
    a, b = s.split(".")
    return (1, int(a)) if int(b) == 0 else (4, int(a))


def parse_open(line):
    """-> dict(err, filesz, last, cnt, mt, nread, results) | None (PANIC / garbage)"""
    if line.startswith("NEWERR"):
        return dict(err=True, msg=line[7:], filesz=0, last=0, cnt=0, mt=(0, 0), nread=0, results=[])
    if not line.startswith("OK "):
        return None
    f = line.split(" ")
    res = []
    for t in f[7:]:
        i, k, h = t.split(":")
        res.append((int(i), {"F": 0, "D": 1, "E": 2}[k], h))
    return dict(err=False, filesz=int(f[1]), last=int(f[2]), cnt=int(f[3]), mt=parse_mt(f[4], f[5]), nread=int(f[6]), results=res)


def coq_obs(o):
    return "(%s, %d%%N, %d%%N, %d%%N, %d%%N, %d%%N, %d%%N, [%s])" % (
        "true" if o["err"] else "false", o["filesz"], o["last"], o["cnt"], o["mt"][0], o["mt"][1], o["nread"],
        "; ".join('(%d%%N, %d%%N, %s)' % (r[0], r[1], hexlist(r[2])) for r in o["results"]))


def nl(xs):
    return "[" + "; ".join("%d%%N" % x for x in xs) + "]"


def opt(v, f=lambda x: "%d%%N" % x):
    return "None" if v is None else "(Some %s)" % f(v)


def parse_tarls(line):
    """-> [item]; item = dict(ok, path (bytes|None), typ, esize, hsize|None, mtime|None, pos, data) """
    if not line.startswith("OK"):
        return None
    out = []
    for t in line.split(" ")[1:]:
        f = t.split(":")
        if f[1] == "ERR":
            out.append(dict(ok=False))
            continue
        out.append(dict(ok=True, typ=int(f[1]), esize=int(f[2]), hsize=None if f[3] == "E" else int(f[3]), mtime=None if f[4] == "E" else int(f[4]),
                        path=None if f[5] == "E" else bytes.fromhex(f[5]), pos=int(f[6]), data=None if f[7] == "E" else bytes.fromhex(f[7]),
                        rawpath=bytes.fromhex(f[8]) if len(f) > 8 else None))
    return out


def coq_item(it):
    if not it["ok"]:
        return "(false, None, 0%N, 0%N, None, None, [])"
    return "(true, %s, %d%%N, %d%%N, %s, %s, %s)" % (opt(it["path"], hb), it["typ"], it["esize"], opt(it["hsize"]), opt(it["mtime"]), hb(it["data"] or b""))


def coq_items(items):
    return "[" + "; ".join(coq_item(i) for i in items) + "]"


# ------------------------------------------------------------------------------ known-finding classes
def tar_duplicate_member_path(case):
    """a regular tar member whose path already occurred earlier in the same archive"""
    return case.get("family") == "tar" and bool(case.get("duplicate_path"))


def classes_of(case):
    return [n for n, f in (("tar_duplicate_member_path", tar_duplicate_member_path),) if f(case)]


# ------------------------------------------------------------------------------ generators
def rnd_bytes(rng, n, no_nul=False, hi=True):
    lo = 1 if no_nul else 0
    out = bytearray(rng.randrange(lo, 256) for _ in range(n))
    if hi and n:
        out[rng.randrange(n)] = 0xFF
    return bytes(out)


def payload(rng, n):
    r = rng.random()
    if r < 0.4:
        return bytes(rng.randrange(256) for _ in range(n))
    if r < 0.7:
        return (b"line of text 0123456789\n" * (n // 24 + 1))[:n]
    return bytes(rng.choice(b"ab \n") for _ in range(n))


def gz_cases(ctx, scratch, quick):
    """-> [case]; case: path, fta, bs, idx, plain (what the decoder yields), expect (C) | None, family, meta, coq builder"""
    rng = ctx.rng
    cases = []
    k = [0]

    def add(blob, bs, plain, in_domain, meta, members=1, all_plain=None, mtime=None, read=True):
        path = put(os.path.join(scratch, "g%04d.log.gz" % k[0]), blob)
        k[0] += 1
        n = len(all_plain if all_plain is not None else plain)
        nb = (n + bs - 1) // bs
        idx = list(range(min(nb, 40) + 2)) if read else []
        cases.append(dict(family="gz", path=path, fta="gz", bs=bs, idx=idx, blob=blob, plain=plain, members=members,
                          expect=(dict(plain=all_plain if all_plain is not None else plain, mtime=mtime) if in_domain else None), meta=meta))

    small_bs = [1, 2, 3, 7, 16, 64, 100]
    mtimes = [0, 1, 2 ** 31, 2 ** 32 - 1, 1700000000]
    # every FLG combination (FTEXT FHCRC FEXTRA FNAME FCOMMENT), field contents incl. 0xFF and long
    for flg in range(32):
        reps = 1 if quick else 3
        for rep in range(reps):
            bs = rng.choice(small_bs)
            n = rng.choice([0, 1, bs - 1 or 1, bs, bs + 1, 2 * bs, 3 * bs + 1, rng.randrange(1, 30 * bs + 2)])
            n = min(n, 1500)
            plain = payload(rng, n)
            extra = rnd_bytes(rng, rng.choice([0, 1, 4, 40, 300]), hi=True) if flg & 4 else None
            name = rnd_bytes(rng, rng.choice([0, 1, 5, 12, 300]), no_nul=True) if flg & 8 else None
            comment = rnd_bytes(rng, rng.choice([0, 1, 7, 500]), no_nul=True) if flg & 16 else None
            mt = mtimes[(flg + rep) % len(mtimes)]
            blob = gz_build(plain, text=bool(flg & 1), hcrc=bool(flg & 2), extra=extra, name=name, comment=comment, mtime=mt,
                            xfl=rng.choice([0, 2, 4]), osb=rng.choice([0, 3, 11, 255]), level=rng.choice([0, 1, 6, 9]))
            add(blob, bs, plain, True, dict(flg=flg, mtime=mt, extra=None if extra is None else len(extra), name=None if name is None else len(name),
                                            comment=None if comment is None else len(comment), n=n), mtime=mt)
    # fields at flate2's limit and one over (B only above the limit: RFC-valid, refused by flate2)
    p = payload(rng, 130)
    add(gz_build(p, name=b"n" * 65535, comment=b"\xfe" * 65535, extra=b"\xff" * 65535, hcrc=True, mtime=7, level=0), 64, p, True, dict(limit="at"), mtime=7)
    add(gz_build(p, name=b"n" * 65536, mtime=7), 64, p, False, dict(limit="name+1"))
    add(gz_build(p, comment=b"c" * 65536, hcrc=True, mtime=7), 64, p, False, dict(limit="comment+1"))
    # headers flate2 refuses: new() still succeeds
    good = gz_build(p, name=b"x.log", hcrc=True, mtime=9)
    b1 = bytearray(good); b1[16] ^= 1                      # header CRC16 mismatch
    add(bytes(b1), 64, p, False, dict(bad="hcrc"))
    for bit in (0x20, 0x40, 0x80):
        b2 = bytearray(gz_build(p, mtime=5)); b2[3] |= bit
        add(bytes(b2), 64, p, False, dict(bad="reserved", bit=bit))
    b3 = bytearray(gz_build(p, mtime=5)); b3[2] = 7
    add(bytes(b3), 64, p, False, dict(bad="cm"))
    b4 = bytearray(gz_build(p, mtime=5)); b4[0] = 0x1E
    add(bytes(b4), 64, p, False, dict(bad="id1"))
    add(bytes([0x1F, 0x8B, 8, 8, 1, 0, 0, 0, 0, 3]) + b"unterminated-name", 64, b"", False, dict(bad="eof in name"))
    add(bytes([0x1F, 0x8B, 8, 4, 1, 0, 0, 0, 0, 3, 200, 0]) + b"short extra", 64, b"", False, dict(bad="eof in extra"))
    for nbytes in (0, 7, 8, 9, 17):
        add(bytes([0x1F, 0x8B, 8, 0, 1, 0, 0, 0, 0, 3] + [0] * 8)[:nbytes], 64, b"", False, dict(bad="tiny", size=nbytes))
    # trailing garbage after the member (B only): the size is whatever the last 8 bytes say
    add(gz_build(p, mtime=3) + b"\0\0\0", 64, p, False, dict(bad="trailing"))
    # multi-member: OUTSIDE the property's quantifier (single-stream files); B only, ties gz_multi_member_*
    for sizes in ([200, 70], [70, 200], [64, 64, 64], [100, 0], [0, 100]):
        parts = [payload(rng, s) for s in sizes]
        blob = b"".join(gz_build(q, mtime=11 + j, name=b"m%d" % j if j % 2 else None) for j, q in enumerate(parts))
        add(blob, 64, parts[0], False, dict(multi=sizes), members=len(parts))
    # ISIZE needs all four bytes: sizes over 2^16 and 2^24 (highly compressible; blocks not read)
    for n in ([65536 + 5, 2 ** 24 + 3] if quick else [65536 + 5, 2 ** 24 + 3, 3 * 2 ** 24 + 0x010203]):
        big = bytes(n)
        add(gz_build(big, mtime=1, level=6), 0xFFFFFF, big, True, dict(big=n), mtime=1, read=False)
    return cases


def gz_coq(c, o):
    big = len(c["plain"]) > 100000
    return "(%d%%N, %s, %s, %s, %s)" % (c["bs"], hbr(c["blob"]), "[]" if big else hb(c["plain"]), nl(c.get("sched", [3, 1, 2056, 5])), coq_obs(o))


def pre_cases(ctx, scratch, quick):
    rng = ctx.rng
    cases = []
    for j in range(3 if quick else 10):
        bs = rng.choice([3, 16, 64, 100])
        plain = payload(rng, rng.choice([0, 1, bs, 5 * bs + 1, 900]))
        blob = bz2.compress(plain, rng.randrange(1, 10))
        cases.append(dict(family="bz2", path=put(os.path.join(scratch, "p%03d.log.bz2" % j), blob), fta="bz2", bs=bs, idx=[], blob=blob, plain=plain,
                          expect=dict(plain=plain, mtime=0), meta=dict(n=len(plain))))
        import c05
        sizes = c05.split_sizes(rng, len(plain), "one", bs)
        blob = c05.lz4_frame(plain, sizes, content_checksum=True)
        cases.append(dict(family="lz4", path=put(os.path.join(scratch, "p%03d.log.lz4" % j), blob), fta="lz4", bs=bs, idx=[], blob=blob, plain=plain,
                          expect=dict(plain=plain, mtime=0), meta=dict(n=len(plain))))
    for nbytes in (0, 11):
        blob = b"BZh91AY&SY!"[:nbytes]
        cases.append(dict(family="bz2", path=put(os.path.join(scratch, "ptiny%d.log.bz2" % nbytes), blob), fta="bz2", bs=64, idx=[], blob=blob, plain=b"", expect=None, meta=dict(tiny=nbytes)))
    # concatenated streams / frames (B only: the decoders stop after the first; see level note)
    a, b = payload(rng, 150), payload(rng, 90)
    blob = bz2.compress(a) + bz2.compress(b)
    cases.append(dict(family="bz2", path=put(os.path.join(scratch, "pmulti.log.bz2"), blob), fta="bz2", bs=64, idx=[], blob=blob, plain=a, expect=None, meta=dict(streams=2)))
    import c05
    blob = c05.lz4_frame(a, [len(a)]) + c05.lz4_frame(b, [len(b)])
    cases.append(dict(family="lz4", path=put(os.path.join(scratch, "pmulti.log.lz4"), blob), fta="lz4", bs=64, idx=[], blob=blob, plain=a, expect=None, meta=dict(frames=2)))
    return cases


def pre_coq(c, o):
    return "(%d%%N, %d%%N, %s, %s, %s, %s)" % (2 if c["family"] == "bz2" else 3, c["bs"], hb(c["blob"]), hb(c["plain"]), nl([5, 1, 40000]), coq_obs(o))


def xz_cases(ctx, scratch, quick):
    rng = ctx.rng
    cases = []
    k = [0]

    def add(blob, bs, plain, oc, in_domain, meta, streams=1, padding=0, all_plain=None):
        path = put(os.path.join(scratch, "x%03d.log.xz" % k[0]), blob)
        k[0] += 1
        n = len(all_plain if all_plain is not None else plain)
        idx = list(range(min((n + bs - 1) // bs, 30) + 3))
        cases.append(dict(family="xz", path=path, fta="xz", bs=bs, idx=idx, blob=blob, plain=plain, oc=oc, streams=streams, padding=padding,
                          expect=(dict(plain=all_plain if all_plain is not None else plain, mtime=0) if in_domain else None), meta=meta))

    for j in range(6 if quick else 24):
        bs = rng.choice([1, 3, 16, 64, 100])
        n = min(rng.choice([0, 1, bs, bs + 1, 2 * bs, 4 * bs, 5 * bs - 1, 700]), 900)
        plain = payload(rng, n)
        chk = rng.choice([lzma.CHECK_NONE, lzma.CHECK_CRC32, lzma.CHECK_CRC64])
        add(lzma.compress(plain, format=lzma.FORMAT_XZ, check=chk, preset=rng.choice([0, 6])), bs, plain, 0, True, dict(n=n, check=chk))
    a, b = payload(rng, 150), payload(rng, 90)
    # integrity check SHA-256: a valid .xz that lzma-rs 0.3.0 cannot read (B only; see level note)
    add(lzma.compress(a, format=lzma.FORMAT_XZ, check=lzma.CHECK_SHA256), 64, a, 1, False, dict(check="sha256"))
    # multi-stream / stream padding: outside the quantifier; B only (lzma-rs refuses, new fails)
    add(lzma.compress(a) + lzma.compress(b), 64, a, 1, False, dict(streams=2), streams=2)
    add(lzma.compress(a) + bytes(4), 64, a, 1, False, dict(padding=4), padding=4)
    good = lzma.compress(a)
    for cut in (0, 5, 6, 7, 8, 11, 12, 13):
        add(good[:cut], 64, b"", 1, False, dict(cut=cut))
    for hi in (0x10, 0x80):
        bb = bytearray(good); bb[7] |= hi
        add(bytes(bb), 64, a, 1, False, dict(reserved=hi))
    bb = bytearray(good); bb[2] ^= 1
    add(bytes(bb), 64, a, 1, False, dict(magic="bad"))
    bb = bytearray(good); bb[6] = 1           # first stream-flag byte not null: tolerated by s4's own check
    add(bytes(bb), 64, a, 1, False, dict(flag0=1))
    return cases


def xz_coq(c, o):
    return "(%d%%N, %s, %d%%N, %s, %s)" % (c["bs"], hb(c["blob"]), c["oc"], hb(c["plain"]), coq_obs(o))


def tar_archives(ctx, scratch, quick):
    """-> [arch]; arch: path, blob, members [(path bytes, data, mtime, flags)], ustar_plain (bool), meta"""
    rng = ctx.rng
    out = []

    def py_archive(fmt, spec):
        bio = io.BytesIO()
        members = []
        with tarfile.open(fileobj=bio, mode="w", format=fmt) as tf:
            for kind, name, data, mt in spec:
                ti = tarfile.TarInfo(name)
                ti.mtime = mt
                if kind == "F":
                    ti.size = len(data)
                    tf.addfile(ti, io.BytesIO(data))
                    members.append(dict(path=name.encode(), data=data, mtime=mt))
                else:
                    ti.type = {"D": tarfile.DIRTYPE, "S": tarfile.SYMTYPE, "H": tarfile.LNKTYPE, "C": tarfile.CHRTYPE, "B": tarfile.BLKTYPE,
                               "P": tarfile.FIFOTYPE, "T": tarfile.CONTTYPE}[kind]
                    if kind in "SH":
                        ti.linkname = data.decode()
                    tf.addfile(ti)
        return bio.getvalue(), members

    def spec_every_kind(tag, longnames):
        d = lambda n: payload(rng, n)
        s = [("D", tag, b"", 1700000000), ("S", tag + "/cur.log", b"a.log", 5), ("F", tag + "/a.log", d(rng.choice([1, 64, 65, 700])), 1700000001),
             ("H", tag + "/hard.log", (tag + "/a.log").encode(), 5), ("C", tag + "/tty", b"", 5), ("B", tag + "/sda", b"", 5), ("P", tag + "/fifo", b"", 5),
             ("D", tag + "/sub", b"", 6), ("F", tag + "/sub/b.log", d(rng.choice([512, 513, 1024, 1500])), 0),
             ("F", tag + "/empty.log", b"", 9), ("T", tag + "/cont.log", b"", 9), ("F", tag + "/日本 語.log", d(30), 2 ** 31), ("F", tag + "/z.log", d(511), 1)]
        if longnames:
            s.insert(3, ("F", tag + "/" + "long" * 30 + "/deep.log", d(100), 77))
            s.append(("F", "p" * 120 + "/" + "n" * 60 + ".log", d(10), 78))
        return s

    k = 0
    for fmt, nm in ((tarfile.USTAR_FORMAT, "ustar"), (tarfile.GNU_FORMAT, "gnu"), (tarfile.PAX_FORMAT, "pax")):
        for rep in range(1 if quick else 3):
            blob, members = py_archive(fmt, spec_every_kind("logs%d" % rep, fmt != tarfile.USTAR_FORMAT))
            out.append(dict(path=put(os.path.join(scratch, "t%02d_%s.tar" % (k, nm)), blob), blob=blob, members=members, ustar_plain=(fmt == tarfile.USTAR_FORMAT), meta=dict(format=nm, kinds="every")))
            k += 1
    # ustar with a path split over prefix / name (python does that for names over 100 bytes)
    blob, members = py_archive(tarfile.USTAR_FORMAT, [("F", "p" * 120 + "/" + "n" * 60 + ".log", payload(rng, 77), 123), ("F", "s.log", payload(rng, 5), 4)])
    out.append(dict(path=put(os.path.join(scratch, "t%02d_prefix.tar" % k), blob), blob=blob, members=members, ustar_plain=True, meta=dict(format="ustar", kinds="prefix")))
    k += 1
    # hand-written: old-style NUL typeflag regular file, v7 header without magic, octal fields with spaces,
    # duplicate member path, mtime fields 0 / 8^11-1 / base-256 2^63, a 0xFF byte in a name, a '|' is covered by c05.py
    d1, d2, d3 = payload(rng, 70), payload(rng, 130), payload(rng, 20)
    ents = [(tar_header(b"old.log", len(d1), typ=b"\0", mtime=100), d1),
            (tar_header(b"v7.log", len(d2), typ=b"0", mtime=200, magic=bytes(8)), d2),
            (tar_header(b"sp.log", len(d3), mtime=300, size_field=b"%10o \0" % len(d3), mtime_field=(b" %o " % 300).ljust(12, b"\0")), d3),
            (tar_header(b"hi\xff.log", len(d3), mtime=8 ** 11 - 1), d3),
            # names that are suffixes / prefixes of one another (addressing is by EQUAL path)
            (tar_header(b"dir/app.log", len(d1), mtime=401), d1), (tar_header(b"app.log", len(d2), mtime=402), d2), (tar_header(b"app.log.1", len(d3), mtime=403), d3)]
    blob = tar_raw(ents)
    out.append(dict(path=put(os.path.join(scratch, "t%02d_hand.tar" % k), blob), blob=blob, ustar_plain=True, meta=dict(format="hand", kinds="old v7 spaces hi-byte"),
                    members=[dict(path=b"old.log", data=d1, mtime=100), dict(path=b"v7.log", data=d2, mtime=200), dict(path=b"sp.log", data=d3, mtime=300),
                             dict(path="hi�.log".encode(), data=d3, mtime=8 ** 11 - 1),
                             dict(path=b"dir/app.log", data=d1, mtime=401), dict(path=b"app.log", data=d2, mtime=402), dict(path=b"app.log.1", data=d3, mtime=403)]))
    k += 1
    blob = tar_raw([(tar_header(b"x.log", len(d1), mtime=100), d1), (tar_header(b"y.log", len(d3), mtime=5), d3), (tar_header(b"x.log", len(d2), mtime=200), d2)])
    out.append(dict(path=put(os.path.join(scratch, "t%02d_dup.tar" % k), blob), blob=blob, ustar_plain=True, meta=dict(format="hand", kinds="duplicate path"),
                    members=[dict(path=b"x.log", data=d1, mtime=100), dict(path=b"y.log", data=d3, mtime=5), dict(path=b"x.log", data=d2, mtime=200, duplicate_path=True)]))
    k += 1
    blob = tar_raw([(tar_header(b"big.log", len(d1), mtime_field=base256(2 ** 63)), d1), (tar_header(b"max.log", len(d3), mtime_field=base256(2 ** 63 - 1)), d3)])
    out.append(dict(path=put(os.path.join(scratch, "t%02d_mtime.tar" % k), blob), blob=blob, ustar_plain=False, meta=dict(format="hand", kinds="base-256 mtime"),
                    members=[dict(path=b"big.log", data=d1, mtime=2 ** 63), dict(path=b"max.log", data=d3, mtime=2 ** 63 - 1)]))
    k += 1
    # broken archives (B only): checksum mismatch in the 2nd header, truncated data, truncated header
    good = tar_raw([(tar_header(b"a.log", len(d1), mtime=1), d1), (tar_header(b"b.log", len(d2), mtime=2), d2)])
    bad = bytearray(good); bad[1024 + 3] ^= 1
    out.append(dict(path=put(os.path.join(scratch, "t%02d_cksum.tar" % k), bytes(bad)), blob=bytes(bad), ustar_plain=True, broken=True, meta=dict(kinds="checksum"), members=[dict(path=b"a.log", data=d1, mtime=1)]))
    k += 1
    out.append(dict(path=put(os.path.join(scratch, "t%02d_trunc.tar" % k), good[:1024 + 512 + 50]), blob=good[:1024 + 512 + 50], ustar_plain=True, broken=True, meta=dict(kinds="truncated data"), members=[dict(path=b"a.log", data=d1, mtime=1)]))
    k += 1
    out.append(dict(path=put(os.path.join(scratch, "t%02d_trunch.tar" % k), good[:1024 + 100]), blob=good[:1024 + 100], ustar_plain=True, broken=True, meta=dict(kinds="truncated header"), members=[dict(path=b"a.log", data=d1, mtime=1)]))
    return out


# ------------------------------------------------------------------------------ the run
def coq_batch(ctx, groups):
    """groups: [(name, Coq function, Coq case type, [case terms])]; ONE round of coqc shards holding a slice
    of every group.  Returns {name: {case index: [codes]}} or None when coqc failed."""
    import re
    hdr = vlib.COQ_PRINT_HDR + "From Coq Require Import String List NArith.\nImport ListNotations.\nFrom S4.Corr Require Import C05c.\nOpen Scope string_scope.\n"
    items = [(gi, i, len(t)) for gi, g in enumerate(groups) for i, t in enumerate(g[3])]
    items.sort(key=lambda x: -x[2])
    nsh = max(1, min(vlib.NCPU, len(items)))
    loads, shards = [0] * nsh, [[] for _ in range(nsh)]
    for it in items:                                     # longest first onto the lightest shard
        k = loads.index(min(loads))
        shards[k].append(it)
        loads[k] += it[2] + 20000
    srcs, layout = [], []
    for sh in shards:
        src, lay = hdr, []
        for gi, g in enumerate(groups):
            mine = [i for (g2, i, _) in sh if g2 == gi]
            lay.append(mine)
            src += "Definition cases_%d : list %s := [\n%s\n].\nEval vm_compute in (run_cases %s cases_%d).\n" % (gi, g[2], ";\n".join(g[3][i] for i in mine), g[1], gi)
        srcs.append(src)
        layout.append(lay)
    res = vlib.coq_eval_shards(os.path.join(CACHE, "cases", "C05", "glue"), srcs)
    bad = {g[0]: {} for g in groups}
    for lay, (rc, out) in zip(layout, res):
        parts = re.findall(r"=\s*(\[.*?\])\s*:\s*list", out, flags=re.S) if rc == 0 else []
        if len(parts) != len(groups):
            ctx.obligation_broken("correspondence", "coqc on C05 container cases", out[-3000:])
            return None
        for gi, body in enumerate(parts):
            for t in re.findall(r"\(([^()]*)\)", body):
                i, code = [int(x) for x in re.findall(r"\d+", t)]
                bad[groups[gi][0]].setdefault(lay[gi][i], []).append(code)
    return bad


def report_b(ctx, what, cases, bad, detail):
    if bad:
        i = sorted(bad)[0]
        ctx.obligation_broken("correspondence", what, json.dumps(dict(codes=bad[i], disagreeing_cases=len(bad), **detail(cases[i])), default=str)[:3500])


def small(blob):
    return hx(blob) if len(blob) <= 40000 else None


def check_expect(ctx, c, o, what):
    """C: the observed reader vs the format's meaning; returns number of failures recorded"""
    e = c.get("expect")
    if e is None:
        return 0
    plain, bs = e["plain"], c["bs"]
    case = dict(level="glue", family=c["family"], what=what, path=c["path"], bs=bs, n=len(plain), meta=c["meta"], members=c.get("members", 1), streams=c.get("streams", 1),
                padding=c.get("padding", 0), duplicate_path=c.get("duplicate_path", False), mtime=e.get("mtime", 0), file_hex=small(c.get("blob", b"")), plain_hex=small(plain))
    cls = classes_of(case)
    if o is None:
        ctx.failure(case, "BlockReader::new returns", "panic", cls)
        return 1
    if o["err"]:
        ctx.failure(case, "BlockReader::new succeeds on a well-formed file", "error: " + o.get("msg", "")[:200], cls)
        return 1
    want_mt = (1, e["mtime"]) if (e.get("mtime") and not (c["family"] == "tar" and e["mtime"] > TAR_MTIME_MAX)) else (0, 0)
    nb = (len(plain) + bs - 1) // bs
    if o["filesz"] != len(plain):
        ctx.failure(case, "filesz() = %d" % len(plain), "filesz() = %d" % o["filesz"], cls)
        return 1
    if o["cnt"] != nb or o["last"] != max(nb - 1, 0):
        ctx.failure(case, "count_blocks %d, blockoffset_last %d" % (nb, max(nb - 1, 0)), "count_blocks %d, blockoffset_last %d" % (o["cnt"], o["last"]), cls)
        return 1
    if o["mt"] != want_mt:
        ctx.failure(case, "mtime() = %s" % ("header time %d" % e["mtime"] if e.get("mtime") else "the container file's mtime"), "mtime() code %s" % (o["mt"],), cls)
        return 1
    for i, kind, h in o["results"]:
        want = plain[i * bs:(i + 1) * bs]
        ok = (kind == 0 and bytes.fromhex(h) == want) if want else kind == 1
        if not ok:
            ctx.failure(dict(case, block=i), "block %d = %s" % (i, hx(want)[:120] or "Done"), "kind %d %s" % (kind, h[:120]), cls)
            return 1
    return 0


def run(ctx, scratch, quick):
    rng = ctx.rng
    cov = {}
    gzc, prc, xzc = gz_cases(ctx, scratch, quick), pre_cases(ctx, scratch, quick), xz_cases(ctx, scratch, quick)
    archives = tar_archives(ctx, scratch, quick)
    # ---- harness pass 1: everything that does not depend on the crate's listing
    lines = []
    for c in gzc + prc + xzc:
        lines.append("open\t%s\t%d\t%d\t%s" % (hx(c["path"].encode()), FTA[c["fta"]], c["bs"], ",".join(map(str, c["idx"]))))
    for a in archives:
        lines.append("tarls\t%s" % hx(a["path"].encode()))
        lines.append("pptar\t%s" % hx(a["path"].encode()))
        lines.append("tarls\t%s\t0" % hx(a["path"].encode()))
    outl, err = vlib.harness("c05", lines, timeout=600)
    if outl is None or len(outl) != len(lines):
        ctx.obligation_broken("correspondence", "harness c05 (open / tarls / pptar)", err)
        return cov
    n1 = len(gzc + prc + xzc)
    obs = [parse_open(x) for x in outl[:n1]]
    spec_fail = 0
    texts = {"gz": [], "pre": [], "xz": []}
    owners = {"gz": [], "pre": [], "xz": []}
    for c, o, raw in zip(gzc + prc + xzc, obs, outl[:n1]):
        fam = "gz" if c["family"] == "gz" else ("xz" if c["family"] == "xz" else "pre")
        spec_fail += check_expect(ctx, c, o, "BlockReader::new and read_block on a generated file")
        if o is None:
            ctx.obligation_broken("correspondence", "BlockReader::new panicked (%s)" % c["family"], json.dumps(dict(path=c["path"], meta=c["meta"], out=raw[:200], file_hex=small(c["blob"])), default=str))
            continue
        texts[fam].append({"gz": gz_coq, "pre": pre_coq, "xz": xz_coq}[fam](c, o))
        owners[fam].append(c)
    det = lambda c: dict(family=c["family"], path=c["path"], bs=c["bs"], meta=c["meta"], file_hex=small(c["blob"]), plain_hex=small(c["plain"]))
    # ---- tar: listing, process_path_tar, then open / ntf per member
    tl = outl[n1:]
    lines2, plan2 = [], []
    pp_texts, pp_own, ref_texts, ref_own = [], [], [], []
    for j, a in enumerate(archives):
        items = parse_tarls(tl[3 * j])
        items_seq = parse_tarls(tl[3 * j + 2])
        a["items"] = items
        if items is None or items_seq is None:
            ctx.obligation_broken("correspondence", "harness c05 tarls", tl[3 * j][:300])
            continue
        pl = tl[3 * j + 1]
        listed = []
        for t in pl.split(" ")[1:]:
            if t == "X":
                listed.append((2, b""))
            elif t == "?":
                listed.append((9, b""))
            else:
                listed.append(({"L": 0, "E": 1}[t[0]], bytes.fromhex(t[2:])))
        a["listed"] = listed
        pp_texts.append("(%s, %s, [%s])" % (hb(a["path"].encode()), coq_items(items_seq), "; ".join("(%d%%N, %s)" % (kk, hb(p)) for kk, p in listed)))
        pp_own.append(a)
        if a["ustar_plain"] and len(a["blob"]) <= 60000:
            ref_texts.append("(%s, [%s])" % (hb(a["blob"]), "; ".join(
                "None" if not it["ok"] else "(Some (%s, %d%%N, %d%%N, %s, %d%%N, %s))" % (hb(it["rawpath"] or b""), it["typ"], it["esize"], opt(it["mtime"]), it["pos"], hb(it["data"] or b""))
                for it in items)))
            ref_own.append(a)
        # C: process_path_tar lists exactly the non-empty regular members, in order
        if not a.get("broken"):
            want = [(1 if not m["data"] else 0, a["path"].encode() + b"|" + m["path"]) for m in a["members"]]
            if want != listed:
                ctx.failure(dict(level="glue", family="tar", what="process_path_tar", path=a["path"], meta=a["meta"], file_hex=small(a["blob"])),
                            "members listed: %s" % [(kk, p.split(b"|", 1)[1].decode("utf-8", "replace")) for kk, p in want][:12],
                            "%s" % [(kk, p.split(b"|", 1)[-1].decode("utf-8", "replace")) for kk, p in listed][:12])
                spec_fail += 1
        # readers: every member, a directory path, a path that is not there
        subs = [(m["path"], m) for m in a["members"]] + [(b"no/such.log", None)]
        dirs = [it["path"] for it in items if it["ok"] and it["typ"] == 53 and it["path"]]
        if dirs:
            subs.append((dirs[0], None))
        for sub, m in subs:
            bs = rng.choice([3, 16, 64, 100, 512])
            n = len(m["data"]) if m else 0
            idx = list(range(min((n + bs - 1) // bs, 30) + 2))
            ps = a["path"].encode() + b"|" + sub
            lines2.append("open\t%s\t4\t%d\t%s" % (hx(ps), bs, ",".join(map(str, idx))))
            plan2.append(("open", a, ps, bs, m))
        for sub, m in subs[:2] + subs[-2:-1]:
            ps = a["path"].encode() + b"|" + sub
            lines2.append("ntf\t%s\t4\tj" % hx(ps))
            plan2.append(("ntf", a, ps, 0, m))
    # ---- decompress_to_ntf on compressed files (journal type: the bytes are only copied)
    ntf_files = []
    pj = payload(rng, 300)
    ntf_files.append(("gz", put(os.path.join(scratch, "n0.journal.gz"), gz_build(pj, name=b"x.journal", hcrc=True, mtime=1234567)), pj, dict(mtime=1234567), 1))
    ntf_files.append(("gz", put(os.path.join(scratch, "n1.journal.gz"), gz_build(pj, mtime=0, extra=b"\xff\0")), pj, dict(mtime=0), 1))
    ntf_files.append(("gz", put(os.path.join(scratch, "n2.journal.gz"), gz_build(pj, mtime=2 ** 32 - 1, comment=b"c")), pj, dict(mtime=2 ** 32 - 1), 1))
    bb = bytearray(gz_build(pj, mtime=5)); bb[3] |= 0x40
    ntf_files.append(("gz", put(os.path.join(scratch, "n3.journal.gz"), bytes(bb)), pj, None, 1))
    ntf_files.append(("xz", put(os.path.join(scratch, "n4.journal.xz"), lzma.compress(pj)), pj, dict(mtime=0), 2))
    ntf_files.append(("bz2", put(os.path.join(scratch, "n5.journal.bz2"), bz2.compress(pj)), pj, dict(mtime=0), 2))
    import c05
    ntf_files.append(("lz4", put(os.path.join(scratch, "n6.journal.lz4"), c05.lz4_frame(pj, [100, 200], content_checksum=True)), pj, dict(mtime=0), 2))
    for fam, path, plain, e, kind in ntf_files:
        lines2.append("ntf\t%s\t%d\tj" % (hx(path.encode()), FTA[fam]))
        plan2.append(("ntfc", dict(path=path, blob=open(path, "rb").read(), meta=dict(family=fam)), path.encode(), kind, dict(data=plain, expect=e)))
    out2, err = vlib.harness("c05", lines2, timeout=600)
    if out2 is None or len(out2) != len(lines2):
        ctx.obligation_broken("correspondence", "harness c05 (open on tar members / ntf)", err)
        return cov
    tar_texts, tar_own, ntf_texts, ntf_own = [], [], [], []
    fsm = "%d.%d" % FS_MT
    for (what, a, ps, bs, m), raw in zip(plan2, out2):
        if what == "open":
            o = parse_open(raw)
            c = dict(family="tar", path=ps.decode("utf-8", "replace"), bs=bs, blob=a["blob"], meta=a["meta"], duplicate_path=bool(m and m.get("duplicate_path")),
                     expect=(dict(plain=m["data"], mtime=m["mtime"]) if (m and not a.get("broken")) else None))
            spec_fail += check_expect(ctx, c, o, "BlockReader::new and read_block on archive|member")
            if o is None:
                ctx.obligation_broken("correspondence", "BlockReader::new panicked (tar)", json.dumps(dict(path=c["path"], meta=a["meta"], out=raw[:200])))
                continue
            tar_texts.append("(%d%%N, %s, %s, %s, %s)" % (bs, coq_items(a["items"]), hb(ps), nl([2, 600, 1]), coq_obs(o)))
            tar_own.append(c)
        else:
            # OK <size> <mt> <hex> | OKNONE | ERR ..
            if raw.startswith("OKNONE"):
                st, sz, mc, ms, content = 2, 0, 3, 0, b""
            elif raw.startswith("ERR"):
                st, sz, mc, ms, content = 1, 0, 3, 0, b""
            else:
                f = raw.split(" ")
                st, sz, content = 0, int(f[1]), bytes.fromhex(f[3]) if len(f) > 3 else b""
                mc, ms = (3, 0) if f[2] == "NONE" else parse_mt(f[2], fsm)
            data = m["data"] if m else b""
            if what == "ntf":
                ntf_texts.append("(3%%N, [], %s, %s, %s, %s, (%d%%N, %d%%N, %d%%N, %d%%N, %s))" % (coq_items(a["items"]), hb(ps), hb(data), nl([7, 1]), st, sz, mc, ms, hb(content)))
                e = dict(mtime=m["mtime"]) if (m and not a.get("broken")) else None
            else:
                ntf_texts.append("(%d%%N, %s, [], [], %s, %s, (%d%%N, %d%%N, %d%%N, %d%%N, %s))" % (bs, hb(a["blob"]), hb(data), nl([7, 1]), st, sz, mc, ms, hb(content)))
                e = m.get("expect")
            ntf_own.append(dict(path=ps.decode("utf-8", "replace"), meta=a["meta"], blob=a["blob"]))
            if e is not None:
                case = dict(level="glue", family="tar" if what == "ntf" else a["meta"]["family"], what="decompress_to_ntf", path=ps.decode("utf-8", "replace"), meta=a["meta"],
                            mtime=e["mtime"], duplicate_path=bool(m.get("duplicate_path")) if what == "ntf" else False, file_hex=small(a["blob"]))
                want_mt = (1, e["mtime"]) if (e["mtime"] and not (what == "ntf" and e["mtime"] > TAR_MTIME_MAX)) else ((3, 0) if what == "ntf" else (0, 0))
                got = (st, sz, content, (mc, ms))
                if got != (0, len(data), data, want_mt):
                    ctx.failure(case, "extracted %d bytes = the member's data, mtime %s" % (len(data), want_mt), "status %d, size %d, content equal %s, mtime %s" % (st, sz, content == data, (mc, ms)), classes_of(case))
                    spec_fail += 1
    ares = lambda a: dict(path=a["path"], meta=a["meta"], file_hex=small(a["blob"]))
    groups = [("gz", "gz_case_bad", "gz_case_t", texts["gz"]), ("pre", "pre_case_bad", "pre_case_t", texts["pre"]), ("xz", "xz_case_bad", "xz_case_t", texts["xz"]),
              ("pptar", "pp_case_bad", "pp_case_t", pp_texts), ("tarref", "ref_case_bad", "ref_case_t", ref_texts),
              ("tar", "tar_case_bad", "tar_case_t", tar_texts), ("ntf", "ntf_case_bad", "ntf_case_t", ntf_texts)]
    bad = coq_batch(ctx, groups)
    if bad is None:
        return cov
    b_gz, b_pre, b_xz, b_pp, b_ref, b_tar, b_ntf = [bad[g[0]] for g in groups]
    report_b(ctx, "BlockReader::new/filesz/blockoffset_last/count_blocks/mtime/read_block on .gz vs Model.Containers.gz_new / gz_read_block", owners["gz"], b_gz, det)
    report_b(ctx, "BlockReader::new on .bz2 / .lz4 (size pre-pass) vs Model.Containers.bz2_new / lz4_new", owners["pre"], b_pre, det)
    report_b(ctx, "BlockReader::new on .xz (header bytes, decode loop, pre-slicing) vs Model.Containers.xz_new", owners["xz"], b_xz, det)
    report_b(ctx, "process_path_tar vs Model.Containers.process_path_tar_m on the crate's entry list", pp_own, b_pp, ares)
    report_b(ctx, "tar crate entries_with_seek() listing vs Model.Containers.tar_ref_list (reference header parser)", ref_own, b_ref, ares)
    report_b(ctx, "BlockReader::new/filesz/mtime/read_block on archive|member vs Model.Containers.tar_new / tar_read_block on the crate's entry list", tar_own, b_tar,
             lambda c: dict(path=c["path"], bs=c["bs"], meta=c["meta"], file_hex=small(c["blob"])))
    report_b(ctx, "decompress_to_ntf vs Model.Containers.ntf_gz / ntf_plain / ntf_tar", ntf_own, b_ntf, ares)
    fam_hist = {}
    for c in gzc + prc + xzc:
        fam_hist[c["family"]] = fam_hist.get(c["family"], 0) + 1
    nb = lambda d: 0 if d is None else len(d)
    cov.update(glue_file_cases=n1, glue_family_histogram=fam_hist, glue_gz_flg_combinations=32, glue_tar_archives=len(archives),
               glue_tar_member_readers=len(tar_texts), glue_tar_entries_listed=sum(len(a.get("items") or []) for a in archives),
               glue_pptar_cases=len(pp_texts), glue_tar_reference_parser_cases=len(ref_texts), glue_ntf_cases=len(ntf_texts),
               glue_block_results=sum(len(o["results"]) for o in obs if o) ,
               glue_model_disagreements=nb(b_gz) + nb(b_pre) + nb(b_xz) + nb(b_pp) + nb(b_ref) + nb(b_tar) + nb(b_ntf),
               glue_spec_failures=spec_fail,
               glue_in_domain_cases=sum(1 for c in gzc + prc + xzc if c.get("expect")) + sum(1 for c in tar_own if c.get("expect")),
               glue_sample=dict(family=gzc[0]["family"], bs=gzc[0]["bs"], meta=gzc[0]["meta"]))
    return cov


# ------------------------------------------------------------------------------ end to end (binary stdout)
def e2e(ctx, scratch, quick):
    """stdout of the s4 binary for stored forms that exercise the glue vs the plain file(s)"""
    import time
    rng = ctx.rng

    def log(tag, n, t0=1709634030):
        out = []
        t = t0
        for i in range(n):
            t += rng.choice([1, 2, 60])
            out.append(("%s %s glue line %d\n" % (time.strftime("%Y-%m-%d %H:%M:%S", time.gmtime(t)), tag, i)).encode())
        return b"".join(out)

    d = os.path.join(scratch, "glue_e2e")
    os.makedirs(d, exist_ok=True)
    runs = []      # (label, class case, [plain paths], [stored path])
    a, b = log("first", 30), log("second", 12, t0=1709640000)
    pa, pb = put(os.path.join(d, "a.log"), a), put(os.path.join(d, "b.log"), b)
    # gzip: every optional field at once, MTIME variants
    for j, mt in enumerate([0, 1, 2 ** 31, 2 ** 32 - 1]):
        os.makedirs(os.path.join(d, "allf%d" % j), exist_ok=True)
        q = put(os.path.join(d, "allf%d" % j, "a.log.gz"),
                gz_build(a, text=True, hcrc=True, extra=rnd_bytes(rng, 40), name=b"a\xff.log", comment=b"c\xfe" * 40, mtime=mt, xfl=2, osb=255))
        runs.append(("gz_all_fields", dict(family="gz", members=1), [pa], [q]))
    def text_tar(name, spec):
        ents, plains = [], []
        for kind, nm, data, mt, mtf in spec:
            if kind == "F":
                ents.append((tar_header(nm, len(data), mtime=mt, mtime_field=mtf), data))
                plains.append(data)
            else:
                ents.append((tar_header(nm, 0, typ=kind.encode(), mtime=mt, link=b"a.log" if kind in "12" else b""), b""))
        os.makedirs(os.path.join(d, name), exist_ok=True)
        return put(os.path.join(d, name, "x.tar"), tar_raw(ents)), plains
    tp, _ = text_tar("kinds", [("5", b"logs/", b"", 5, None), ("2", b"logs/cur.log", b"", 5, None), ("F", b"logs/a.log", a, 1700000000, None), ("1", b"logs/hard.log", b"", 5, None),
                               ("3", b"logs/tty", b"", 5, None), ("4", b"logs/sda", b"", 5, None), ("6", b"logs/fifo", b"", 5, None), ("F", b"logs/sub/b.log", b, 0, None), ("5", b"logs/z/", b"", 5, None)])
    runs.append(("tar_every_kind", dict(family="tar"), [pa, pb], [tp]))
    tp, _ = text_tar("dup", [("F", b"a.log", a, 100, None), ("F", b"a.log", b, 200, None)])
    runs.append(("tar_duplicate_path", dict(family="tar", duplicate_path=True), [pa, pb], [tp]))
    tp, _ = text_tar("bigmt", [("F", b"a.log", a, 0, base256(2 ** 63))])
    runs.append(("tar_mtime_2^63", dict(family="tar", mtime=2 ** 63), [pa], [tp]))
    tp, _ = text_tar("chronomax1", [("F", b"a.log", a, 0, base256(CHRONO_MAX_SECS + 1))])
    runs.append(("tar_mtime_chrono_max+1", dict(family="tar", mtime=CHRONO_MAX_SECS + 1), [pa], [tp]))
    tp, _ = text_tar("chronomax", [("F", b"a.log", a, 0, base256(CHRONO_MAX_SECS))])
    runs.append(("tar_mtime_chrono_max", dict(family="tar", mtime=CHRONO_MAX_SECS), [pa], [tp]))
    # year-less syslog lines: the year comes from mtime() — header MTIME of the .gz / mtime of the tar member
    # must act exactly like the plain file's own modification time (C11 builds on this)
    T = 1700000000                       # 2023-11-14
    yl = b"".join(b"Nov %2d 00:00:%02d host prog[7]: yearless line %d\n" % (3 + i, i, i) for i in range(9))
    os.makedirs(os.path.join(d, "yl"), exist_ok=True)
    py = put(os.path.join(d, "yl", "messages"), yl)
    os.utime(py, (T, T))
    os.makedirs(os.path.join(d, "ylgz"), exist_ok=True)
    runs.append(("gz_mtime_yearless", dict(family="gz", members=1), [py], [put(os.path.join(d, "ylgz", "messages.gz"), gz_build(yl, name=b"messages", mtime=T))]))
    os.makedirs(os.path.join(d, "yltar"), exist_ok=True)
    runs.append(("tar_mtime_yearless", dict(family="tar"), [py], [put(os.path.join(d, "yltar", "m.tar"), tar_raw([(tar_header(b"messages", len(yl), mtime=T), yl)]))]))
    jobs = []
    for lab, cc, plains, stored in runs:
        for bs in ([64, 65536] if quick else [64, 100, 4096, 65536]):
            jobs.append((lab, cc, plains, stored, bs))

    def one(j):
        lab, cc, plains, stored, bs = j
        args = ["--color", "never", "--blocksz", str(bs)]
        return vlib.run_s4(args + plains, timeout=120, env={"TZ": "UTC"}), vlib.run_s4(args + stored, timeout=120, env={"TZ": "UTC"})
    with ThreadPoolExecutor(max_workers=vlib.NCPU) as ex:
        outs = list(ex.map(one, jobs))
    agree = fails = 0
    for (lab, cc, plains, stored, bs), (p, s) in zip(jobs, outs):
        if p[1] == s[1] and s[0] not in (124, -6, 134):
            agree += 1
            continue
        fails += 1
        case = dict(cc, level="stdout", payload="glue", kind="text", form=lab, args=["--blocksz", str(bs)], path=stored, plain_path=plains,
                    files_hex={os.path.basename(q): hx(open(q, "rb").read()) for q in plains + stored})
        ctx.failure(case, "stdout of the plain file(s) (%d bytes), normal exit" % len(p[1]), "stdout %d bytes, rc %d, stderr %s" % (len(s[1]), s[0], s[2][-160:].decode("utf-8", "replace")), classes_of(case))
    return dict(glue_stdout_runs=len(jobs), glue_stdout_agree=agree, glue_stdout_failures=fails)


def replay_case(c):
    """re-run one recorded glue-level failing input; returns True when it still fails"""
    fpath = c["path"].split("|")[0]
    if not os.path.exists(fpath) and c.get("file_hex"):
        os.makedirs(os.path.dirname(fpath), exist_ok=True)
        put(fpath, bytes.fromhex(c["file_hex"]))
    if not os.path.exists(fpath) or c.get("plain_hex") is None:
        print("replay glue case %s: file gone; re-run ./check C05 with the recorded seed" % c["path"])
        return True
    plain, bs = bytes.fromhex(c["plain_hex"]), c["bs"]
    nb = (len(plain) + bs - 1) // bs
    fam = {"gz": "gz", "bz2": "bz2", "lz4": "lz4", "xz": "xz", "tar": "tar"}[c["family"]]
    if c.get("what") == "process_path_tar" or c.get("what") == "decompress_to_ntf":
        outl, err = vlib.harness("c05", ["pptar\t%s" % hx(fpath.encode())] if c["what"] == "process_path_tar" else ["ntf\t%s\t%d\tj" % (hx(c["path"].encode()), FTA[fam])])
        print("replay %s %s: %s" % (c["what"], c["path"], (outl or [err])[0][:300]))
        return True
    outl, err = vlib.harness("c05", ["open\t%s\t%d\t%d\t%s" % (hx(c["path"].encode()), FTA[fam], bs, ",".join(map(str, range(min(nb, 40) + 1))))])
    o = parse_open(outl[0]) if outl else None
    ok = (o is not None and not o["err"] and o["filesz"] == len(plain) and o["mt"] == ((1, c["mtime"]) if c.get("mtime") else (0, 0))
          and all(((k == 0 and bytes.fromhex(h) == plain[i * bs:(i + 1) * bs]) if i < nb else k == 1) for i, k, h in o["results"]))
    print("replay glue case family=%s path=%s bs=%d n=%d: new/filesz/mtime/blocks as the format says = %s" % (c["family"], c["path"], bs, len(plain), ok))
    return not ok


# ------------------------------------------------------------------------------ read blocks above the internal block
BIG_EPOCH0 = 1709596800              # 2024-03-05 00:00:00 UTC
BIG_BS = [0x20000, 0x40000, 0x100000, 0xFFFFFF]
BIG_FORMS = ["bz2-1", "bz2-2", "bz2-9", "gz-1", "gz-9", "xz", "lz4-65536", "lz4-10000"]


def big_log(nlines):
    """the same bytes as Corr/C05c.gen_log nlines"""
    return b"".join(b"2024-03-05 %02d:%02d:%02d host app[%d]: big block line %06d abcdefghijklmnopqrstuvwxyz0123456789 ABCDEFGHIJ\n"
                    % ((i // 3600) % 24, (i // 60) % 60, i % 60, i % 7, i) for i in range(nlines))


def big_form(plain, form):
    """-> (suffix, codec number of Corr/C05.model_block, blob, schedule / lz4 internal block sizes); deterministic"""
    import c05
    kind, _, par = form.partition("-")
    if kind == "bz2":
        return ".bz2", 2, bz2.compress(plain, int(par)), [70000, 1]
    if kind == "gz":
        return ".gz", 1, gz_build(plain, mtime=1, level=int(par)), [3000, 1]
    if kind == "xz":
        return ".xz", 4, lzma.compress(plain, format=lzma.FORMAT_XZ, preset=0), []
    sz = int(par)
    sizes = [sz] * (len(plain) // sz) + ([len(plain) % sz] if len(plain) % sz else [])
    return ".lz4", 3, c05.lz4_frame(plain, sizes, bd=4, content_checksum=True), sizes


def big_files(d, nlines, forms):
    os.makedirs(d, exist_ok=True)
    plain = big_log(nlines)
    pp = put(os.path.join(d, "big.log"), plain)
    out = {}
    for form in forms:
        suf, codec, blob, sched = big_form(plain, form)
        os.makedirs(os.path.join(d, form), exist_ok=True)
        out[form] = (put(os.path.join(d, form, "big.log" + suf), blob), codec, sched)
    return plain, pp, out


def big_blocks(ctx, scratch, quick):
    """text logs of 250-700 kB stored as bz2 (levels 1, 2, 9), gz (1, 9), xz, lz4 (64 KiB / 10000-byte frame
    blocks) read at block sizes ABOVE the compressor's internal block, with and without a window.
    B: in-process read_block (kind, length, digest of every block) vs the Coq model on the log GENERATED in Coq;
    C: kinds / lengths vs the slices of the plain bytes, and stdout of the binary vs the plain file."""
    import c05
    sizes_lines = [3150, 6200] if quick else [2400, 3150, 4800, 6200, 6700]      # ~105 bytes per line
    forms = BIG_FORMS if not quick else ["bz2-1", "bz2-2", "bz2-9", "gz-1", "gz-9", "xz", "lz4-65536"]
    suffix_fta = {".bz2": "bz2", ".gz": "gz", ".xz": "xz", ".lz4": "lz4"}
    files, lines, plan = [], [], []
    for nl in sizes_lines:
        d = os.path.join(scratch, "big%d" % nl)
        # quick tier: every form on the smaller log, the bz2 levels with several internal blocks + gz + xz on the larger
        plain, pp, out = big_files(d, nl, forms if not (quick and nl > 4000) else ["bz2-1", "bz2-2", "gz-1", "xz"])
        files.append((nl, plain, pp, out))
        for form, (path, codec, sched) in out.items():
            for bs in BIG_BS:
                nb = (len(plain) + bs - 1) // bs
                lines.append("openh\t%s\t%d\t%d\t%s" % (hx(path.encode()), FTA[suffix_fta[os.path.splitext(path)[1]]], bs, ",".join(map(str, range(nb + 1)))))
                plan.append((nl, form, bs))
    outl, err = vlib.harness("c05", lines, timeout=600)
    if outl is None or len(outl) != len(lines):
        ctx.obligation_broken("correspondence", "harness c05 openh (large read blocks)", err)
        return {}
    per = {}
    spec_fail = 0
    byfile = {nl: (plain, pp, out) for nl, plain, pp, out in files}
    for (nl, form, bs), raw in zip(plan, outl):
        plain, pp, out = byfile[nl]
        path, codec, sched = out[form]
        res = []
        if raw.startswith("OK "):
            f = raw.split(" ")
            for t in f[2:]:
                i, k, ln, dg = t.split(":")
                res.append((int(i), {"F": 0, "D": 1, "E": 2}[k], int(ln), int(dg)))
            filesz = int(f[1])
        else:
            filesz = -1
        per.setdefault((nl, form), []).append((bs, res))
        # C1: kinds and lengths against the slices of the plain bytes
        n = len(plain)
        nb = (n + bs - 1) // bs
        want = [(i, 0, min(bs, n - i * bs)) if i < nb else (i, 1, 0) for i in range(nb + 1)]
        got = [(i, k, ln) for i, k, ln, _ in res]
        if filesz != n or got != want:
            cls = ["lz4_frame_block_boundary_inside_read_block"] if (codec == 3 and c05.lz4_misaligned(sched, bs, n)) else []
            ctx.failure(dict(level="bigblock", what="read_block kinds and lengths", nlines=nl, form=form, bs=bs, n=n, path=path),
                        "filesz %d, blocks %s" % (n, want[:8]), "filesz %d, blocks %s" % (filesz, got[:8]) if filesz >= 0 else raw[:200], cls)
            spec_fail += 1
    texts, owners = [], []
    for (nl, form), pbs in per.items():
        plain, pp, out = byfile[nl]
        path, codec, sched = out[form]
        texts.append("(%d%%N, %d%%N, %s, [%s])" % (codec, nl, nl_list(sched), "; ".join(
            "(%d%%N, [%s])" % (bs, "; ".join("(%d%%N, %d%%N, %d%%N, %d%%N)" % r for r in res)) for bs, res in pbs)))
        owners.append(dict(nlines=nl, form=form, path=path, results=[(bs, [(i, k, ln) for i, k, ln, _ in res]) for bs, res in pbs]))
    bad = coq_batch(ctx, [("big", "big_case_bad", "big_case_t", texts)])
    if bad is not None and bad["big"]:
        i = sorted(bad["big"])[0]
        ctx.obligation_broken("correspondence", "BlockReader::read_block at block sizes above the compressor's internal block vs Model.Assemble (kind, length, digest of every block; log generated in Coq)",
                              json.dumps(dict(codes=bad["big"][i], disagreeing_cases=len(bad["big"]), **owners[i]))[:3000])
    # C2: stdout of the binary
    jobs = []
    for nl, plain, pp, out in files:
        mid = BIG_EPOCH0 + nl // 2
        for bs in BIG_BS:
            for w in ([], ["-a", "+%d" % mid]):
                jobs.append((nl, "plain", pp, bs, w, 0, []))
                for form, (path, codec, sched) in out.items():
                    jobs.append((nl, form, path, bs, w, codec, sched))

    def one(j):
        return vlib.run_s4(["--color", "never", "--blocksz", str(j[3])] + j[4] + [j[2]], timeout=180, env={"TZ": "UTC"})
    with ThreadPoolExecutor(max_workers=vlib.NCPU) as ex:
        outs = list(ex.map(one, jobs))
    ref = {(j[0], j[3], tuple(j[4])): o for j, o in zip(jobs, outs) if j[1] == "plain"}
    agree = sfail = 0
    for j, o in zip(jobs, outs):
        nl, form, path, bs, w, codec, sched = j
        if form == "plain":
            continue
        p = ref[(nl, bs, tuple(w))]
        if o[1] == p[1] and o[0] != 124:
            agree += 1
            continue
        sfail += 1
        n = len(byfile[nl][0])
        cls = ["lz4_frame_block_boundary_inside_read_block"] if (codec == 3 and c05.lz4_misaligned(sched, bs, n)) else []
        ctx.failure(dict(level="bigblock", what="stdout", nlines=nl, form=form, bs=bs, n=n, args=["--blocksz", str(bs)] + w, path=path, plain_path=byfile[nl][1]),
                    "stdout of the plain file (%d bytes)" % len(p[1]), "stdout %d bytes, rc %d, stderr %s" % (len(o[1]), o[0], o[2][-200:].decode("utf-8", "replace")), cls)
    return dict(bigblock_files=len(files), bigblock_forms=forms, bigblock_block_sizes=BIG_BS, bigblock_reader_runs=len(lines), bigblock_blocks_compared=sum(len(r) for v in per.values() for _, r in v),
                bigblock_model_disagreements=0 if not bad else len(bad["big"]), bigblock_spec_failures=spec_fail, bigblock_stdout_runs=len(jobs), bigblock_stdout_agree=agree, bigblock_stdout_failures=sfail)


def nl_list(xs):
    return "[" + "; ".join("%d%%N" % x for x in xs) + "]"


def replay_big(c):
    """regenerate the (deterministic) files of a large-read-block failure and run it again; True = still fails"""
    d = os.path.join(CACHE, "scratch", "C05-replay-big%d" % c["nlines"])
    plain, pp, out = big_files(d, c["nlines"], [c["form"]])
    path = out[c["form"]][0]
    if c.get("what") == "stdout":
        a = vlib.run_s4(["--color", "never"] + c["args"] + [pp], timeout=180, env={"TZ": "UTC"})
        b = vlib.run_s4(["--color", "never"] + c["args"] + [path], timeout=180, env={"TZ": "UTC"})
        print("replay large-block stdout form=%s args=%s: plain %d bytes, stored %d bytes (rc %d), equal=%s" % (c["form"], c["args"], len(a[1]), len(b[1]), b[0], a[1] == b[1]))
        return a[1] != b[1]
    bs, n = c["bs"], len(plain)
    nb = (n + bs - 1) // bs
    fta = {".bz2": "bz2", ".gz": "gz", ".xz": "xz", ".lz4": "lz4"}[os.path.splitext(path)[1]]
    outl, err = vlib.harness("c05", ["openh\t%s\t%d\t%d\t%s" % (hx(path.encode()), FTA[fta], bs, ",".join(map(str, range(nb + 1))))])
    raw = (outl or [err])[0]
    got = [tuple(t.split(":")[:3]) for t in raw.split(" ")[2:]] if raw.startswith("OK ") else None
    want = [(str(i), "F", str(min(bs, n - i * bs))) if i < nb else (str(i), "D", "0") for i in range(nb + 1)]
    print("replay large-block read_block form=%s bs=%d n=%d: kinds and lengths as the plain slices = %s" % (c["form"], bs, n, got == want))
    return got != want
