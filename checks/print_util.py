"""Shared machinery of C13 and C19: scenario generation (sources x options), running the real
binary three ways (decorated + --summary, decorated, undecorated), an independent python
rendering of the decorated output (the SPEC side), and the encoding of a scenario as a case
for the Coq model (Corr/C13.v).

A scenario = sources (generated text logs, optionally one fixture: utmp / evtx / journal),
options (-n/-p, -w, -u/-l/-z, -d, --prepend-separator, --separator, --color, --blocksz, window).
"""
import os, re, json, unicodedata
from datetime import datetime, timezone, timedelta
import vlib
import s4summary

REPO_LOGS = os.path.join(vlib.REPO, "logs")
FIXTURES = {
    "utmp": (os.path.join(REPO_LOGS, "programs/utmp/host-entry6.wtmp"), 1),
    "utmp2": (os.path.join(REPO_LOGS, "CentOS7/x86_64/wtmp"), 1),
    "evtx": (os.path.join(REPO_LOGS, "programs/evtx/Microsoft-Windows-Kernel-PnP%4Configuration.evtx"), 2),
    "journal": (os.path.join(REPO_LOGS, "programs/journal/Ubuntu22-user-1000x3.journal.gz"), 3),
}
KIND_NAMES = {0: "text", 1: "fixedstruct", 2: "evtx", 3: "journal"}
MARK_ARG, MARK = "\\a\\b\\a\\b\\a", b"\x07\x08\x07\x08\x07"
SGR_GROUP = re.compile(rb"\x1b\[0m(\x1b\[4m)?\x1b\[(3[0-7]|38;2;\d+;\d+;\d+)m")
SGR_ANY = re.compile(rb"\x1b\[[0-9;]*m")

NAMES = ["a.log", "bb.log", "syslog-host.log", "x" * 23 + ".log", "m.log", "été.log", "über-long-name.log",
         "日本語.log", "a̐b.log", "wＷ.log"]
FORMATS = [None, None, "%Y%m%dT%H%M%S%.3f%z", "%Y-%m-%d %H:%M:%S%.6f %:z", "%F %T%.9f", "%s.%f", "%s %3f %6f %9f",
           "%H:%M:%S %% lit-text %d/%m/%Y", "%Y%m%d%H%M%S", "%z|%:z|%s", "[%F_%T.%3f]"]
PSEPS = [":", ":", ":", " | ", "", "@@", "\t", "%%"]
SEPS = ["", "", "", "|", "\\n", "--\\n", "\\t\\0\\\\", "\\a\\b\\f\\r\\v", "<sep>"]
MB_SEPS = ["\u2192", "\u00b6\\n", "\u2014 \u2014", "\U0001F600", "\\t\u2192\\0", "\u00e9|\u00fc", "\\n\u2192\u2192\\n", "\u65e5\u672c", "<\u00b6\\\\>"]
LONG_SIZES = [2057, 4000, 70000, 2056, 2058, 4112, 6168, 2055, 70001]
FINE_FORMATS = ["%Y%m%dT%H%M%S%.6f%z", "%F %T%.9f %:z", "%H:%M:%S.%6f", "%T.%9f", "%s.%f", "%s%f", "%Y-%m-%d %H:%M:%S%.6f",
                "%d/%m %H:%M:%S%.9f|%3f|%6f|%9f|%f", "%.3f %.6f %.9f"]
FINE_ZONES = [("-u", 0, None), ("-u", 0, None), ("-z", 19800, "+05:30"), ("-z", -34200, "-09:30"), ("-z", -12600, "-03:30"),
              ("-l", 20700, "Asia/Kathmandu"), ("-z", 3600, "+01:00")]
ZONES = [("-u", 0, None), ("-z", -34200, "-09:30"), ("-z", 19800, "+05:30"), ("-z", -12600, "-03:30"), ("-z", 3600, "+01:00"), ("-z", -28800, "-0800"),
         ("-z", 45900, "+12:45"), ("-z", -3600, "-01"), ("-l", 19800, "Asia/Kolkata"), ("-l", 18000 * -1, "Etc/GMT+5"),
         ("-l", 20700, "Asia/Kathmandu")]


def char_width(ch):
    if unicodedata.combining(ch) or unicodedata.category(ch) in ("Mn", "Me", "Cf"):
        return 0
    return 2 if unicodedata.east_asian_width(ch) in ("W", "F") else 1


def display_width(s):
    return sum(char_width(c) for c in s)


def unescape(s):
    tab = {"0": "\0", "a": "\x07", "b": "\x08", "e": "\x1b", "f": "\x0c", "n": "\n", "r": "\r", "\\": "\\", "t": "\t", "v": "\x0b"}
    out, i = [], 0
    while i < len(s):
        if s[i] == "\\":
            if i + 1 >= len(s) or s[i + 1] not in tab:
                return None
            out.append(tab[s[i + 1]]); i += 2
        else:
            out.append(s[i]); i += 1
    return "".join(out)


# ----------------------------------------------------------------------------- independent strftime
def py_strftime(fmt, t_ns, off_s):
    """the documented specifier subset, computed with python datetime (independent of the Coq model)"""
    secs, nano = divmod(t_ns, 10 ** 9)
    dt = datetime.fromtimestamp(secs, tz=timezone.utc) + timedelta(seconds=off_s)
    sign = "-" if off_s < 0 else "+"
    a = abs(off_s) // 60
    out, i = [], 0
    while i < len(fmt):
        c = fmt[i]
        if c != "%":
            out.append(c); i += 1; continue
        nx = fmt[i + 1:i + 4]
        if nx[:1] in "YmdHMS":
            out.append({"Y": "%04d" % dt.year, "m": "%02d" % dt.month, "d": "%02d" % dt.day, "H": "%02d" % dt.hour,
                        "M": "%02d" % dt.minute, "S": "%02d" % dt.second}[nx[0]]); i += 2
        elif nx[:1] == "f":
            out.append("%09d" % nano); i += 2
        elif nx[:1] == "z":
            out.append("%s%02d%02d" % (sign, a // 60, a % 60)); i += 2
        elif nx[:2] == ":z":
            out.append("%s%02d:%02d" % (sign, a // 60, a % 60)); i += 3
        elif nx[:1] == "s":
            out.append(str(secs)); i += 2
        elif nx[:1] == "T":
            out.append("%02d:%02d:%02d" % (dt.hour, dt.minute, dt.second)); i += 2
        elif nx[:1] == "F":
            out.append("%04d-%02d-%02d" % (dt.year, dt.month, dt.day)); i += 2
        elif nx[:1] == "%":
            out.append("%"); i += 2
        elif nx[:1] == "." and nx[1:2] in "369" and nx[2:3] == "f":
            n = int(nx[1]); out.append("." + ("%09d" % nano)[:n]); i += 4
        elif nx[:1] in "369" and nx[1:2] == "f":
            n = int(nx[0]); out.append(("%09d" % nano)[:n]); i += 3
        else:
            raise ValueError("unsupported specifier in %r" % fmt)
    return "".join(out)


# ----------------------------------------------------------------------------- text logs
WORDS = ["alpha", "beta", "gamma", "kernel:", "sshd[x]:", "événement", "日志", "ok", "fail", "user=root", "<tab>\t<", "a=b;c", "-- mark --"]


def _stretch(line, size):
    """line (str, without newline) padded with words to exactly size-1 characters (size counts the newline);
    all filler is ASCII, so characters = bytes when the line itself is ASCII"""
    need = size - 1 - len(line.encode())
    if need <= 0:
        return line
    fill = (" " + " ".join(["alpha", "beta", "gamma", "kernel:", "ok", "fail", "user=root"])) * (need // 40 + 2)
    return line + fill[:need]


def gen_text_file(rng, base_us, nmsg, off_min, final_nl, long_lines, frac=6, dense=False, longs=None):
    """returns (bytes, [message dict])  -- one notation per file: ISO-8601 with `frac` (6..9) fractional
    digits and a numeric zone.  Instants are in ns.
    dense: consecutive messages differ only below the millisecond (same second and millisecond, different
    micro/nanoseconds) or have exactly equal instants."""
    msgs, chunks = [], []
    unit = 10 ** (9 - frac)                      # ns per last printed digit
    t = base_us * 1000
    t += rng.randrange(0, 1000 // unit + 1) * unit if unit < 1000 else 0
    sign = "-" if off_min < 0 else "+"
    zs = "%s%02d:%02d" % (sign, abs(off_min) // 60, abs(off_min) % 60)
    for k in range(nmsg):
        if dense and k > 0 and rng.random() < 0.85:
            room = (10 ** 6 - 1 - t % 10 ** 6) // unit          # units left inside the current millisecond
            d = rng.choice([0, 0, 1, 1, 2, rng.randrange(0, 50), rng.randrange(0, 1000), room])
            t += min(d, room) * unit
        else:
            t += (rng.randrange(1, 3_000_000) * 7 + 1) * 1000 + (rng.randrange(0, 1000 // unit) * unit if unit < 1000 else 0)
        loc = datetime.fromtimestamp(t // 10 ** 9, tz=timezone.utc) + timedelta(minutes=off_min)
        fr = ("%09d" % (t % 10 ** 9))[:frac]
        ts = "%04d-%02d-%02dT%02d:%02d:%02d.%s%s" % (loc.year, loc.month, loc.day, loc.hour, loc.minute, loc.second, fr, zs)
        nw = rng.randrange(1, 6) if (not long_lines or k == 0) else rng.randrange(8, 30)
        first = ts + " " + " ".join(rng.choice(WORDS) for _ in range(nw))
        lines = [first]
        for _ in range(rng.choice([0, 0, 0, 1, 2, 3])):
            lines.append(rng.choice(["  ", "\t", "| ", ""]) + " ".join(rng.choice(WORDS) for _ in range(rng.randrange(0, 5))))
        if longs and ("first", k) in longs:
            lines[0] = _stretch(lines[0], longs[("first", k)])
        if longs and ("later", k) in longs:
            if len(lines) == 1:
                lines.append("  cont")
            j = rng.randrange(1, len(lines))
            lines[j] = _stretch(lines[j], longs[("later", k)])
        bl = [(l + "\n").encode() for l in lines]
        if k == nmsg - 1 and not final_nl:
            bl[-1] = bl[-1][:-1]
            if not bl[-1]:
                bl[-1] = b"z"
        msgs.append(dict(kind=0, t=t, lines=bl, beg=0, end=len(ts)))
        chunks += bl
    return b"".join(chunks), msgs


def parts_of(line_off, line, bs):
    """LineParts of a line starting at file offset line_off, block size bs"""
    out, o, i = [], line_off, 0
    while i < len(line):
        n = min(len(line) - i, bs - (o % bs))
        out.append(line[i:i + n]); i += n; o += n
    return out


# ----------------------------------------------------------------------------- fixtures
_fix_cache = {}


def fixture_messages(key, env):
    """messages of a fixture, learned from the binary itself:
    payload bytes from an undecorated run with a marker separator, instants from a `-u -d %s%f` run,
    highlight range from a `--color always` run."""
    ck = (key, env.get("TZ"))      # the journal "short" rendering depends on the local zone
    if ck in _fix_cache:
        return _fix_cache[ck]
    path, kind = FIXTURES[key]
    rc, out, err = vlib.run_s4(["--color", "never", "--separator", MARK_ARG, path], env=env, timeout=120)
    if rc not in (0,):
        raise RuntimeError("fixture run failed %s rc=%s %s" % (key, rc, err[-300:]))
    pay = out.split(MARK)[:-1]
    rc, out2, err = vlib.run_s4(["--color", "never", "-u", "-d", "%s%f", "--prepend-separator", "~", "--separator", MARK_ARG, path], env=env, timeout=120)
    ts = []
    for m in out2.split(MARK)[:-1]:
        mm = re.match(rb"(-?\d+)~", m)
        ts.append(int(mm.group(1)))
    rc, out3, err = vlib.run_s4(["--color", "always", "--separator", MARK_ARG, path], env=env, timeout=120)
    hl = []
    for m in out3.split(MARK)[:-1]:
        pos, beg, end, i = 0, None, None, 0
        for g in SGR_GROUP.finditer(m):
            pos += g.start() - i
            i = g.end()
            if g.group(1) and beg is None:
                beg = pos
            elif beg is not None and end is None and not g.group(1):
                end = pos
        hl.append((beg or 0, end if end is not None else (beg or 0)))
    assert len(pay) == len(ts) == len(hl), (len(pay), len(ts), len(hl))
    msgs = []
    for p, t, (b, e) in zip(pay, ts, hl):
        if kind == 1:
            lines = [p]
        else:
            lines = [x for x in re.findall(rb"[^\n]*\n|[^\n]+$", p)]
        msgs.append(dict(kind=kind, t=t, lines=lines, beg=b, end=e))
    _fix_cache[ck] = msgs
    return msgs


def independent_instant(m):
    """instant (ns, to microsecond precision) read from the message text itself, or None"""
    p = b"".join(m["lines"])
    if m["kind"] == 1:
        mm = re.search(rb"ut_xtime (\d+)\.(\d+)", p)
        return (int(mm.group(1)) * 10 ** 6 + int(mm.group(2))) * 1000 if mm else None
    if m["kind"] == 2:
        mm = re.search(rb'SystemTime="(\d{4})-(\d\d)-(\d\d)T(\d\d):(\d\d):(\d\d)\.(\d{6})Z"', p)
        if not mm:
            return None
        y, mo, d, h, mi, s, us = [int(x) for x in mm.groups()]
        return (int(datetime(y, mo, d, h, mi, s, tzinfo=timezone.utc).timestamp()) * 10 ** 6 + us) * 1000
    return None


# ----------------------------------------------------------------------------- scenarios
def gen_scenario(rng, idx, scratch, tier_fixture_rate=0.3):
    d = os.path.join(scratch, "s%04d" % idx)
    os.makedirs(d, exist_ok=True)
    nsrc = rng.choice([1, 2, 2, 3, 3, 4])
    names = rng.sample(NAMES, nsrc)
    bs = rng.choice([None, None, None, 128, 256])
    colour = rng.random() < 0.45
    fmode = rng.choice([None, "-n", "-n", "-p"])
    align = fmode is not None and rng.random() < 0.6
    zone = rng.choice([None, None] + ZONES)
    fmt = rng.choice(FORMATS)
    # class "finer than a millisecond": every 4th scenario has a fine format, a zone among -u / +05:30 / -09:30 /
    # the others, and at least one file whose consecutive messages differ only below the millisecond or are equal
    subms = (idx % 4 == 0)
    if subms:
        fmt = rng.choice(FINE_FORMATS)
        zone = rng.choice(FINE_ZONES)
        colour = (idx // 4) % 2 == 0
    psep = rng.choice(PSEPS)
    sep = rng.choice(SEPS)
    # class "multi-byte separator": every 4th scenario (idx % 4 == 1)
    mbsep = (idx % 4 == 1)
    if mbsep:
        sep = MB_SEPS[(idx // 4) % len(MB_SEPS)]
    # class "lines longer than the 2056-byte print buffer": every 4th scenario (idx % 4 == 2); a block size that
    # holds the whole file is used because the block-zero acceptance gate (C12, F3b) rejects files whose first
    # block does not contain enough whole messages
    longcls = (idx % 4 == 2)
    if longcls:
        bs = 0x80000
        colour = (idx // 4) % 2 == 0
        if not colour and fmode is None and zone is None and fmt is None:
            fmode = "-n"
    if colour and "\\e" in sep:
        sep = "|"
    srcs = []
    base = 1_600_000_000_000_000 + rng.randrange(0, 10 ** 14)
    for i, nm in enumerate(names):
        off_min = rng.choice([0, 0, 60, -60, 330, -210, 765, -480, 345])
        dense = subms and (i == 0 or rng.random() < 0.5)
        longs = None
        nm_ = rng.randrange(3, 8) if dense else rng.randrange(2, 6)
        if longcls and i == 0:
            q = idx // 4
            nm_ = max(nm_, 3)
            ka, kb = rng.randrange(0, nm_), rng.randrange(0, nm_)
            longs = {("first", ka): LONG_SIZES[q % len(LONG_SIZES)], ("later", kb): LONG_SIZES[(q + 1) % len(LONG_SIZES)]}
            if rng.random() < 0.5:
                longs[("first", rng.randrange(0, nm_))] = LONG_SIZES[(q + 2) % len(LONG_SIZES)]
        data, msgs = gen_text_file(rng, base + rng.randrange(0, 50_000_000), nm_,
                                   off_min, rng.random() < 0.7, bs is not None and not longcls and rng.random() < 0.5,
                                   frac=rng.choice([6, 6, 7, 8, 9, 9]) if (subms or rng.random() < 0.3) else 6, dense=dense,
                                   longs=longs)
        p = os.path.join(d, nm)
        with open(p, "wb") as f:
            f.write(data)
        if bs:
            o = 0
            for m in msgs:
                pl = []
                for l in m["lines"]:
                    pl.append(parts_of(o, l, bs)); o += len(l)
                m["parts"] = pl
        srcs.append(dict(path=p, base=nm, msgs=msgs, fixture=None))
    fx = None
    if rng.random() < tier_fixture_rate:
        fx = rng.choice(["utmp", "utmp", "utmp2", "evtx", "journal"])
        p = FIXTURES[fx][0]
        srcs.append(dict(path=p, base=os.path.basename(p), msgs=None, fixture=fx))
    window = None
    if rng.random() < 0.25:
        window = "pending"
    return dict(idx=idx, dir=d, srcs=srcs, bs=bs, colour=colour, fmode=fmode, align=align, zone=zone, fmt=fmt,
                psep=psep, sep=sep, window=window, fixture=fx, subms=subms, mbsep=mbsep, longcls=longcls)


def scenario_env(sc):
    env = {"TZ": "UTC"}
    if sc["zone"] and sc["zone"][0] == "-l":
        env["TZ"] = sc["zone"][2]
    return env


def resolve(sc, rng):
    """fill fixture messages, the window, the expected print events (merge by instant)"""
    env = scenario_env(sc)
    for s in sc["srcs"]:
        if s["fixture"]:
            ms = fixture_messages(s["fixture"], env)
            if s["fixture"] in ("evtx", "utmp2") and len(ms) > 12:
                pass
            s["msgs"] = ms
    allm = [(m["t"], si, mi) for si, s in enumerate(sc["srcs"]) for mi, m in enumerate(s["msgs"])]
    allm.sort()
    # evtx / large fixtures: always restrict with a window so that runs stay small
    big = any(s["fixture"] in ("evtx", "utmp2") for s in sc["srcs"])
    if sc["window"] == "pending" or big:
        ts = sorted(set(t // 10 ** 9 for t, _, _ in allm))
        if big:
            fts = sorted(m["t"] // 10 ** 9 for s in sc["srcs"] if s["fixture"] in ("evtx", "utmp2") for m in s["msgs"])
            k = rng.randrange(0, max(1, len(fts) - 6))
            lo, hi = fts[k], fts[min(len(fts) - 1, k + rng.randrange(1, 6))] + 1
            while hi > lo and sum(1 for x in fts if lo <= x <= hi) > 12:
                hi -= max(1, (hi - lo) // 2)
            if rng.random() < 0.5 and sum(1 for x in fts if min(lo, ts[0]) <= x <= hi) <= 12:
                lo = min(lo, ts[0])
        else:
            i = rng.randrange(0, len(ts)); j = rng.randrange(i, len(ts))
            lo, hi = ts[i] + rng.choice([0, 0, 1]), ts[j] + rng.choice([0, 1])
            if hi < lo:
                hi = lo
        sc["window"] = (lo, hi)
    else:
        sc["window"] = None
    ties = len(set(t for t, _, _ in allm)) != len(allm)
    evs = []
    for t, si, mi in allm:
        if sc["window"] and not (sc["window"][0] * 10 ** 9 <= t <= sc["window"][1] * 10 ** 9):
            continue
        s = sc["srcs"][si]
        evs.append((si, mi))
    # is_last: last message of the file that is printed AND last of the file (window may cut the tail:
    # the processor reports is_last for the last message it sends)
    last_of = {}
    for k, (si, mi) in enumerate(evs):
        last_of[si] = k
    sc["events"] = [dict(src=si, mi=mi, is_last=(last_of[si] == k)) for k, (si, mi) in enumerate(evs)]
    sc["ties"] = ties
    return sc


def args_of(sc, summary, decorated=True):
    a = []
    if decorated:
        a += ["--color", "always" if sc["colour"] else "never"]
        if sc["fmode"]:
            a.append(sc["fmode"])
        if sc["align"]:
            a.append("-w")
        if sc["zone"]:
            z = sc["zone"]
            a += [z[0]] if z[0] != "-z" else ["--prepend-tz=" + z[2]]
        if sc["fmt"] is not None:
            a += ["-d", sc["fmt"]]
        if sc["psep"] != ":":
            a += ["--prepend-separator=" + sc["psep"]]
        if sc["sep"]:
            a += ["--separator=" + sc["sep"]]
    else:
        a += ["--color", "never"]
    if sc["bs"]:
        a += ["--blocksz", str(sc["bs"])]
    if sc["window"]:
        lo, hi = sc["window"]
        a += ["-a", datetime.fromtimestamp(lo, tz=timezone.utc).strftime("%Y%m%dT%H%M%S+0000"),
              "-b", datetime.fromtimestamp(hi, tz=timezone.utc).strftime("%Y%m%dT%H%M%S+0000")]
    if summary:
        a.append("--summary")
    return a + [s["path"] for s in sc["srcs"]]


def run_scenario(sc):
    env = scenario_env(sc)
    r = {}
    r["sum"] = vlib.run_s4(args_of(sc, True), env=env, timeout=120)
    r["dec"] = vlib.run_s4(args_of(sc, False), env=env, timeout=120)
    r["plain"] = vlib.run_s4(args_of(sc, False, decorated=False), env=env, timeout=120)
    return r


# ----------------------------------------------------------------------------- option semantics (spec side)
def date_on(sc):
    """(on, format, offset seconds)"""
    fmt = sc["fmt"]
    if sc["zone"]:
        off = sc["zone"][1]
        if fmt is None:
            fmt = "%Y%m%dT%H%M%S%.3f%z"
    else:
        off = 0          # TZ=UTC when no -l
    if fmt is None:
        return False, None, off
    return True, fmt, off


def prepend_names(sc):
    if sc["fmode"] == "-n":
        return [s["base"] for s in sc["srcs"]]
    if sc["fmode"] == "-p":
        return [s["path"] for s in sc["srcs"]]
    return None


def supplied_nl(sc, ev):
    m = sc["srcs"][ev["src"]]["msgs"][ev["mi"]]
    return m["kind"] == 0 and ev["is_last"] and not b"".join(m["lines"]).endswith(b"\n")


def classes_of(sc):
    """known-finding predicates that this scenario satisfies"""
    cl = []
    don, fmt, off = date_on(sc)
    kinds = set(sc["srcs"][e["src"]]["msgs"][e["mi"]]["kind"] for e in sc["events"])
    if don and "%" in sc["psep"]:
        cl.append("prepend_separator_contains_percent")
    names = prepend_names(sc)
    if names and sc["align"]:
        printed = sorted(set(e["src"] for e in sc["events"]))
        if any(len(names[i]) != display_width(names[i]) for i in printed):
            cl.append("name_char_count_differs_from_display_width")
    return cl


def render(sc, quirks=()):
    """independent rendering of the decorated stdout WITHOUT colour sequences.
    quirks: subset of the known-finding predicates whose deviation is applied.
    returns (bytes, per_file_bytes {src: n}, n_supplied)"""
    don, fmt, off = date_on(sc)
    names = prepend_names(sc)
    printed = sorted(set(e["src"] for e in sc["events"]))
    psep = sc["psep"]
    sepb = unescape(sc["sep"]).encode()
    ffs = {}
    if names:
        w = max([display_width(names[i]) for i in printed] + [0]) if sc["align"] else 0
        for i in printed:
            if "name_char_count_differs_from_display_width" in quirks:
                pad = max(0, w - len(names[i]))
            else:
                pad = max(0, w - display_width(names[i]))
            ffs[i] = (names[i] + " " * pad + psep).encode()
    out, per, nsup = [], {}, 0
    for e in sc["events"]:
        m = sc["srcs"][e["src"]]["msgs"][e["mi"]]
        ff = ffs.get(e["src"], b"")
        df = b""
        if don:
            dsep = psep.replace("%%", "%") if "prepend_separator_contains_percent" in quirks else psep
            df = (py_strftime(fmt, m["t"], off) + dsep).encode()
        pre = ff + df
        n = 0
        for l in m["lines"]:
            out.append(pre + l); n += len(pre) + len(l)
        per[e["src"]] = per.get(e["src"], 0) + n
        out.append(sepb)
        if supplied_nl(sc, e):
            out.append(b"\n"); nsup += 1
    return b"".join(out), per, nsup


def plain_expected(sc):
    out = []
    for e in sc["events"]:
        m = sc["srcs"][e["src"]]["msgs"][e["mi"]]
        out.append(b"".join(m["lines"]))
        if supplied_nl(sc, e):
            out.append(b"\n")
    return b"".join(out)


def strip_sgr(b):
    return SGR_ANY.sub(b"", b)


def abstract_sgr(b):
    """replace each termcolor set_color group by ESC + class digit (0 default, 1 text, 2 datetime);
    returns None when an escape sequence does not have that shape"""
    def rep(g):
        if g.group(1):
            return b"\x1b2"
        return b"\x1b0" if g.group(2) == b"37" else b"\x1b1"
    res = SGR_GROUP.sub(rep, b)
    if re.search(rb"\x1b(?![012])", res):
        return None
    return res


# ----------------------------------------------------------------------------- Coq cases
def hx(b):
    return bytes(b).hex()


def coq_bool(v):
    return "true" if v else "false"


def coq_case(sc, impl_stdout_abs, nums):
    don, fmt, off = date_on(sc)
    names = prepend_names(sc)
    opts = '(%s, %s, %s, "%s", %s, "%s", (%d)%%Z, "%s")' % (
        coq_bool(sc["colour"]), coq_bool(names is not None), coq_bool(sc["align"]), hx(sc["psep"].encode()),
        coq_bool(don), hx((fmt or "").encode()), off, hx(unescape(sc["sep"]).encode()))
    ss = []
    for i, s in enumerate(sc["srcs"]):
        nm = names[i] if names else s["base"]
        ss.append('("%s", %d%%N, %d%%N)' % (hx(nm.encode()), len(nm), display_width(nm)))
    es = []
    for e in sc["events"]:
        m = sc["srcs"][e["src"]]["msgs"][e["mi"]]
        parts = m.get("parts") or [[l] for l in m["lines"]]
        ls = "[" + "; ".join("[" + "; ".join('"%s"' % hx(p) for p in pl) + "]" for pl in parts) + "]"
        es.append('(%d%%N, %d%%N, (%d)%%Z, %s, %d%%N, %d%%N, %s)' % (e["src"], m["kind"], m["t"], ls, m["beg"], m["end"], coq_bool(e["is_last"])))
    h = hx(impl_stdout_abs)
    chunks = "; ".join('"%s"' % h[i:i + 4000] for i in range(0, len(h), 4000))
    return "(%s, [%s], [%s], [%s], [%s])" % (opts, "; ".join(ss), "; ".join(es), chunks,
                                              "; ".join("%d%%N" % n for n in nums))


COQ_HDR = (vlib.COQ_PRINT_HDR + "From Coq Require Import String List NArith ZArith.\nImport ListNotations.\n"
           "From S4.Corr Require Import C13.\nOpen Scope string_scope.\n")


def eval_cases(workdir, cases):
    """cases: list of coq case texts; returns (ok, [(index, code)], log)"""
    idx = list(range(len(cases)))
    if not idx:
        return True, [], ""
    shards = [idx[i:i + 3] for i in range(0, len(idx), 3)]
    texts = [COQ_HDR + "Definition cases : list case := [\n%s\n].\nEval vm_compute in (model_bad cases).\n" % ";\n".join(cases[i] for i in sh) for sh in shards]
    res = vlib.coq_eval_shards(workdir, texts)
    bad = []
    for sh, (rc, out) in zip(shards, res):
        pairs = vlib.parse_eval_pairs(out) if rc == 0 else None
        if pairs is None:
            return False, [], out
        bad += [(sh[k], c) for k, c in pairs]
    return True, bad, ""


def model_stdout_of(workdir, case_text):
    """debug aid: the model's stdout (SGR abstracted) of one case, as bytes"""
    inner = case_text.strip()
    t = COQ_HDR + "Definition c : case := %s.\nEval vm_compute in (let '(o, ss, es, _, _) := c in model_stdout o ss es).\n" % inner
    rc, out = vlib.coq_eval(workdir, "dbg", t)
    m = re.search(r"=\s*\[(.*?)\]\s*:\s*bytes", out, flags=re.S)
    if not m:
        return None
    return bytes(int(x) for x in re.findall(r"\d+", m.group(1).replace("%N", "")))


def subms_pairs(sc):
    """(pairs of consecutive printed messages of one source within the same millisecond but different instants,
        pairs with exactly equal instants)"""
    last, a, b = {}, 0, 0
    for e in sc.get("events", []):
        t = sc["srcs"][e["src"]]["msgs"][e["mi"]]["t"]
        p = last.get(e["src"])
        if p is not None:
            if p == t:
                b += 1
            elif p // 10 ** 6 == t // 10 ** 6:
                a += 1
        last[e["src"]] = t
    return a, b


def sc_public(sc):
    """JSON-able description of a scenario (for evidence / replays)"""
    return dict(idx=sc["idx"], files=[s["path"] for s in sc["srcs"]], colour=sc["colour"], fmode=sc["fmode"], align=sc["align"],
                zone=sc["zone"], fmt=sc["fmt"], psep=sc["psep"], sep=sc["sep"], blocksz=sc["bs"], window=sc["window"],
                fixture=sc["fixture"], args=args_of(sc, True), env=scenario_env(sc), events=len(sc.get("events", [])))
