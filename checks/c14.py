"""C14 — datetime-filter arguments resolve to the documented instant.

A. Coq: Props/C14.v (calendar arithmetic = definitional day count; resolution of every
   documented family = documented instant; `@` bounds; rejection theorems; F4/F7b regression lemmas).
B. the `s4` binary (`--summary` "Datetime filter -a/-b" lines, exit status; `now` from the run's own
   "Datetime Now" line) vs the Coq MODEL `cli_bounds` with the regenerated tables, on grammar strings,
   near-miss strings, lenient-parser strings and mutations; sub-second digits through their effect
   on a probe log with stamps one microsecond around the bound.
C. the binary vs the Coq SPEC `spec_bounds` (documented grammar -> documented instant, frozen zone
   reference, definitional calendar) on rendered grammar strings (every absolute pattern x zone
   spelling x fraction length; every subset and order of w/d/h/m/s, multi-digit counts, both signs,
   with/without '@'), and vs the rejection spec on near-miss / ambiguous / both-'@' / after>before
   inputs, under several --tz-offset values.  This is the failing-input search.
   after > before at EVERY scale: pairs a = b + d, d from 1 us to 2 s (gen_near_pairs), both orders, mixed
   forms / fraction lengths / zones / bare dates at a local midnight / '@' forms; an inverted pair must be
   rejected (non-zero exit, nothing printed), an equal or ordered one accepted with the documented bounds.
   '@' bounds whose other bound carries a 3- or 6-digit fraction (both directions; D = 0 s ... mixed
   units) are additionally checked through their effect on a probe log (lines 100 ms apart and 1 us
   around both bounds): the printed lines must be exactly those with a <= t <= b of the spec, and the
   equivalent absolute pair must select the same lines.
"""
import itertools, json, os, re, sys
from concurrent.futures import ThreadPoolExecutor
import vlib
from vlib import COQ, CACHE

PROP_FILE = "Props/C14.v"
ENV = {"TZ": "UTC"}

# ----------------------------------------------------------------------------- small calendar (summary parsing only)

def days_from_civil(y, m, d):
    y2 = y - 1 if m <= 2 else y
    era = y2 // 400
    yoe = y2 - era * 400
    mp = (m + 9) % 12
    doy = (153 * mp + 2) // 5 + d - 1
    doe = yoe * 365 + yoe // 4 - yoe // 100 + doy
    return era * 146097 + doe - 719468


def civil_from_days(z):
    z += 719468
    era = z // 146097
    doe = z - era * 146097
    yoe = (doe - doe // 1460 + doe // 36524 - doe // 146096) // 365
    y = yoe + era * 400
    doy = doe - (365 * yoe + yoe // 4 - yoe // 100)
    mp = (5 * doy + 2) // 153
    d = doy - (153 * mp + 2) // 5 + 1
    m = mp + 3 if mp < 10 else mp - 9
    return (y + 1 if m <= 2 else y, m, d)


def _selfcheck():
    import datetime
    for (y, m, d) in [(1970, 1, 1), (2000, 2, 29), (1, 1, 1), (9999, 12, 31), (1969, 12, 31), (2100, 3, 1)]:
        assert days_from_civil(y, m, d) == datetime.date(y, m, d).toordinal() - 719163
        assert civil_from_days(days_from_civil(y, m, d)) == (y, m, d)


_selfcheck()

UTC_RE = re.compile(rb"\(([+-]?\d+)-(\d\d)-(\d\d) (\d\d):(\d\d):(\d\d) \+00:00\)")


def utc_secs(line):
    m = UTC_RE.search(line)
    if not m:
        return None
    y, mo, d, h, mi, s = (int(x) for x in m.groups())
    return days_from_civil(y, mo, d) * 86400 + h * 3600 + mi * 60 + s


def is_leap(y):
    return (y % 4 == 0 and y % 100 != 0) or y % 400 == 0


def mlen(y, m):
    return [31, 29 if is_leap(y) else 28, 31, 30, 31, 30, 31, 31, 30, 31, 30, 31][m - 1]


# ----------------------------------------------------------------------------- running the binary

def run_case(a, b, tzs, probe, want_stdout=False):
    """-> dict(rc, outcome=(code,a,b), now, stdout_len, stdout)"""
    args = ["--color", "never", "--summary"]
    if a is not None:
        args.append("--dt-after=" + a)
    if b is not None:
        args.append("--dt-before=" + b)
    if tzs is not None:
        args.append("--tz-offset=" + tzs)
    args.append(probe)
    rc, out, err = vlib.run_s4(args, timeout=30, env=ENV)
    res = dict(rc=rc, stdout_len=len(out), now=None, outcome=(0, 0, 0))
    if want_stdout:
        res["stdout"] = out
    if rc != 0:
        return res
    fa = fb = None
    seen = 0
    for line in err.split(b"\n"):
        if line.startswith(b"Datetime filter -a"):
            fa = utc_secs(line); seen += 1
            if fa is None and line.split(b":", 1)[1].strip():
                res["rc"] = -1
        elif line.startswith(b"Datetime filter -b"):
            fb = utc_secs(line); seen += 1
            if fb is None and line.split(b":", 1)[1].strip():
                res["rc"] = -1
        elif line.startswith(b"Datetime Now"):
            res["now"] = utc_secs(line); seen += 1
    if seen != 3 or res["now"] is None:
        res["rc"] = -2       # summary not understood
        return res
    res["outcome"] = (1 + (2 if fa is not None else 0) + (4 if fb is not None else 0), fa or 0, fb or 0)
    return res


def run_many(cases, probe):
    """cases: list of (a, b, tzs)"""
    with ThreadPoolExecutor(max_workers=vlib.NCPU) as ex:
        return list(ex.map(lambda c: run_case(c[0], c[1], c[2], probe), cases))


# ----------------------------------------------------------------------------- the documented grammar (python mirror of Spec/CliDtSpec.v `form`)

UNITS = {"s": "US", "m": "UM", "h": "UH", "d": "UD", "w": "UW"}
UNIT_SECS = {"s": 1, "m": 60, "h": 3600, "d": 86400, "w": 604800}
DL = {"DCompact": "", "DDash": "-", "DSlash": "/"}
LAYOUTS = ["LCompact", "LDashSpace", "LDashT", "LSlash"]


def render(f):
    k = f[0]
    if k == "date":
        _, l, y, m, d = f
        sep = DL[l]
        return "%04d%s%02d%s%02d" % (y, sep, m, sep, d)
    if k == "dt":
        _, l, y, m, d, h, mi, s, fr, z = f
        if l == "LCompact":
            t = "%04d%02d%02dT%02d%02d%02d" % (y, m, d, h, mi, s)
        elif l == "LDashSpace":
            t = "%04d-%02d-%02d %02d:%02d:%02d" % (y, m, d, h, mi, s)
        elif l == "LDashT":
            t = "%04d-%02d-%02dT%02d:%02d:%02d" % (y, m, d, h, mi, s)
        else:
            t = "%04d/%02d/%02d %02d:%02d:%02d" % (y, m, d, h, mi, s)
        if fr is not None:
            t += (".%03d" if fr[0] == "ms" else ".%06d") % fr[1]
        if z is not None:
            if z[0] == "num":
                _, sp, st, neg, hh, mm = z
                t += (" " if sp else "") + ("-" if neg else "+") + "%02d" % hh
                t += {"ZPlain": "%02d" % mm, "ZColon": ":%02d" % mm, "ZHour": ""}[st]
            else:
                _, sp, name = z
                t += (" " if sp else "") + name
        return t
    if k == "epoch":
        return "+" + "".join(str(x) for x in f[1])
    if k == "rel":
        _, at, neg, items = f
        return ("@" if at else "") + ("-" if neg else "+") + "".join("".join(str(x) for x in ds) + u for ds, u in items)
    raise ValueError(k)


def zc(v):
    return "(%d)" % v if v < 0 else "%d" % v


def cbool(b):
    return "true" if b else "false"


def coq_form(f):
    if f is None:
        return "None"
    k = f[0]
    if k == "date":
        _, l, y, m, d = f
        return "Some (FDate %s %s %s %s)" % (l, zc(y), zc(m), zc(d))
    if k == "dt":
        _, l, y, m, d, h, mi, s, fr, z = f
        frs = "FNone" if fr is None else "(%s %d)" % ("FMilli" if fr[0] == "ms" else "FMicro", fr[1])
        if z is None:
            zs = "ZoneNone"
        elif z[0] == "num":
            zs = "(ZoneNum %s %s %s %d %d)" % (cbool(z[1]), z[2], cbool(z[3]), z[4], z[5])
        else:
            zs = '(ZoneName %s "%s")' % (cbool(z[1]), z[2])
        return "Some (FDateTime %s %d %d %d %d %d %d %s %s)" % (l, y, m, d, h, mi, s, frs, zs)
    if k == "epoch":
        return "Some (FEpoch [%s])" % "; ".join("%d%%N" % x for x in f[1])
    if k == "rel":
        _, at, neg, items = f
        return "Some (FRel %s %s [%s])" % (cbool(at), cbool(neg), "; ".join(
            "([%s], %s)" % ("; ".join("%d%%N" % x for x in ds), UNITS[u]) for ds, u in items))
    raise ValueError(k)


def hexs(s):
    return "None" if s is None else 'Some "%s"' % s.encode().hex()


def ref_zone_table():
    src = open(os.path.join(COQ, "Spec", "CliDtRef.v")).read()
    return re.findall(r'\("([A-Za-z]+)", "([^"]*)"\)', src)


# ----------------------------------------------------------------------------- generators

YEARS = [0, 1, 4, 100, 400, 1582, 1600, 1900, 1969, 1970, 1971, 1999, 2000, 2001, 2023, 2024, 2038, 2099, 2100, 2400, 9999]


def gen_date(rng):
    r = rng.random()
    if r < 0.5:
        y = rng.choice(YEARS)
    elif r < 0.85:
        y = rng.randrange(1970, 2100)
    else:
        y = rng.randrange(0, 10000)
    r = rng.random()
    if r < 0.15:
        m, d = 2, mlen(y, 2)
    elif r < 0.25:
        m, d = 3, 1
    elif r < 0.35:
        m, d = rng.choice([(1, 1), (12, 31), (2, 28), (1, 31), (12, 1)])
    else:
        m = rng.randrange(1, 13)
        d = rng.choice([1, mlen(y, m), rng.randrange(1, mlen(y, m) + 1)])
    return y, m, d


def gen_time(rng):
    r = rng.random()
    if r < 0.2:
        return 0, 0, 0
    if r < 0.4:
        return 23, 59, 59
    return rng.randrange(24), rng.randrange(60), rng.randrange(60)


def gen_frac(rng, kind):
    if kind == 0:
        return None
    hi = 999 if kind == 1 else 999999
    return ("ms" if kind == 1 else "us", rng.choice([0, 1, hi, rng.randrange(hi + 1), rng.randrange(hi + 1)]))


def space_options(l):
    return {"LCompact": [False], "LDashSpace": [True], "LDashT": [False, True], "LSlash": [True]}[l]


def gen_absolute(rng, names_ok, reps, names_per):
    """every layout x fraction length x zone spelling (documented combinations)"""
    out = []
    for _ in range(reps):
        for l in LAYOUTS:
            for fk in (0, 1, 2):
                zones = [None]
                for sp in space_options(l):
                    for st in ("ZPlain", "ZColon", "ZHour"):
                        for neg in (False, True):
                            hh = rng.choice([0, 1, 5, 9, 12, 14, 23, rng.randrange(24)])
                            mm = 0 if st == "ZHour" else rng.choice([0, 30, 45, 15, 59, rng.randrange(60)])
                            zones.append(("num", sp, st, neg, hh, mm))
                    for name in rng.sample(names_ok, min(names_per, len(names_ok))):
                        zones.append(("name", sp, name))
                for z in zones:
                    y, m, d = gen_date(rng)
                    h, mi, s = gen_time(rng)
                    out.append(("dt", l, y, m, d, h, mi, s, gen_frac(rng, fk), z))
        for l in DL:
            y, m, d = gen_date(rng)
            out.append(("date", l, y, m, d))
        for ds in ([0], [1], [9, 4, 6, 6, 8, 4, 8, 0, 0], [1, 9, 8, 7, 1, 8, 4, 2, 7, 2], [2, 5, 3, 4, 0, 2, 3, 0, 0, 7, 9, 9],
                   [0, 0, 0, 1, 2, 3], [int(c) for c in str(rng.randrange(0, 4102444800))]):
            out.append(("epoch", ds))
    return out


def gen_count(rng, u):
    r = rng.random()
    if r < 0.25:
        n = rng.randrange(0, 10)
    elif r < 0.6:
        n = rng.randrange(10, 1000)
    else:
        n = rng.randrange(1000, max(1001, 30000000000 // UNIT_SECS[u] // 5))
    ds = [int(c) for c in str(n)]
    if rng.random() < 0.15:
        ds = [0] * rng.randrange(1, 3) + ds
    return ds


def all_unit_orders():
    out = []
    for k in range(1, 6):
        out += list(itertools.permutations("wdhms", k))
    return out


def gen_relative(rng, reps):
    """every subset and order of the five units; signs and '@' drawn per order (all four in `reps` >= 4)"""
    out = []
    orders = all_unit_orders()
    for r in range(reps):
        for o in orders:
            if reps >= 4:
                at, neg = bool(r & 1), bool(r & 2)
            else:
                at, neg = rng.random() < 0.5, rng.random() < 0.5
            out.append(("rel", at, neg, [(gen_count(rng, u), u) for u in o]))
    return out


TZ_C = ["+00:00", "+05:30", "-03:30", "-09:30", "+14:00", "-12:00", "+01:00", "-08:00", "+05:45", "-00:30"]


def tz_secs(tzs):
    sign = -1 if tzs[0] == "-" else 1
    return sign * (int(tzs[1:3]) * 3600 + int(tzs[4:6]) * 60)


NM_PRE = ["foo", "x", "+", "-", "@", " ", "1", "a b", "T", "++", "0x"]
NM_POST = ["zzz", "+", "-", "x", " ", "@", ".", "1", "+1d", "Z", "\t"]


def in_rel_grammar(s):
    return re.fullmatch(r"@?[+-](\d+[smhdw])+", s) is not None


def relative_offset_with_extra_text(s):
    """class predicate of (fixed) defect F4: a documented relative form embedded in extra text"""
    return (not in_rel_grammar(s)) and re.search(r"@?[+-](\d+[smhdw])+", s) is not None


def plus_epoch_with_tz_offset(s, tzs):
    """class predicate of (fixed) defect F7b"""
    return re.fullmatch(r"\+\d+", s) is not None and tzs not in (None, "+00:00")


def gen_near_miss(rng, n):
    out = []
    for _ in range(n):
        f = ("rel", rng.random() < 0.3, rng.random() < 0.5, [(gen_count(rng, u), u) for u in rng.choice(all_unit_orders())])
        s = render(f)
        r = rng.random()
        pre = rng.choice(NM_PRE) if r < 0.45 else ""
        post = rng.choice(NM_POST) if r >= 0.45 or rng.random() < 0.3 else ""
        t = pre + s + post
        if t != s and relative_offset_with_extra_text(t):
            out.append(t)
    return out + ["foo+1d", "+1dzzz", "++1d", "+1d+", "@@+1d", "+1d@", "x@-5m", "+1d 2h", "+ 1d", "+1 d", "1d", "@1s", "+d", "+", "-", "@", "@+", "-5", "5", "+5x"]


MUT_ALPHA = "0123456789 -+:/.TZz@smhdwPS\t"


def mutate(rng, s):
    if not s:
        return rng.choice(MUT_ALPHA)
    i = rng.randrange(len(s) + 1)
    r = rng.random()
    if r < 0.35 and i < len(s):
        return s[:i] + s[i + 1:]
    if r < 0.7:
        return s[:i] + rng.choice(MUT_ALPHA) + s[i:]
    i = min(i, len(s) - 1)
    return s[:i] + rng.choice(MUT_ALPHA) + s[i + 1:]


LENIENT = [
    "2000-1-2 3:4:5", "2000-01-02  03:04:05", "2000-01-0203:04:05", " 2000-01-02 03:04:05", "2000-01-02 03:04:05 ",
    "+2000-01-02 03:04:05", "-0001-01-02 03:04:05", "+12345-01-02 03:04:05", "02000-01-02 03:04:05", "200-01-02 03:04:05",
    "2000-02-30 00:00:00", "2001-02-29", "2000-13-01", "2000-00-10", "2000-01-32", "2000-01-00", "2000-01-02 24:00:00",
    "2000-01-02 23:60:00", "2000-01-02T03:04:05Z", "2000-01-02T03:04:05z", "2000-01-02T03:04:05 Z", "20000102T030405Z",
    "2000-01-02T03:04:05+05:3", "2000-01-02T03:04:05+5", "2000-01-02T03:04:05+05:60", "2000-01-02T03:04:05+24:00",
    "2000-01-02T03:04:05+23:59", "2000-01-02T03:04:05-23:59", "2000-01-02T03:04:05+99:00", "2000-01-02T03:04:05+05 30",
    "2000-01-02T03:04:05 +05: 30", "2000-01-02T03:04:05+05::30", "2000-01-02T03:04:05  +0530", "20000102T030405 +0530",
    "2000-01-02T03:04:05.1", "2000-01-02T03:04:05.12", "2000-01-02T03:04:05.1234", "2000-01-02T03:04:05.1234567",
    "2000-01-02T03:04:05.123 456", "2000-01-02T03:04:05.", "2000-01-02T03:04:05,123", "20000102", "2000012", "200001023",
    "2000-01-02T", "2000-01-02 T000000", "20000102 T000000", "2000/1/2", "2000/01/02 3:04:05", "+ 946684800", "+946684800 ",
    " +946684800", "+-5", "+00000000000000000000001", "+99999999999999999999", "+9223372036854775807", "+8210266876799",
    "+8210266876800", "+253402300800", "+1d2d", "-6w5w4w", "+1d1h1d", "+0s", "-0w", "+000d", "+99999999999999999999s",
    "+9223372036854775807s", "+9223372036854775w", "+15250284452w", "+15250284453w", "+153722867280912930m", "+9223372036854775s",
    "+9223372036854776s", "+4611686018427387s4611686018427388m", "-300000000000s", "+8000000000000s", "", "@", "now", "today",
    "2000-01-02T03:04:05PST", "2000-01-02T03:04:05 pst", "2000-01-02T03:04:05 PsT", "2000-01-02T03:04:05PDTX", "2000-01-02T03:04:05 UT",
    "2000-01-02T03:04:05 zulu", "2000-01-02 03:04:05 PST ", "20000102T030405WET", "2000-01-02 03:04:05PST", "2000/01/02 03:04:05PST",
    "2000-01-02T03:04:05.678901 AZOT", "2000-01-02 PST", "20000102PST", "PST", "Z", "+5Z", "+5PST",
]


I64_MAX = 2 ** 63 - 1
DUR_MAX = 9223372036854775        # TimeDelta::MAX, whole seconds
TS_MAX = 8210266876799            # chrono's last representable second

# one accepted witness per class of extras of the lenient language, and rejected neighbours
# (Proofs/CliDtLanguage.v extras_witnesses / outside_witnesses: the model accepts / rejects them; so must the binary)
EXTRAS = ["2000-1-2 3:4:5", "200-01-02 03:04:05", "2000-01-02  03:04:05", "2000- 01-02 03: 04:05", "20000102T030405 +0530",
          "+ 946684800", "+12345-01-02 03:04:05", "-0001-01-02 03:04:05", "2000-01-02T03:04:05+05 30", "2000-01-02T03:04:05 +05: 30",
          "2000-01-02T03:04:05+05::30", "2000-01-02T03:04:05Z", "20000102T030405z", "2000-01-02T03:04:05+23:59", "2000-01-02 23:59:60",
          "2000-01-02T03:04:05 pst", "+00000000000000000000001", "+8210266876799", "+1d2d", "+000d", "+8000000000000s"]
OUTSIDE = ["2000-01-02T03:04:05+05:3", "2000-01-02T03:04:05+5", "2000-01-02T03:04:05+05:60", "2000-01-02T03:04:05+24:00",
           " 2000-01-02 03:04:05", "2000-01-02 03:04:05 ", "2000-01-02T03:04:05.1", "2000-01-02T03:04:05.1234", "2000-01-02 24:00:00",
           "2000-01-02 23:60:00", "2000-02-30 00:00:00", "2000-13-01", "20000102 T000000", "+8210266876800", "+-5", "+5x", "+1d 2h",
           "+ 1d", "1d", "@1s", "+d", "+", "@", "+9223372036854776s", "2000-01-02T03:04:05 PsT", "2000-01-02T03:04:05PDTX",
           "foo+1d", "+1dzzz", "++1d"]


def rel_last_counts(s):
    """last count of every unit of a relative form, or None when s is not in the relative grammar"""
    if not in_rel_grammar(s):
        return None
    last = {}
    for n, u in re.findall(r"(\d+)([smhdw])", s):
        last[u] = int(n)
    return last


def relative_sum_overflows_timedelta(s):
    """class predicate of (fixed, /repo e15fcf7e) defect: every count fits i64 and every count*unit fits TimeDelta,
    but their SUM exceeds TimeDelta::MAX: `TimeDelta + TimeDelta` panicked (the process aborted) instead of a clean rejection"""
    if s is None:
        return False
    last = rel_last_counts(s)
    if last is None:
        return False
    if any(v > I64_MAX for v in last.values()) or any(v * UNIT_SECS[u] > DUR_MAX for u, v in last.items()):
        return False
    return sum(v * UNIT_SECS[u] for u, v in last.items()) > DUR_MAX


def gen_epoch_long(rng, n):
    """'+epoch' with many leading zeros: documented value range, any length (C and B)"""
    out = []
    for k in [1, 7, 20, 64, 200, 1000, 2, 19, 40][:n]:
        v = rng.choice([0, 1, 946684800, 253402300799, rng.randrange(0, 4102444800)])
        out.append(("epoch", [0] * k + [int(c) for c in str(v)]))
    return out


def gen_extended_strings(rng, quick):
    """B-only: beyond the documented grammar but inside what the theorems speak about"""
    out = []
    for v in [TS_MAX, TS_MAX + 1, TS_MAX - 1, 253402300799, 253402300800, I64_MAX, I64_MAX + 1, 10 ** 19, 10 ** 30 - 1,
              rng.randrange(10 ** 12, 10 ** 13), rng.randrange(10 ** 13, 10 ** 19)]:
        out.append(("+%d" % v, None))
    out.append(("+" + "0" * 300 + "5", None))
    out.append(("+" + "9" * 200, None))
    # repeated units, long sequences
    for _ in range(20 if quick else 300):
        k = rng.choice([2, 3, 5, 8, 13, 40])
        items = "".join("%d%s" % (rng.choice([0, 1, 7, 30, 999, rng.randrange(0, 100000)]), rng.choice("smhdw")) for _ in range(k))
        sign = rng.choice("+-")
        if rng.random() < 0.3:
            out.append(("2000-01-02T03:04:05", "@" + sign + items) if sign == "+" else ("@" + sign + items, "2000-01-02T03:04:05"))
        else:
            out.append((sign + items, None))
    # counts next to every guard
    for u, secs in UNIT_SECS.items():
        c = DUR_MAX // secs
        for v in (c, c + 1, c - 1, I64_MAX, I64_MAX + 1, I64_MAX // secs, I64_MAX // secs + 1):
            out.append(("%s%d%s" % (rng.choice("+-"), v, u), None))
            out.append(("%s%s%d%s" % (rng.choice("+-"), "0" * rng.choice([1, 30]), v, u), None))
    # sums next to the guard (the first ones abort: class relative_sum_overflows_timedelta)
    out += [("+%ds1m" % DUR_MAX, None), ("-%ds1s" % DUR_MAX, None), ("+%ds%dm" % (DUR_MAX // 2, DUR_MAX // 120 + 1), None),
            ("+%ds1m" % (DUR_MAX - 60), None), ("+%dw%dd" % (DUR_MAX // 604800, 7), None),
            ("+1s%ds" % DUR_MAX, None), ("+%ds1m0m" % DUR_MAX, None)]
    # results next to chrono's range
    for d in (6510000000000, 6520000000000, 10030000000000, 10040000000000):
        out.append(("+%ds" % d, None)); out.append(("-%ds" % d, None))
    return out


# ----------------------------------------------------------------------------- Coq evaluation

HDR = (vlib.COQ_PRINT_HDR + "From Coq Require Import String List NArith ZArith.\nImport ListNotations.\n"
       "From S4.Spec Require Import CliDtSpec.\nFrom S4.Corr Require Import C14.\nOpen Scope string_scope.\nOpen Scope Z_scope.\n")


def parse_tuples(out):
    m = re.search(r"=\s*\[(.*)\]\s*:\s*list", out, flags=re.S)
    if not m:
        return None
    body = m.group(1).strip()
    if not body:
        return []
    res = []
    for part in body.split(";"):
        res.append(tuple(int(x) for x in re.findall(r"-?\d+", part)))
    return res


def coq_shards(ctx, name, rows, typ, fn, kind):
    """rows: list of Coq tuple strings; returns dict index -> tuple of ints, or None when evaluation failed"""
    idx = list(range(len(rows)))
    if not idx:
        return {}
    shards = vlib.shard(idx, vlib.NCPU)
    texts = [HDR + "Definition cases : list (%s) := [\n%s\n].\nEval vm_compute in (%s cases).\n" % (typ, ";\n".join(rows[i] for i in sh), fn)
             for sh in shards]
    res = vlib.coq_eval_shards(os.path.join(CACHE, "cases", "C14", name), texts)
    out = {}
    for sh, (rc, o) in zip(shards, res):
        tuples = parse_tuples(o) if rc == 0 else None
        if tuples is None:
            ctx.obligation_broken(kind, "coqc on %s cases" % name, o)
            return None
        for t in tuples:
            out[sh[t[0]]] = t[1:]
    return out


# ----------------------------------------------------------------------------- sub-second probe

def fmt_stamp(ns):
    secs, frac = divmod(ns, 10 ** 9)
    days, sod = divmod(secs, 86400)
    y, m, d = civil_from_days(days)
    return "%04d-%02d-%02d %02d:%02d:%02d.%06d +00:00" % (y, m, d, sod // 3600, sod // 60 % 60, sod % 60, frac // 1000)


def probe_effect(scratch, k, which, arg, tzs, ns):
    """log stamps one microsecond before / at / after [ns]; returns the set of printed tags"""
    p = os.path.join(scratch, "probe_%05d.log" % k)
    with open(p, "w") as f:
        for tag, dlt in (("m", -1000), ("e", 0), ("p", 1000)):
            f.write("%s tag_%s\n" % (fmt_stamp(ns + dlt), tag))
    a, b = (arg, None) if which == "a" else (None, arg)
    r = run_case(a, b, tzs, p, want_stdout=True)
    tags = set(re.findall(rb"tag_([mep])", r.get("stdout", b"")))
    os.remove(p)
    return r["rc"], "".join(sorted(t.decode() for t in tags))


AT_FRACS = [("ms", 1), ("ms", 500), ("ms", 678), ("us", 999999), ("us", 500000), ("us", 1)]
AT_DURS = [[([0], "s")], [([1], "s")], [([2], "s")], [([1], "m")], [([9, 0], "s")],
           [([1], "h"), ([2], "m"), ([3], "s")], [([1], "d"), ([1, 2], "h")], [([0], "m"), ([0, 0], "s")]]


NEAR_D_US = [0, 1, 1000, 500000, 999000, 999999, 1000000, 1000001, 2000000]   # a - b in microseconds


def form_of_instant(rng, ns, tz_default, ztab_ok, allow_date=True):
    """a documented form (random layout / fraction length / zone spelling) that denotes instant [ns]
    (a multiple of 1 us) when --tz-offset is [tz_default] seconds"""
    r = rng.random()
    if r < 0.35:
        z, off = None, tz_default
    elif r < 0.85:
        off = rng.choice([0, 3600, -3600, 19800, -12600, 20700, 45900, -34200, 50400, -43200, 900, -2700])
        z = "num"
    else:
        name, v = rng.choice(ztab_ok)
        off = tz_secs(v)
        z = ("name", name)
    loc = ns + off * 10 ** 9
    secs, frac = divmod(loc, 10 ** 9)
    days, sod = divmod(secs, 86400)
    y, m, d = civil_from_days(days)
    us = frac // 1000
    if z is None and allow_date and sod == 0 and us == 0 and rng.random() < 0.6:
        return ("date", rng.choice(list(DL)), y, m, d)
    if us == 0:
        fr = rng.choice([None, None, ("ms", 0), ("us", 0)])
    elif us % 1000 == 0:
        fr = rng.choice([("ms", us // 1000), ("us", us)])
    else:
        fr = ("us", us)
    l = rng.choice(LAYOUTS)
    sp = rng.choice(space_options(l))
    if z == "num":
        a = abs(off) // 60
        st = rng.choice(["ZPlain", "ZColon"] + (["ZHour"] if a % 60 == 0 else []))
        zz = ("num", sp, st, off < 0, a // 60, a % 60)
    elif z is None:
        zz = None
    else:
        zz = ("name", sp, z[1])
    return ("dt", l, y, m, d, sod // 3600, sod // 60 % 60, sod % 60, fr, zz)


def gen_near_pairs(rng, reps, ztab_ok):
    """pairs of bounds AROUND each other at every scale: a = b + d for d = 0, 1 us, 1 ms, 500 ms, 999 ms, 999.999 ms,
    exactly 1 s, 1 s + 1 us, 2 s — given as (-a a, -b b) [rejected for d > 0] and as (-a b, -b a) [accepted]; every bound in a
    random documented form / zone; also a local midnight against the instant just before it (bare date vs fraction),
    and the '@' forms that give an inversion of exactly 0 / 1 s.  -> list of (fa, fb, tzs, kind)"""
    out = []
    for _ in range(reps):
        for d_us in NEAR_D_US:
            for variant in ("random", "midnight"):
                tzs = rng.choice(TZ_C)
                tz = tz_secs(tzs)
                if variant == "midnight":
                    day = rng.randrange(730, 46000)                 # 1972 .. 2095
                    a_ns = (day * 86400 - tz) * 10 ** 9             # 00:00:00 in the --tz-offset zone
                    b_ns = a_ns - d_us * 1000
                else:
                    b_ns = rng.randrange(63072000, 4039372800) * 10 ** 9 + rng.choice([0, 500000, 999999, 1, 123456, 100000, 999000]) * 1000
                    a_ns = b_ns + d_us * 1000
                fa = form_of_instant(rng, a_ns, tz, ztab_ok)
                fb = form_of_instant(rng, b_ns, tz, ztab_ok)
                out.append((fa, fb, tzs, "near-pair-inverted" if d_us > 0 else "near-pair-equal"))
                out.append((fb, fa, tzs, "near-pair-ordered"))
        # '@' forms: the other bound with a fraction, D = 0 s / 1 s in the rejecting direction
        for items, kind in (([([0], "s")], "near-pair-at-equal"), ([([1], "s")], "near-pair-at-inverted")):
            tzs = rng.choice(TZ_C)
            x_ns = rng.randrange(63072000, 4039372800) * 10 ** 9 + rng.choice([0, 500000, 999999, 1]) * 1000
            x = form_of_instant(rng, x_ns, tz_secs(tzs), ztab_ok)
            out.append((x, ("rel", True, True, items), tzs, kind))      # -a X -b @-D : b = x - D
            out.append((("rel", True, False, items), x, tzs, kind))     # -a @+D -b X : a = x + D
    return out


def gen_at_fraction(rng, reps):
    """'-a X -b @+D' and '-b X -a @-D' where X carries a 3- or 6-digit fraction"""
    out = []
    for _ in range(reps):
        for fr in AT_FRACS:
            for items in AT_DURS:
                for direction in ("b", "a"):
                    l = rng.choice(LAYOUTS)
                    y = rng.randrange(1972, 2098)
                    m = rng.randrange(1, 13)
                    d = rng.randrange(1, mlen(y, m) + 1)
                    h, mi, sec = gen_time(rng)
                    r = rng.random()
                    if r < 0.4:
                        z = None
                    else:
                        st = rng.choice(["ZPlain", "ZColon", "ZHour"])
                        z = ("num", rng.choice(space_options(l)), st, rng.random() < 0.5, rng.randrange(0, 15),
                             0 if st == "ZHour" else rng.choice([0, 30, 45]))
                    x = ("dt", l, y, m, d, h, mi, sec, fr, z)
                    if direction == "b":
                        out.append((x, ("rel", True, False, items), "at-frac-b"))
                    else:
                        out.append((("rel", True, True, items), x, "at-frac-a"))
    return out


def abs_text(ns):
    """an absolute documented form (dash-T layout, 6-digit fraction, +00:00) denoting [ns] (a multiple of 1 us)"""
    secs, frac = divmod(ns, 10 ** 9)
    days, sod = divmod(secs, 86400)
    y, m, d = civil_from_days(days)
    return "%04d-%02d-%02dT%02d:%02d:%02d.%06d+00:00" % (y, m, d, sod // 3600, sod // 60 % 60, sod % 60, frac // 1000)


def pair_stamps(a_ns, b_ns):
    st = set()
    for x in (a_ns, b_ns):
        for dlt in (-100000000, -1000, 0, 1000, 100000000):
            st.add(x + dlt)
    if 0 <= b_ns - a_ns <= 3 * 10 ** 9:
        t = a_ns
        while t <= b_ns:
            st.add(t)
            t += 100000000
    else:
        st.add((a_ns + b_ns) // 2 // 1000 * 1000)
    return sorted(st)


def probe_pair(scratch, name, a, b, tzs, stamps):
    """runs -a a -b b on a log with the given stamps; returns (rc, sorted list of printed line indices)"""
    p = os.path.join(scratch, "pair_%s.log" % name)
    with open(p, "w") as f:
        for k, t in enumerate(stamps):
            f.write("%s tag_%03d\n" % (fmt_stamp(t), k))
    r = run_case(a, b, tzs, p, want_stdout=True)
    os.remove(p)
    return r["rc"], sorted(int(x) for x in re.findall(rb"tag_(\d+)", r.get("stdout", b"")))


# ----------------------------------------------------------------------------- the check

def _tick(label):
    if os.environ.get("S4_VERIF_TIMING"):
        import time
        sys.stderr.write("[c14 %7.1fs] %s\n" % (time.time() - _T0[0], label))


_T0 = [0.0]


def run(ctx):
    import time
    _T0[0] = time.time()
    quick = ctx.quick()
    rng = ctx.rng
    vlib.proof_stage(ctx, PROP_FILE, ["clidt"], extra_targets=["Corr/C14.vo"])
    _tick("proof stage done")
    ok, log = vlib.build_s4()
    if not ok:
        ctx.obligation_broken("build", "s4 binary", log)
        return ctx.finish()
    _tick("s4 built")
    scratch = vlib.scratch_dir("C14")
    probe = os.path.join(scratch, "probe.log")
    with open(probe, "w") as f:
        f.write("2000-01-01 00:00:00.100 +00:00 a\n2000-01-01 00:00:00.500 +00:00 b\n2000-01-01 00:00:00.900 +00:00 c\n")

    r0 = run_case(None, None, None, probe)
    if r0["rc"] != 0 or r0["now"] is None:
        ctx.obligation_broken("correspondence", "cannot read 'Datetime Now' from the summary", json.dumps(dict(rc=r0["rc"])))
        return ctx.finish()
    now0 = r0["now"]      # used for runs that were rejected (they print no summary)

    def now_of(r):
        return r["now"] if r["now"] is not None else now0

    ztab = ref_zone_table()
    names_ok = [k for k, v in ztab if v]
    names_amb = [k for k, v in ztab if not v]

    # ------------------------------------------------------------------ C cases: (fa, fb, tzs, wf, kind)
    ccases = []
    absf = gen_absolute(rng, names_ok, 1 if quick else 5, 3 if quick else len(names_ok))
    absf += gen_epoch_long(rng, 6 if quick else 9)
    name_all = []
    for name in names_ok:          # EVERY unambiguous zone name (both spellings of the table), random fields
        l = rng.choice(LAYOUTS)
        y, m, d = gen_date(rng)
        h, mi, sec = gen_time(rng)
        name_all.append(("dt", l, y, m, d, h, mi, sec, gen_frac(rng, rng.choice([0, 1, 2])), ("name", rng.choice(space_options(l)), name)))
    for f in absf:
        tzs = rng.choice(TZ_C)
        if rng.random() < 0.5:
            ccases.append((f, None, tzs, True, "abs-a"))
        else:
            ccases.append((None, f, tzs, True, "abs-b"))
    for f in name_all:
        tzs = rng.choice(TZ_C)
        ccases.append((f, None, tzs, True, "abs-name-all") if rng.random() < 0.5 else (None, f, tzs, True, "abs-name-all"))
    relf = gen_relative(rng, 2 if quick else 16)
    anchor_pool = [f for f in absf if f[0] in ("dt", "date") and 1000 <= f[2] <= 8000]
    for f in relf:
        tzs = rng.choice(TZ_C)
        if f[1]:    # '@': needs the other bound
            o = rng.choice(anchor_pool)
            if rng.random() < 0.5:
                ccases.append((o, f, tzs, True, "rel-at-b"))
            else:
                ccases.append((f, o, tzs, True, "rel-at-a"))
        else:
            if rng.random() < 0.5:
                ccases.append((f, None, tzs, True, "rel-a"))
            else:
                ccases.append((None, f, tzs, True, "rel-b"))
    # documented examples of the help text
    d0 = ("date", "DCompact", 2022, 1, 2)
    ccases.append((d0, ("rel", True, False, [([1], "d")]), "+00:00", True, "help-example"))
    ccases.append((("rel", True, True, [([6], "h")]), ("dt", "LCompact", 2022, 1, 1, 12, 0, 0, None, None), "-03:30", True, "help-example"))
    ccases.append((("epoch", [9, 4, 6, 6, 8, 4, 8, 0, 0]), None, "+05:30", True, "help-example"))
    ccases.append((("rel", False, True, [([1], "w"), ([2, 2], "h")]), ("rel", False, False, [([3, 0], "s")]), "+00:00", True, "help-example"))
    for fa, fb, kind in gen_at_fraction(rng, 1 if quick else 6):
        ccases.append((fa, fb, rng.choice(TZ_C), True, kind))
    near = gen_near_pairs(rng, 3 if quick else 40, [(k, v) for k, v in ztab if v])
    for fa, fb, tzs, kind in near:
        ccases.append((fa, fb, tzs, True, kind))
    n_pairs = 150 if quick else 3000
    for _ in range(n_pairs):       # pairs: order, both '@', after > before, '@' chains
        tzs = rng.choice(TZ_C)
        r = rng.random()
        if r < 0.25:
            fa = rng.choice([f for f in relf if f[1]]); fb = rng.choice([f for f in relf if f[1]])
            ccases.append((fa, fb, tzs, True, "both-at"))
        elif r < 0.6:
            fa, fb = rng.choice(anchor_pool), rng.choice(anchor_pool)
            ccases.append((fa, fb, tzs, True, "abs-pair"))
        elif r < 0.8:
            fa = rng.choice([f for f in relf if not f[1]]); fb = rng.choice([f for f in relf if not f[1]])
            ccases.append((fa, fb, tzs, True, "rel-pair"))
        else:
            o = rng.choice(anchor_pool)
            ccases.append((o, o, tzs, True, "same-bound"))
    for name in names_amb:          # ambiguous names are rejected
        l = rng.choice(LAYOUTS)
        y, m, d = gen_date(rng)
        f = ("dt", l, y, m, d, 1, 2, 3, None, ("name", rng.choice(space_options(l)), name))
        ccases.append((f, None, rng.choice(TZ_C), False, "ambiguous-zone"))
    ccases.append((("rel", True, False, [([1], "d")]), None, "+00:00", True, "at-without-other"))
    ccases.append((None, ("rel", True, True, [([1], "d")]), "+00:00", True, "at-without-other"))

    cargs = [(render(fa) if fa else None, render(fb) if fb else None, tzs) for fa, fb, tzs, _, _ in ccases]
    cres = run_many(cargs, probe)
    _tick("C runs done: %d" % len(cargs))

    # rejection spec, no Coq needed: near-miss strings, ambiguous --tz-offset
    nm = sorted(set(gen_near_miss(rng, 300 if quick else 6000)))
    nm = [s for s in nm if not in_rel_grammar(s)]
    nmargs = []
    for s in nm:
        tzs = rng.choice(TZ_C)
        nmargs.append((s, None, tzs) if rng.random() < 0.5 else (None, s, tzs))
    for name in names_amb[:(10 if quick else len(names_amb))]:
        nmargs.append(("20000101", None, name))
    nmres = run_many(nmargs, probe)
    _tick("near-miss runs done: %d" % len(nmargs))

    # ------------------------------------------------------------------ C evaluation
    rows = []
    for (fa, fb, tzs, wf, _), (ha, hb, _), r in zip(ccases, cargs, cres):
        oc = r["outcome"]
        rows.append("(%s, %s, %s, %s, %s, %s, %s, (%d, %s, %s))" % (coq_form(fa), coq_form(fb), hexs(ha), hexs(hb), cbool(wf),
                    zc(tz_secs(tzs)), zc(now_of(r)), oc[0], zc(oc[1]), zc(oc[2])))
    sbad = coq_shards(ctx, "spec", rows, "option form * option form * option string * option string * bool * Z * Z * outcome", "spec_bad", "spec-evaluation")
    _tick("spec evaluated")
    spec_fail = 0
    gen_bad = 0

    def classes_of(a, b, tzs):
        cl = []
        if any(x is not None and relative_offset_with_extra_text(x) for x in (a, b)):
            cl.append("relative_offset_with_extra_text")
        if any(x is not None and plus_epoch_with_tz_offset(x, tzs) for x in (a, b)):
            cl.append("plus_epoch_with_tz_offset")
        return cl

    for i, r in enumerate(cres):
        if r["rc"] not in (0, 1) or (r["rc"] != 0 and r["stdout_len"]):
            ctx.failure(dict(a=cargs[i][0], b=cargs[i][1], tz_offset=cargs[i][2], kind=ccases[i][4]),
                        "exit status 0 or 1; nothing printed when rejected", "rc=%s stdout_bytes=%d" % (r["rc"], r["stdout_len"]))
    if sbad is not None:
        for i, s in sorted(sbad.items()):
            if s[0] in (8, 9):
                gen_bad += 1
                continue
            spec_fail += 1
            a, b, tzs = cargs[i]
            ctx.failure(dict(a=a, b=b, tz_offset=tzs, kind=ccases[i][4], now=cres[i]["now"]),
                        dict(spec_outcome=list(s)), dict(impl_outcome=list(cres[i]["outcome"]), rc=cres[i]["rc"]), classes_of(a, b, tzs))
        if gen_bad:
            ctx.obligation_broken("generator", "%d rendered strings differ from Spec render / outside the documented grammar" % gen_bad, "")
    nm_fail = 0
    for (a, b, tzs), r in zip(nmargs, nmres):
        if r["rc"] == 0 or r["stdout_len"] or r["rc"] not in (1, 2):
            nm_fail += 1
            ctx.failure(dict(a=a, b=b, tz_offset=tzs, kind="near-miss/ambiguous: must be rejected"),
                        "non-zero exit status, nothing printed", dict(rc=r["rc"], impl_outcome=list(r["outcome"]), stdout_bytes=r["stdout_len"]),
                        classes_of(a, b, tzs))

    # ------------------------------------------------------------------ B cases (strings): grammar + near-miss + lenient + mutations
    bcases = list(cargs) + list(nmargs)
    for s in LENIENT:
        bcases.append((s, None, rng.choice(TZ_C)))
        bcases.append((None, s, rng.choice(TZ_C)))
    ext = gen_extended_strings(rng, quick)
    for (a, b) in ext:
        bcases.append((a, b, rng.choice(TZ_C)))
    n_wit0 = len(bcases)
    for w in EXTRAS + OUTSIDE:
        bcases.append((w, None, "+00:00"))
    tz_b = ["+09", "+0900", "-0330", "JST", "pst", "IDLW", "Z", "UTC", "+23:59", "-23:59", "+14", "vlat", "-00:00", "+00"]
    for tzs in tz_b:
        f = rng.choice(anchor_pool)
        bcases.append((render(f), None, tzs))
        bcases.append((render(("dt", "LDashT", 2000, 1, 2, 3, 4, 5, None, None)), "@+1h", tzs))
    for tzs in ["SST", "IST", "foo", "+24:00", "+5", "+05:60", "0900", "", " +01:00"]:
        bcases.append(("20000101", None, tzs))
    base = [c for c in cargs if c[0] is not None][: (400 if quick else 8000)]
    for (a, b, tzs) in base:
        bcases.append((mutate(rng, a), b, tzs))
    for (a, b, tzs) in [c for c in cargs if c[1] is not None][: (200 if quick else 4000)]:
        bcases.append((a, mutate(rng, b), tzs))
    bcases = [c for c in bcases if all(x is None or "\x00" not in x for x in c)]
    n_reuse = len(cargs) + len(nmargs)
    bres = cres + nmres + run_many(bcases[n_reuse:], probe)
    _tick("B runs done: %d" % (len(bcases) - n_reuse))
    rows = []
    for (a, b, tzs), r in zip(bcases, bres):
        oc = r["outcome"]
        rows.append('(%s, %s, "%s", %s, (%d, %s, %s))' % (hexs(a), hexs(b), tzs.encode().hex(), zc(now_of(r)), oc[0], zc(oc[1]), zc(oc[2])))
    mbad = coq_shards(ctx, "model", rows, "option string * option string * string * Z * outcome", "model_bad", "correspondence")
    _tick("model evaluated")
    model_dis = 0
    if mbad is not None:
        model_dis = len(mbad)
        ctx.coverage['model_disagreement_samples'] = [dict(a=bcases[i][0], b=bcases[i][1], tz_offset=bcases[i][2], impl=list(bres[i]['outcome']), rc=bres[i]['rc'], model=list(m)) for i, m in sorted(mbad.items())[:40]]
        for i, m in sorted(mbad.items())[:1]:
            a, b, tzs = bcases[i]
            ctx.obligation_broken("correspondence", "s4 --summary filter lines / exit status vs Model.CliDt.cli_bounds",
                                  json.dumps(dict(a=a, b=b, tz_offset=tzs, now=bres[i]["now"], impl=list(bres[i]["outcome"]), rc=bres[i]["rc"],
                                                  model=list(m), disagreements=model_dis)))
    bad_rc = [i for i, r in enumerate(bres) if r["rc"] not in (0, 1, 2)]
    panics = 0
    for i in bad_rc:
        a, b, tzs = bcases[i]
        if bres[i]["rc"] in (134, -6) and (relative_sum_overflows_timedelta(a) or relative_sum_overflows_timedelta(b)):
            panics += 1          # rejected, but by a panic: the defect repaired by /repo e15fcf7e (a regression if seen again)
            ctx.failure(dict(a=a, b=b, tz_offset=tzs, kind="relative form whose sum of units exceeds TimeDelta::MAX"),
                        "rejected with exit status 1 and a message", "rc=134 (panic in `TimeDelta + TimeDelta`, process aborted)",
                        ["relative_sum_overflows_timedelta"])
    for i in [i for i in bad_rc if not (bres[i]["rc"] in (134, -6) and (relative_sum_overflows_timedelta(bcases[i][0]) or relative_sum_overflows_timedelta(bcases[i][1])))][:3]:
        ctx.obligation_broken("correspondence", "unexpected exit status %s" % bres[i]["rc"], json.dumps(dict(a=bcases[i][0], b=bcases[i][1], tz_offset=bcases[i][2])))
    # the witnesses of the language theorem: accepted extras are accepted, rejected neighbours are rejected, by the binary too
    wit_bad = 0
    for k, w in enumerate(EXTRAS + OUTSIDE):
        r = bres[n_wit0 + k]
        want = k < len(EXTRAS)
        if (r["rc"] == 0) != want:
            wit_bad += 1
            ctx.obligation_broken("correspondence", "witness of Proofs/CliDtLanguage.v: %r should be %s by the binary" % (w, "accepted" if want else "rejected"),
                                  json.dumps(dict(rc=r["rc"], outcome=list(r["outcome"]))))

    # ------------------------------------------------------------------ sub-second digits through the probe log
    fidx = [i for i, (fa, fb, tzs, wf, kind) in enumerate(ccases)
            if kind in ("abs-a", "abs-b") and (fa or fb)[0] == "dt" and (fa or fb)[8] is not None and 1971 <= (fa or fb)[2] <= 2098
            and cres[i]["rc"] == 0]
    fidx = fidx[: (250 if quick else 5000)]
    sub_checked = 0
    sub_fail = 0
    if fidx:
        rows_m = ["(%s, %s, \"%s\", %s)" % (hexs(cargs[i][0]), hexs(cargs[i][1]), cargs[i][2].encode().hex(), zc(now_of(cres[i]))) for i in fidx]
        rows_s = ["(%s, %s, %s, %s)" % (coq_form(ccases[i][0]), coq_form(ccases[i][1]), zc(tz_secs(ccases[i][2])), zc(now_of(cres[i]))) for i in fidx]
        mns = coq_shards(ctx, "model_ns", rows_m, "option string * option string * string * Z", "model_ns", "correspondence")
        sns = coq_shards(ctx, "spec_ns", rows_s, "option form * option form * Z * Z", "spec_ns", "spec-evaluation")
        if mns is not None and sns is not None:
            def one(k):
                i = fidx[k]
                which = "a" if cargs[i][0] is not None else "b"
                arg = cargs[i][0] if which == "a" else cargs[i][1]
                ns_s = sns[k][0] if which == "a" else sns[k][1]
                ns_m = mns[k][0] if which == "a" else mns[k][1]
                rc, tags = probe_effect(scratch, k, which, arg, cargs[i][2], ns_s)
                return i, which, arg, ns_s, ns_m, rc, tags
            with ThreadPoolExecutor(max_workers=vlib.NCPU) as ex:
                for (i, which, arg, ns_s, ns_m, rc, tags) in ex.map(one, range(len(fidx))):
                    sub_checked += 1
                    want = "ep" if which == "a" else "em"
                    if ns_m != ns_s:
                        ctx.obligation_broken("correspondence", "model nanoseconds differ from spec nanoseconds",
                                              json.dumps(dict(arg=arg, tz_offset=cargs[i][2], model_ns=ns_m, spec_ns=ns_s)))
                    if rc != 0 or tags != want:
                        sub_fail += 1
                        ctx.failure(dict(a=arg if which == "a" else None, b=arg if which == "b" else None, tz_offset=cargs[i][2],
                                         kind="sub-second effect on a probe log with stamps at bound-1us, bound, bound+1us", bound_ns=ns_s),
                                    "lines printed: " + want, "rc=%s lines printed: %s" % (rc, tags))

    # ------------------------------------------------------------------ '@' bound relative to a bound with a fraction: effect on a probe log
    pidx = [i for i, c in enumerate(ccases) if c[4] in ("at-frac-a", "at-frac-b")]
    at_checked = 0
    at_fail = 0
    if pidx:
        rows_m = ["(%s, %s, \"%s\", %s)" % (hexs(cargs[i][0]), hexs(cargs[i][1]), cargs[i][2].encode().hex(), zc(now_of(cres[i]))) for i in pidx]
        rows_s = ["(%s, %s, %s, %s)" % (coq_form(ccases[i][0]), coq_form(ccases[i][1]), zc(tz_secs(ccases[i][2])), zc(now_of(cres[i]))) for i in pidx]
        mns = coq_shards(ctx, "model_ns_at", rows_m, "option string * option string * string * Z", "model_ns", "correspondence")
        sns = coq_shards(ctx, "spec_ns_at", rows_s, "option form * option form * Z * Z", "spec_ns", "spec-evaluation")
        if mns is not None and sns is not None:
            def one_pair(k):
                i = pidx[k]
                a, b, tzs = cargs[i]
                a_ns, b_ns = sns[k]
                stamps = pair_stamps(a_ns, b_ns)
                want = [j for j, t in enumerate(stamps) if a_ns <= t <= b_ns]
                rc1, got1 = probe_pair(scratch, "%05d_r" % k, a, b, tzs, stamps)
                # the equivalent absolute pair: the '@' side replaced by the instant the spec gives it
                if ccases[i][4] == "at-frac-b":
                    a2, b2 = a, abs_text(b_ns)
                else:
                    a2, b2 = abs_text(a_ns), b
                rc2, got2 = probe_pair(scratch, "%05d_e" % k, a2, b2, tzs, stamps)
                return i, a_ns, b_ns, want, rc1, got1, (a2, b2), rc2, got2
            with ThreadPoolExecutor(max_workers=vlib.NCPU) as ex:
                for k, (i, a_ns, b_ns, want, rc1, got1, eq, rc2, got2) in enumerate(ex.map(one_pair, range(len(pidx)))):
                    at_checked += 1
                    if tuple(mns[k]) != (a_ns, b_ns):
                        ctx.obligation_broken("correspondence", "model nanoseconds of an '@' pair differ from spec nanoseconds",
                                              json.dumps(dict(a=cargs[i][0], b=cargs[i][1], tz_offset=cargs[i][2], model_ns=list(mns[k]), spec_ns=[a_ns, b_ns])))
                    if rc1 != 0 or got1 != want or rc2 != 0 or got2 != want:
                        at_fail += 1
                        ctx.failure(dict(a=cargs[i][0], b=cargs[i][1], tz_offset=cargs[i][2], kind=ccases[i][4] + ": effect on a probe log",
                                         spec_a_ns=a_ns, spec_b_ns=b_ns, probe_stamps_ns=pair_stamps(a_ns, b_ns), equivalent_absolute_pair=list(eq)),
                                    dict(rc=0, printed_line_indices=want),
                                    dict(rc=rc1, printed_line_indices=got1, equivalent_pair_rc=rc2, equivalent_pair_printed=got2))

    _tick("probes done")
    # ------------------------------------------------------------------ evidence
    allstr = set()
    for (a, b, tzs) in bcases:
        allstr.add((a, b, tzs))
    kinds = {}
    for c in ccases:
        kinds[c[4]] = kinds.get(c[4], 0) + 1
    rej = sum(1 for r in bres if r["rc"] != 0)
    fam = {}
    for f in absf:
        if f[0] == "dt":
            key = "%s/%s/%s" % (f[1], "f0" if f[8] is None else f[8][0], "none" if f[9] is None else (f[9][0] + ":" + (f[9][2] if f[9][0] == "num" else "name") + (":sp" if f[9][1] else "")))
        else:
            key = f[0] + ("/" + f[1] if f[0] == "date" else "")
        fam[key] = fam.get(key, 0) + 1
    ctx.coverage.update(
        evaluations=len(bcases) + sub_checked + 2 * at_checked,
        distinct_nontrivial=len(set((a, b, tzs) for (a, b, tzs) in bcases if (a or b) and tzs != "+00:00")),
        rule="case = (-a text, -b text, --tz-offset text) run on the real binary; non-trivial = at least one bound given and a non-zero --tz-offset (so that zone handling matters); distinct by the triple",
        samples=[dict(a=bcases[i][0], b=bcases[i][1], tz_offset=bcases[i][2], outcome=list(bres[i]["outcome"])) for i in (0, len(absf), len(cargs) - 1, len(bcases) - 1)],
        spec_cases=len(ccases), spec_case_kinds=kinds, absolute_families=len(fam), absolute_family_histogram=fam,
        unit_orders_covered=len(set(tuple(u for _, u in f[3]) for f in relf)), unit_orders_total=325,
        near_miss_strings=len(nm), ambiguous_names=len(names_amb), zone_names_used=len(set(f[9][2] for f in absf if f[0] == "dt" and f[9] and f[9][0] == "name")),
        tz_offsets=TZ_C + tz_b, model_cases=len(bcases), lenient_and_boundary_strings=len(LENIENT), mutations=len(bcases) - n_reuse - 2 * len(LENIENT),
        rejected_runs=rej, accepted_runs=len(bres) - rej,
        model_disagreements=model_dis, spec_failures=spec_fail, near_miss_failures=nm_fail,
        subsecond_probe_runs=sub_checked, subsecond_failures=sub_fail,
        at_fraction_pairs_probed=at_checked, at_fraction_probe_runs=2 * at_checked, at_fraction_failures=at_fail,
        near_pairs=len(near), near_pair_kinds={k: sum(1 for c in near if c[3] == k) for k in sorted(set(c[3] for c in near))},
        near_pair_deltas_us=NEAR_D_US,
        zone_names_every=len(name_all), epoch_long_digit_strings=sum(1 for f in absf if f[0] == "epoch" and len(f[1]) > 12),
        extended_strings=len(ext), repeated_unit_strings=sum(1 for a, b in ext for x in (a, b) if x and rel_last_counts(x.lstrip("@")) is not None and len(re.findall(r"[smhdw]", x)) != len(set(re.findall(r"[smhdw]", x)))),
        language_witnesses=len(EXTRAS) + len(OUTSIDE), language_witness_disagreements=wit_bad, sum_overflow_panics=panics)
    ctx.assumptions += [
        "arguments are ASCII (is_alphabetic / is_whitespace / \\d of the Rust code are modelled for ASCII only); no NUL",
        "a relative form whose sum of units exceeds TimeDelta::MAX is 'not parseable' (checked_add, /repo e15fcf7e); before that commit it aborted the process (rc 134): regression lemma about wdhms_gen true",
        "chrono 0.4.40 parse_from_str for the specifiers %Y %m %d %H %M %S %s %3f %6f %z %:z %#z %Z, to_naive_datetime_with_offset, to_datetime, TimeDelta::try_*, checked_add_signed are transcribed by hand (Model/CliDt.v) and tied only by run B; second=60 (leap second) and instants within a day of chrono's MIN/MAX are outside run B's generator",
        "the relative-offset regular expression is modelled as a hand-written recogniser for exactly the expression assembled in REGEX_DUR_OFFSET (shape checked by the translator: [^]type addsub ( unit | ... )+[$]); the regex crate itself is exercised only by runs B and C",
        "the summary prints bounds to whole seconds; sub-second digits are tied through the effect on a probe log (1 us around the bound), for years 1971-2098",
        "frozen zone reference Spec/CliDtRef.v is the ground truth for what a zone abbreviation denotes; 'now' is read from the run's own 'Datetime Now' line",
        "environment TZ=UTC",
    ]
    return ctx.finish()


def replay(ctx, path):
    r = json.load(open(path))
    ok, log = vlib.build_s4()
    scratch = vlib.scratch_dir("C14")
    probe = os.path.join(scratch, "probe.log")
    with open(probe, "w") as f:
        f.write("2000-01-01 00:00:00.100 +00:00 a\n")
    bad = 0
    for f in r.get("failures", []):
        c = f["case"]
        res = run_case(c.get("a"), c.get("b"), c.get("tz_offset"), probe)
        print("replay -a %r -b %r --tz-offset=%r -> rc=%s outcome=%s now=%s ; expected %s" % (
            c.get("a"), c.get("b"), c.get("tz_offset"), res["rc"], list(res["outcome"]), res["now"], f["expected"]))
        exp = f["expected"]
        if "probe_stamps_ns" in c:
            rc, got = probe_pair(scratch, "replay", c.get("a"), c.get("b"), c.get("tz_offset"), c["probe_stamps_ns"])
            print("   probe log (stamps %s): rc=%s printed line indices %s ; expected %s" % (c["probe_stamps_ns"], rc, got, exp))
            if rc != exp["rc"] or got != exp["printed_line_indices"]:
                bad += 1
        elif "bound_ns" in c:
            which = "a" if c.get("a") is not None else "b"
            rc, tags = probe_effect(scratch, 0, which, c.get(which), c.get("tz_offset"), c["bound_ns"])
            print("   probe log around %s: rc=%s %s ; expected %s" % (c["bound_ns"], rc, tags, exp))
            if rc != 0 or ("lines printed: " + tags) != exp:
                bad += 1
        elif isinstance(exp, dict) and "spec_outcome" in exp:
            so = exp["spec_outcome"]
            rel = any(x and re.fullmatch(r"[+-](\d+[smhdw])+", x) for x in (c.get("a"), c.get("b")))
            if so[0] != res["outcome"][0] or (not rel and list(res["outcome"]) != so):
                bad += 1
        elif res["rc"] == 0:
            bad += 1
    if bad:
        print("VIOLATION property=C14 replay=%s" % path)
        return 1
    return 0
